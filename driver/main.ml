(* Correspondence driver: reads cases (one per line), runs the extracted model, prints one
   canonical JSON record per case.  Floats: the model's abstract FloatOps is instantiated with
   OCaml doubles and Python-compatible repr / floor division / modulo / power. *)
module ZA = Z
open Model

(* ---------------------------------------------------------------- number conversions *)
let rec pos_to_z (p : positive) : ZA.t =
  match p with
  | XH -> ZA.one
  | XO q -> ZA.shift_left (pos_to_z q) 1
  | XI q -> ZA.succ (ZA.shift_left (pos_to_z q) 1)

let n_to_z (x : n) : ZA.t = match x with N0 -> ZA.zero | Npos p -> pos_to_z p
let z_to_z (x : z) : ZA.t = match x with Z0 -> ZA.zero | Zpos p -> pos_to_z p | Zneg p -> ZA.neg (pos_to_z p)

let rec z_to_pos (x : ZA.t) : positive =
  if ZA.equal x ZA.one then XH
  else if ZA.is_even x then XO (z_to_pos (ZA.shift_right x 1))
  else XI (z_to_pos (ZA.shift_right x 1))

let z_of_z (x : ZA.t) : z =
  if ZA.sign x = 0 then Z0 else if ZA.sign x > 0 then Zpos (z_to_pos x) else Zneg (z_to_pos (ZA.neg x))
let n_of_z (x : ZA.t) : n = if ZA.sign x = 0 then N0 else Npos (z_to_pos x)
let n_of_int (i : int) : n = n_of_z (ZA.of_int i)
let int_of_n (x : n) : int = ZA.to_int (n_to_z x)

let str_of_ascii (s : string) : str = List.init (String.length s) (fun i -> n_of_int (Char.code s.[i]))

(* ---------------------------------------------------------------- Python float behaviour *)
let py_repr_float (x : float) : string =
  if Float.is_nan x then "nan"
  else if x = Float.infinity then "inf"
  else if x = Float.neg_infinity then "-inf"
  else if x = 0.0 then (if 1.0 /. x < 0.0 then "-0.0" else "0.0")
  else begin
    let neg = x < 0.0 in
    let ax = Float.abs x in
    let rec find p =
      let s = Printf.sprintf "%.*e" (p - 1) ax in
      if p >= 17 || float_of_string s = ax then s else find (p + 1) in
    let s = find 1 in
    (* s = d.ddddde[+-]XX *)
    let epos = String.index s 'e' in
    let mant = String.sub s 0 epos in
    let ex = int_of_string (String.sub s (epos + 1) (String.length s - epos - 1)) in
    let digits = String.concat "" (String.split_on_char '.' mant) in
    (* strip trailing zeros of the digit string (keep at least one) *)
    let rec strip d = if String.length d > 1 && d.[String.length d - 1] = '0' then strip (String.sub d 0 (String.length d - 1)) else d in
    let digits = strip digits in
    let nd = String.length digits in
    let decpt = ex + 1 in
    let body =
      if decpt > 16 || decpt < -3 then begin
        let m = if nd = 1 then digits else String.sub digits 0 1 ^ "." ^ String.sub digits 1 (nd - 1) in
        let e = decpt - 1 in
        Printf.sprintf "%se%s%02d" m (if e < 0 then "-" else "+") (abs e)
      end
      else if decpt <= 0 then "0." ^ String.make (-decpt) '0' ^ digits
      else if decpt >= nd then digits ^ String.make (decpt - nd) '0' ^ ".0"
      else String.sub digits 0 decpt ^ "." ^ String.sub digits decpt (nd - decpt) in
    (if neg then "-" else "") ^ body
  end

let py_float_mod (vx : float) (wx : float) : float =
  let m = Float.rem vx wx in
  if m <> 0.0 then (if (wx < 0.0) <> (m < 0.0) then m +. wx else m)
  else Float.copy_sign 0.0 wx

let py_float_floordiv (vx : float) (wx : float) : float =
  let modv = Float.rem vx wx in
  let d = (vx -. modv) /. wx in
  let d = if modv <> 0.0 && ((wx < 0.0) <> (modv < 0.0)) then d -. 1.0 else d in
  if d <> 0.0 then begin
    let fl = Float.floor d in
    if d -. fl > 0.5 then fl +. 1.0 else fl
  end else Float.copy_sign 0.0 (vx /. wx)

let float_of_zt (x : ZA.t) : float option =
  (* correctly rounded via the decimal string *)
  let f = float_of_string (ZA.to_string x) in
  if Float.abs f = Float.infinity then None else Some f

let zt_of_float (f : float) : ZA.t = ZA.of_float f

let fops : floatOps =
  let o (f : float) : Obj.t = Obj.repr f in
  let i (x : Obj.t) : float = Obj.obj x in
  { f_of_Z = (fun zz -> match float_of_zt (z_to_z zz) with Some f -> Some (o f) | None -> None);
    f_of_dec = (fun neg mant k ->
      let s = Printf.sprintf "%s%se-%d" (if neg then "-" else "") (ZA.to_string (n_to_z mant)) (int_of_n k) in
      o (float_of_string s));
    f_add = (fun a b -> o (i a +. i b));
    f_sub = (fun a b -> o (i a -. i b));
    f_mul = (fun a b -> o (i a *. i b));
    f_div = (fun a b -> o (i a /. i b));
    f_floordiv = (fun a b -> o (py_float_floordiv (i a) (i b)));
    f_mod = (fun a b -> o (py_float_mod (i a) (i b)));
    f_pow = (fun a b ->
      let x = i a and y = i b in
      if x = 0.0 && y < 0.0 then PowZeroDiv
      else if x < 0.0 && Float.is_finite x && Float.is_finite y && not (Float.is_integer y) then PowComplex
      else
        let r = Float.pow x y in
        if Float.is_finite x && Float.is_finite y && Float.abs r = Float.infinity then PowOverflow
        else PowOk (o r));
    f_is_integer = (fun a -> Float.is_integer (i a));
    f_to_Z = (fun a -> z_of_z (zt_of_float (i a)));
    f_eqb = (fun a b -> i a = i b);
    f_ltb = (fun a b -> i a < i b);
    f_is_zero = (fun a -> i a = 0.0);
    f_repr = (fun a -> str_of_ascii (py_repr_float (i a))) }

(* ---------------------------------------------------------------- input parsing *)
let toks : string array ref = ref [||]
let pos = ref 0
let next () = let t = !toks.(!pos) in incr pos; t
let next_int () = int_of_string (next ())

let parse_str_tok (t : string) : str =
  (* S<cp>.<cp>... *)
  if String.length t = 0 || t.[0] <> 'S' then failwith ("bad string token " ^ t)
  else if String.length t = 1 then []
  else List.map (fun x -> n_of_int (int_of_string x)) (String.split_on_char '.' (String.sub t 1 (String.length t - 1)))
let next_str () = parse_str_tok (next ())

let rec next_value () : value =
  match next () with
  | "I" -> VInt (z_of_z (ZA.of_string (next ())))
  | "F" -> VFlt (Obj.repr (float_of_string (next ())))
  | "T" -> VStr (next_str ())
  | "B" -> VBool (next_int () <> 0)
  | "L" -> let n = next_int () in VList (List.init n (fun _ -> next_value ()))
  | "N" -> VNone
  | t -> failwith ("bad value tag " ^ t)

let next_list (f : unit -> 'a) : 'a list = let n = next_int () in List.init n (fun _ -> f ())
let next_path () : path = next_list next_str
let next_optpath () : path option = if next_int () = 0 then None else Some (next_path ())

let next_opts () : options =
  let sl = next_int () in
  let ic = next_int () <> 0 in
  let fc = next_int () <> 0 in
  let su = next_int () <> 0 in
  let up = next_int () <> 0 in
  { stack_limit = z_of_z (ZA.of_int sl); include_comments = ic; flipper_commands = fc;
    supress_command_not_exist = su; use_project_config = up }

let rec next_raw () : raw =
  match next () with
  | "R" -> RLn (next_str ())
  | "K" -> RBlk (next_list next_raw)
  | t -> failwith ("bad raw tag " ^ t)

let next_fs () : fsys =
  let files = next_list (fun () -> let p = next_path () in let c = next_str () in (p, c)) in
  fun p -> List.assoc_opt p files

(* ---------------------------------------------------------------- output *)
let b = Buffer.create 65536
let js_str (s : str) =
  Buffer.add_char b '[';
  List.iteri (fun i c -> if i > 0 then Buffer.add_char b ','; Buffer.add_string b (ZA.to_string (n_to_z c))) s;
  Buffer.add_char b ']'
let js_list f l =
  Buffer.add_char b '[';
  List.iteri (fun i x -> if i > 0 then Buffer.add_char b ','; f x) l;
  Buffer.add_char b ']'
let js_z (x : z) = Buffer.add_string b (ZA.to_string (z_to_z x))
let js_opt f = function None -> Buffer.add_string b "null" | Some x -> f x
let js_path (p : path) = js_list js_str p
let js_preline ((c, n) : preline) = Buffer.add_char b '['; js_z n; Buffer.add_char b ','; js_str c; Buffer.add_char b ']'

let rec js_value (v : value) =
  match v with
  | VInt x -> Buffer.add_string b "{\"i\":\""; js_z x; Buffer.add_string b "\"}"
  | VFlt f -> Buffer.add_string b "{\"f\":\""; Buffer.add_string b (py_repr_float (Obj.obj f)); Buffer.add_string b "\"}"
  | VStr s -> Buffer.add_string b "{\"s\":"; js_str s; Buffer.add_string b "}"
  | VBool x -> Buffer.add_string b (if x then "{\"b\":true}" else "{\"b\":false}")
  | VList l -> Buffer.add_string b "{\"l\":"; js_list js_value l; Buffer.add_string b "}"
  | VNone -> Buffer.add_string b "{\"n\":null}"

let errname = function
  | EInvalidTab -> "InvalidTabError" | EUnclosedQuotes -> "UnclosedQuotationsError"
  | EGeneral -> "GeneralError" | EStackOverflow -> "StackOverflowError"
  | EVarNonExistent -> "VarIsNonExistentError" | EUnacceptableVarName -> "UnacceptableVarNameError"
  | EInvalidArguments -> "InvalidArgumentsError" | EUnexpectedToken -> "UnexpectedTokenError"
  | EExpectedToken -> "ExpectedTokenError" | EMismatch -> "MismatchError"
  | ENotAValidCommand -> "NotAValidCommand" | ECircular -> "CircularStructureError"
  | EExceededLimit -> "ExceededLimitError" | EInvalidCommand -> "InvalidCommand"
  | EStackReturnType -> "StackReturnTypeError" | EDivideByZero -> "DivideByZeroError"

let crashname = function
  | KOutOfFuel -> "OutOfFuel" | KTypeError -> "TypeError" | KAttributeError -> "AttributeError"
  | KValueError -> "ValueError" | KIndexError -> "IndexError" | KRecursion -> "RecursionError" | KOther -> "Other"

let js_frame (f : frame) =
  Buffer.add_char b '['; js_opt js_path f.fr_file; Buffer.add_char b ','; js_preline f.fr_line;
  Buffer.add_char b ','; js_opt js_preline f.fr_line2; Buffer.add_char b ']'

let tagname = function
  | ByCommand c -> c | ByUnknown -> str_of_ascii "?" | ByIgnore -> str_of_ascii "!raw" | ByLegacyRepeat -> str_of_ascii "!repeat"

let js_print (p : print_rec) =
  Buffer.add_char b '['; js_str p.p_text; Buffer.add_char b ','; js_z p.p_num; Buffer.add_char b ',';
  js_opt js_path p.p_file; Buffer.add_char b ']'

let js_warning (w : warning) =
  Buffer.add_char b '['; js_str w.w_text; Buffer.add_char b ','; js_opt (js_list js_frame) w.w_trace; Buffer.add_char b ']'

let rec js_item (i : item) =
  match i with
  | Ln (c, n) -> js_preline (c, n)
  | Blk l -> Buffer.add_string b "{\"blk\":"; js_list js_item l; Buffer.add_string b "}"

let out_compile ((g, r) : glob * compiled ires) =
  (match r with
   | IOk c ->
       Buffer.add_string b "{\"status\":\"OK\",\"out\":";
       js_list (fun o -> js_str o.o_text) c.out;
       Buffer.add_string b ",\"tags\":";
       js_list (fun o -> js_str (tagname o.o_tag)) c.out;
       Buffer.add_string b ",\"warnings\":"; js_list js_warning c.warnings;
       Buffer.add_string b ",\"prints\":"; js_list js_print c.prints;
       Buffer.add_string b ",\"vars\":";
       js_list (fun (k, v) -> Buffer.add_char b '['; js_str k; Buffer.add_char b ','; js_value v; Buffer.add_char b ']') c.final_env.e_user;
       Buffer.add_string b ",\"sysvars\":";
       js_list (fun (k, v) -> Buffer.add_char b '['; js_str k; Buffer.add_char b ','; js_value v; Buffer.add_char b ']') c.final_env.e_sys;
       Buffer.add_string b ",\"funcs\":";
       js_list (fun (k, _) -> js_str k) c.final_env.e_funcs;
       Buffer.add_string b "}"
   | IErr (e, t) ->
       Buffer.add_string b "{\"status\":\"CE\",\"err\":\""; Buffer.add_string b (errname e);
       Buffer.add_string b "\",\"trace\":"; js_opt (js_list js_frame) t;
       Buffer.add_string b ",\"prints\":"; js_list js_print (List.rev g.g_prints);
       Buffer.add_string b "}"
   | ICrash k ->
       Buffer.add_string b "{\"status\":\"CRASH\",\"err\":\""; Buffer.add_string b (crashname k); Buffer.add_string b "\"}"
   | IUnmod -> Buffer.add_string b "{\"status\":\"UNMOD\"}")

let out_res (r : value res) =
  match r with
  | Ok v -> Buffer.add_string b "{\"status\":\"OK\",\"value\":"; js_value v; Buffer.add_string b "}"
  | Err e -> Buffer.add_string b "{\"status\":\"CE\",\"err\":\""; Buffer.add_string b (errname e); Buffer.add_string b "\"}"
  | Crash k -> Buffer.add_string b "{\"status\":\"CRASH\",\"err\":\""; Buffer.add_string b (crashname k); Buffer.add_string b "\"}"
  | Unmodelled -> Buffer.add_string b "{\"status\":\"UNMOD\"}"

let out_tab (r : item list tabres) =
  match r with
  | TOk l -> Buffer.add_string b "{\"status\":\"OK\",\"tree\":"; js_list js_item l; Buffer.add_string b "}"
  | TErr (TabMismatch n) -> Buffer.add_string b "{\"status\":\"CE\",\"err\":\"InvalidTabError\",\"kind\":\"mismatch\",\"line\":"; js_z n; Buffer.add_string b "}"
  | TErr (TabUnexpected n) -> Buffer.add_string b "{\"status\":\"CE\",\"err\":\"InvalidTabError\",\"kind\":\"unexpected\",\"line\":"; js_z n; Buffer.add_string b "}"
  | TErr TabImpossible -> Buffer.add_string b "{\"status\":\"CE\",\"err\":\"InvalidTabError\",\"kind\":\"impossible\",\"line\":null}"
  | TErr (QuoteUnclosed n) -> Buffer.add_string b "{\"status\":\"CE\",\"err\":\"UnclosedQuotationsError\",\"kind\":\"quote\",\"line\":"; js_z n; Buffer.add_string b "}"
  | TErr TabFuel -> Buffer.add_string b "{\"status\":\"CRASH\",\"err\":\"OutOfFuel\"}"

let run_case (line : string) =
  toks := Array.of_list (List.filter (fun s -> s <> "") (String.split_on_char ' ' line));
  pos := 0;
  Buffer.clear b;
  (match next () with
   | "TOK" ->
       let vars = next_list (fun () -> let k = next_str () in let v = next_value () in (k, v)) in
       let e = next_str () in
       out_res (tokenize fops vars e)
   | "COMP" ->
       let o = next_opts () in
       let file = next_optpath () in
       let fs = next_fs () in
       let text = next_str () in
       out_compile (compile_text fops o fs file text)
   | "RAWC" ->
       let o = next_opts () in
       let file = next_optpath () in
       let fs = next_fs () in
       let lines = next_list next_raw in
       out_compile (compile_raw fops o fs file lines)
   | "TAB" ->
       let text = next_str () in
       out_tab (prepare_text text)
   | "OPTS" ->
       (* OPTS <global opts> <has project file> [5 x (present value)] *)
       let g = next_opts () in
       let has = next_int () <> 0 in
       let proj =
         if not has then None
         else begin
           let opt_int () = if next_int () <> 0 then Some (z_of_z (ZA.of_int (next_int ()))) else None in
           let opt_bool () = if next_int () <> 0 then Some (next_int () <> 0) else None in
           let a = opt_int () in let b1 = opt_bool () in let c = opt_bool () in let d = opt_bool () in let e = opt_bool () in
           Some { y_stack_limit = a; y_include_comments = b1; y_flipper_commands = c; y_supress = d; y_use_project = e }
         end in
       let js_o (o : options) =
         Buffer.add_char b '['; js_z o.stack_limit;
         List.iter (fun x -> Buffer.add_string b (if x then ",true" else ",false"))
           [o.include_comments; o.flipper_commands; o.supress_command_not_exist; o.use_project_config];
         Buffer.add_char b ']' in
       Buffer.add_string b "{\"status\":\"OK\",\"effective\":"; js_o (calculate_options g proj);
       Buffer.add_string b ",\"rewritten\":";
       (match rewritten_config g proj with None -> Buffer.add_string b "null" | Some o -> js_o o);
       Buffer.add_string b "}"
   | "CLI" ->
       (* CLI <files> <cfgs> <global> <dirs> <ops>; the answer lists the reports and the final world
          at every path the case mentions *)
       let opt_int () = if next_int () <> 0 then Some (z_of_z (ZA.of_int (next_int ()))) else None in
       let opt_bool () = if next_int () <> 0 then Some (next_int () <> 0) else None in
       let next_yaml () =
         let a = opt_int () in let b1 = opt_bool () in let c = opt_bool () in let d = opt_bool () in let e = opt_bool () in
         { y_stack_limit = a; y_include_comments = b1; y_flipper_commands = c; y_supress = d; y_use_project = e } in
       let files = next_list (fun () -> let p = next_path () in let c = next_str () in (p, c)) in
       let cfgs = next_list (fun () -> let p = next_path () in let y = next_yaml () in (p, y)) in
       let glob = if next_int () <> 0 then Some (next_yaml ()) else None in
       let dirs = next_list next_path in
       let ops = next_list (fun () ->
         match next () with
         | "C" -> let f = next_path () in let o = next_path () in let l = opt_int () in let c = opt_bool () in OpCompile (f, o, l, c)
         | "N" -> let d = next_path () in let n = next_str () in OpNew (d, n)
         | t -> failwith ("bad op " ^ t)) in
       let w0 = { w_files = (fun p -> List.assoc_opt p files); w_cfg = (fun p -> List.assoc_opt p cfgs);
                  w_global = glob; w_dirs = dirs } in
       let (w, reps) = cli_run fops w0 ops in
       let fpaths = List.sort_uniq compare (List.map fst files @ List.concat_map (fun o ->
         match o with OpCompile (_, out, _, _) -> [out]
                    | OpNew (d, n) -> [child d (normalise_name n) @ [main_name]]) ops) in
       let cpaths = List.sort_uniq compare (List.map fst cfgs @ List.concat_map (fun o ->
         match o with OpCompile (f, _, _, _) -> [parent f]
                    | OpNew (d, n) -> [child d (normalise_name n)]) ops) in
       let js_yaml (y : yaml_opts) =
         Buffer.add_char b '['; js_opt js_z y.y_stack_limit;
         List.iter (fun x -> Buffer.add_char b ','; js_opt (fun v -> Buffer.add_string b (if v then "true" else "false")) x)
           [y.y_include_comments; y.y_flipper_commands; y.y_supress; y.y_use_project];
         Buffer.add_char b ']' in
       let js_nat (n : nat) = let rec go (n : nat) acc = match n with O -> acc | S m -> go m (acc + 1) in
         Buffer.add_string b (string_of_int (go n 0)) in
       Buffer.add_string b "{\"status\":\"OK\",\"reports\":";
       js_list (fun r -> match r with
         | RSuccess n -> Buffer.add_string b "[\"success\","; js_nat n; Buffer.add_char b ']'
         | RError (e, n) -> Buffer.add_string b "[\"error\",\""; Buffer.add_string b (errname e); Buffer.add_string b "\","; js_nat n; Buffer.add_char b ']'
         | RMissingFile -> Buffer.add_string b "[\"missing\"]"
         | RRaised -> Buffer.add_string b "[\"raised\"]"
         | RNewCreated -> Buffer.add_string b "[\"created\"]"
         | RNewRefused -> Buffer.add_string b "[\"refused\"]") reps;
       Buffer.add_string b ",\"files\":";
       js_list (fun p -> Buffer.add_char b '['; js_path p; Buffer.add_char b ','; js_opt js_str (w.w_files p); Buffer.add_char b ']') fpaths;
       Buffer.add_string b ",\"cfgs\":";
       js_list (fun p -> Buffer.add_char b '['; js_path p; Buffer.add_char b ','; js_opt js_yaml (w.w_cfg p); Buffer.add_char b ']') cpaths;
       Buffer.add_string b ",\"global\":"; js_opt js_yaml w.w_global;
       Buffer.add_string b ",\"dirs\":"; js_list js_path w.w_dirs;
       Buffer.add_string b "}"
   | "ISVAR" ->
       let s = next_str () in
       let c = next_int () <> 0 in
       Buffer.add_string b (if is_var s c then "{\"status\":\"OK\",\"value\":true}" else "{\"status\":\"OK\",\"value\":false}")
   | t -> failwith ("unknown case kind " ^ t));
  print_string (Buffer.contents b);
  print_newline ()

exception Case_timeout

let case_timeout : float =
  match Sys.getenv_opt "DRIVER_CASE_TIMEOUT" with Some s -> float_of_string s | None -> 20.0

let () =
  Sys.set_signal Sys.sigalrm (Sys.Signal_handle (fun _ -> Stdlib.raise Case_timeout));
  let ic = if Array.length Sys.argv > 1 then open_in Sys.argv.(1) else stdin in
  (try
     while true do
       let line = input_line ic in
       if String.length line > 0 then
         (try
            ignore (Unix.setitimer Unix.ITIMER_REAL { Unix.it_interval = 0.0; Unix.it_value = case_timeout });
            (try run_case line with e -> ignore (Unix.setitimer Unix.ITIMER_REAL { Unix.it_interval = 0.0; Unix.it_value = 0.0 }); Stdlib.raise e);
            ignore (Unix.setitimer Unix.ITIMER_REAL { Unix.it_interval = 0.0; Unix.it_value = 0.0 })
          with
          | Case_timeout -> print_string "{\"status\":\"UNMOD\",\"err\":\"model too slow\"}\n"; flush stdout
          | Stack_overflow -> print_string "{\"status\":\"DRIVER\",\"err\":\"Stack_overflow\"}\n"
          | Failure m -> print_string ("{\"status\":\"DRIVER\",\"err\":\"" ^ String.escaped m ^ "\"}\n")
          | Not_found | Invalid_argument _ -> print_string "{\"status\":\"DRIVER\",\"err\":\"parse\"}\n")
     done
   with End_of_file -> ());
  flush stdout
