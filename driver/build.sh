#!/bin/bash
# builds the correspondence driver from the model extracted by coq/Extract/Extract.v
set -e
cd "$(dirname "$0")"
cp ../coq/model.ml ../coq/model.mli .
ocamlfind ocamlopt -O2 -w -a -package zarith,unix -linkpkg model.mli model.ml main.ml -o driver 2>&1 || \
ocamlfind ocamlopt -w -a -package zarith,unix -linkpkg model.mli model.ml main.ml -o driver
