"""Per-property correspondence streams (alpha_P), boundary corpora and implementation-side oracles."""
import itertools, json, os, random, re, sys
import common, gen, refsem
from common import cps, dec

IDENT = re.compile(r"^[A-Za-z_][A-Za-z0-9_]*$")


def bool_safe(n):
    return not any(k.startswith(n) or n.startswith(k) for k in ("TRUE", "FALSE"))


def out_text(i):
    return [dec(l) if isinstance(l, list) else None for l in i.get("out", [])]


def comp(text, opts=None, **kw):
    c = {"kind": "comp", "text": text, "opts": opts or {}}
    c.update(kw)
    return c


class Prop:
    id = None
    fields = None            # alpha_P: compared fields (None = all)
    functional = True        # the theorems fix the compared fields, so a disagreement is a failing input
    quick_n = 1500
    thorough_n = 30000
    rule = ""
    explanation = ""
    assumptions = []

    def corpus(self, tier):
        return []

    def generate(self, rng, n, tier):
        return []

    def oracle(self, c, i):
        return None

    def nontrivial(self, c, i):
        return i["status"] in ("OK", "CE")

    def key(self, c):
        return {k: c.get(k) for k in ("kind", "text", "expr", "vars", "lines", "files", "name", "opts", "global", "project")}

    def ignore_disagreement(self, c, m, i):
        return False

    def extra_checks(self, rng, tier, escalate):
        return {}

    def witness_fails(self, w, k):
        i = common.run_impl_case(w)
        o = self.oracle(w, i)
        if o and o[0] == k["tag"]:
            return o[1]
        return None

    def shrink(self, c, tag):
        """greedy line deletion while the oracle keeps reporting the same tag"""
        if c.get("kind") != "comp" or c.get("files") is not None or "text" not in c or "ref" in c or "define" in c or "group" in c or any(k.startswith("expect") for k in c) or "unknown" in c or "read" in c:
            return c
        lines = c["text"].split("\n")
        changed = True
        budget = 200
        while changed and budget > 0:
            changed = False
            for j in range(len(lines)):
                budget -= 1
                cand = dict(c, text="\n".join(lines[:j] + lines[j + 1:]))
                cand.pop("expect", None)
                i = common.run_impl_case(cand)
                o = self.oracle(cand, i)
                if o and o[0] == tag:
                    lines = lines[:j] + lines[j + 1:]
                    c = cand
                    changed = True
                    break
        return c


def rsub(rng):
    return random.Random(rng.getrandbits(64))


# ====================================================================================== C01
KEYS = {"ALT": gen.KEYS_ALT, "CTRL": gen.KEYS_CTRL, "CONTROL": gen.KEYS_CTRL, "SHIFT": gen.KEYS_SHIFT}
ONECHAR = [c for c in gen.CHARS if c.strip() and len(c) == 1] + ["A", "z", "1", "-", "$"]


def valid_line(r):
    """-> (spelled line, canonical output or None when dropped (REM))"""
    k = r.randrange(16)

    def cs(w):
        return gen.casing(r, w)

    def pad():
        return r.choice([" ", " ", "  ", "\t", " \t "])

    def tail():
        return r.choice(["", "", " ", "\t", "  "])
    if k == 0:
        w = r.choice(["STRING", "STRINGLN"])
        t = (gen.rtext(r, r.randint(1, 12)).strip() or "x")
        trail = r.choice(["", "", " ", "  "])
        return cs(w) + pad() + t + trail, w + " " + t + trail
    if k == 1:
        n = r.choice([0, 1, 5, 100, 65535, r.randint(0, 10**6), r.randint(0, 10**25)])
        s = str(n) if r.random() < 0.8 else "0" * r.randint(1, 3) + str(n)
        return cs("DELAY") + pad() + s + tail(), "DELAY " + str(n)
    if k == 2:
        w = r.choice(["DEFAULT_DELAY", "DEFAULTDELAY"])
        n = r.randint(0, 5000)
        return cs(w) + pad() + str(n) + tail(), w + " " + str(n)
    if k in (3, 4):
        w = r.choice(["ALT", "CTRL", "CONTROL"])
        x = r.random()
        if x < 0.25:
            return cs(w) + tail(), w
        if x < 0.6:
            key = r.choice(KEYS[w])
            sp = cs(key)
            if w == "ALT":
                return cs(w) + pad() + sp + tail(), w + " " + key
            # CTRL upper-cases only exact spellings; both spellings denote the same key
            return cs(w) + pad() + sp + tail(), w + " " + (key if sp == key else sp)
        ch = r.choice(ONECHAR)
        return cs(w) + pad() + ch + tail(), w + " " + ch
    if k == 5:
        if r.random() < 0.2:
            return cs("SHIFT") + tail(), "SHIFT"
        key = r.choice(gen.KEYS_SHIFT)
        sp = cs(key)
        return cs("SHIFT") + pad() + sp + tail(), "SHIFT " + sp
    if k == 6:
        w = r.choice(["GUI", "WINDOWS", "META"])
        if r.random() < 0.2:
            return cs(w) + tail(), w
        ch = r.choice(ONECHAR)
        return cs(w) + pad() + ch + tail(), w + " " + ch
    if k in (7, 8):
        w = r.choice(gen.NOARG)
        return cs(w) + tail(), w
    if k == 9:
        t = gen.rtext(r, r.randint(1, 10)).strip() or "c"
        return cs("REM") + pad() + t + tail(), ("REM", "REM " + t)
    if k == 10:
        n = r.randint(0, 99)
        return r.choice(["REPEAT", "repeat", "Repeat", "FOR", "for"]) + pad() + str(n) + tail(), "REPEAT " + str(n)
    if k == 11:
        d = "".join(r.choice("0123456789") for _ in range(r.randint(1, 4)))
        return cs("ALTCHAR") + pad() + d + tail(), "ALTCHAR " + d
    if k == 12:
        w = r.choice(["ALTSTRING", "ALTCODE"])
        t = gen.rtext(r, r.randint(1, 8)).strip() or "t"
        return cs(w) + pad() + t + tail(), w + " " + t
    if k == 13:
        w = r.choice(gen.FLIP_MOD + ["SYSRQ"])
        if r.random() < 0.15:
            return cs(w) + tail(), w
        ch = r.choice(ONECHAR)
        return cs(w) + pad() + ch + tail(), w + " " + ch
    if k == 14:
        return cs("ENTER"), "ENTER"
    return cs("STRING") + " " + "é ſ ß", "STRING é ſ ß"


class C01(Prop):
    id = "C01"
    fields = ["out", "warnings"]
    quick_n = 1500
    thorough_n = 40000
    rule = "flat scripts sampled from the valid-line grammar (every name/alias, random casing and padding, non-ASCII characters), comments on/off; distinct = distinct script text"
    explanation = "model-vs-implementation on (status, output, warnings) plus the grammar oracle: output must equal the canonical lines"

    def generate(self, rng, n, tier):
        cases = []
        for _ in range(n):
            r = rsub(rng)
            lines, exp = [], []
            comments = r.random() < 0.5
            for _ in range(r.randint(1, 10)):
                sp, ca = valid_line(r)
                lines.append(sp)
                if isinstance(ca, tuple):
                    if comments:
                        exp.append(ca[1])
                else:
                    exp.append(ca)
            if r.random() < 0.2 and not any("\r" in l for l in lines):
                # the same script through the file entry point (a CR in a file is a line end for Python's
                # text-mode read, so such scripts go through the string entry point only)
                cases.append({"kind": "comp", "files": {"plain.txt": "\n".join(lines)}, "main": "plain.txt", "opts": {"include_comments": comments}, "expect": exp})
            else:
                cases.append(comp("\n".join(lines), {"include_comments": comments}, expect=exp))
        return cases

    def corpus(self, tier):
        out = []
        for w in gen.NOARG + ["ALT", "CTRL", "CONTROL", "SHIFT", "GUI", "WINDOWS", "META"]:
            for sp in (w, w.lower(), w.capitalize()):
                out.append(comp(sp, {}, expect=[w]))
        for w, keys in KEYS.items():
            for key in keys:
                out.append(comp(w + " " + key, {}, expect=[w + " " + key]))
        # a carriage return inside typed text is text (string entry point: lines end at "\n" only)
        out.append(comp("STRING a\rb\nSTRINGLN x\r\nENTER", {}, expect=["STRING a\rb", "STRINGLN x\r", "ENTER"]))
        return out

    def oracle(self, c, i):
        if "expect" not in c:
            return None
        if i["status"] != "OK":
            return ("valid_script_rejected", "a valid flat script failed: %s %s" % (i.get("err"), i.get("msg", "")))
        got = out_text(i)
        exp = c["expect"]
        if len(got) != len(exp) or any(not lines_equiv(g, e) for g, e in zip(got, exp)):
            return ("valid_script_changed", "output differs from the canonical lines: %r vs %r" % (got[:6], exp[:6]))
        if i["warnings"]:
            return ("valid_script_warned", "warning on a valid flat script: " + dec(i["warnings"][0][0]))
        return None


def lines_equiv(got, exp):
    if got == exp:
        return True
    # key names are case-insensitive for CTRL/SHIFT (the device reads the same key)
    g, e = got.split(" ", 1), exp.split(" ", 1)
    if len(g) == 2 and len(e) == 2 and g[0] == e[0] and g[0] in ("CTRL", "CONTROL", "SHIFT") and g[1].upper() == e[1].upper() and len(e[1]) > 1:
        return True
    return False


# ====================================================================================== C02
VALIDATED_NOARG = set(gen.NOARG) - {"ENTER"}
MOD_KEYS = {"ALT": gen.KEYS_ALT, "CTRL": gen.KEYS_CTRL, "CONTROL": gen.KEYS_CTRL, "SHIFT": gen.KEYS_SHIFT}
DUCKLING_ONLY = {"VAR", "IF", "ELIF", "ELSE", "WHILE", "FUNC", "FUNCTION", "RUN", "RETURN", "RET", "BREAKLOOP", "BREAK_LOOP", "CONTINUELOOP",
                 "CONTINUE_LOOP", "CONTINUE", "EXIST", "NOTEXIST", "NOT_EXIST", "PASS", "PRINT", "IGNORE", "START", "STARTENV", "STARTCODE", "WHITESPACE", "FOR"}


def legal_output(line):
    """the Ducky line grammar for the commands DucklingScript validates; None = legal, else reason"""
    if line == "":
        return None
    parts = line.split(" ", 1)
    w = parts[0]
    arg = parts[1] if len(parts) > 1 else None
    if w in VALIDATED_NOARG or w == "ENTER":
        return None if arg is None else "%s carries an argument" % w
    if w in ("ALT", "CTRL", "CONTROL"):
        if arg is None or len(arg) == 1 or arg.upper() in MOD_KEYS[w]:
            return None
        return "%s carries %r" % (w, arg)
    if w == "SHIFT":
        return None if arg is None or arg.upper() in gen.KEYS_SHIFT else "SHIFT carries %r" % arg
    if w in ("GUI", "WINDOWS", "META", "SYSRQ"):
        return None if arg is None or len(arg) == 1 else "%s carries %r" % (w, arg)
    if w in gen.FLIP_MOD:
        return None if arg is None or len(arg) == 1 else "%s carries %r" % (w, arg)
    if w in ("DELAY", "DEFAULT_DELAY", "DEFAULTDELAY"):
        return None if arg is not None and re.fullmatch(r"[0-9]+", arg) else "%s carries %r" % (w, arg)
    if w == "ALTCHAR":
        return None if arg is not None and re.fullmatch(r"[0-9]{1,4}", arg.strip()) else "ALTCHAR carries %r" % arg
    return None


class C02(Prop):
    id = "C02"
    fields = ["out"]
    quick_n = 1500
    thorough_n = 40000
    rule = "(command, boundary argument, delivery form) triples and random programs; distinct = distinct program text"
    explanation = "every emitted line is checked against the pinned Ducky grammar (legal_output) on the implementation's own output"

    ARGS = ["", "a", "ab", "é", "😀", "esc", "ESC", "Esc", "F1", "f12", "F13", "TAB", "-1", "0", "7", "99999999999999999999", "1.5", "2.0", "TRUE", "FALSE", '"a"', '"5"',
            "12345", "1234", "0007", "00065", "00000000", "09999", "10000", "²", "٣", "1 2", " ", "x y"]
    CMDS = ["ALT", "CTRL", "CONTROL", "SHIFT", "GUI", "WINDOWS", "META", "DELAY", "DEFAULT_DELAY", "DEFAULTDELAY", "ALTCHAR", "SYSRQ", "CTRL-ALT", "GUI-SHIFT",
            "MENU", "UP", "DOWNARROW", "ENTER", "CAPSLOCK", "TAB", "WHITESPACE"]

    def forms(self, cmd, arg):
        yield cmd + (" " + arg if arg else "")
        yield cmd + "\n    " + (arg or "x")
        yield "$" + cmd + " " + (arg or '""')
        yield "VAR v " + (arg if arg else '""') + "\n$" + cmd + " v"
        yield "FUNC f p\n    $" + cmd + " p\nRUN f " + (arg or '""')
        yield "REPEAT i,3\n    $" + cmd + " i"
        yield "VAR v " + (arg if arg else '""') + "\n" + cmd + " v"

    def corpus(self, tier):
        inline, rest = [], []
        for cmd in self.CMDS:
            for arg in self.ARGS:
                fs = list(self.forms(cmd, arg))
                inline.append(comp(fs[0]))
                rest.extend(comp(f) for f in fs[1:])
        if tier != "thorough":
            r = random.Random(7)
            rest = r.sample(rest, 900)
        # every value of a group is validated, whatever its position (a bad value that is not the last one)
        grp = []
        for cmd in ("DEFAULT_DELAY", "DEFAULTDELAY", "DELAY", "ALT", "CTRL", "ALTCHAR", "WHITESPACE"):
            good, bad = {"ALT": ("a", "ab"), "CTRL": ("c", "xy"), "ALTCHAR": ("65", "12345"), "WHITESPACE": ("1", "100")}.get(cmd, ("100", "-5"))
            for vals in ([bad, good], [good, bad, good], [bad, bad, good], ["0-5" if bad == "-5" else bad, good]):
                grp.append(comp(cmd + "\n" + "\n".join("    " + v for v in vals)))
                grp.append(comp(cmd + " " + vals[0] + "\n" + "\n".join("    " + v for v in vals[1:])))
                grp.append(comp("VAR v 0-5\nREPEAT i,1\n    " + cmd + "\n" + "\n".join("        " + (v if v != "-5" else "v") for v in vals)))
        return inline + rest + grp

    def generate(self, rng, n, tier):
        cases = []
        for _ in range(n):
            r = rsub(rng)
            pg = gen.ProgGen(r, valid=r.choice([1.0, 0.9]), weights={"simple": 8, "dstring": 4, "group": 3, "count": 2, "unknown": 0.0, "ignore": 0.0})
            cases.append(comp("\n".join(gen.render(pg.program(), r.choice(gen.UNITS), r, blank=0.05))))
        return cases

    def oracle(self, c, i):
        if i["status"] != "OK":
            return None
        has_unknown_warning = any("may not exist" in dec(w[0]) for w in i["warnings"])
        for l in out_text(i):
            if l is None:
                return ("nonstring_output", "a non-string output line")
            why = legal_output(l)
            if why:
                return ("illegal_line:" + l.split(" ")[0], "illegal output line %r: %s" % (l, why))
            w = l.split(" ")[0]
            if not has_unknown_warning and "IGNORE" not in c["text"].upper():
                if w.startswith("$") or (w in DUCKLING_ONLY and not (w == "FOR")):
                    return ("duckling_keyword_emitted", "DucklingScript-only word in the output without a warning: %r" % l)
        return None


# ====================================================================================== C03
def forest_expect(nodes, start=1, unit_lines=None):
    """expected prepare_for_stack tree for rendered nodes without blank lines; returns (tree, next line number)"""
    tree = []
    n = start
    for nd in nodes:
        tree.append([n, cps(nd.text)])
        n += 1
        if nd.kids is not None:
            if nd.quoted:
                sub = []
                n += 1
                for k in nd.kids:
                    sub.append([n, cps(k)])
                    n += 1
                n += 1
                tree.append({"blk": sub})
            else:
                sub, n = forest_expect(nd.kids, n)
                tree.append({"blk": sub})
    return tree, n


def strip_numbers(tree):
    return [{"blk": strip_numbers(t["blk"])} if isinstance(t, dict) else t[1] for t in tree]


class C03(Prop):
    id = "C03"
    fields = ["tree", "err", "line", "out", "prints"]
    quick_n = 1500
    thorough_n = 30000
    rule = "random block forests rendered with 8 indent units and random blank lines (tree oracle), ill-indented variants (rejection oracle), mutated texts; distinct = distinct text"
    explanation = "prepare_for_stack is compared with the model and with the tree the generator built; unit/blank/list-form metamorphic runs on the implementation"

    def generate(self, rng, n, tier):
        cases = []
        for _ in range(n):
            r = rsub(rng)
            pg = gen.ProgGen(r, valid=0.98, weights={"quoted": 1.0, "ignore": 0.6})
            nodes = pg.program()
            unit = r.choice(gen.UNITS)
            x = r.random()
            if x < 0.45:
                lines = gen.render(nodes, unit)
                exp, _ = forest_expect(nodes)
                cases.append({"kind": "tab", "text": "\n".join(lines), "expect_tree": exp})
            elif x < 0.7:
                # blank / whitespace-only lines anywhere: same tree modulo numbers
                lines = gen.render(nodes, unit, r, blank=0.25)
                exp, _ = forest_expect(nodes)
                cases.append({"kind": "tab", "text": "\n".join(lines), "expect_shape": strip_numbers(exp)})
            elif x < 0.9:
                lines = gen.render(nodes, unit)
                bad = self.break_indent(r, lines, unit)
                if bad is not None:
                    cases.append({"kind": "tab", "text": "\n".join(bad[0]), "expect_tab_error": bad[1]})
                else:
                    cases.append({"kind": "tab", "text": "\n".join(lines)})
            elif x < 0.95:
                text = gen.mutate_text(r, "\n".join(gen.render(nodes, unit, r, blank=0.1)))
                if r.random() < 0.5:
                    cases.append({"kind": "tab", "text": text})
                else:
                    # through Compiler.compile, which does its own line splitting: characters that look like
                    # line ends to str.splitlines() placed in leading white space and in blank lines
                    ls = text.split("\n")
                    for _ in range(r.randint(1, 3)):
                        j = r.randrange(len(ls))
                        ch = r.choice(["\x0b", "\x0c", "\x1c", "\x1d", "\x1e", "\x85", "\u2028", "\u2029", "\r"])
                        k = len(ls[j]) - len(ls[j].lstrip())
                        pos = r.randint(0, k)
                        ls[j] = ls[j][:pos] + ch + ls[j][pos:]
                    cases.append(comp("\n".join(ls)))
            else:
                # the same parser runs on imported files: leading blank / whitespace-only lines, an indented
                # first code line, every indent unit (the importing file uses another unit)
                lines = gen.render(nodes, unit, r, blank=0.15)
                lead = r.choice([[], [""], ["", "  "], ["\t", ""], [" "]])
                if r.random() < 0.3 and not any('"""' in l for l in lines):
                    lines = [unit + lines[0]] + lines[1:]
                imp = r.choice(["START", "STARTCODE", "STARTENV"])
                main = r.choice(["%s sub", "STRING m\n%s sub\nSTRING n", "REPEAT 2\n\t%s sub", "IF TRUE\n  %s sub\nELSE\n  STRING e"]) % imp
                cases.append({"kind": "comp", "files": {"main.txt": main, "sub.txt": "\n".join(lead + lines)}, "main": "main.txt", "opts": {}})
        return cases

    def break_indent(self, r, lines, unit):
        """-> (lines, 1-based number of an ill-indented line) for texts without triple quotes"""
        if any('"""' in l for l in lines):
            return None
        k = r.randrange(3)
        lines = list(lines)
        if k == 0:
            # the first code line is indented
            return [unit + lines[0]] + lines[1:], 1
        if k == 1:
            # one line two levels deeper than the code line before it
            known = [j for j, l in enumerate(lines) if self.level(l, unit) >= 1]
            if not known:
                return None
            j = r.randrange(known[0], len(lines))
            lvl = self.level(lines[j], unit)
            ins = unit * (lvl + 2) + "STRING deep"
            return lines[: j + 1] + [ins] + lines[j + 1:], j + 2
        # leading blanks that are not a whole number of units (needs a known unit: some indented line before)
        idx = [j for j, l in enumerate(lines) if self.level(l, unit) >= 1]
        if not idx or len(unit) < 2 and unit != "\t":
            return None
        j = r.choice(idx)
        if unit == "\t":
            half = " "
        else:
            half = unit[: len(unit) // 2] if unit[: len(unit) // 2] else " "
        bad = unit * self.level(lines[j], unit) + half + "STRING half"
        if bad.startswith(unit * (self.level(lines[j], unit) + 1)):
            return None
        return lines[: j + 1] + [bad] + lines[j + 1:], j + 2

    def level(self, line, unit):
        k = 0
        while line.startswith(unit):
            line = line[len(unit):]
            k += 1
        return k

    def corpus(self, tier):
        out = []
        # every indentation vector on <= 4 lines over {0, half, 1, 1.5, 2, 3} units (4-space unit) and foreign whitespace
        pre = ["", "  ", "    ", "      ", "        ", "            ", "\t", "\x0b", " "]
        maxlen = 4 if tier == "thorough" else 3
        for nlines in range(1, maxlen + 1):
            for vec in itertools.product(pre, repeat=nlines):
                out.append({"kind": "tab", "text": "\n".join(p + "STRING l%d" % j for j, p in enumerate(vec))})
        out.append({"kind": "tab", "text": "\n    STRING a"})
        out.append({"kind": "tab", "text": "\n\n  \n\tSTRING a\nSTRING b"})
        # no code line is silently dropped: a line nested deeper under commands that take no nested block
        # (IGNORE, simple commands with an argument group) is an error in every indent unit, never skipped
        for unit in ("\t", " ", "    ", " \t"):
            for head in ("IGNORE", "STRING", "FOO", "DELAY"):
                for blank in ("", "\n"):
                    t = "STRING before\n%s\n%sRAW one%s\n%s%sRAW nested\n%sRAW two\nSTRING after" % (head, unit, blank, unit, unit, unit)
                    out.append(comp(t))
        out.append({"kind": "raw", "lines": ["STRING before", "IGNORE", ["RAW one", ["RAW nested"], "RAW two"], "STRING after"], "opts": {}})
        return out

    def oracle(self, c, i):
        if c["kind"] != "tab":
            return None
        if "expect_tree" in c:
            if i["status"] != "OK" or i["tree"] != c["expect_tree"]:
                return ("tree_not_recovered", "well-indented text was not parsed into the tree its indentation depicts (status %s)" % i["status"])
        if "expect_shape" in c:
            if i["status"] != "OK" or strip_numbers(i["tree"]) != c["expect_shape"]:
                return ("blank_lines_changed_tree", "blank lines changed the parsed tree (status %s)" % i["status"])
        if "expect_tab_error" in c:
            if i["status"] != "CE" or i.get("err") != "InvalidTabError":
                return ("ill_indent_accepted", "ill-indented line %d was accepted (status %s)" % (c["expect_tab_error"], i["status"]))
        if i["status"] == "OK":
            # no code line is dropped: the non-blank lines outside quote markers are all in the tree
            def flat(t):
                for x in t:
                    if isinstance(x, dict):
                        yield from flat(x["blk"])
                    else:
                        yield x[0]
            nums = sorted(flat(i["tree"]))
            src = c["text"].split("\n")
            want = [k + 1 for k, l in enumerate(src) if l.strip() != "" and not l.strip().startswith('"""')]
            if '"""' not in c["text"] and nums != want:
                return ("line_dropped", "code lines %s missing from the parsed tree" % sorted(set(want) - set(nums))[:5])
        return None

    def extra_checks(self, rng, tier, escalate):
        """metamorphic: unit independence, blank-line insensitivity, list form (implementation only)"""
        n = 150 if tier == "quick" and not escalate else 1500
        viol = []
        ev = 0
        for _ in range(n):
            r = rsub(rng)
            pg = gen.ProgGen(r, valid=0.97, weights={"quoted": 0.0, "ignore": 0.3, "group": 1.5, "start": 0})
            nodes = pg.program()
            base = None
            for unit in r.sample(gen.UNITS, 3):
                for blank in (0.0, 0.3):
                    text = "\n".join(gen.render(nodes, unit, r, blank=blank))
                    i = common.run_impl_case(comp(text))
                    ev += 1
                    sig = (i["status"], i.get("err"), json.dumps(i.get("out")), json.dumps([p[0] for p in i.get("prints") or []]))
                    if base is None:
                        base = (sig, text)
                    elif sig != base[0]:
                        viol.append((comp(text, note="same forest as: " + base[1]), "unit_or_blank_dependence", "result depends on the indent unit or on blank lines"))
                        break
            i = common.run_impl_case({"kind": "raw", "lines": gen.to_raw(nodes), "opts": {}})
            ev += 1
            if base and (i["status"], json.dumps(i.get("out"))) != (base[0][0], base[0][2]) and base[0][0] == "OK":
                viol.append(({"kind": "raw", "lines": gen.to_raw(nodes), "opts": {}}, "list_form_differs", "nested-list form gives a different output than the text"))
        return {"violations": viol, "evaluations": ev, "summary": {"metamorphic_forests": n}}


# ====================================================================================== C04
class TreeGen:
    """expression ASTs with a reference value computed by ordinary arithmetic"""
    PREC = {"^": 3, "*": 2, "/": 2, "//": 2, "%": 2, "+": 1, "-": 1, "==": 0, "!=": 0, "<": 0, ">": 0, "<=": 0, ">=": 0}

    def __init__(self, rng, env):
        self.rng = rng
        self.env = env

    def num(self, d):
        r = self.rng
        if d <= 0 or r.random() < 0.3:
            x = r.random()
            names = [n for n, v in self.env.items() if isinstance(v, (int, float)) and not isinstance(v, bool)]
            if names and x < 0.3:
                return ("var", r.choice(names))
            if x < 0.5:
                return ("lit", r.choice(["0.5", "1.5", "2.25", ".5", "0.125", "10.0", "3.75", "2."]))
            if x < 0.6:
                return ("lit", "-" + str(r.randint(1, 9)))
            if x < 0.65:
                return ("lit", "0" + str(r.randint(0, 9)))
            return ("lit", str(r.randint(0, 12)))
        op = r.choice(["+", "-", "*", "/", "//", "%", "^", "+", "-", "*"])
        if op == "^":
            return ("bin", "^", self.num(d - 1), ("lit", str(r.randint(0, 3))))
        return ("bin", op, self.num(d - 1), self.num(d - 1))

    def string(self, d):
        r = self.rng
        if d <= 0 or r.random() < 0.4:
            names = [n for n, v in self.env.items() if isinstance(v, str)]
            if names and r.random() < 0.3:
                return ("var", r.choice(names))
            body = gen.rtext(r, r.randint(0, 5), [c for c in gen.CHARS if c != '"'])
            return ("str", body)
        x = r.random()
        if x < 0.4:
            return ("bin", "+", self.string(d - 1), self.string(d - 1))
        if x < 0.7:
            return ("bin", "+", self.string(d - 1), self.num(d - 1))
        return ("bin", "+", self.num(d - 1), self.string(d - 1))

    def boolean(self, d):
        r = self.rng
        if d <= 0 or r.random() < 0.2:
            names = [n for n, v in self.env.items() if isinstance(v, bool)]
            if names and r.random() < 0.3:
                return ("var", r.choice(names))
            return ("lit", r.choice(["TRUE", "FALSE"]))
        x = r.random()
        if x < 0.55:
            return ("bin", r.choice(["==", "!=", "<", ">", "<=", ">="]), self.num(d - 1), self.num(d - 1))
        if x < 0.7:
            return ("bin", r.choice(["==", "!="]), self.string(d - 1), self.string(d - 1))
        if x < 0.85:
            return ("not", self.boolean(d - 1))
        return ("bin", r.choice(["==", "!="]), self.boolean(d - 1), self.boolean(d - 1))

    def any(self, d):
        return self.rng.choice([self.num, self.num, self.string, self.boolean])(d)


class DivZero(Exception):
    pass


class IllTyped(Exception):
    pass


def norm(v):
    if isinstance(v, float) and v.is_integer():
        return int(v)
    return v


def lit_value(s):
    if s == "TRUE":
        return True
    if s == "FALSE":
        return False
    if s.endswith("."):
        return int(s[:-1])
    try:
        return int(s)
    except ValueError:
        return norm(float(s))


def eval_tree(t, env):
    k = t[0]
    if k == "lit":
        return lit_value(t[1])
    if k == "str":
        return t[1]
    if k == "var":
        return env[t[1]]
    if k == "not":
        return not norm(eval_tree(t[1], env))
    if k == "par":
        return norm(eval_tree(t[1], env))
    op = t[1]
    a = eval_tree(t[2], env)
    b = eval_tree(t[3], env)
    if op == "+":
        if isinstance(a, str) or isinstance(b, str):
            return str(a) + str(b)
        return norm(a + b)
    if op in ("==", "!=", "<", ">", "<=", ">="):
        return {"==": a == b, "!=": a != b, "<": a < b, ">": a > b, "<=": a <= b, ">=": a >= b}[op] if op in ("==", "!=") or not (isinstance(a, str) or isinstance(b, str)) else _ill()
    if isinstance(a, (str, bool)) or isinstance(b, (str,)):
        raise IllTyped()
    if op == "-":
        return norm(a - b)
    if op == "*":
        return norm(a * b)
    if op in ("/", "//", "%") and b == 0:
        raise DivZero()
    if op == "/":
        return norm(a / b)
    if op == "//":
        return norm(a // b)
    if op == "%":
        return norm(a % b)
    if op == "^":
        try:
            v = a ** b
        except ZeroDivisionError:
            raise DivZero()
        if isinstance(v, complex):
            raise IllTyped()
        return norm(v)
    raise IllTyped()


def _ill():
    raise IllTyped()


def print_tree(t, r, outer=-1, right=False):
    def sp():
        return gen.ws(r, 0.3)
    k = t[0]
    if k == "lit":
        s = t[1]
    elif k == "str":
        s = '"' + t[1] + '"'
    elif k == "var":
        s = t[1]
    elif k == "not":
        return "!(" + sp() + print_tree(t[1], r) + sp() + ")"
    elif k == "par":
        return "(" + sp() + print_tree(t[1], r) + sp() + ")"
    else:
        p = TreeGen.PREC[t[1]]
        s = print_tree(t[2], r, p, False) + sp() + t[1] + sp() + print_tree(t[3], r, p, True)
        if p < outer or (p == outer and right):
            return "(" + sp() + s + sp() + ")"
        if r.random() < 0.15:
            return "(" + s + ")"
        return s
    if r.random() < 0.1:
        return "(" + sp() + s + sp() + ")"
    return s


VAR_SETS = [
    {"a": 3, "ab": 4, "abc": 5}, {"hell": 1, "hello": 2, "h": 7}, {"x": 1.5, "y": "yy", "z": True}, {"n": 0, "m": -2},
    {"idx": 10, "id": 3, "i": 1}, {"_a": 2, "a_": 3, "A": 4}, {"v1": 1, "v10": 10, "v": 0}, {},
]


class C04(Prop):
    id = "C04"
    fields = ["value", "err"]
    quick_n = 4000
    thorough_n = 120000
    rule = "expression trees over int/decimal/string/boolean literals and variables (name sets with prefix chains), 13 binary operators and !(), printed with minimal or redundant parentheses and random spacing; the 169 ordered operator pairs; distinct = distinct expression text"
    explanation = "value compared with the model and with a reference evaluator (ordinary arithmetic on the AST)"

    def corpus(self, tier):
        out = []
        ops = list(TreeGen.PREC)
        triples = [("7", "2", "3"), ("2", "3", "2"), ("1.5", "2", "4"), ("8", "4", "2"), ("0", "5", "1")]
        r = random.Random(99)
        for o1 in ops:
            for o2 in ops:
                for (a, b, c) in triples[: (5 if tier == "thorough" else 2)]:
                    for shape in range(3):
                        L = ("lit", a)
                        M = ("lit", b)
                        R = ("lit", c)
                        if shape == 0:
                            t = ("bin", o2, ("bin", o1, L, M), R)
                        elif shape == 1:
                            t = ("bin", o1, L, ("bin", o2, M, R))
                        else:
                            t = ("bin", o2, ("par", ("bin", o1, L, M)), R)
                        out.append(self.mk(t, {}, r))
        for d in (1, 50, 99, 100):
            out.append({"kind": "tok", "vars": {}, "expr": "(" * d + "1" + ")" * d, "ref": {"i": "1"}})
            out.append({"kind": "tok", "vars": {}, "expr": "2*" + "(" * d + "1+2" + ")" * d + "-1", "ref": {"i": "5"}})
            out.append({"kind": "tok", "vars": {}, "expr": "!(" * d + "TRUE" + ")" * d, "ref": {"b": d % 2 == 0}})
        for e in ["1+", "(1", "1)", "", " ", "1 1", "TRUE FALSE", "!TRUE", "!(TRUE)", "!!(FALSE)", "((((1))))", "(" * 101 + "1" + ")" * 101,
                  "5/0", "5//0", "5%0", "0^-1", "2^-1", "5/(3-3)", "1/0+\"a\"", "\"a\"+1/0", "\"(\"+\")\"", "\",\"+1", "1,2", "1,2,3", "\"a\",\"b,c\",(1,2)"]:
            out.append({"kind": "tok", "vars": {}, "expr": e})
        # TRUE / FALSE are literals whatever names are defined, also names that are prefixes or extensions of them
        for env in ({"F": 5}, {"T": 1, "TRU": 2}, {"FALSEY": 3, "TRUEST": 4}, {"F": 5, "FA": 6, "FAL": 7, "FALS": 8}):
            for e, v in [("FALSE == FALSE", True), ("TRUE", True), ("TRUE != FALSE", True), ("FALSE", False), ("(TRUE) == TRUE", True), ("!(FALSE)", True)]:
                out.append({"kind": "tok", "vars": dict(env), "expr": e, "ref": common.val_rec(v)})
        for e, v in [("1 == 5 < 2", True), ("5 < 2 == 1", False), ("3 != 3 >= 0", True), ("0 * (1+1)", 0)]:
            out.append({"kind": "tok", "vars": {}, "expr": e, "ref": common.val_rec(v)})
        # both operands are evaluated: an error in the right operand is reported whatever the left one is
        for e in ["0 * (1/0)", "(2-2) * (7 // 0)", "0.0 * (5 % 0)", "FALSE * (1/0)", "0 * nosuch"]:
            out.append({"kind": "tok", "vars": {}, "expr": e, "ref": "div0"} if "nosuch" not in e else {"kind": "tok", "vars": {}, "expr": e})
        # a sign immediately followed by the decimal point
        for e, v in [("-.5", -0.5), ("2 * -.25", -0.5), ("1--.5", 1.5), ("(-.5)+1", 0.5), ("-.5+1", 0.5), ("3*-2", -6), ("1-.5", 0.5), (".5", 0.5), ("-5.", -5)]:
            out.append({"kind": "tok", "vars": {}, "expr": e, "ref": common.val_rec(v)})
        # integer literals are exact at any size (no round trip through a double)
        for e, v in [("9007199254740993 - 9007199254740992", 1), ("10000000000000000000001 % 10", 1), ("9007199254740993 == 9007199254740992", False),
                     ("18446744073709551617 // 3", 18446744073709551617 // 3), ("9007199254740993", 9007199254740993), ("(9007199254740993)+0", 9007199254740993),
                     ("123456789012345678901234567890 - 123456789012345678901234567889", 1), ("9007199254740993 * 1", 9007199254740993)]:
            out.append({"kind": "tok", "vars": {}, "expr": e, "ref": common.val_rec(v)})
        return out

    def mk(self, t, env, r):
        c = {"kind": "tok", "vars": dict(env), "expr": print_tree(t, r)}
        try:
            v = norm(eval_tree(t, env))
            c["ref"] = common.val_rec(v)
        except DivZero:
            c["ref"] = "div0"
        except (IllTyped, TypeError, OverflowError, KeyError):
            pass
        return c

    def generate(self, rng, n, tier):
        cases = []
        for _ in range(n):
            r = rsub(rng)
            env = r.choice(VAR_SETS)
            if r.random() < 0.12:
                cases.append({"kind": "tok", "vars": dict(env), "expr": gen.token_soup(r)})
                continue
            tg = TreeGen(r, env)
            t = tg.any(r.randint(0, 5))
            cases.append(self.mk(t, env, r))
        return cases

    def oracle(self, c, i):
        ref = c.get("ref")
        if ref is None:
            return None
        if ref == "div0":
            if i["status"] == "CE" and i.get("err") == "DivideByZeroError":
                return None
            # an ill-typed part evaluated earlier may legitimately fail first; the generator's trees with a div0 ref are otherwise well-typed
            return ("div_zero_not_reported", "division by zero gave %s %s" % (i["status"], i.get("err") or i.get("value")))
        if i["status"] != "OK":
            return ("welltyped_rejected", "well-typed expression failed: %s %s" % (i.get("err"), i.get("msg", "")))
        if i["value"] != ref:
            return ("wrong_value", "value %s, ordinary arithmetic gives %s" % (json.dumps(i["value"]), json.dumps(ref)))
        return None


# ====================================================================================== C05-C08 (reference semantics)
class RefProp(Prop):
    focus = "mix"
    fields = ["out", "prints", "vars", "err"]
    quick_n = 1200
    thorough_n = 25000

    def generate(self, rng, n, tier):
        cases = []
        for _ in range(n):
            r = rsub(rng)
            g = refsem.RefGen(r, focus=self.focus if r.random() < 0.75 else "mix", max_depth=r.choice([2, 3, 4]))
            prog = g.program()
            ref = refsem.run_ref(prog)
            unit = r.choice(["    ", "  ", "\t"])
            lines = refsem.to_lines(prog, unit, 0, r)
            if r.random() < 0.3:
                # blank and whitespace-only lines anywhere (also inside blocks): only reported line numbers move
                for _ in range(r.randint(1, 4)):
                    j = r.randrange(len(lines) + 1)
                    lines.insert(j, r.choice(["", "", "  ", "\t", unit * 2]))
            text = "\n".join(lines)
            cases.append(comp(text, {}, ref=ref))
            if r.random() < 0.12:
                w = weave(lines, unit, r)
                if w is not None:
                    cases.append(w)
        return cases

    def oracle(self, c, i):
        ref = c.get("ref")
        if ref is None:
            return None
        if ref["status"] != i["status"]:
            if i["status"] in ("CRASH", "TIMEOUT"):
                return None   # C09's business / no observation within the time bound (C14's business)
            return ("refsem_status", "reference semantics says %s (%s), implementation %s %s" % (ref["status"], ref.get("why", ""), i["status"], i.get("err", "")))
        if ref["status"] == "OK":
            if out_text(i) != ref["out"]:
                return ("refsem_output", "output %r, reference semantics gives %r" % (out_text(i)[:8], ref["out"][:8]))
            got = {dec(k): v for k, v in i["vars"]}
            want = {k: common.val_rec(v) for k, v in ref["vars"].items()}
            if got != want:
                return ("refsem_vars", "final variables %r, reference %r" % (got, want))
        if i.get("prints") is not None:
            if [dec(p[0]) for p in i["prints"]] != ref["prints"]:
                return ("refsem_prints", "prints differ from the reference execution order")
        return None


def weave(lines, unit, r):
    """the same program cut across files (compared with the model, no reference): a run of whole sibling
    statements at some nesting level moves into an imported file, or an import is interposed between the
    arms of a chain; control transfers, definitions and chain flags then cross the file boundary"""
    def indent(l):
        k = 0
        while l.startswith(unit, k * len(unit)):
            k += 1
        return k
    if not lines:
        return None
    imp = r.choice(["START", "START", "STARTENV", "STARTCODE"])
    arms = [j for j, l in enumerate(lines) if l.strip().split(" ")[0].upper() in ("ELIF", "ELSE")]
    if arms and r.random() < 0.4:
        j = r.choice(arms)
        p = unit * indent(lines[j])
        helper = r.choice(["IF TRUE\n    PASS", "IF FALSE\n    PASS", "IF FALSE\n    PASS\nELSE\n    VAR hz 1", "STRING h", "IF TRUE\n    STRING ht\nELSE\n    STRING he"])
        main = lines[:j] + [p + imp + " helper"] + lines[j:]
        return {"kind": "comp", "files": {"main.txt": "\n".join(main), "helper.txt": helper}, "main": "main.txt", "opts": {}}
    s0 = r.randrange(len(lines))
    lvl = indent(lines[s0])
    e = s0 + 1
    want = r.randint(1, 4)
    while e < len(lines) and (indent(lines[e]) > lvl or (indent(lines[e]) == lvl and want > 1)):
        if indent(lines[e]) == lvl:
            want -= 1
        e += 1
    sub = [l[len(unit) * lvl:] for l in lines[s0:e]]
    main = lines[:s0] + [unit * lvl + imp + " sub"] + lines[e:]
    return {"kind": "comp", "files": {"main.txt": "\n".join(main), "sub.txt": "\n".join(sub)}, "main": "main.txt", "opts": {}}


class C05(RefProp):
    id = "C05"
    focus = "if"
    rule = "random structured programs weighted towards IF/ELIF/ELSE chains (1-4 arms, literal and computed conditions, nested in branches, loops, functions); all truth assignments of chains up to 4 arms in the corpus; distinct = distinct program text"
    explanation = "model-vs-implementation plus the first-true-arm reference semantics as oracle"

    def corpus(self, tier):
        out = []
        # truth of a condition is the truth of its VALUE: fractions, negative numbers, strings, lists of one
        for cond, truthy in [("1/2", True), ("0-0.25", True), ("x", True), ("0.0", False), ("1/2-0.5", False), ("\"0\"", True), ("\"\"", False), ("0-1", True)]:
            out.append(refcase("VAR x 0-0.25\nIF %s\n    STRING yes\nELSE\n    STRING no" % cond, ["STRING yes" if truthy else "STRING no"], {"x": -0.25}))
            out.append(refcase("VAR x 0-0.25\nIF FALSE\n    STRING a\nELIF %s\n    STRING yes\nELSE \n    STRING no" % cond, ["STRING yes" if truthy else "STRING no"], {"x": -0.25}))
        # all comparison operators share one precedence level and associate to the left
        for cond, truthy in [("1 == 5 < 2", True), ("5 < 2 == 1", False), ("3 != 3 >= 0", True), ("2 > 1 == TRUE", True), ("1 == 1 != 0 < 1", False)]:
            out.append(refcase("IF %s\n    STRING first\nELSE\n    STRING second" % cond, ["STRING first" if truthy else "STRING second"]))
        for arms in range(1, 5):
            for truth in itertools.product([False, True], repeat=arms):
                for els in (False, True):
                    for flag_before in (None, True, False):
                        prog = []
                        if flag_before is not None:
                            prog.append(("if", [(("b", flag_before), [("emit", "pre")])], None))
                        prog.append(("if", [(("b", t), [("emit", "arm%d" % k)]) for k, t in enumerate(truth)], [("emit", "else")] if els else None))
                        prog.append(("emit", "after"))
                        out.append(comp("\n".join(refsem.to_lines(prog)), {}, ref=refsem.run_ref(prog)))
        # chains inside loops / functions, nested chains in taken and untaken arms
        inner = ("if", [(("b", False), [("emit", "i0")]), (("b", True), [("emit", "i1")])], [("emit", "ie")])
        for outer_truth in (True, False):
            prog = [("if", [(("b", outer_truth), [inner, ("emit", "o0")])], [inner, ("emit", "oe")]), ("if", [(("b", False), [("emit", "n")])], None),
                    ("repeat", "i", 2, [("if", [(("==", ("v", "i"), 0), [("emit", "z")])], [("emit", "nz")])]),
                    ("func", "f", ["p"], [("if", [(("v", "p"), [("emit", "ft")])], [("emit", "ff")])]), ("run", "f", [("b", True)]), ("run", "f", [("b", False)])]
            out.append(comp("\n".join(refsem.to_lines(prog)), {}, ref=refsem.run_ref(prog)))
        return out


def refcase(text, out, vars_=None, prints=None):
    return comp(text, {}, ref={"status": "OK", "out": out, "vars": vars_ or {}, "prints": prints or []})


class C06(RefProp):
    id = "C06"
    focus = "loop"
    rule = "structured programs weighted towards REPEAT/FOR/WHILE with and without counters, BREAKLOOP/CONTINUELOOP (all aliases) under 0-2 IFs; counts 0,1,2,19999,20000,20001 in the corpus; distinct = distinct program text"
    explanation = "model-vs-implementation plus the iteration-list reference semantics as oracle"

    def corpus(self, tier):
        out = []
        # the counter name is checked whatever the count is (also 0 iterations, also a computed 0)
        for head in ("REPEAT 1x,0", "FOR $c,1-1", "REPEAT a-b,0", "VAR z 0\nREPEAT 9q,z", "REPEAT i,2\n    REPEAT 1x,i"):
            out.append(comp(head + "\n    STRING body\nSTRING after"))
        # BREAK and PAUSE are keys, not loop control: their lines are emitted and the loop goes on
        out.append(refcase("REPEAT 3\n    BREAK\n    STRING x", ["BREAK", "STRING x"] * 3))
        out.append(refcase("REPEAT i,2\n    IF i==0\n        break\n    PAUSE\n    $STRING i", ["BREAK", "PAUSE", "STRING 0", "PAUSE", "STRING 1"]))
        out.append(refcase("WHILE w,w<2\n    Break\n    CTRL BREAK", ["BREAK", "CTRL BREAK"] * 2))
        # the WHILE counter counts completed iterations, also those cut short by CONTINUELOOP, with a condition that does
        # not depend on the counter (seed C06-K: with `WHILE k,k<n` the same change only shows as a loop that never ends)
        out.append(refcase("VAR n 0\nWHILE c,n<4\n    VAR n n+1\n    IF n==2\n        CONTINUELOOP\n    $STRING c", ["STRING 0", "STRING 2", "STRING 3"], {"n": 4}))
        out.append(refcase("VAR n 0\nWHILE c,n<3\n    VAR n n+1\n    $STRING c\n    CONTINUE\n    STRING never", ["STRING 0", "STRING 1", "STRING 2"], {"n": 3}))
        out.append(refcase("VAR n 0\nWHILE k,n<5\n    VAR n n+1\n    IF k<2\n        IF TRUE\n            CONTINUE_LOOP\n    $STRING k", ["STRING 2", "STRING 3", "STRING 4"], {"n": 5}))
        for n in [0, 1, 2, 3]:
            for ctr in (None, "i"):
                for brk in (None, "break", "continue"):
                    for at in (0, 1):
                        body = [("emitx", ("+", ("s", "it"), ("v", "i") if ctr else 0))]
                        if brk:
                            body.append(("if", [(("==", ("v", "i") if ctr else 1, at), [("emit", "pre"), (brk,)])], None))
                        body.append(("emit", "tail"))
                        prog = [("repeat", ctr, n, body), ("emit", "after")]
                        if ctr:
                            prog.append(("notexist", "i"))
                        out.append(comp("\n".join(refsem.to_lines(prog)), {}, ref=refsem.run_ref(prog)))
        big = [20000, 20001] if tier == "thorough" else [20001]
        for n in big:
            prog = [("var", "c", 0), ("repeat", None, n, [("var", "c", ("+", ("v", "c"), 1))]), ("emitx", ("v", "c"))]
            out.append(comp("\n".join(refsem.to_lines(prog)), {}, ref=refsem.run_ref(prog), timeout=120.0))
        # nested loops: break hits the innermost only
        prog = [("repeat", "i", 3, [("repeat", "j", 3, [("if", [(("==", ("v", "j"), 1), [("break",)])], None), ("emitx", ("+", ("*", ("v", "i"), 10), ("v", "j")))]), ("emit", "outer")])]
        out.append(comp("\n".join(refsem.to_lines(prog)), {}, ref=refsem.run_ref(prog)))
        prog = [("var", "n", 0), ("while", None, ("<", ("v", "n"), 3), [("var", "n", ("+", ("v", "n"), 1)), ("if", [(("==", ("v", "n"), 2), [("continue",)])], None), ("emitx", ("v", "n"))])]
        out.append(comp("\n".join(refsem.to_lines(prog)), {}, ref=refsem.run_ref(prog)))
        return out


class C07(RefProp):
    id = "C07"
    focus = "func"
    rule = "structured programs weighted towards FUNC/RUN/RETURN; arity 0..8 with string arguments containing commas and parentheses in the corpus; distinct = distinct program text"
    explanation = "model-vs-implementation plus the positional-binding reference semantics as oracle"

    def corpus(self, tier):
        out = []
        pool = [("s", "a,b"), ("s", "(x)"), 7, ("+", 1, 2), ("s", "p,(q"), ("*", 2, 3), ("s", ""), 0, ("-", 9, 4)]
        # argument text is kept exactly: runs of blanks, tabs and other white space inside string literals
        for txt in ["a  b", "id,   (name)", "x\ty", " lead", "trail  ", "a\xa0\xa0b", "two   ,   three"]:
            prog = [("func", "say", ["m"], [("emitx", ("+", ("s", "<"), ("+", ("v", "m"), ("s", ">"))))]), ("run", "say", [("s", txt)]),
                    ("func", "two", ["m", "n"], [("emitx", ("+", ("v", "m"), ("v", "n")))]), ("run", "two", [("s", txt), ("s", txt)])]
            out.append(comp("\n".join(refsem.to_lines(prog)), {}, ref=refsem.run_ref(prog)))
        for k in range(0, 9):
            params = ["p%d" % j for j in range(k)]
            body = [("emitx", ("+", ("s", p + "="), ("v", p))) for p in params] + [("emit", "end")]
            args = [pool[(j * 2) % len(pool)] for j in range(k)]
            prog = [("func", "f", params, body), ("run", "f", args), ("emit", "after")]
            out.append(comp("\n".join(refsem.to_lines(prog)), {}, ref=refsem.run_ref(prog)))
            if k:
                prog2 = [("func", "f", params, body), ("run", "f", args[:-1])]
                out.append(comp("\n".join(refsem.to_lines(prog2)), {}, ref=refsem.run_ref(prog2)))
        # a definition brought in by START / STARTENV replaces the earlier one of the same name (also a different arity)
        import props2
        for imp in ("START", "STARTENV", "STARTCODE"):
            for libdef in ("FUNC f\n    STRING new", "FUNC f a\n    $STRING \"new\"+a"):
                out.append(props2.fcase({("main.txt",): "FUNC f\n    STRING old\nRUN f\n%s lib\nRUN f\nRUN f 1" % imp, ("lib.txt",): libdef}, ("main.txt",)))
                out.append(props2.fcase({("main.txt",): "FUNC f\n    STRING old\nIF TRUE\n    %s lib\n    RUN f\nRUN f" % imp, ("lib.txt",): libdef}, ("main.txt",)))
        # RETURN leaves the loop at once: the count is not evaluated again after it
        for t in ["FUNC f k\n    REPEAT k\n        VAR k 0-1\n        RETURN\n    STRING never\nRUN f 2\nSTRING after", "FUNC f k\n    REPEAT i,k\n        IF i==1\n            VAR k \"x\"\n            RETURN\n        $STRING i\nRUN f 3\nSTRING after",
                  "VAR n 2\nREPEAT n\n    VAR n 30000\n    RETURN\nSTRING never", "VAR n 2\nREPEAT n\n    STRING once\n    VAR n 0-5\n    BREAKLOOP\nSTRING after"]:
            out.append(comp(t))
        # booleans stay booleans through argument lists
        for t in ["FUNC two a,b\n    $STRING a\n    $STRING \"v:\"+b\nRUN two TRUE,2\nRUN two 1==2,FALSE", "VAR flag FALSE\nFUNC g flag,n\n    PASS\nRUN g TRUE,1\n$STRING flag"]:
            out.append(comp(t))
        # RETURN from nested loops/ifs ends only the function; at top level ends the program
        prog = [("func", "f", [], [("repeat", "i", 3, [("if", [(("==", ("v", "i"), 1), [("emit", "r"), ("return",)])], None), ("emit", "b")]), ("emit", "unreached")]),
                ("run", "f", []), ("emit", "after"), ("return",), ("emit", "never")]
        out.append(comp("\n".join(refsem.to_lines(prog)), {}, ref=refsem.run_ref(prog)))
        prog = [("func", "f", [], [("break",)]), ("repeat", None, 2, [("run", "f", [])])]
        out.append(comp("\n".join(refsem.to_lines(prog)), {}, ref=refsem.run_ref(prog)))
        prog = [("func", "f", [], [("emit", "old")]), ("func", "f", [], [("emit", "new")]), ("run", "f", []), ("run", "g", [])]
        out.append(comp("\n".join(refsem.to_lines(prog)), {}, ref=refsem.run_ref(prog)))
        return out


class C08(RefProp):
    id = "C08"
    focus = "scope"
    rule = "structured programs weighted towards reads, assignments and first definitions at every nesting level with EXIST/NOTEXIST probes and early exits; distinct = distinct program text"
    explanation = "model-vs-implementation plus the frame-stack reference semantics as oracle (output, final top-level variables)"

    def corpus(self, tier):
        # an assignment to a visible outer variable reaches the enclosing code also when the only thing
        # the block does is import the file that assigns it (every block kind x import kind x 1-2 levels)
        out = []
        blocks = [["IF TRUE"], ["REPEAT 2"], ["WHILE w,w<1"], ["IF FALSE", "@PASS", "ELSE"], ["IF TRUE", "@IF TRUE"], ["REPEAT 1", "@WHILE k,k<1"]]
        for b in blocks:
            for imp in ("START", "STARTENV", "STARTCODE"):
                for sub in ("VAR x 5", "VAR x x+4\nVAR fresh 1", "IF TRUE\n    VAR x 7"):
                    head, depth = [], 0
                    for l in b:
                        if l.startswith("@"):
                            depth_here = depth if l[1:] == "PASS" else depth
                            head.append("    " * depth + l[1:])
                            if l[1:] != "PASS":
                                depth += 1
                        else:
                            head.append("    " * max(depth - 1, 0) + l if l == "ELSE" else "    " * depth + l)
                            depth = (max(depth - 1, 0) if l == "ELSE" else depth) + 1
                    main = ["VAR x 1"] + head + ["    " * depth + imp + " sub"] + ["$STRING x", "NOTEXIST fresh"]
                    out.append({"kind": "comp", "files": {"main.txt": "\n".join(main), "sub.txt": sub}, "main": "main.txt", "opts": {}})
                    fn = ["VAR x 1", "FUNC f", "    " + imp + " sub", "RUN f", "$STRING x"]
                    out.append({"kind": "comp", "files": {"main.txt": "\n".join(fn), "sub.txt": sub}, "main": "main.txt", "opts": {}})
        # an assignment to an outer variable survives when the branch that made it leaves by BREAK / CONTINUE / RETURN
        for t in ["VAR a 1\nREPEAT 2\n    IF TRUE\n        VAR a 50\n        BREAKLOOP\n$STRING a", "VAR hits 0\nREPEAT i,2\n    IF TRUE\n        IF i>=0\n            VAR hits hits+1\n            CONTINUELOOP\n$STRING hits",
                  "VAR state \"init\"\nFUNC f\n    IF TRUE\n        VAR state \"done\"\n        RETURN\nRUN f\n$STRING state", "VAR a 1\nIF FALSE\n    PASS\nELSE\n    VAR a 2\n    RETURN\nSTRING never"]:
            out.append(comp(t))
        # the system variable follows the same block rules: set inside blocks at any depth, read afterwards
        for t in ["IF TRUE\n    DEFAULT_DELAY 5\n$STRING $DEFAULT_DELAY", "FUNC f\n    REPEAT 2\n        IF TRUE\n            DEFAULTDELAY $DEFAULT_DELAY+7\nRUN f\n$STRING $DEFAULT_DELAY",
                  "DEFAULT_DELAY 3\nWHILE w,w<2\n    DEFAULT_DELAY $DEFAULT_DELAY+1\n    $STRING $DEFAULT_DELAY\n$STRING $DEFAULT_DELAY", "REPEAT 3\n    DEFAULT_DELAY 9\n    BREAKLOOP\n$STRING $DEFAULT_DELAY",
                  # a parameter / counter named like a visible variable: the variable is still there afterwards
                  "VAR n 10\nFUNC f n\n    PASS\nRUN f 7\n$STRING n\nEXIST n", "FUNC down n\n    IF n>0\n        RUN down n-1\n    $STRING n\nRUN down 2", "REPEAT count,2\n    FUNC p count\n        PASS\n    RUN p 5\n    $STRING count"]:
            out.append(comp(t))
        return out


class C18(RefProp):
    id = "C18"
    focus = "print"
    fields = ["out", "prints", "err"]
    rule = "structured programs with PRINT/$PRINT at every nesting; PRINT->PASS metamorphic pairs; prints before a failure; distinct = distinct program text"
    explanation = "print list compared with the model and with the execution-order reference; replacing PRINT by PASS must not change the output (metamorphic, implementation only)"

    def corpus(self, tier):
        out = []
        for t in ["PRINT a\nSTRING x\nDELAY -1", "PRINT a\n    b\n    c\n$PRINT 1+1\nFOO\n$STRING nosuch", "REPEAT i,3\n    $PRINT i\n    IF i==1\n        $STRING 1/0",
                  "FUNC f p\n    PRINT in\n    $PRINT p\nRUN f 1\nRUN f 2\nPRINT done", "PRINT\nPRINT  spaced  \n$PRINT \"  q \""]:
            out.append(comp(t))
        import props2
        F = props2.fcase
        out.append(F({("m.txt",): "STARTENV d.lib\nPRINT main1\nRUN shout 1\nPRINT main2", ("d", "lib.txt"): "PRINT lib1\nFUNC shout x\n    PRINT inlib\n    $PRINT x"}, ("m.txt",),
                     expect_print_files=[("lib.txt", 1), ("m.txt", 2), ("lib.txt", 3), ("lib.txt", 4), ("m.txt", 4)]))
        out.append(F({("m.txt",): "START a\nSTARTCODE b\nPRINT end\nDELAY -1", ("a.txt",): "PRINT\n    a1\n    a2", ("b.txt",): "REPEAT 2\n    PRINT b"}, ("m.txt",),
                     expect_print_files=[("a.txt", 2), ("a.txt", 3), ("b.txt", 2), ("b.txt", 2), ("m.txt", 3)]))
        out.append(comp("PRINT\n    one\n    two\n    three\nPRINT four\n    five", {}, expect_prints=["one", "two", "three", "four", "five"]))
        # prints made before a stack overflow are kept like those before any other failure
        for L in (5, 9, 20):
            out.append(comp("PRINT top\nFUNC f\n    PRINT in\n    RUN f\nRUN f", {"stack_limit": L}))
            out.append(comp("PRINT top\n" + "\n".join("    " * j + "IF TRUE\n" + "    " * (j + 1) + "PRINT d%d" % j for j in range(L + 1)), {"stack_limit": L}))
            files = {("m.txt",): "PRINT top\nSTART f1"}
            for j in range(1, L + 2):
                files[("f%d.txt" % j,)] = "PRINT in%d\nSTART f%d" % (j, j + 1)
            files[("f%d.txt" % (L + 2),)] = "STRING end"
            out.append(F(files, ("m.txt",), {"stack_limit": L}))
        for t in ["FUNC f\n    PRINT a\n\n    PRINT b\n  \n    $PRINT 1+1\nRUN f", "IF TRUE\n\n    PRINT x\n\n\n    PRINT y", "REPEAT 2\n    PRINT\n        g1\n\n        g2\n\n    PRINT after"]:
            out.append(comp(t))
        # the nested-list input form numbers lines as the text form does (also after several nested blocks)
        out.append({"kind": "raw", "lines": ["PRINT a", "REPEAT 2", ["PRINT in"], "PRINT after", "IF TRUE", ["PRINT x", "IF TRUE", ["PRINT y"]], "PRINT end", "PRINT", ["g1", "g2"], "$PRINT 1+1"], "opts": {}})
        out.append({"kind": "raw", "lines": ["FUNC f", ["PRINT inf"], "RUN f", "PRINT p2", "WHILE w,w<1", ["PRINT inw"], "PRINT last"], "opts": {}})
        # imported files end their lines at "\n" only, like the main file: prints after a form feed / U+2028 keep
        # their line numbers and their text
        for ch in ("\x0c", "\u2028", "\x0b", "\x85"):
            for kind in ("START", "STARTENV", "STARTCODE"):
                out.append(F({("m.txt",): "PRINT m\n%s lib\nPRINT end" % kind, ("lib.txt",): "PRINT one\n" + ch + "\nPRINT two" + ch + "tail\nSTRING x\nPRINT three"}, ("m.txt",)))
        for kind in ("START", "STARTENV", "STARTCODE"):
            out.append(F({("m.txt",): "PRINT m1\nIF TRUE\n    PRINT m2\n    %s a\nPRINT never" % kind, ("a.txt",): "PRINT a1\nSTART b", ("b.txt",): "PRINT b1\nDELAY -1"}, ("m.txt",),
                         expect_prints=["m1", "m2", "a1", "b1"]))
            out.append(F({("m.txt",): "PRINT m1\n%s a\n$PRINT \"\"\nPRINT m3\nDELAY -1" % kind, ("a.txt",): "PRINT a1"}, ("m.txt",), expect_prints=["m1", "a1", "", "m3"]))
        return out

    def oracle(self, c, i):
        if "expect_print_files" in c and isinstance(i.get("prints"), list):
            got = [(dec(p[2][-1]) if p[2] else None, p[1]) for p in i["prints"]]
            if got != [tuple(x) for x in c["expect_print_files"]]:
                return ("print_location_wrong", "prints located at %r, expected %r" % (got, c["expect_print_files"]))
        if "expect_prints" in c and isinstance(i.get("prints"), list):
            if [dec(p[0]) for p in i["prints"]] != c["expect_prints"]:
                return ("print_list_wrong", "prints %r, expected %r" % ([dec(p[0]) for p in i["prints"]], c["expect_prints"]))
        return RefProp.oracle(self, c, i)

    def extra_checks(self, rng, tier, escalate):
        n = 150 if tier == "quick" and not escalate else 2000
        viol = []
        ev = 0
        for _ in range(n):
            r = rsub(rng)
            g = refsem.RefGen(r, focus="print")
            prog = g.program()

            def swap(p, mode):
                o = []
                for s in p:
                    if s[0] in ("print", "printx", "printg"):
                        o.append(("emit_pass",) if mode == "pass" else ("print", "changed"))
                    elif s[0] == "if":
                        o.append(("if", [(c, swap(b, mode)) for c, b in s[1]], None if s[2] is None else swap(s[2], mode)))
                    elif s[0] in ("repeat", "while"):
                        o.append(s[:3] + (swap(s[3], mode),))
                    elif s[0] == "func":
                        o.append(s[:3] + (swap(s[3], mode),))
                    else:
                        o.append(s)
                return o
            base_text = "\n".join(refsem.to_lines(prog))
            i0 = common.run_impl_case(comp(base_text))
            ev += 1
            if i0["status"] != "OK":
                continue
            for mode in ("pass", "text"):
                text = "\n".join(l for l in self.patch(prog, mode))
                i1 = common.run_impl_case(comp(text))
                ev += 1
                if i1["status"] != "OK" or i1["out"] != i0["out"]:
                    viol.append((comp(text, note="PRINT variant of: " + base_text), "print_visible", "replacing PRINT (%s) changed the output" % mode))
        return {"violations": viol, "evaluations": ev, "summary": {"print_swap_programs": n}}

    def patch(self, prog, mode):
        def swap(p):
            o = []
            for s in p:
                if s[0] in ("print", "printx", "printg"):
                    o.append(("emit_raw", "PASS") if mode == "pass" else ("print", "changed text"))
                elif s[0] == "if":
                    o.append(("if", [(c, swap(b)) for c, b in s[1]], None if s[2] is None else swap(s[2])))
                elif s[0] in ("repeat", "while", "func"):
                    o.append(s[:3] + (swap(s[3]),))
                else:
                    o.append(s)
            return o
        lines = []
        for l in refsem.to_lines([("emit", "\x00RAW\x00" + x[1]) if x[0] == "emit_raw" else x for x in self._flatten_raw(swap(prog))]):
            lines.append(l.replace("STRING \x00RAW\x00", "").replace("string \x00RAW\x00", ""))
        return lines

    def _flatten_raw(self, p):
        o = []
        for s in p:
            if s[0] == "if":
                o.append(("if", [(c, self._flatten_raw(b)) for c, b in s[1]], None if s[2] is None else self._flatten_raw(s[2])))
            elif s[0] in ("repeat", "while", "func"):
                o.append(s[:3] + (self._flatten_raw(s[3]),))
            elif s[0] == "emit_raw":
                o.append(("emit", "\x00RAW\x00" + s[1]))
            else:
                o.append(s)
        return o


# ====================================================================================== C09
class C09(Prop):
    id = "C09"
    fields = ["status"]
    functional = False
    quick_n = 3000
    thorough_n = 150000
    rule = "malformed stream (mutated programs, token soup in every expression position), every command x argument kind x block shape, every option setting; distinct = distinct text"
    explanation = "any exception outside the CompilationError family, or a failing stack_traceback(), is by itself a concrete violation (no model needed); crash sites are compared with the model's Crash constructors"

    ARGK = ["", "x", "1", "-1", "1.5", '"s"', "TRUE", "a b", "1,2", "(", ")", '"', "$", "1/0", "é", "²", "½", " ", "nosuch", "T", "TRU", ".", "-", "!", "!(", "1 +", "^", "9^9", "a,", ",a", "$x 1", "1a 2", "x  (", "f 1,", "..", ".x.", "x.", "\t"]

    def corpus(self, tier):
        out = []
        names = []
        for (_, cl) in PALETTE_NAMES:
            names.extend(cl)
        names += ["FOO", "$FOO", "$", "$$", "$IF", "$WHILE", "$FUNC", "$REPEAT", "$IGNORE"]
        r = random.Random(5)
        for nm in names:
            for arg in self.ARGK:
                for shape in range(5):
                    head = nm + (" " + arg if arg else "")
                    if shape == 0:
                        t = head
                    elif shape == 1:
                        t = head + "\n    " + (arg or "x") + "\n    y"
                    elif shape == 2:
                        t = head + "\n    a\n        b"
                    elif shape == 3:
                        t = head + '\n    """\n      q\n    """'
                    else:
                        t = "$" + head
                    out.append(comp(t))
        if tier != "thorough":
            out = r.sample(out, 2500)
        allopts = [dict(include_comments=a, flipper_commands=b, supress_command_not_exist=c2) for a in (False, True) for b in (False, True) for c2 in (False, True)]
        for nm in names:
            for o in allopts:
                out.append(comp(nm, o))
                out.append(comp(nm + "   ", o))
                out.append(comp("IF TRUE\n    " + nm + "\n    " + nm + " x", o))
        import props2
        F = props2.fcase
        for leave in ("BREAKLOOP", "CONTINUE", "RETURN", "BREAK_LOOP\nSTRING never"):
            for kind in ("START", "STARTCODE", "STARTENV"):
                out.append(F({("m.txt",): "%s a\n%s a\nREPEAT 2\n    %s a\nSTRING end\n%s" % (kind, kind, kind, leave.split("\n")[0]), ("a.txt",): "STRING in\n" + leave}, ("m.txt",)))
                out.append(F({("m.txt",): "%s\n    a\n    b\n    a" % kind, ("a.txt",): leave, ("b.txt",): leave}, ("m.txt",)))
        for o in [dict(stack_limit=1), dict(stack_limit=0), dict(stack_limit=-3), dict(flipper_commands=False), dict(include_comments=True, supress_command_not_exist=True)]:
            for t in ["IF TRUE\n    IF TRUE\n        STRING a", "FUNC f\n    RUN f\nRUN f", "ALTCHAR 1\nREM x\nFOO", "REPEAT 2\n    WHILE i,i<2\n        PASS"]:
                out.append(comp(t, o))
        # branches of the implementation that the random streams reach rarely (found by measuring line
        # coverage of /repo under the quick streams): float overflow, 0 to a negative power, grouped RETURN,
        # nested lines under IGNORE, imports climbing above the root, huge repetition counts, `$$` prefixes
        for t in ["$STRING 2.5^100000", "VAR q 10.5^400\n$STRING q", "$STRING 0^(0-1)", "VAR q 0.0^(0-1)", "RETURN\n    1\n    2", "FUNC f\n    RETURN\n        1\n        2\nRUN f",
                  "IGNORE\n    a\n        b", "IGNORE\n    a\n    b", "REPEAT 2.0\n    STRING a", "REPEAT 4/2\n    STRING a", "VAR abc 309979\n$REM ((abc)^2)*\"y}[B\"",
                  "$$DELAY 5", "$$STRING 1+1", "$$$ENTER 2", "$$FOO 1+1", "VAR x 1\nVAR x 2\n$STRING x", "WHITESPACE 99", "WHITESPACE 100", "$ENTER 99"]:
            out.append(comp(t))
        for dots in (3, 12, 40):
            out.append(F({("m.txt",): "START " + "." * dots + "x\nSTRING after"}, ("m.txt",)))
        return out

    def generate(self, rng, n, tier):
        cases = []
        for _ in range(n):
            r = rsub(rng)
            x = r.random()
            pg = gen.ProgGen(r, valid=r.choice([0.9, 0.7, 0.5]))
            text = "\n".join(gen.render(pg.program(), r.choice(gen.UNITS), r, blank=0.1))
            if x < 0.6:
                for _ in range(r.randint(1, 4)):
                    text = gen.mutate_text(r, text)
                cases.append(comp(text))
            elif x < 0.8:
                cmd = r.choice(["$STRING", "DELAY", "VAR x", "IF", "WHILE", "REPEAT", "RUN f", "$ALT", "RETURN", "WHITESPACE", "$ENTER", "REPEAT i,", "WHILE i,", "$PRINT", "ELIF"])
                body = "\n    PASS" if cmd.split()[0] in ("IF", "WHILE", "REPEAT", "ELIF") else ""
                cases.append(comp("FUNC f a\n    PASS\nVAR hello 1\n" + cmd + " " + gen.token_soup(r) + body))
            elif x < 0.9:
                cases.append({"kind": "raw", "lines": self.mangle_raw(r, gen.to_raw(pg.program())), "opts": {}})
            else:
                cases.append(comp(text, dict(stack_limit=r.choice([1, 2, 3, 0]), flipper_commands=r.random() < 0.5, include_comments=r.random() < 0.5)))
        return cases

    def mangle_raw(self, r, raw):
        if r.random() < 0.3 and raw:
            j = r.randrange(len(raw))
            raw = raw[:j] + [r.choice(["", " ", [], ["x"], [[]], [["a"], "b"]])] + raw[j:]
        return raw

    @staticmethod
    def host_limit(i):
        """the two recorded host-limit defects (known_findings.json KF-C09-2 / KF-C09-3), identified by
        exception type + message / call site; the model has unbounded integers and no host stack"""
        if i["status"] != "CRASH":
            return None
        if i["err"] == "ValueError" and "integer string conversion" in i.get("msg", ""):
            return "int_str_digit_limit"
        if i["err"] == "RecursionError" and i.get("site") == "expr-recursion":
            return "expression_recursion"
        return None

    def oracle(self, c, i):
        if i["status"] == "CRASH":
            h = self.host_limit(i)
            if h == "int_str_digit_limit":
                return (h, "ValueError escaped (%s): an integer of more than 4300 digits is converted to text" % i.get("site"))
            if h == "expression_recursion":
                return (h, "RecursionError escaped: the expression tree is deeper than the host stack allows")
            return ("crash:%s@%s" % (i["err"], i.get("site")), "%s escaped (%s): %s" % (i["err"], i.get("site"), i.get("msg", "")[:120]))
        if i["status"] == "CE" and isinstance(i.get("trace"), dict):
            return ("trace_crash:" + i["trace"]["trace_crash"], "stack_traceback() raised " + i["trace"]["trace_crash"])
        return None

    def ignore_disagreement(self, c, m, i):
        # alpha_C09 = crash or not; the recorded host-limit defects are outside the model
        if self.host_limit(i):
            return True
        return (m["status"] == "CRASH") == (i["status"] == "CRASH")


PALETTE_NAMES = []


def load_palette_names():
    """names of every palette class, read from the generated table"""
    global PALETTE_NAMES
    p = os.path.join(common.VERIF, "coq", "Generated", "Tables.v")
    if not os.path.exists(p):
        return
    src = open(p).read()
    res = []
    for m in re.finditer(r"\(\(\[([0-9;]*)\]%N : str\), (Simple|Block) \(mk(?:Simple|Block) \[([^\]]*(?:\][^\]]*?)*?)\] (?:Required|Allowed|NotAllowed)", src):
        cname = "".join(chr(int(x)) for x in m.group(1).split(";") if x)
        names = ["".join(chr(int(x)) for x in g.split(";") if x) for g in re.findall(r"\(\[([0-9;]*)\]%N : str\)", "[" + m.group(3) + "]")]
        res.append((cname, names))
    PALETTE_NAMES = res


load_palette_names()

REGISTRY = {}


def register(cls):
    REGISTRY[cls.id] = cls
    return cls


for _c in (C01, C02, C03, C04, C05, C06, C07, C08, C09, C18):
    register(_c)


def get(pid):
    import props2
    return REGISTRY[pid]()
