"""Shared pieces of the correspondence harness: case encoding for the extracted-model driver,
the implementation runner (public API of /repo), canonical records and their comparison."""
import json, os, shutil, signal, subprocess, sys, tempfile, traceback

import noise

VERIF = os.path.dirname(os.path.dirname(os.path.abspath(__file__)))
REPO = os.environ.get("VERIF_REPO", "/repo")
DRIVER = os.path.join(VERIF, "driver", "driver")
SCRATCH_BASE = ["tmp", "dsv"]

DEFAULT_OPTS = dict(stack_limit=20, include_comments=False, flipper_commands=True,
                    supress_command_not_exist=False, use_project_config=True)


# ------------------------------------------------------------------ encoding for the driver
def enc_str(s):
    return "S" + ".".join(str(ord(c)) for c in s)


def enc_value(v):
    if isinstance(v, bool):
        return "B %d" % int(v)
    if isinstance(v, int):
        return "I %d" % v
    if isinstance(v, float):
        return "F %s" % float.hex(v)
    if isinstance(v, str):
        return "T " + enc_str(v)
    if isinstance(v, list):
        return "L %d %s" % (len(v), " ".join(enc_value(x) for x in v))
    if v is None:
        return "N"
    raise TypeError(v)


def enc_opts(o):
    o = dict(DEFAULT_OPTS, **(o or {}))
    return "%d %d %d %d %d" % (o["stack_limit"], o["include_comments"], o["flipper_commands"],
                               o["supress_command_not_exist"], o["use_project_config"])


def enc_path(p):
    return "%d %s" % (len(p), " ".join(enc_str(c) for c in p))


def as_read(content):
    """what Python's text-mode read returns for a file holding `content` (universal newlines): the model's
    file system maps a path to the decoded text the code sees"""
    return content.replace("\r\n", "\n").replace("\r", "\n")


def enc_fs(root, files):
    items = []
    for rel, content in sorted(files.items()):
        items.append(enc_path(root + rel.split("/")) + " " + enc_str(as_read(content)))
    return "%d %s" % (len(items), " ".join(items))


def enc_raw(r):
    if isinstance(r, list):
        return "K %d %s" % (len(r), " ".join(enc_raw(x) for x in r))
    return "R " + enc_str(r)


def encode_case(c):
    k = c["kind"]
    if k == "tok":
        vs = c.get("vars", {})
        return "TOK %d %s %s" % (len(vs), " ".join(enc_str(n) + " " + enc_value(v) for n, v in vs.items()), enc_str(c["expr"]))
    if k == "comp":
        root = c.get("root")
        files = c.get("files")
        if files is None:
            return "COMP %s 0 0 %s" % (enc_opts(c.get("opts")), enc_str(c["text"]))
        main = c["main"]
        return "COMP %s 1 %s %s %s" % (enc_opts(c.get("opts")), enc_path(root + main.split("/")), enc_fs(root, files), enc_str(as_read(files[main])))
    if k == "raw":
        return "RAWC %s 0 0 %d %s" % (enc_opts(c.get("opts")), len(c["lines"]), " ".join(enc_raw(x) for x in c["lines"]))
    if k == "tab":
        return "TAB " + enc_str(c["text"])
    if k == "isvar":
        return "ISVAR %s %d" % (enc_str(c["name"]), int(c.get("sys", True)))
    if k == "opts":
        y = c.get("project")
        if y is None:
            return "OPTS %s 0" % enc_opts(c["global"])
        parts = []
        for key in ("stack_limit", "include_comments", "flipper_commands", "supress_command_not_exist", "use_project_config"):
            parts.append("1 %d" % int(y[key]) if key in y else "0")
        return "OPTS %s 1 %s" % (enc_opts(c["global"]), " ".join(parts))
    raise ValueError(k)


def run_model(cases, driver=DRIVER, timeout=None):
    """-> list of records (dict) in case order.  A chunk that exceeds its time budget is bisected;
    a single case that is too slow for the extracted model is reported as UNMOD (counted, not compared)."""
    if not cases:
        return []
    if len(cases) > 250:
        out = []
        for k in range(0, len(cases), 250):
            out.extend(run_model(cases[k:k + 250], driver))
        return out
    inp = "\n".join(encode_case(c) for c in cases) + "\n"
    budget = timeout or (60 + 0.5 * len(cases))
    try:
        p = subprocess.run(["bash", "-c", "ulimit -s unlimited 2>/dev/null; exec \"$0\"", driver], input=inp.encode(), stdout=subprocess.PIPE, stderr=subprocess.PIPE,
                           timeout=budget)
        lines = p.stdout.decode().splitlines()
    except subprocess.TimeoutExpired:
        if len(cases) == 1:
            return [{"status": "UNMOD", "err": "model too slow"}]
        h = len(cases) // 2
        return run_model(cases[:h], driver, budget) + run_model(cases[h:], driver, budget)
    out = []
    for ln in lines:
        try:
            out.append(json.loads(ln))
        except Exception:
            out.append({"status": "DRIVER", "err": ln[:200]})
    while len(out) < len(cases):
        out.append({"status": "DRIVER", "err": "no output (rc=%s) %s" % (p.returncode, p.stderr.decode()[-200:])})
    return out


# ------------------------------------------------------------------ implementation side
def cps(s):
    return [ord(c) for c in s]


def dec(l):
    return "".join(chr(c) for c in l)


def val_rec(v):
    if isinstance(v, bool):
        return {"b": v}
    if isinstance(v, int):
        try:
            return {"i": str(v)}
        except ValueError:
            return {"i": "huge"}
    if isinstance(v, float):
        return {"f": repr(v)}
    if isinstance(v, str):
        return {"s": cps(v)}
    if isinstance(v, list):
        return {"l": [val_rec(x) for x in v]}
    if v is None:
        return {"n": None}
    return {"other": type(v).__name__}


class CaseTimeout(BaseException):
    pass


def _alarm(signum, frame):
    raise CaseTimeout()


_impl = None


def impl():
    """import the implementation lazily, with a sandboxed HOME (importing the CLI writes ~/.duckling)"""
    global _impl
    if _impl is None:
        if REPO not in sys.path:
            sys.path.insert(0, REPO)
        import ducklingscript
        from ducklingscript.compiler.tokenization import Tokenizer
        from ducklingscript.compiler.environments.environment import Environment
        from ducklingscript.compiler.environments.variable_environment import VariableEnvironment
        _impl = dict(ds=ducklingscript, Tokenizer=Tokenizer, Environment=Environment, VariableEnvironment=VariableEnvironment)
    return _impl


def path_rec(p):
    if p is None:
        return None
    parts = list(p.parts)
    if parts and parts[0] == "/":
        parts = parts[1:]
    return [cps(x) for x in parts]


def node_rec(n):
    return [path_rec(n.file), [n.line.number, cps(n.line.content)], None if not n.line_2 else [n.line_2.number, cps(n.line_2.content)]]


def prints_rec(std):
    return [[cps(str(d.line.content)), d.line.number, path_rec(d.file)] for d in std]


def compiled_rec(x):
    ds = impl()["ds"]
    return {
        "status": "OK",
        "out": [cps(l) if isinstance(l, str) else {"nonstr": type(l).__name__} for l in x.output],
        "warnings": [[cps(w.error), None if w.stacktrace is None else [node_rec(n) for n in w.stacktrace]] for w in x.warnings],
        "prints": prints_rec(x.std_out),
        "vars": [[cps(k), val_rec(v)] for k, v in x.env.var.user_vars.items()],
        "sysvars": [[cps(k), val_rec(v)] for k, v in x.env.var.system_vars.items()],
        "funcs": [cps(k) for k in x.env.var.functions.keys()],
    }


def error_rec(e):
    ds = impl()["ds"]
    if isinstance(e, ds.CompilationError):
        r = {"status": "CE", "err": type(e).__name__, "msg": str(e.args[0]) if e.args else ""}
        if isinstance(e, ds.GeneralError) and e.stack is not None:
            try:
                r["trace"] = [node_rec(n) for n in e.stack_traceback(-1)]
                r["trace5"] = [node_rec(n) for n in e.stack_traceback(5)]
                r["trace1"] = [node_rec(n) for n in e.stack_traceback(1)]
                r["trace0"] = [node_rec(n) for n in e.stack_traceback(0)]
            except Exception as e2:  # trace rendering must not fail (C09/C10)
                r["trace"] = {"trace_crash": type(e2).__name__}
            try:
                r["prints"] = prints_rec(e.stack.std_out)
            except Exception:
                r["prints"] = None
        else:
            r["trace"] = None
            r["prints"] = None
        return r
    tb = traceback.extract_tb(e.__traceback__)
    site = None
    for fr in reversed(tb):
        if "/ducklingscript/" in fr.filename:
            site = "%s:%s" % (fr.filename.split("/ducklingscript/")[-1], fr.name)
            break
    return {"status": "CRASH", "err": type(e).__name__, "site": site, "msg": str(e)[:200]}


def run_impl_case(c, timeout=20.0):
    I = impl()
    ds = I["ds"]
    signal.signal(signal.SIGALRM, _alarm)
    if not c.get("no_noise"):
        noise.maybe_run(ds)
    # repeating: the implementation may swallow the first CaseTimeout in a broad except clause
    signal.setitimer(signal.ITIMER_REAL, timeout, 1.0)
    scratch = None
    try:
        k = c["kind"]
        if k == "tok":
            env = I["Environment"]()
            for n, v in c.get("vars", {}).items():
                if n.startswith("$"):
                    env.var.system_vars[n] = v
                else:
                    env.var.user_vars[n] = v
            v = I["Tokenizer"].tokenize(c["expr"], None, env)
            return {"status": "OK", "value": val_rec(v)}
        if k == "comp":
            opts = ds.CompileOptions(**dict(DEFAULT_OPTS, **(c.get("opts") or {})))
            if c.get("files") is None:
                return compiled_rec(ds.Compiler(opts).compile(c["text"]))
            root = "/" + "/".join(c["root"])
            scratch = root
            if os.path.exists(root):
                shutil.rmtree(root)
            for rel, content in c["files"].items():
                p = os.path.join(root, *rel.split("/"))
                os.makedirs(os.path.dirname(p), exist_ok=True)
                with open(p, "w", encoding="utf-8", newline="") as f:
                    f.write(content)
            main = os.path.join(root, *c["main"].split("/"))
            # the project config is not part of these cases
            o2 = ds.CompileOptions(**dict(DEFAULT_OPTS, **(c.get("opts") or {}), use_project_config=False))
            return compiled_rec(ds.Compiler(o2).compile_file(main))
        if k == "raw":
            opts = ds.CompileOptions(**dict(DEFAULT_OPTS, **(c.get("opts") or {})))
            return compiled_rec(ds.Compiler(opts).compile(c["lines"], skip_indentation=True))
        if k == "tab":
            tree = ds.Compiler.prepare_for_stack(c["text"].split("\n"))

            def tr(t):
                return [{"blk": tr(i)} if isinstance(i, list) else [i.number, cps(i.content)] for i in t]
            return {"status": "OK", "tree": tr(tree)}
        if k == "isvar":
            return {"status": "OK", "value": I["VariableEnvironment"].is_var(c["name"], c.get("sys", True))}
        if k == "opts":
            import yaml
            from ducklingscript.compiler.environments.project_environment import ProjectEnvironment
            from pathlib import Path
            root = "/tmp/dsv/opts_%d" % os.getpid()
            scratch = root
            shutil.rmtree(root, ignore_errors=True)
            os.makedirs(root)
            if c.get("project") is not None:
                with open(os.path.join(root, "config.yaml"), "w") as f:
                    yaml.dump(c["project"], f)
            before = open(os.path.join(root, "config.yaml")).read() if c.get("project") is not None else None
            g = ds.CompileOptions(**dict(DEFAULT_OPTS, **c["global"]))
            pe = ProjectEnvironment(root_dir=Path(root), compile_options=g)
            o = pe.compile_options

            def lst(o):
                return [o.stack_limit, o.include_comments, o.flipper_commands, o.supress_command_not_exist, o.use_project_config]
            after = open(os.path.join(root, "config.yaml")).read() if c.get("project") is not None else None
            rew = None
            if after is not None and after != before:
                rew = lst(ds.CompileOptions(**(yaml.safe_load(after) or {})))
            elif after is not None:
                # unchanged text: the file was either not rewritten or rewritten identically
                rew = "same-text"
            return {"status": "OK", "effective": lst(o), "rewritten": rew, "after_options": None if after is None else lst(ds.CompileOptions(**(yaml.safe_load(after) or {})))}
        raise ValueError(k)
    except CaseTimeout:
        return {"status": "TIMEOUT"}
    except MemoryError:
        # the address-space bound is the harness's own (check.py): reaching it is a resource bound like the time
        # bound - no observation for this case; many such cases are reported as mass_timeouts
        return {"status": "TIMEOUT", "resource": "memory"}
    except RecursionError as e:
        # where the host stack ran out: inside expression evaluation (a long operator chain) or
        # in the stack of nested blocks/imports
        site = "host-stack"
        try:
            tb = traceback.extract_tb(e.__traceback__)
            inner = [fr for fr in tb if "/ducklingscript/" in fr.filename][-8:]
            if inner and all("/tokenization/" in fr.filename for fr in inner):
                site = "expr-recursion"
        except Exception:
            pass
        return {"status": "CRASH", "err": "RecursionError", "site": site, "msg": ""}
    except Exception as e:
        try:
            return error_rec(e)
        except CaseTimeout:
            return {"status": "TIMEOUT"}
    finally:
        signal.setitimer(signal.ITIMER_REAL, 0)
        if scratch and scratch.startswith("/tmp/dsv/"):
            shutil.rmtree(scratch, ignore_errors=True)


# ------------------------------------------------------------------ comparison
def norm_warnings(ws):
    return sorted({json.dumps(w) for w in ws})


def compare(case, m, i, fields=None):
    """-> None if the records agree, else a short description.  `fields`: restrict the comparison
    (the per-property abstraction alpha_P); None = full fidelity."""
    if m["status"] in ("UNMOD", "DRIVER"):
        return None if m["status"] == "UNMOD" else "driver: " + str(m.get("err"))
    if i["status"] == "TIMEOUT":
        return None
    if m["status"] != i["status"]:
        return "status model=%s%s impl=%s%s" % (m["status"], "/" + m.get("err", "") if m.get("err") else "", i["status"], "/" + i.get("err", "") if i.get("err") else "")

    def want(f):
        return fields is None or f in fields
    if m["status"] == "OK":
        if "effective" in m:
            if m["effective"] != i.get("effective"):
                return "effective options differ: model %s impl %s" % (m["effective"], i.get("effective"))
            if m["rewritten"] is not None and i.get("after_options") != m["rewritten"]:
                return "rewritten config.yaml denotes %s, model %s" % (i.get("after_options"), m["rewritten"])
            return None
        for f in ("value", "tree", "out", "prints", "vars", "sysvars", "funcs"):
            if f in m and want(f):
                a, b = m.get(f), i.get(f)
                if f == "vars" or f == "sysvars":
                    a, b = sorted(a, key=json.dumps), sorted(b, key=json.dumps)
                if f == "funcs":
                    a, b = sorted(a), sorted(b)
                if a != b:
                    return "field %s differs" % f
        if "warnings" in m and want("warnings"):
            if norm_warnings(m["warnings"]) != norm_warnings(i["warnings"]):
                return "field warnings differs"
        return None
    if m["status"] == "CE":
        if want("err") and m["err"] != i["err"]:
            return "error class model=%s impl=%s" % (m["err"], i["err"])
        if "kind" in m and want("line"):
            # tab errors: the line number is in the message
            import re
            nums = re.findall(r"\d+", i.get("msg", ""))
            if m.get("line") is not None and (not nums or int(nums[-1]) != m["line"]):
                return "tab error line model=%s impl=%s" % (m.get("line"), i.get("msg"))
        if "trace" in m and want("trace"):
            if m["trace"] != i.get("trace"):
                return "trace differs"
        if m.get("trace") is not None and isinstance(i.get("trace"), list) and want("prints") and m.get("prints") != i.get("prints"):
            return "prints at failure differ"
        return None
    if m["status"] == "CRASH":
        return None if (not want("err") or m["err"] == i["err"]) else "crash kind model=%s impl=%s" % (m["err"], i["err"])
    return None


def show(case):
    """human-readable form of a case for evidence / replay files"""
    c = dict(case)
    return c
