#!/usr/bin/env python3
"""Differential run (model health): random cases -> model and implementation -> full-fidelity compare."""
import json, os, random, sys, time, collections
sys.path.insert(0, os.path.dirname(os.path.abspath(__file__)))
import common, gen


def make_cases(seed, n, stream):
    rng = random.Random(seed)
    cases = []
    for idx in range(n):
        r = random.Random(rng.getrandbits(64))
        if stream == "tok":
            names = r.sample(gen.NAMES, r.randint(0, 5))
            vs = {}
            for nm in names:
                vs[nm] = r.choice([r.randint(-5, 20), r.randint(0, 3), "s" + nm, True, False, 1.5, 0.25])
            if r.random() < 0.25:
                e = gen.token_soup(r)
            else:
                e = gen.ExprGen(r, names=names or [], typed=r.choice([1.0, 0.9, 0.6]), commas=r.random() < 0.2).expr(r.randint(0, 4))
            cases.append({"kind": "tok", "vars": vs, "expr": e})
        elif stream == "tab":
            pg = gen.ProgGen(r, valid=0.95)
            text = "\n".join(gen.render(pg.program(), r.choice(gen.UNITS), r, blank=0.15))
            if r.random() < 0.5:
                text = gen.mutate_text(r, text)
            cases.append({"kind": "tab", "text": text})
        elif stream == "prog":
            pg = gen.ProgGen(r, valid=r.choice([1.0, 0.95, 0.8]))
            text = "\n".join(gen.render(pg.program(), r.choice(gen.UNITS), r, blank=0.1))
            opts = {}
            if r.random() < 0.3:
                opts = dict(include_comments=r.random() < 0.5, flipper_commands=r.random() < 0.7, supress_command_not_exist=r.random() < 0.3, stack_limit=r.choice([2, 3, 5, 20, 20, 20]))
            cases.append({"kind": "comp", "text": text, "opts": opts})
        elif stream == "malformed":
            pg = gen.ProgGen(r, valid=0.8)
            text = "\n".join(gen.render(pg.program(), r.choice(gen.UNITS), r, blank=0.1))
            for _ in range(r.randint(1, 3)):
                text = gen.mutate_text(r, text)
            cases.append({"kind": "comp", "text": text, "opts": {}})
        elif stream == "raw":
            pg = gen.ProgGen(r, valid=0.95)
            cases.append({"kind": "raw", "lines": gen.to_raw(pg.program()), "opts": {}})
        else:
            raise ValueError(stream)
    return cases


def main():
    stream = sys.argv[1]
    n = int(sys.argv[2])
    seed = int(sys.argv[3]) if len(sys.argv) > 3 else 1
    cases = make_cases(seed, n, stream)
    t0 = time.time()
    ms = common.run_model(cases)
    t1 = time.time()
    stats = collections.Counter()
    bad = []
    for c, m in zip(cases, ms):
        i = common.run_impl_case(c)
        stats["model:" + m["status"]] += 1
        stats["impl:" + i["status"] + (":" + i.get("err", "") if i["status"] == "CRASH" else "")] += 1
        d = common.compare(c, m, i)
        if d:
            bad.append((c, m, i, d))
    t2 = time.time()
    print("cases", n, "model %.1fs impl %.1fs" % (t1 - t0, t2 - t1), dict(stats))
    print("disagreements", len(bad))
    kinds = collections.Counter(d for _, _, _, d in bad)
    print(kinds.most_common(20))
    for c, m, i, d in bad[: int(os.environ.get("SHOW", "5"))]:
        print("-----", d)
        print(json.dumps(c, ensure_ascii=False)[:1500])
        def short(x):
            x = dict(x)
            for k in ("out",):
                if k in x and isinstance(x[k], list):
                    x[k] = [common.dec(l) if isinstance(l, list) else l for l in x[k]]
            return json.dumps(x, ensure_ascii=False)[:1200]
        print("MODEL", short(m))
        print("IMPL ", short(i))


if __name__ == "__main__":
    main()
