"""Process noise: unrelated compilations run inside the harness process between the cases of every
property stream.  Each property is stated for a compilation, whatever happened before it in the process
(C17); a change that leaks state across compilations (a cache keyed too coarsely, a shared default
object, a class-level memo, a process-wide setting) then shows up as a disagreement with the model or
an oracle violation in the stream of whichever property it affects, not only in C17's histories.
The noise programs are fixed; their results are discarded; exceptions are swallowed."""
import signal

NOISE = [
    # unknown commands (warnings), also `$`-evaluated
    "FOO x\nBAR 1 2\n$MYKEY 1+1\nMYKEY 1+1\nSTRING ok",
    # error after output and prints
    "PRINT before\nSTRING a\nDELAY -1",
    # block keywords without a block (DuckyScript-3 style lines pass through) ...
    "IF (x) THEN\nELSE\nEND_IF\nWHILE (y)\nFUNCTION hello()\nIGNORE\nFUNC",
    # ... and with blocks
    "IF TRUE\n    STRING t\nELIF TRUE\n    STRING u\nELSE\n    STRING v\nWHILE FALSE\n    PASS\nFUNCTION hello\n    STRING h\nFUNC g a\n    STRING g\nRUN hello\nRUN g 1\nIGNORE\n    raw line",
    # key names accepted by one modifier only
    "ALT SPACE\nALT ESC\nCTRL BREAK\nSHIFT DELETE\nSHIFT PAGEUP\nCTRL ESC",
    # indentation units: tab, two spaces, four spaces
    "REPEAT 2\n\tSTRING tab",
    "REPEAT 2\n  STRING two\n  IF TRUE\n    STRING deep",
    # loops left by break / continue before any output, followed by IGNORE and block-less REPEAT
    "REPEAT 3\n    BREAKLOOP\nIGNORE\n    kept\nSTRING z\nREPEAT 2\nWHILE i,i<3\n    CONTINUELOOP\nIGNORE\n    kept2",
    # values of every type, big numbers, grouped arguments
    "VAR T 1\nVAR F 2\nVAR n 3^200\n$STRING n\nVAR s \"a  b\"\nSTRING\n    one\n    two\nVAR\n    p 1\n    q 2\nDEFAULT_DELAY 5",
    # stack overflow
    "FUNC f\n    RUN f\nRUN f",
    # commands that warn about their own use
    "DEFAULT_DELAY\n    5\n    6\nSTRING x\nDEFAULTDELAY 7\n    8",
    # tab error, unclosed quote
    "STRING a\n        b\n    c",
    "IGNORE\n    \"\"\"\n    never closed",
]

_state = {"n": 0, "every": 40, "k": 0}


def maybe_run(ds):
    """called before every implementation case"""
    _state["n"] += 1
    if _state["every"] <= 0 or _state["n"] % _state["every"] != 1:
        return
    # the first round of a process runs every noise program once, block-less keyword lines first (a cache
    # filled by the first use of a word is then filled by the noise); later rounds rotate two at a time
    first = _state["n"] == 1
    order = [2] + [j for j in range(len(NOISE)) if j != 2] if first else None
    for t in range(len(NOISE) if first else 2):
        if first:
            _state["k"] = order[t]
        text = NOISE[_state["k"] % len(NOISE)]
        k = _state["k"]
        _state["k"] += 1
        try:
            signal.setitimer(signal.ITIMER_REAL, 10.0, 1.0)
            opts = ds.CompileOptions(include_comments=bool(k % 2), supress_command_not_exist=bool(k % 3 == 0), stack_limit=[20, 5, 9][k % 3])
            c = ds.Compiler(opts)
            c.compile(text)
        except BaseException as e:   # the results of noise are irrelevant
            if isinstance(e, (KeyboardInterrupt, SystemExit)):
                raise
        finally:
            signal.setitimer(signal.ITIMER_REAL, 0)
