"""Mechanism-free reference semantics of the structured language (DESIGN.md, C05-C08): a stack of
frames, `first true arm`, iteration lists, dynamic scope.  Used as the implementation-side oracle
of C05, C06, C07, C08 (and by C18 for print order): random structured programs are run by this
reference and by the real compiler; any difference is a concrete failing input.

Programs are ASTs (tuples):
  ("emit", text)                     STRING text
  ("emitx", e)                       $STRING e
  ("var", name, e)                   VAR name e
  ("if", [(cond, body), ...], else_body | None)
  ("repeat", counter | None, e, body)
  ("while", counter | None, cond, body)
  ("func", name, params, body)
  ("run", name, [e, ...])
  ("break",) ("continue",) ("return",)
  ("print", text)  ("printx", e)
  ("exist", name)  ("notexist", name)
Expressions: int | ("v", name) | ("s", text) | (op, a, b) with op in + - * < > <= >= == != | ("b", bool)
"""
import random


class CE(Exception):
    pass


OPS = {
    "+": lambda a, b: a + b, "-": lambda a, b: a - b, "*": lambda a, b: a * b,
    "<": lambda a, b: a < b, ">": lambda a, b: a > b, "<=": lambda a, b: a <= b, ">=": lambda a, b: a >= b,
    "==": lambda a, b: a == b, "!=": lambda a, b: a != b,
}
PREC = {"*": 2, "+": 1, "-": 1, "<": 0, ">": 0, "<=": 0, ">=": 0, "==": 0, "!=": 0}


def ev(e, frames):
    if isinstance(e, bool):
        return e
    if isinstance(e, int):
        return e
    t = e[0]
    if t == "b":
        return e[1]
    if t == "s":
        return e[1]
    if t == "v":
        for f in reversed(frames):
            if e[1] in f["vars"]:
                return f["vars"][e[1]]
        raise CE("undefined " + e[1])
    a = ev(e[1], frames)
    b = ev(e[2], frames)
    sa, sb = isinstance(a, str), isinstance(b, str)
    if t == "+":
        if sa or sb:
            return pystr(a) + pystr(b)
        return a + b
    if t in ("==", "!="):
        return OPS[t](a, b)
    if t in ("<", ">", "<=", ">="):
        if sa != sb:
            raise CE("mismatch")
        return OPS[t](a, b)
    # "-" and "*": the left operand must be a number (not a boolean, not a string)
    if sa or type(a) is bool:
        raise CE("mismatch")
    if sb:
        if t == "*":
            return b * a          # repetition
        raise CE("mismatch")
    return OPS[t](a, b)


def pystr(v):
    return str(v)


def pe(e, outer=-1, right=False):
    """print an expression with the parentheses precedence and left-associativity require"""
    if isinstance(e, bool):
        return "TRUE" if e else "FALSE"
    if isinstance(e, int):
        return str(e) if e >= 0 else "(0-%d)" % (-e)
    t = e[0]
    if t == "b":
        return "TRUE" if e[1] else "FALSE"
    if t == "s":
        return '"' + e[1] + '"'
    if t == "v":
        return e[1]
    p = PREC[t]
    s = pe(e[1], p, False) + t + pe(e[2], p, True)
    if p < outer or (p == outer and right):
        return "(" + s + ")"
    return s


def assign(frames, name, value):
    for f in reversed(frames):
        if name in f["vars"]:
            f["vars"][name] = value
            return
    frames[-1]["vars"][name] = value


def lookup_func(frames, name):
    for f in reversed(frames):
        if name in f["funcs"]:
            return f["funcs"][name]
    return None


class Ref:
    def __init__(self, limit=20):
        self.out = []
        self.prints = []
        self.limit = limit

    def block(self, body, frames, init=None):
        """run a block in a new frame; -> signal"""
        if len(frames) >= self.limit:
            raise CE("stack overflow")
        fr = {"vars": {}, "funcs": {}}
        frames.append(fr)
        try:
            if init:
                init(frames)
            return self.stmts(body, frames)
        finally:
            frames.pop()

    def stmts(self, body, frames):
        i = 0
        while i < len(body):
            s = body[i]
            sig = self.stmt(s, frames)
            if sig != "normal":
                return sig
            i += 1
        return "normal"

    def stmt(self, s, frames):
        t = s[0]
        if t == "emit":
            self.out.append("STRING " + s[1])
        elif t == "emitx":
            self.out.append("STRING " + pystr(ev(s[1], frames)))
        elif t == "var":
            v = ev(s[2], frames)
            assign(frames, s[1], v)
        elif t == "if":
            arms, els = s[1], s[2]
            taken = False
            for (c, body) in arms:
                v = ev(c, frames)          # every condition reached is evaluated, also after an arm was taken
                if v and not taken:
                    taken = True
                    sig = self.block(body, frames)
                    if sig != "normal":
                        return sig         # the rest of the chain is never reached
            if els is not None and not taken:
                return self.block(els, frames)
        elif t == "repeat":
            _, ctr, ne, body = s
            k = 0
            while True:
                n = ev(ne, frames)                           # re-evaluated in the parent each time
                if isinstance(n, bool):
                    n = int(n)
                if not isinstance(n, int):
                    raise CE("count")
                if n < 0 or n > 20000:
                    raise CE("count range")
                if not k < n:
                    break
                sig = self.block(body, frames, (lambda fs, k=k: assign(fs, ctr, k)) if ctr else None)
                if sig == "break":
                    break
                if sig == "return":
                    return "return"
                k += 1
        elif t == "while":
            _, ctr, cond, body = s
            k = 0
            while True:
                if k > 20000:
                    raise CE("limit")
                stop = []

                def init(fs, k=k):
                    if ctr:
                        assign(fs, ctr, k)
                    if not ev(cond, fs):
                        stop.append(1)
                # the condition is evaluated in the iteration's frame after binding the counter
                if len(frames) >= self.limit:
                    raise CE("stack overflow")
                fr = {"vars": {}, "funcs": {}}
                frames.append(fr)
                try:
                    init(frames)
                    if stop:
                        sig = "stop"
                    else:
                        sig = self.stmts(body, frames)
                finally:
                    frames.pop()
                if sig == "stop" or sig == "break":
                    break
                if sig == "return":
                    return "return"
                k += 1
        elif t == "func":
            frames[-1]["funcs"][s[1]] = (s[2], s[3])
        elif t == "run":
            vals = [ev(a, frames) for a in s[2]]
            f = lookup_func(frames, s[1])
            if f is None:
                raise CE("no such function")
            params, body = f
            if len(params) != len(vals):
                raise CE("arity")

            def init(fs):
                for p, v in zip(params, vals):
                    assign(fs, p, v)
            sig = self.block(body, frames, init)
            if sig in ("break", "continue"):
                raise CE("signal escaped a function")
        elif t == "break":
            return "break"
        elif t == "continue":
            return "continue"
        elif t == "return":
            return "return"
        elif t == "print":
            self.prints.append(s[1])
        elif t == "printg":
            self.prints.extend(s[1])
        elif t == "printx":
            self.prints.append(pystr(ev(s[1], frames)))
        elif t == "exist":
            if not any(s[1] in f["vars"] for f in frames):
                raise CE("does not exist")
        elif t == "notexist":
            if any(s[1] in f["vars"] for f in frames):
                raise CE("does exist")
        else:
            raise ValueError(t)
        return "normal"


def run_ref(prog, limit=20):
    r = Ref(limit)
    frames = [{"vars": {}, "funcs": {}}]
    try:
        r.stmts(prog, frames)
        return {"status": "OK", "out": r.out, "prints": r.prints, "vars": dict(frames[0]["vars"])}
    except CE as e:
        return {"status": "CE", "why": str(e), "out": r.out, "prints": r.prints}


# ------------------------------------------------------------------ printing
def to_lines(prog, unit="    ", level=0, rng=None):
    L = []
    ind = unit * level

    def kw(w):
        if rng is None or rng.random() < 0.8:
            return w
        return w.lower()
    for s in prog:
        t = s[0]
        if t == "emit":
            L.append(ind + kw("STRING") + " " + s[1])
        elif t == "emitx":
            L.append(ind + "$" + kw("STRING") + " " + pe(s[1]))
        elif t == "var":
            L.append(ind + kw("VAR") + " " + s[1] + " " + pe(s[2]))
        elif t == "if":
            for j, (c, body) in enumerate(s[1]):
                L.append(ind + kw("IF" if j == 0 else "ELIF") + " " + pe(c))
                L.extend(to_lines(body, unit, level + 1, rng))
            if s[2] is not None:
                L.append(ind + kw("ELSE") + (rng.choice(["", "", "", " ", "\t", "  "]) if rng else ""))
                L.extend(to_lines(s[2], unit, level + 1, rng))
        elif t == "repeat":
            L.append(ind + kw("REPEAT" if rng is None or rng.random() < 0.7 else "FOR") + " " + ((s[1] + ",") if s[1] else "") + pe(s[2]))
            L.extend(to_lines(s[3], unit, level + 1, rng))
        elif t == "while":
            L.append(ind + kw("WHILE") + " " + ((s[1] + ",") if s[1] else "") + pe(s[2]))
            L.extend(to_lines(s[3], unit, level + 1, rng))
        elif t == "func":
            L.append(ind + kw("FUNC") + " " + s[1] + ((" " + ",".join(s[2])) if s[2] else ""))
            L.extend(to_lines(s[3], unit, level + 1, rng))
        elif t == "run":
            L.append(ind + kw("RUN") + " " + s[1] + ((" " + ",".join(pe(a) for a in s[2])) if s[2] else ""))
        elif t == "break":
            L.append(ind + (rng.choice(["BREAKLOOP", "BREAK_LOOP"]) + rng.choice(["", "", " ", "\t"]) if rng else "BREAKLOOP"))
        elif t == "continue":
            L.append(ind + (rng.choice(["CONTINUELOOP", "CONTINUE_LOOP", "CONTINUE"]) if rng else "CONTINUELOOP"))
        elif t == "return":
            L.append(ind + (rng.choice(["RETURN", "RET"]) if rng else "RETURN"))
        elif t == "print":
            L.append(ind + "PRINT " + s[1])
        elif t == "printg":
            if rng is not None and rng.random() < 0.5:
                L.append(ind + "PRINT " + s[1][0])
                L.extend(ind + unit + x for x in s[1][1:])
            else:
                L.append(ind + "PRINT")
                L.extend(ind + unit + x for x in s[1])
        elif t == "printx":
            L.append(ind + "$PRINT " + pe(s[1]))
        elif t == "exist":
            L.append(ind + "EXIST " + s[1])
        elif t == "notexist":
            L.append(ind + "NOTEXIST " + s[1])
    return L


# ------------------------------------------------------------------ generation
class RefGen:
    def __init__(self, rng, focus="mix", max_depth=3):
        self.rng = rng
        self.focus = focus
        self.max_depth = max_depth
        self.tagn = 0
        self.vars = []     # names probably visible
        self.funcs = []    # (name, arity) probably visible
        self.loop = 0
        self.fn = 0

    def tag(self):
        self.tagn += 1
        return "t%d" % self.tagn

    def num(self, depth=1):
        r = self.rng
        if depth <= 0 or r.random() < 0.5:
            if self.vars and r.random() < 0.5:
                return ("v", r.choice(self.vars))
            return r.randint(0, 5)
        return (r.choice(["+", "-", "*"]), self.num(depth - 1), self.num(depth - 1))

    def cond(self):
        r = self.rng
        x = r.random()
        if x < 0.3:
            return ("b", r.random() < 0.5)
        if x < 0.45:
            # truthiness of non-boolean values: 0, other numbers, "" and non-empty strings
            return r.choice([0, 0, 1, 2, ("s", ""), ("s", "x"), ("-", 2, 2), ("*", 0, 3), self.num(1)])
        return (r.choice(["<", ">", "<=", ">=", "==", "!="]), self.num(1), self.num(1))

    def body(self, depth):
        saved_v, saved_f = list(self.vars), list(self.funcs)
        b = []
        for _ in range(self.rng.randint(1, 3)):
            b.append(self.stmt(depth))
        self.vars, self.funcs = saved_v, saved_f
        return b

    def stmt(self, depth):
        r = self.rng
        w = {"emit": 3, "emitx": 3, "var": 4, "if": 3, "repeat": 2, "while": 1.2, "func": 1.3, "run": 2, "ctl": 1.5, "print": 1, "exist": 0.7}
        if self.focus == "if":
            w["if"] = 8
        if self.focus == "loop":
            w["repeat"] = 5; w["while"] = 3; w["ctl"] = 4
        if self.focus == "func":
            w["func"] = 4; w["run"] = 5; w["ctl"] = 3
        if self.focus == "scope":
            w["var"] = 8; w["exist"] = 3; w["emitx"] = 5
        if self.focus == "print":
            w["print"] = 6
        if depth >= self.max_depth:
            for k in ("if", "repeat", "while", "func"):
                w[k] = 0
        k = r.choices(list(w), list(w.values()))[0]
        if k == "emit":
            return ("emit", self.tag())
        if k == "emitx":
            if r.random() < 0.4:
                return ("emitx", ("+", ("s", self.tag() + ":"), self.num(1)))
            return ("emitx", self.num(2))
        if k == "var":
            n = r.choice(["a", "b", "c", "i", "x", "y"])
            y = r.random()
            if y < 0.12:
                e = ("b", r.random() < 0.5)          # booleans equal to 0/1 but printed differently
            elif y < 0.2:
                e = r.choice([0, 1])
            elif y < 0.26:
                e = ("s", r.choice(["", "1", "0", "True"]))
            else:
                e = self.num(2)
            if n not in self.vars:
                self.vars.append(n)
            return ("var", n, e)
        if k == "if":
            arms = [(self.cond(), self.body(depth + 1)) for _ in range(r.choice([1, 1, 2, 2, 3, 4]))]
            els = self.body(depth + 1) if r.random() < 0.5 else None
            return ("if", arms, els)
        if k == "repeat":
            ctr = r.choice([None, None, "i", "j", "a", "x"])
            n = r.choice([0, 1, 2, 2, 3, 3, 4]) if r.random() < 0.85 else self.num(1)
            self.loop += 1
            had = ctr in self.vars
            if ctr and not had:
                self.vars.append(ctr)
            b = self.body(depth + 1)
            if ctr and not had and ctr in self.vars:
                self.vars.remove(ctr)
            self.loop -= 1
            return ("repeat", ctr, n, b)
        if k == "while":
            ctr = r.choice(["w", "k", "i", "a"])
            lim = r.randint(0, 4)
            self.loop += 1
            had = ctr in self.vars
            if not had:
                self.vars.append(ctr)
            b = self.body(depth + 1)
            if not had and ctr in self.vars:
                self.vars.remove(ctr)
            self.loop -= 1
            return ("while", ctr, ("<", ("v", ctr), lim), b)
        if k == "func":
            name = r.choice(["f", "g", "h"])
            params = r.sample(["p", "q", "a", "x"], r.choice([0, 1, 1, 2, 3]))
            saved = list(self.vars)
            self.vars.extend(p for p in params if p not in self.vars)
            self.fn += 1
            lp, self.loop = self.loop, 0
            b = self.body(depth + 1)
            self.loop = lp
            self.fn -= 1
            self.vars = saved
            self.funcs = [f for f in self.funcs if f[0] != name] + [(name, len(params))]
            return ("func", name, params, b)
        if k == "run":
            if not self.funcs or r.random() < 0.05:
                if r.random() < 0.3:
                    return ("run", "nosuch", [])
                return ("emit", self.tag())
            name, ar = r.choice(self.funcs)
            if r.random() < 0.05:
                ar += 1
            return ("run", name, [self.num(1) for _ in range(ar)])
        if k == "ctl":
            if self.loop and r.random() < 0.75:
                c = (r.choice(["break", "continue"]),)
            elif self.fn and r.random() < 0.75:
                c = ("return",)
            elif r.random() < 0.15:
                c = (r.choice(["break", "continue", "return"]),)
            else:
                return ("emit", self.tag())
            d = r.choice([0, 1, 1, 2])
            for _ in range(d):
                c = ("if", [(self.cond(), [("emit", self.tag()), c] if r.random() < 0.5 else [c])], None)
            return c
        if k == "print":
            if r.random() < 0.3:
                return ("printg", ["p" + self.tag() for _ in range(r.randint(2, 4))])
            if r.random() < 0.5:
                return ("print", "p" + self.tag())
            return ("printx", self.num(1))
        if k == "exist":
            n = r.choice(["a", "b", "c", "i", "x", "y", "p"])
            if n in self.vars:
                return ("exist", n) if r.random() < 0.9 else ("notexist", n)
            return ("notexist", n) if r.random() < 0.7 else ("exist", n)
        return ("emit", self.tag())

    def program(self, n=None):
        n = self.rng.randint(2, 7) if n is None else n
        return [self.stmt(0) for _ in range(n)]
