"""Properties C10-C17, C19, C20: streams, corpora, oracles (see props.py for the base class)."""
import itertools, json, os, random, re, shutil, subprocess, sys, tempfile
import common, gen, refsem, props
from common import cps, dec
from props import Prop, comp, rsub, out_text, register, IDENT, bool_safe


def fcase(files, main, opts=None, **kw):
    c = {"kind": "comp", "files": {"/".join(k): v for k, v in files.items()}, "main": "/".join(main), "opts": opts or {}}
    c.update(kw)
    return c


def trace_nums(i, key="trace"):
    t = i.get(key)
    if not isinstance(t, list):
        return None
    return [(dec(fr[0][-1]) if fr[0] else None, fr[1][0], fr[2][0] if fr[2] else None) for fr in t]


# ====================================================================================== C10
class ChainBuilder:
    """a program with one faulty command at a known position; computes the expected trace"""

    def __init__(self, r, allow_files=True):
        self.r = r
        self.files = {"main": []}
        self.fn = 0
        self.nfile = 0
        self.allow_files = allow_files

    def emit(self, f, level, text):
        self.files[f].append("    " * level + text)
        return len(self.files[f])

    def pad(self, f, level):
        r = self.r
        for _ in range(r.choice([0, 0, 1, 2])):
            k = r.randrange(5)
            if k == 0:
                self.files[f].append("")
            elif k == 1:
                self.emit(f, level, "STRING pad")
            elif k == 2:
                self.emit(f, level, "IF FALSE")
                self.emit(f, level + 1, "STRING no")
            elif k == 3:
                self.emit(f, level, "STRING")
                self.emit(f, level + 1, '"""')
                self.emit(f, level + 1, "  verbatim")
                self.emit(f, level + 1, '"""')
            else:
                self.files[f].append("   " if level == 0 else "")
        if self.allow_files and r.random() < 0.25:
            # an import that completes before the fault leaves no entry behind
            self.nfile += 1
            okf = "ok%d" % self.nfile
            self.files[okf] = ["STRING fine", "IF TRUE", "    STRING nested"]
            self.emit(f, level, r.choice(["START ", "STARTENV ", "STARTCODE "]) + okf)

    def fault(self, f, level):
        r = self.r
        k = r.randrange(12)
        if k == 9:
            # the built-in argument type check, on one line of a group: the entry names that argument
            cmd, good, bad = r.choice([("DELAY", "5", '"a"'), ("DELAY", "1+1", "1.5"), ("WHITESPACE", "1", "TRUE"), ("DEFAULT_DELAY", "3", '"x"'), ("DELAY", "2", "0.5+1")])
            n = self.emit(f, level, cmd)
            self.emit(f, level + 1, good)
            m = self.emit(f, level + 1, bad)
            self.emit(f, level + 1, good)
            return (f, n, m)
        if k == 10:
            n = self.emit(f, level, r.choice(['DELAY "a"', "DELAY 1.5", "WHITESPACE TRUE", 'DEFAULT_DELAY "q"']))
            return (f, n, n)
        if k == 11:
            n = self.emit(f, level, r.choice(["DELAY 5", "ALT a"]))
            m = self.emit(f, level + 1, r.choice(['"a"', "-1"]) if self.files[f][n - 1].strip().startswith("DELAY") else "bad!")
            return (f, n, m)
        if k == 0:
            n = self.emit(f, level, "DELAY -1")
            return (f, n, n)
        if k == 1:
            n = self.emit(f, level, "$STRING 1/0")
            return (f, n, n)
        if k == 2:
            n = self.emit(f, level, "RUN nosuch")
            return (f, n, n)
        if k == 3:
            n = self.emit(f, level, "VAR 1a 2")
            return (f, n, n)
        if k == 4:
            n = self.emit(f, level, "ALT")
            self.emit(f, level + 1, "a")
            m = self.emit(f, level + 1, "bad!")
            self.emit(f, level + 1, "b")
            return (f, n, m)
        if k == 5:
            n = self.emit(f, level, "WHILE nosuch")
            self.emit(f, level + 1, "PASS")
            return (f, n, None)
        if k == 6:
            n = self.emit(f, level, "REPEAT 1a,2")
            self.emit(f, level + 1, "PASS")
            return (f, n, None)
        if k == 7:
            n = self.emit(f, level, "$STRING")
            self.emit(f, level + 1, "1+1")
            m = self.emit(f, level + 1, "1+")
            return (f, n, m)
        n = self.emit(f, level, "MENU x")
        return (f, n, None)

    def build(self, f, level, depth):
        r = self.r
        self.pad(f, level)
        if depth == 0:
            return [self.fault(f, level)]
        ks = ["if", "else", "repeat", "while", "func", "elif"]
        if self.allow_files:
            ks += ["start", "startcode", "libfunc", "libfunc"]
        k = r.choice(ks)
        if k == "if":
            n = self.emit(f, level, "IF TRUE")
            return [(f, n, None)] + self.build(f, level + 1, depth - 1)
        if k == "else":
            self.emit(f, level, "IF FALSE")
            self.emit(f, level + 1, "PASS")
            n = self.emit(f, level, "ELSE")
            return [(f, n, None)] + self.build(f, level + 1, depth - 1)
        if k == "elif":
            self.emit(f, level, "IF 1>2")
            self.emit(f, level + 1, "PASS")
            n = self.emit(f, level, "ELIF 2>1")
            return [(f, n, None)] + self.build(f, level + 1, depth - 1)
        if k == "repeat":
            n = self.emit(f, level, r.choice(["REPEAT 2", "REPEAT q,1", "FOR 1"]))
            return [(f, n, None)] + self.build(f, level + 1, depth - 1)
        if k == "while":
            n = self.emit(f, level, "WHILE w,w<1")
            return [(f, n, None)] + self.build(f, level + 1, depth - 1)
        if k == "func":
            self.fn += 1
            name = "f%d" % self.fn
            self.emit(f, level, "FUNC " + name)
            rest = self.build(f, level + 1, depth - 1)
            self.pad(f, level)
            if r.random() < 0.3:
                n = self.emit(f, level, "RUN")
                m = self.emit(f, level + 1, name)
                return [(f, n, m)] + rest
            n = self.emit(f, level, "RUN " + name)
            return [(f, n, n)] + rest
        if k == "libfunc":
            # a function defined in another file (imported before), run from here: its body's
            # entries carry the defining file
            self.nfile += 1
            self.fn += 1
            lib = "lib%d" % self.nfile
            name = "g%d" % self.fn
            self.files[lib] = []
            self.pad(lib, 0)
            self.emit(lib, 0, "FUNC " + name)
            rest = self.build(lib, 1, depth - 1)
            self.emit(f, level, r.choice(["STARTENV ", "START "]) + lib)
            self.pad(f, level)
            n = self.emit(f, level, "RUN " + name)
            return [(f, n, n)] + rest
        # import
        self.nfile += 1
        nf = "sub%d" % self.nfile
        self.files[nf] = []
        n = self.emit(f, level, ("START " if k == "start" else "STARTCODE ") + nf)
        return [(f, n, n)] + self.build(nf, 0, depth - 1)


class C10(Prop):
    id = "C10"
    fields = ["err", "trace", "line"]
    quick_n = 1200
    thorough_n = 25000
    rule = "one faulty command planted under 0-5 wrappers (IF/ELIF/ELSE, REPEAT, WHILE, FUNC+RUN, START/STARTCODE into other files, grouped arguments, loop conditions), padded with blank lines, untaken blocks and triple-quote regions; distinct = distinct program text"
    explanation = "trace compared with the model and with the chain of lines the generator recorded; last-n suffix property on the implementation's traces; tab-error line numbers via the C03 stream"

    def generate(self, rng, n, tier):
        cases = []
        for _ in range(n):
            r = rsub(rng)
            cb = ChainBuilder(r, allow_files=r.random() < 0.5)
            exp = cb.build("main", 0, r.randint(0, 5))
            cb.pad("main", 0)
            files = {(k + ".txt",): "\n".join(v) for k, v in cb.files.items()}
            uses_files = len(files) > 1 or r.random() < 0.2
            if uses_files:
                cases.append(fcase(files, ("main.txt",), {}, expect_trace=[(f + ".txt", a, b) for f, a, b in exp]))
            else:
                cases.append(comp(files[("main.txt",)], {}, expect_trace=[(None, a, b) for f, a, b in exp]))
        return cases

    def corpus(self, tier):
        out = []
        for t, exp in [("DELAY -1", [(None, 1, 1)]), ("\n\nIF TRUE\n\n    DELAY -1", [(None, 3, None), (None, 5, 5)]),
                       ("WHILE b\n    PASS", [(None, 1, None)]), ("IF TRUE\n    WHILE b\n        PASS", [(None, 1, None), (None, 2, None)]),
                       ("REPEAT 1a,3\n    PASS", [(None, 1, None)]), ("STRING\n    \"\"\"\n    x\n    \"\"\"\nDELAY\n    1\n    -2", [(None, 5, 7)])]:
            out.append(comp(t, {}, expect_trace=exp))
        for t in ["STRING a\n  STRING b\n     STRING c", "  STRING a", "STRING a\n\tSTRING b\n    STRING c", "IF TRUE\n    STRING a\n  STRING b"]:
            out.append({"kind": "tab", "text": t})
        # stack-overflow errors carry the whole chain too (compared with the model's trace)
        for L in (5, 6, 9, 20):
            out.append(comp("PRINT p\nFUNC f\n    RUN f\nRUN f", {"stack_limit": L}))
            out.append(comp("FUNC f n\n    IF n>0\n        RUN f n-1\nRUN f 50", {"stack_limit": L}))
            out.append(comp("\n".join("    " * j + "IF TRUE" for j in range(L + 1)) + "\n" + "    " * (L + 1) + "STRING deep", {"stack_limit": L}))
            files = {("main.txt",): "START f1"}
            for j in range(1, L + 2):
                files[("f%d.txt" % j,)] = "STRING in%d\nSTART f%d" % (j, j + 1)
            files[("f%d.txt" % (L + 2),)] = "STRING end"
            out.append(fcase(files, ("main.txt",), {"stack_limit": L}))
        out.append(comp("$STRING " + "(" * 101 + "1" + ")" * 101, {}))
        # a loop that reaches the iteration limit: the error is located at the loop line
        out.append(comp("PRINT p\n\nWHILE TRUE\n    PASS\n    STRING x", {}, expect_trace=[(None, 3, None)], timeout=120.0))
        out.append(comp("FUNC f\n    IF TRUE\n        WHILE w,w>=0\n            PASS\nRUN f", {}, expect_trace=[(None, 5, 5), (None, 2, None), (None, 3, None)], timeout=120.0))
        return out

    def oracle(self, c, i):
        exp = c.get("expect_trace")
        if exp is None:
            return None
        if i["status"] == "CRASH":
            return None
        if i["status"] != "CE":
            return ("fault_not_reported", "the planted fault was not reported (status %s)" % i["status"])
        got = trace_nums(i)
        if got is None:
            return ("no_trace", "the error carries no usable trace: %r" % (i.get("trace"),))
        exp = [tuple(e) for e in exp]
        if got != exp:
            return ("wrong_trace", "trace %r, the planted chain is %r" % (got, exp))
        t5, t1, t0 = trace_nums(i, "trace5"), trace_nums(i, "trace1"), trace_nums(i, "trace0")
        if t5 != got[-5:] or t1 != got[-1:] or (t0 is not None and t0 != []):
            return ("last_n_wrong", "stack_traceback(n) is not the n innermost entries (n = 5, 1, 0)")
        return None


# ====================================================================================== C11
class C11(Prop):
    id = "C11"
    fields = ["out", "err", "prints"]
    quick_n = 1200
    thorough_n = 25000
    rule = "(command, argument list) pairs over every simple command and unknown words, valid and invalid arguments, three spellings each; verbatim blocks with random relative indentation; $-forms over value kinds; counts 0..120; distinct = distinct program text"
    explanation = "the three spellings are run on the implementation and must agree (metamorphic); each spelling is also compared with the model"

    CMDS = ["STRING", "STRINGLN", "ALT", "CTRL", "SHIFT", "GUI", "DELAY", "DEFAULT_DELAY", "REM", "PRINT", "ALTCHAR", "ALTSTRING", "ALTCODE", "SYSRQ", "CTRL-ALT",
            "FOO", "$STRING", "$FOO", "$DELAY", "$PRINT", "$ALT", "EXIST", "NOTEXIST", "VAR", "MENU", "ENTER", "PASS", "$ENTER", "WHITESPACE", "$REM"]

    def arg_for(self, r, cmd):
        base = cmd.lstrip("$")
        bad = r.random() < 0.2
        if cmd.startswith("$") and base not in ("DELAY", "ENTER"):
            return r.choice(['"a"+1', "1+2", "v", '"x"', "3*2", '" lead"', '"trail "+v', '"  "', "nosuch" if bad else "7", "1/0" if bad else "2"])
        if base in ("STRING", "STRINGLN") and r.random() < 0.3:
            # typed text keeps its trailing blanks in every spelling
            return (gen.rtext(r, r.randint(1, 5)).strip() or "t") + r.choice(["  ", " ", "\t", " \t "])
        if base in ("STRING", "STRINGLN", "REM", "PRINT", "FOO", "ALTSTRING", "ALTCODE"):
            return (gen.rtext(r, r.randint(1, 6)).strip() or "t")
        if base == "ALT":
            return r.choice(gen.KEYS_ALT + ["a", "é", "ab" if bad else "b"])
        if base == "CTRL":
            return r.choice(gen.KEYS_CTRL + ["c", "xy" if bad else "d"])
        if base == "SHIFT":
            return r.choice(gen.KEYS_SHIFT + (["nope"] if bad else []))
        if base in ("GUI", "SYSRQ", "CTRL-ALT"):
            return r.choice(["r", "é", "rr" if bad else "s"])
        if base in ("DELAY", "DEFAULT_DELAY"):
            return r.choice(["5", "10", "v+1", "-1" if bad else "0", "1.5" if bad else "20"])
        if base in ("ENTER", "WHITESPACE"):
            return r.choice(["0", "1", "2", "3", "v", "100" if bad else "4", "-1" if bad else "5", "TRUE" if bad else "1", "1==1" if bad else "2"])
        if base == "ALTCHAR":
            return r.choice(["1", "0042", "9999", "12345" if bad else "7"])
        if base in ("EXIST", "NOTEXIST"):
            return r.choice(["v", "w", "nosuch"])
        if base == "VAR":
            return r.choice(["k 1", "v v+1", "m 2*3", "1z 4" if bad else "n 5"])
        return "x"

    def spellings(self, cmd, args):
        pre = "VAR v 2\nVAR w 3\n"
        a = pre + cmd + "\n" + "\n".join("    " + x for x in args)
        b = pre + cmd + " " + args[0] + ("\n" + "\n".join("    " + x for x in args[1:]) if len(args) > 1 else "")
        c = pre + "\n".join(cmd + " " + x for x in args)
        return [a, b, c]

    def generate(self, rng, n, tier):
        cases = []
        for k in range(n // 3):
            r = rsub(rng)
            x = r.random()
            if x < 0.75:
                cmd = r.choice(self.CMDS)
                args = [self.arg_for(r, cmd) for _ in range(r.randint(1, 4))]
                grp = "g%d" % k
                for s_i, t in enumerate(self.spellings(cmd, args)):
                    cases.append(comp(t, {"include_comments": True}, group=grp, spelling=s_i))
            elif x < 0.9:
                cmd = r.choice(["STRING", "STRINGLN", "REM", "FOO", "IGNORE", "PRINT", "ALTSTRING"])
                body = [(" " * r.randint(0, 5)) + (gen.rtext(r, r.randint(1, 6)).strip() or "v") for _ in range(r.randint(1, 4))]
                if r.random() < 0.3:
                    # a verbatim line that itself begins with three quotes, deeper than the delimiters
                    body.insert(r.randrange(len(body) + 1), " " * r.randint(1, 4) + r.choice(['"""doc"""', '"""', '""""x']))
                unit = r.choice(["    ", "\t", "  "])
                text = cmd + "\n" + unit + '"""\n' + "\n".join(unit + b for b in body) + "\n" + unit + '"""'
                if cmd == "IGNORE":
                    exp = body
                elif cmd == "PRINT":
                    exp = []
                else:
                    exp = [cmd + " " + (b if cmd in ("STRING", "STRINGLN") else b.strip()) for b in body]
                cases.append(comp(text, {"include_comments": True}, expect_out=exp))
            else:
                nn = r.choice([0, 1, 2, 5, 50, 99, 100, 120, -1])
                cmd = r.choice(["$ENTER", "WHITESPACE"])
                if cmd == "WHITESPACE":
                    exp = [""] * nn if 0 <= nn < 100 else None
                else:
                    exp = ["ENTER"] * nn if nn >= 0 else None
                c = comp(cmd + " " + str(nn) if nn >= 0 else cmd + " 0-1", {})
                if exp is not None:
                    c["expect_out"] = exp
                elif cmd == "WHITESPACE":
                    c["expect_fail"] = True
                cases.append(c)
        return cases

    def corpus(self, tier):
        out = []
        for t, exp in [('$REM "  lead"', ["REM   lead"]), ('$REM "trail  "', ["REM trail  "]), ('$ALTSTRING " x "', ["ALTSTRING  x "]), ('$FOO "  a"+"b "', ["FOO   ab "]),
                       ('$CTRL " "', ["CTRL  "]), ('$PRINT " p "\nSTRING z', ["STRING z"]), ('STRING\n    """\n      """q"""\n    x\n    """', ['STRING   """q"""', "STRING x"]),
                       ('$STRING "a"+1', ["STRING a1"]), ("$STRING 4/2", ["STRING 2"]), ("$ALT \"es\"+\"c\"", ["ALT ESC"]), ("$FOO 1+1", ["FOO 2"]),
                       ("$STRINGLN TRUE", ["STRINGLN True"]), ("$ENTER 3", ["ENTER"] * 3), ("WHITESPACE 0", []), ("WHITESPACE", [""]), ("WHITESPACE 99", [""] * 99)]:
            out.append(comp(t, {"include_comments": True}, expect_out=exp))
        for t in ["WHITESPACE 100", "WHITESPACE -1", "WHITESPACE 0-1", "WHITESPACE TRUE", "WHITESPACE FALSE", "WHITESPACE 1==1", "WHITESPACE\n    1\n    TRUE"]:
            out.append(comp(t, {}, expect_fail=True))
        for t in ["$ENTER TRUE", "$ENTER 1==1", "$ENTER !(FALSE)", "VAR b TRUE\n$ENTER b", "$ENTER\n    1\n    FALSE"]:
            out.append(comp(t, {}, expect_ce=True))
        # every form is compiled afresh wherever it stands: inside bodies run several times (loops, functions
        # run twice), and `$` on one line says nothing about the next line with the same word
        for t, exp in [("REPEAT 3\n    STRING a\n        b", ["STRING a", "STRING b"] * 3), ("FUNC f\n    STRING a\n        b\n        c\nRUN f\nRUN f", ["STRING a", "STRING b", "STRING c"] * 2),
                       ("WHILE i,i<2\n    REPEAT 2\n        FOO x\n            y", ["FOO x", "FOO y"] * 4), ("REPEAT 2\n    $STRING 1\n        1+1", ["STRING 1", "STRING 2"] * 2),
                       ("$MYKEY 1+1\nMYKEY 1+1\nMYKEY hello world", ["MYKEY 2", "MYKEY 1+1", "MYKEY hello world"]), ("IF TRUE\n    $FOO 2*3\n    FOO 2*3\n    $FOO 1\n    FOO a b", ["FOO 6", "FOO 2*3", "FOO 1", "FOO a b"]),
                       ("$STRING 1+1\nSTRING 1+1\n$STRING 2+2", ["STRING 2", "STRING 1+1", "STRING 4"]), ("REPEAT 2\n    $BAR 1+1\n    BAR 1+1", ["BAR 2", "BAR 1+1"] * 2)]:
            out.append(comp(t, {"include_comments": True}, expect_out=exp))
        # a group holding only an empty triple-quote section is no argument at all: same as the bare command
        for cmd in ("DELAY", "$DELAY", "DEFAULT_DELAY", "VAR", "EXIST", "UP", "TAB", "MENU", "STRING", "ENTER", "ALT", "FOO", "REM"):
            for inner in ("", "\n"):
                out.append(comp(cmd + "\n    \"\"\"" + inner + "\n    \"\"\"\nSTRING after", {"include_comments": True}, group="eq_" + cmd, spelling=0))
            out.append(comp(cmd + "\nSTRING after", {"include_comments": True}, group="eq_" + cmd, spelling=2))
        out.append(comp("DEFAULT_DELAY\n  5\n  $DEFAULT_DELAY+1", {}, group="dd", spelling=0))
        out.append(comp("DEFAULT_DELAY 5\nDEFAULT_DELAY $DEFAULT_DELAY+1", {}, group="dd", spelling=2))
        return out

    def oracle(self, c, i):
        if "expect_out" in c:
            if i["status"] != "OK" or out_text(i) != c["expect_out"]:
                return ("form_wrong_output", "expected %r, got %s %r" % (c["expect_out"][:5], i["status"], out_text(i)[:5]))
        if c.get("expect_fail") and i["status"] == "OK":
            return ("count_out_of_range_accepted", "an out-of-range count was accepted")
        if c.get("expect_ce") and i["status"] == "OK":
            return ("boolean_count_accepted", "a boolean was accepted as a count: %r" % out_text(i)[:3])
        return None

    def witness_fails(self, w, k):
        if w.get("kind") == "pair":
            a, b = common.run_impl_case(w["a"]), common.run_impl_case(w["b"])
            if (a["status"], a.get("out")) != (b["status"], b.get("out")):
                return "spellings differ: %r vs %r" % (out_text(a), out_text(b))
            return None
        return Prop.witness_fails(self, w, k)

    def group_oracle(self, cases, impls):
        """three spellings of one (command, args) must agree"""
        groups = {}
        for c, i in zip(cases, impls):
            if "group" in c:
                groups.setdefault(c["group"], []).append((c, i))
        viol = []
        for g, lst in groups.items():
            sigs = [(i["status"], json.dumps(i.get("out")) if i["status"] == "OK" else None, json.dumps([p[0] for p in (i.get("prints") or [])]) if i["status"] == "OK" else None) for c, i in lst]
            if len(set(sigs)) > 1 and not any(i["status"] == "CRASH" for c, i in lst):
                c = lst[0][0]
                tag = "spellings_differ"
                if "DEFAULT_DELAY" in c["text"].upper() and "$DEFAULT_DELAY" in c["text"].upper().split("\n", 3)[-1]:
                    tag = "default_delay_group_reads_sysvar"
                viol.append((dict(c, note="other spellings: " + " || ".join(x[0]["text"] for x in lst[1:])), tag, "the grouped / first+group / separate spellings give different results"))
        return viol


# ====================================================================================== C12 / C13
def has_loose_ctl(stmts, in_loop=False, in_func=False):
    for s in stmts:
        t = s[0]
        if t in ("break", "continue") and not in_loop:
            return True
        if t == "return" and not in_func:
            return True
        if t == "if":
            if any(has_loose_ctl(b, in_loop, in_func) for _, b in s[1]) or (s[2] is not None and has_loose_ctl(s[2], in_loop, in_func)):
                return True
        if t in ("repeat", "while") and has_loose_ctl(s[3], True, in_func):
            return True
        if t == "func" and has_loose_ctl(s[3], False, True):
            return True
    return False


class C12(Prop):
    id = "C12"
    fields = ["out", "prints", "vars", "funcs", "err"]
    quick_n = 600
    thorough_n = 12000
    rule = "structured programs cut into files at random top-level boundaries (START vs paste; STARTCODE; STARTENV), directory trees with every relative path shape, imports inside blocks and functions defined in other files; distinct = distinct file set"
    explanation = "each file set is compared with the model; the START/paste, STARTCODE and STARTENV relations are checked on the implementation (metamorphic)"

    def generate(self, rng, n, tier):
        cases = []
        for k in range(n // 4):
            r = rsub(rng)
            g = refsem.RefGen(r, max_depth=3)
            prog = g.program(r.randint(3, 8))
            a = r.randrange(len(prog))
            b = r.randint(a + 1, len(prog))
            pre, mid, post = prog[:a], prog[a:b], prog[b:]
            if has_loose_ctl(mid) or has_loose_ctl(pre):
                continue
            sub = r.choice([("lib.txt",), ("d", "lib.txt"), ("d", "e", "lib.txt")])
            dotted = ".".join(list(sub[:-1]) + ["lib"])
            L0 = refsem.to_lines
            dd = r.random() < 0.35
            ddn = r.randint(1, 99)

            def L(stmts, _w=[0]):
                # system variables are shared like user variables: set $DEFAULT_DELAY before, read it inside and after
                return L0(stmts)
            grp = "s%d" % k
            pre_l = (["DEFAULT_DELAY %d" % ddn] if dd else []) + L(pre)
            mid_l = L(mid) + (["$STRING \"dd=\"+$DEFAULT_DELAY"] if dd else [])
            post_l = (["$STRING \"after=\"+$DEFAULT_DELAY"] if dd else []) + L(post)
            paste = "\n".join(pre_l + mid_l + post_l)
            sub_text = "\n".join(mid_l)
            if r.random() < 0.4:
                # blank / whitespace-only lines around the imported text change nothing but line numbers
                sub_text = r.choice(["\n", "\n\n", "  \n", "\t\n\n"]) + sub_text + r.choice(["", "\n", "\n  \n"])
            cases.append(fcase({("main.txt",): paste}, ("main.txt",), {}, group=grp, role="paste"))
            cases.append(fcase({("main.txt",): "\n".join(pre_l + ["START " + dotted] + post_l), sub: sub_text}, ("main.txt",), {}, group=grp, role="start"))
            cases.append(fcase({("main.txt",): "\n".join(pre_l + mid_l)}, ("main.txt",), {}, group=grp, role="paste_nopost"))
            cases.append(fcase({("main.txt",): "\n".join(pre_l)}, ("main.txt",), {}, group=grp, role="pre"))
            cases.append(fcase({("main.txt",): "\n".join(pre_l + ["STARTCODE " + dotted]), sub: sub_text}, ("main.txt",), {}, group=grp, role="startcode"))
            cases.append(fcase({("main.txt",): "\n".join(pre_l + ["STARTENV " + dotted]), sub: sub_text}, ("main.txt",), {}, group=grp, role="startenv"))
        return cases

    def corpus(self, tier):
        out = []
        T = {("a", "main.txt"): "START lib\nSTART sub.x\nSTART .top\nSTART ..root\nSTART .other.y",
             ("a", "lib.txt"): "STRING lib", ("a", "sub", "x.txt"): "STRING subx\nSTART .lib\nSTART y", ("a", "sub", "y.txt"): "STRING suby",
             ("top.txt",): "STRING top", ("other", "y.txt"): "STRING othery"}
        out.append(fcase(T, ("a", "main.txt")))
        for line in ["START nosuch", "START lib.", "START sub..x", "START .", "START", "START sub", "START a.lib", "START .a.lib", "START lib.txt", "STARTCODE lib", "STARTENV lib", "start lib",
                     "START  lib ", "START\n    lib\n    sub.x", "$START \"li\"+\"b\""]:
            t = dict(T)
            t[("a", "main.txt")] = line + "\nSTRING after"
            out.append(fcase(t, ("a", "main.txt")))
        # every name resolves on its own: names ending in t / x / ".", several names under one command each
        # climbing from the importing file's folder (also inside a function defined in another file)
        T2 = {("a", "main.txt"): "STRING main", ("a", "boot.txt"): "STRING boot", ("a", "boo.txt"): "STRING boo", ("a", "text.txt"): "STRING text", ("a", "te.txt"): "STRING te",
              ("a", "lib", "next.txt"): "STRING next", ("a", "lib", "nex.txt"): "STRING nex", ("a", "tx.txt"): "STRING tx", ("above.txt",): "STRING above", ("a", "below", "below.txt"): "STRING below",
              ("below", "below.txt"): "STRING wrong-below", ("a", "above.txt"): "STRING a-above", ("a", "lib", "uses.txt"): "FUNC imp\n    START\n        ..above\n        next\n        .boot"}
        for line in ["START boot", "STARTENV lib.next", "START text", "STARTCODE tx", "START boot\n    text\n    lib.next", "START\n    .above\n    below.below", "START .above\n    below.below\n    boot",
                     "STARTCODE\n    .above\n    above\n    ..a.boot\n    boot", "STARTENV lib.uses\nRUN imp"]:
            t = dict(T2)
            t[("a", "main.txt")] = line + "\nSTRING after"
            out.append(fcase(t, ("a", "main.txt")))
        # a function defined in another folder resolves imports relative to its own file
        out.append(fcase({("m.txt",): "STARTENV d.defs\nRUN imp\nSTRING back", ("d", "defs.txt"): "FUNC imp\n    START sib\nVAR fromdefs 1", ("d", "sib.txt"): "STRING sibling\nVAR s 2",
                          ("sib.txt",): "STRING wrong"}, ("m.txt",), expect_out=["STRING sibling", "STRING back"]))
        # the same dotted name used from two different folders within ONE compilation resolves each time against
        # the folder of the file that contains the command (seed C12-K: a per-compilation memo keyed by the name only)
        H = {("helper.txt",): "STRING top-helper\nVAR h \"top\"", ("sub", "helper.txt"): "STRING sub-helper\nVAR h \"sub\"",
             ("sub", "part.txt"): "START helper", ("sub", "lib.txt"): "FUNC imp\n    START helper\nFUNC impc\n    STARTCODE helper"}
        for kind in ("START", "STARTCODE", "STARTENV"):
            o_top, o_sub = (["STRING top-helper"], ["STRING sub-helper"]) if kind != "STARTENV" else ([], ["STRING sub-helper"])
            h = dict(H); h[("main.txt",)] = "%s helper\nSTART sub.part\n%s helper" % (kind, kind)
            out.append(fcase(h, ("main.txt",), expect_out=o_top + ["STRING sub-helper"] + o_top))
            h = dict(H); h[("main.txt",)] = "START sub.part\n%s helper\nSTART sub.part" % kind
            out.append(fcase(h, ("main.txt",), expect_out=["STRING sub-helper"] + o_top + ["STRING sub-helper"]))
        h = dict(H); h[("main.txt",)] = "STARTENV sub.lib\nSTART helper\nRUN imp\nSTART helper\nRUN impc\n$STRING h"
        out.append(fcase(h, ("main.txt",), expect_out=["STRING top-helper", "STRING sub-helper", "STRING top-helper", "STRING sub-helper", "STRING sub"]))  # h is not new: STARTCODE updates it
        h = dict(H); h[("main.txt",)] = "STARTENV sub.lib\nRUN imp\nSTART helper\nREPEAT 2\n    START helper\n    RUN imp"
        out.append(fcase(h, ("main.txt",), expect_out=["STRING sub-helper", "STRING top-helper"] + ["STRING top-helper", "STRING sub-helper"] * 2))
        out.append(fcase({("m.txt",): "VAR a 1\nSTART f\n$STRING a+b\nRUN g", ("f.txt",): "$STRING a\nVAR a 5\nVAR b 6\nFUNC g\n    STRING g\nRETURN\nSTRING never"}, ("m.txt",),
                         expect_out=["STRING 1", "STRING 11", "STRING g"]))
        out.append(fcase({("m.txt",): "VAR a 1\nSTARTCODE f\n$STRING a\nNOTEXIST b", ("f.txt",): "STRING out\nVAR a 5\nVAR b 6"}, ("m.txt",), expect_out=["STRING out", "STRING 5"]))
        out.append(fcase({("m.txt",): "STARTENV f\n$STRING b", ("f.txt",): "STRING hidden\nVAR b 6\nPRINT shown"}, ("m.txt",), expect_out=["STRING 6"]))
        for kind in ("START", "STARTCODE", "STARTENV"):
            out.append(fcase({("m.txt",): "DEFAULT_DELAY 7\n%s f\n$STRING $DEFAULT_DELAY" % kind, ("f.txt",): "$STRING \"in=\"+$DEFAULT_DELAY"}, ("m.txt",),
                             expect_out=["DEFAULT_DELAY 7"] + (["STRING in=7"] if kind != "STARTENV" else []) + ["STRING 7"]))
        out.append(fcase({("m.txt",): "START f\nSTRING after", ("f.txt",): "STRING a\n  bad indent\n      worse"}, ("m.txt",)))
        # an imported file is parsed exactly like a file compiled directly: leading blank lines keep
        # their line numbers, an indented first code line is a tab error
        out.append(fcase({("m.txt",): "START f\nSTRING after", ("f.txt",): "\n\n    STRING indented first"}, ("m.txt",), expect_status="CE:InvalidTabError"))
        out.append(fcase({("m.txt",): "START f\nSTRING after", ("f.txt",): "    STRING indented first\nSTRING b"}, ("m.txt",), expect_status="CE:InvalidTabError"))
        out.append(fcase({("m.txt",): "START f\nSTRING after", ("f.txt",): "\n\nPRINT third line\nSTRING b  "}, ("m.txt",), expect_out=["STRING b  ", "STRING after"], expect_print_lines=[3]))
        out.append(fcase({("m.txt",): "START f\nSTRING after", ("f.txt",): "STRING a\x0cb\nSTRING c\x85d\u2028e"}, ("m.txt",), expect_out=["STRING a\x0cb", "STRING c\x85d\u2028e", "STRING after"]))
        return out

    def oracle(self, c, i):
        if "expect_out" in c:
            if i["status"] != "OK" or out_text(i) != c["expect_out"]:
                return ("import_wrong_output", "expected %r, got %s %r" % (c["expect_out"], i["status"], out_text(i)[:6]))
        if "expect_print_lines" in c and i["status"] == "OK":
            if [p[1] for p in i["prints"]] != c["expect_print_lines"]:
                return ("import_line_numbers", "prints of the imported file carry line numbers %r, expected %r" % ([p[1] for p in i["prints"]], c["expect_print_lines"]))
        if "expect_status" in c:
            want = c["expect_status"]
            got = i["status"] + (":" + i.get("err", "") if i["status"] == "CE" else "")
            if i["status"] != "CRASH" and got != want:
                return ("import_not_like_direct", "an imported file must be parsed like a directly compiled one: expected %s, got %s" % (want, got))
        return None

    def extra_checks(self, rng, tier, escalate):
        viol = []
        ev = _c12_relative_entry(viol)
        return {"violations": viol, "evaluations": ev, "summary": {"relative_entry_runs": ev}}

    def group_oracle(self, cases, impls):
        groups = {}
        for c, i in zip(cases, impls):
            if "group" in c:
                groups.setdefault(c["group"], {})[c["role"]] = (c, i)
        viol = []

        def envd(i):
            return ({dec(k): v for k, v in i["vars"]}, sorted(dec(f) for f in i["funcs"]))
        for g, d in groups.items():
            if len(d) < 6 or any(i["status"] in ("CRASH", "TIMEOUT") for c, i in d.values()):
                continue
            p, s = d["paste"][1], d["start"][1]
            if p["status"] != s["status"] or (p["status"] == "OK" and (p["out"] != s["out"] or [x[0] for x in p["prints"]] != [x[0] for x in s["prints"]] or envd(p) != envd(s))):
                if not (p["status"] == "CE" and p.get("err") == "StackOverflowError") and not (s["status"] == "CE" and s.get("err") == "StackOverflowError"):
                    viol.append((d["start"][0], "start_not_paste", "START differs from pasting the file's text (%s vs %s)" % (s["status"], p["status"])))
                continue
            pn, pre, sc, se = d["paste_nopost"][1], d["pre"][1], d["startcode"][1], d["startenv"][1]
            if pn["status"] != "OK" or pre["status"] != "OK":
                continue
            if sc["status"] == "OK":
                pv, pf = envd(pre)
                nv, nf = envd(pn)
                sv, sf = envd(sc)
                if sc["out"] != pn["out"] or sv != {k: nv[k] for k in pv if k in nv} or sf != pf:
                    viol.append((d["startcode"][0], "startcode_wrong", "STARTCODE must contribute the output and only update names the importer already had"))
            if se["status"] == "OK":
                if se["out"] != pre["out"] or envd(se) != envd(pn):
                    viol.append((d["startenv"][0], "startenv_wrong", "STARTENV must contribute variables and functions but no output line"))
        return viol


def _c12_relative_entry(viol_out):
    """compile_file with a path relative to the working directory must behave like the absolute path"""
    import shutil
    ds = common.impl()["ds"]
    base = "/tmp/dsv/c12rel_%d" % os.getpid()
    ev = 0
    old = os.getcwd()
    try:
        shutil.rmtree(base, ignore_errors=True)
        os.makedirs(os.path.join(base, "proj", "app", "sub"))
        os.makedirs(os.path.join(base, "proj", "lib"))
        open(os.path.join(base, "proj", "app", "main.txt"), "w").write("START .lib.tools\nSTART sub.x\nSTRING main")
        open(os.path.join(base, "proj", "app", "sub", "x.txt"), "w").write("START ..lib.tools\nSTRING x")
        open(os.path.join(base, "proj", "lib", "tools.txt"), "w").write("STRING tools")
        try:
            want = ds.Compiler().compile_file(os.path.join(base, "proj", "app", "main.txt")).output
        except Exception as e:
            viol_out.append(({"kind": "relative-entry", "file": "proj/app/main.txt"}, "relative_entry_path_differs", "a valid three-file project fails to compile through its absolute path: %s: %s" % (type(e).__name__, e)))
            return ev
        for cwd, rel in ((os.path.join(base, "proj", "app"), "main.txt"), (os.path.join(base, "proj"), "app/main.txt"), (base, "proj/app/main.txt")):
            os.chdir(cwd)
            ev += 1
            try:
                got = ds.Compiler().compile_file(rel).output
            except Exception as e:
                got = "%s: %s" % (type(e).__name__, e)
            if got != want:
                viol_out.append(({"kind": "relative-entry", "cwd": cwd, "file": rel}, "relative_entry_path_differs",
                                 "compile_file(%r) from %s gives %r, the absolute path gives %r" % (rel, cwd, got, want)))
    finally:
        os.chdir(old)
        shutil.rmtree(base, ignore_errors=True)
    return ev


class C13(Prop):
    id = "C13"
    fields = ["err", "out", "trace"]
    quick_n = 0
    thorough_n = 0
    rule = "every directed import graph on <=3 files (thorough: <=4) x entry point x START kind x import placed at top level or inside a function, plus climbing spellings; distinct = distinct file set"
    explanation = "expected outcome (first re-entry in execution order => CircularStructureError; otherwise success) computed by a graph walk and compared with the implementation and the model"

    def graphs(self, nfiles):
        pairs = [(a, b) for a in range(nfiles) for b in range(nfiles)]
        for mask in range(1 << len(pairs)):
            edges = [p for k, p in enumerate(pairs) if mask >> k & 1]
            if sum(1 for _ in edges) > 5:
                continue
            yield edges

    def simulate(self, edges, entry, nfiles):
        """-> ('OK', output) or ('CIRC', output so far)"""
        out = []

        def run(f, stack):
            out.append("STRING f%d" % f)
            for (a, b) in edges:
                if a != f:
                    continue
                if b in stack:
                    return False
                if not run(b, stack + [b]):
                    return False
            return True
        ok = run(entry, [entry])
        return ("OK" if ok else "CIRC", out)

    def mkcase(self, edges, entry, nfiles, kind, infunc, climb, pre=0):
        files = {}
        for f in range(nfiles):
            lines = ["STRING f%d" % f]
            # the file finishes a block / a call of its own before importing: still live afterwards
            if pre == 1:
                lines += ["IF TRUE", "    PASS"]
            elif pre == 2:
                lines += ["REPEAT 2", "    PASS", "WHILE w,w<1", "    PASS"]
            elif pre == 3:
                lines += ["FUNC own%d" % f, "    PASS", "RUN own%d" % f]
            mine = [b for (a, b) in edges if a == f]
            if pre == 4 and len(mine) >= 2 and not infunc:
                # one command: the first target inline, the others as an argument group
                nm = [("f%d" % b) if not climb else (".d.f%d" % b) for b in mine]
                lines += ["%s %s" % (kind, nm[0])] + ["    " + x for x in nm[1:]]
                files[("d", "f%d.txt" % f)] = "\n".join(lines)
                continue
            if pre == 5 and len(mine) >= 1 and not infunc:
                nm = [("f%d" % b) if not climb else (".d.f%d" % b) for b in mine]
                lines += [kind] + ["    " + x for x in nm]
                files[("d", "f%d.txt" % f)] = "\n".join(lines)
                continue
            for (a, b) in edges:
                if a == f:
                    name = ("f%d" % b) if not climb else (".d.f%d" % b)
                    if infunc:
                        lines += ["FUNC imp%d" % b, "    %s %s" % (kind, name), "RUN imp%d" % b]
                    else:
                        lines.append("%s %s" % (kind, name))
            files[("d", "f%d.txt" % f)] = "\n".join(lines)
        st, out = self.simulate(edges, entry, nfiles)
        c = fcase(files, ("d", "f%d.txt" % entry), {"stack_limit": 60}, expect_status=st)
        if st == "OK" and kind in ("START", "STARTCODE"):
            c["expect_out"] = out
        return c

    def corpus(self, tier):
        out = []
        r = random.Random(13)
        for nfiles in ([1, 2, 3] if tier != "thorough" else [1, 2, 3, 4]):
            gs = list(self.graphs(nfiles))
            if nfiles == 3 and tier != "thorough":
                gs = r.sample(gs, 220)
            if nfiles == 4:
                gs = r.sample(gs, 2500)
            for edges in gs:
                entry = r.randrange(nfiles)
                kind = r.choice(["START", "START", "STARTCODE", "STARTENV"])
                out.append(self.mkcase(edges, entry, nfiles, kind, r.random() < 0.3, r.random() < 0.25))
                if r.random() < 0.4:
                    out.append(self.mkcase(edges, entry, nfiles, kind, r.random() < 0.3, False, pre=r.choice([1, 2, 3])))
                if r.random() < 0.4:
                    out.append(self.mkcase(edges, entry, nfiles, kind, False, r.random() < 0.25, pre=r.choice([4, 5])))
        # files that never run a line, or end a WHILE on a false condition, imported twice / along two paths
        for leaf in ("", "   \n\n", "VAR k 0\nWHILE k<0\n    PASS\nIF TRUE\n    STRING leaf", "WHILE FALSE\n    PASS\nREPEAT 1\n    STRING leaf"):
            exp_leaf = ["STRING leaf"] if "leaf" in leaf else []
            for kind in ("START", "STARTCODE", "STARTENV"):
                out.append(fcase({("m.txt",): "%s e\n%s e\nSTRING done" % (kind, kind), ("e.txt",): leaf}, ("m.txt",), expect_status="OK",
                                 expect_out=(exp_leaf * 2 if kind != "STARTENV" else []) + ["STRING done"]))
            out.append(fcase({("m.txt",): "START a\nSTART b\nSTRING done", ("a.txt",): "START e\nIF TRUE\n    STRING a", ("b.txt",): "START e\nIF TRUE\n    STRING b", ("e.txt",): leaf},
                             ("m.txt",), expect_status="OK", expect_out=exp_leaf + ["STRING a"] + exp_leaf + ["STRING b", "STRING done"]))
        # a cycle that exactly fills the stack limit is still reported as a cycle
        for n in (1, 2, 3, 5):
            for kind in ("START", "STARTCODE", "STARTENV"):
                files = {("r%d.txt" % k,): "STRING r%d\n%s r%d" % (k, kind, (k + 1) % n) for k in range(n)}
                for entry in range(n):
                    out.append(fcase(files, ("r%d.txt" % entry,), {"stack_limit": n}, expect_status="CIRC"))
            files = {("m.txt",): "FUNC go\n    START lib\nRUN go", ("lib.txt",): "STRING lib\nSTART m"}
            out.append(fcase(files, ("m.txt",), {"stack_limit": 3}, expect_status="CIRC"))
        # repeats and diamonds are accepted
        out.append(fcase({("m.txt",): "START a\nSTART a\nSTART b", ("a.txt",): "START c\nSTRING a", ("b.txt",): "START c\nSTRING b", ("c.txt",): "STRING c"}, ("m.txt",),
                         expect_status="OK", expect_out=["STRING c", "STRING a", "STRING c", "STRING a", "STRING c", "STRING b"]))
        return out

    def extra_checks(self, rng, tier, escalate):
        """the same cycle compiled again in the same process from another entry point; a cycle closed by a
        START line that ran successfully before (implementation only)"""
        import shutil
        ds = common.impl()["ds"]
        viol = []
        ev = 0
        base = "/tmp/dsv/c13x_%d" % os.getpid()
        try:
            for kind in ("START", "STARTCODE", "STARTENV"):
                for n in (2, 3):
                    shutil.rmtree(base, ignore_errors=True)
                    os.makedirs(base)
                    for k in range(n):
                        open(os.path.join(base, "f%d.txt" % k), "w").write("STRING f%d\n%s f%d" % (k, kind, (k + 1) % n))
                    for entry in list(range(n)) + [0]:
                        ev += 1
                        try:
                            ds.Compiler(ds.CompileOptions(stack_limit=30)).compile_file(os.path.join(base, "f%d.txt" % entry))
                            got = "OK"
                        except ds.CompilationError as e:
                            got = type(e).__name__
                        except Exception as e:
                            got = "CRASH " + type(e).__name__
                        if got != "CircularStructureError":
                            viol.append(({"kind": "cycle-twice", "import": kind, "files": n, "entry": entry}, "cycle_not_rejected_second_time",
                                         "a %d-cycle compiled from entry f%d after other entry points gave %s" % (n, entry, got)))
            # conditional import: b's `START a` runs successfully first, later closes a cycle
            shutil.rmtree(base, ignore_errors=True)
            os.makedirs(base)
            open(os.path.join(base, "main.txt"), "w").write("VAR guard 0\nSTART b\nVAR guard 1\nSTART a")
            open(os.path.join(base, "a.txt"), "w").write("STRING a\nIF guard == 1\n    START b")
            open(os.path.join(base, "b.txt"), "w").write("STRING b\nSTART a")
            ev += 1
            try:
                ds.Compiler(ds.CompileOptions(stack_limit=30)).compile_file(os.path.join(base, "main.txt"))
                got = "OK"
            except ds.CompilationError as e:
                got = type(e).__name__
            except Exception as e:
                got = "CRASH " + type(e).__name__
            if got != "CircularStructureError":
                viol.append(({"kind": "conditional-cycle"}, "cycle_not_rejected_second_time", "a cycle closed by a START line that ran before gave %s" % got))
            # every spelling of the ENTRY path: a diamond and a cycle whose edges climb out of the folder and back in,
            # entered through a relative path from the project folder, from its parent and from inside
            shutil.rmtree(base, ignore_errors=True)
            os.makedirs(os.path.join(base, "proj"))
            for nm, txt in (("a", "STRING a\nSTART .proj.b\nSTART .proj.c"), ("b", "STRING b\nSTART .proj.d"), ("c", "STRING c\nSTART .proj.d"), ("d", "STRING d"),
                            ("p", "STRING p\nSTART .proj.q"), ("q", "STRING q\nSTART .proj.p")):
                open(os.path.join(base, "proj", nm + ".txt"), "w").write(txt)
            old = os.getcwd()
            try:
                for entry, want in (("a", "OK"), ("p", "CircularStructureError")):
                    for cwd, rel in ((os.path.join(base, "proj"), entry + ".txt"), (base, "proj/" + entry + ".txt"), ("/", os.path.join(base, "proj", entry + ".txt"))):
                        os.chdir(cwd)
                        ev += 1
                        try:
                            ds.Compiler(ds.CompileOptions(stack_limit=30)).compile_file(rel)
                            got = "OK"
                        except ds.CompilationError as e:
                            got = type(e).__name__
                        except Exception as e:
                            got = "CRASH " + type(e).__name__
                        if got != want:
                            viol.append(({"kind": "entry-spelling", "cwd": cwd, "file": rel}, "entry_path_spelling_matters",
                                         "compile_file(%r) from %s gives %s, expected %s" % (rel, cwd, got, want)))
            finally:
                os.chdir(old)
        finally:
            shutil.rmtree(base, ignore_errors=True)
        return {"violations": viol, "evaluations": ev, "summary": {"cycle_replays": ev}}

    def oracle(self, c, i):
        st = c.get("expect_status")
        if st is None:
            return None
        if st == "CIRC":
            if not (i["status"] == "CE" and i.get("err") == "CircularStructureError"):
                return ("cycle_not_rejected", "an import cycle was not rejected (status %s %s)" % (i["status"], i.get("err", "")))
            if not trace_nums(i):
                return ("cycle_without_chain", "the circular-import error does not show the chain")
        else:
            if i["status"] == "CE" and i.get("err") == "CircularStructureError":
                return ("acyclic_rejected", "an acyclic import graph was rejected as circular")
            if i["status"] != "OK":
                return ("acyclic_failed", "acyclic imports failed: %s %s" % (i.get("err"), i.get("msg", "")))
            if "expect_out" in c and out_text(i) != c["expect_out"]:
                return ("import_order_wrong", "output %r expected %r" % (out_text(i), c["expect_out"]))
        return None


# ====================================================================================== C14
class C14(Prop):
    timeout_is_observation = True
    id = "C14"
    fields = ["err", "out"]
    quick_n = 0
    thorough_n = 0
    rule = "for stack limits L and each depth-consuming construct (IF, REPEAT, WHILE, RUN chain, direct/mutual recursion, START chain, mixtures): depth L-1 and L; loop counts around 20000; parenthesis depth 99..101; thousands of sequential blocks; distinct = distinct case"
    explanation = "expected outcome from the nest_exact / while_limit / paren_limit theorems (k < L <=> success) checked on the implementation and on the model"

    def nest(self, kind, k, files):
        """program text whose deepest chain is k levels"""
        lines = []
        if kind in ("if", "repeat", "while", "mix"):
            for d in range(k):
                kk = kind if kind != "mix" else ["if", "repeat", "while"][d % 3]
                lines.append("  " * d + {"if": "IF TRUE", "repeat": "REPEAT 1", "while": "WHILE w%d,w%d<1" % (d, d)}[kk])
            lines.append("  " * k + "STRING bottom")
            return "\n".join(lines)
        if kind == "run":
            for d in range(k):
                lines.append("FUNC f%d" % d)
                lines.append("  RUN f%d" % (d + 1) if d + 1 < k else "  STRING bottom")
            lines.append("RUN f0" if k else "STRING bottom")
            return "\n".join(lines)
        if kind == "start":
            for d in range(1, k + 1):
                files[("c%d.txt" % d,)] = ("START c%d" % (d + 1)) if d < k else "STRING bottom"
            return "START c1" if k else "STRING bottom"
        raise ValueError(kind)

    def corpus(self, tier):
        out = []
        limits = [5, 6, 20, 50] if tier != "thorough" else list(range(5, 60)) + [100, 150]
        for L in limits:
            for kind in ("if", "repeat", "while", "run", "start", "mix"):
                for k in (L - 1, L):
                    files = {}
                    t = self.nest(kind, k, files)
                    exp = "OK" if k < L else "SO"
                    if kind == "start":
                        files[("main.txt",)] = t
                        out.append(fcase(files, ("main.txt",), {"stack_limit": L}, expect=exp, timeout=60.0, construct=kind, depth=k))
                    else:
                        out.append(comp(t, {"stack_limit": L}, expect=exp, timeout=60.0, construct=kind, depth=k))
        # a chain arm that is not taken consumes no level: at the last permitted depth an untaken IF / ELIF and
        # an ELSE after a taken IF are fine; guarded recursion bottoms out exactly at the limit
        for L in ([5, 6, 20] if tier != "thorough" else [5, 6, 7, 20, 57, 100, 200]):
            for kind in ("if", "repeat", "mix"):
                base = self.nest(kind, L - 1, {}).split("\n")[:-1]
                ind = "  " * (L - 1)
                for tail in (["IF FALSE", "  STRING no", "STRING bottom"], ["IF FALSE", "  STRING no", "ELIF 1>2", "  STRING no", "STRING bottom"],
                             ["IF FALSE", "  STRING no", "ELSE", "  STRING yes"], ["WHILE w,w<0", "  STRING no", "STRING bottom"]):
                    # (a WHILE evaluates its condition inside the iteration's own block, so a WHILE that never runs still
                    # needs a level: the model decides that one)
                    t = "\n".join(base + [ind + x for x in tail])
                    out.append(comp(t, {"stack_limit": L}, expect=("OK" if tail[-1] == "STRING bottom" and not tail[0].startswith("WHILE") else None), timeout=60.0, construct="untaken-" + kind, depth=L - 1))
            out.append(comp("FUNC f n\n  IF n>0\n    RUN f n-1\n  STRING x\nRUN f %d" % ((L - 2) // 2), {"stack_limit": L}, expect=None, timeout=60.0, construct="guarded", depth=L))
            out.append(comp("FUNC f n\n  IF n>0\n    RUN f n-1\n  STRING x\nRUN f %d" % ((L - 1) // 2), {"stack_limit": L}, expect=None, timeout=60.0, construct="guarded", depth=L))
        # an imported file counts as a level whatever it contains (also nothing); the parenthesis limit is about
        # NESTING: many groups side by side, and parentheses inside strings, are not deep
        for L in (5, 6, 11, 20):
            for leaf in ("", "\n\n", "   \n"):
                for imp in ("START", "STARTENV", "STARTCODE"):
                    for k, exp in ((L - 1, "OK"), (L, "SO")):
                        files = {}
                        for d in range(1, k):
                            files[("c%d.txt" % d,)] = "START c%d" % (d + 1)
                        files[("c%d.txt" % k,)] = leaf
                        files[("main.txt",)] = "START c1"
                        if k >= 2:
                            files[("c%d.txt" % (k - 1),)] = "%s c%d" % (imp, k)
                        else:
                            files[("main.txt",)] = "%s c1" % imp
                        out.append(fcase(files, ("main.txt",), {"stack_limit": L}, expect=exp, timeout=60.0, construct="blank-leaf", depth=k))
        for L in (5, 20):
            for same in (True, False):
                for k, exp in ((L - 1, "OK"), (L, "SO")):
                    files = {}
                    for d in range(0, k + 1):
                        nm = "main" if same else "f%d" % d
                        path = tuple(["sub"] * d + [nm + ".txt"])
                        nxt = "sub." + ("main" if same else "f%d" % (d + 1))
                        files[path] = ("STRING d%d\nSTART %s" % (d, nxt)) if d < k else "STRING bottom"
                    out.append(fcase(files, (("main" if same else "f0") + ".txt",), {"stack_limit": L}, expect=exp, timeout=60.0, construct="same-name-chain" if same else "named-chain", depth=k))
        for e in ["(" + "+".join(["(1)"] * 120) + ")", "(" + "+".join(["((1))"] * 60) + ")*1", "(\"" + "(" * 150 + "\")", "1+(" + "*".join(["(2-1)"] * 101) + ")"]:
            out.append(comp("$STRING " + e, {}, expect="OK"))
            out.append(comp("VAR q " + e + "\nIF TRUE\n  $STRING q", {}, expect="OK"))
        for L in ([100, 199, 200] if tier != "thorough" else [100, 120, 140, 160, 180, 190, 199, 200]):
            for kind in ("if", "run", "start"):
                for k in (L - 1, L):
                    files = {}
                    t = self.nest(kind, k, files)
                    exp = "OK" if k < L else "SO"
                    if kind == "start":
                        files[("main.txt",)] = t
                        out.append(fcase(files, ("main.txt",), {"stack_limit": L}, expect=exp, timeout=90.0, deep=True, construct=kind, depth=k))
                    else:
                        out.append(comp(t, {"stack_limit": L}, expect=exp, timeout=90.0, deep=True, construct=kind, depth=k))
        # unbounded recursion / import chain end in a compile error
        for L in (5, 20):
            out.append(comp("FUNC f\n  RUN f\nRUN f", {"stack_limit": L}, expect="SO"))
            out.append(comp("FUNC f\n  RUN g\nFUNC g\n  RUN f\nRUN f", {"stack_limit": L}, expect="SO"))
            out.append(comp("FUNC f n\n  IF n>0\n    RUN f n-1\n  STRING x\nRUN f 1000", {"stack_limit": L}, expect="SO"))
        # sequential blocks consume no depth
        seq = "\n".join("IF TRUE\n  REPEAT 1\n    STRING s%d" % j for j in range(1500 if tier != "thorough" else 3000))
        out.append(comp(seq, {"stack_limit": 5}, expect="OK", timeout=120.0))
        # loop limits
        out.append(comp("VAR c 0\nREPEAT 20001\n  VAR c c+1", {}, expect="CE:InvalidArgumentsError", timeout=120.0))
        out.append(comp("WHILE TRUE\n  PASS", {}, expect="CE:ExceededLimitError", timeout=180.0))
        out.append(comp("VAR c 0\nWHILE c<20000\n  VAR c c+1\n$STRING c", {}, expect="OK", timeout=180.0, expect_out=["STRING 20000"]))
        if tier == "thorough":
            out.append(comp("VAR c 0\nREPEAT 20000\n  VAR c c+1\n$STRING c", {}, expect="OK", timeout=180.0, expect_out=["STRING 20000"]))
            # the bound is tested before the condition: after 20001 completed iterations the loop fails even
            # though its condition would now be false (the model agrees: while_limit_op = CGt on the iteration count)
            out.append(comp("VAR c 0\nWHILE c<20001\n  VAR c c+1\n$STRING c", {}, expect="CE:ExceededLimitError", timeout=180.0))
        # CONTINUE iterations count towards the limit; a never-false WHILE whose body always continues ends in a compile error
        out.append(comp("WHILE TRUE\n  CONTINUELOOP", {}, expect="CE:ExceededLimitError", timeout=60.0))
        out.append(comp("VAR c 0\nWHILE i,i<30000\n  VAR c c+1\n  IF c>5\n    CONTINUE\n  STRING x", {}, expect="CE:ExceededLimitError", timeout=90.0))
        out.append(comp("VAR c 0\nREPEAT 20000\n  VAR c c+1\n  CONTINUELOOP\n$STRING c", {}, expect="OK", timeout=120.0, expect_out=["STRING 20000"]))
        # the REPEAT bound holds for the count re-evaluated on every iteration
        out.append(comp("VAR n 19995\nVAR k 0\nREPEAT n\n  VAR n n+1\n  VAR k k+1\n  IF k>20100\n    BREAKLOOP", {}, expect="CE:InvalidArgumentsError", timeout=120.0))
        # imports that follow one another consume no depth
        for L in (5, 20):
            files = {("main.txt",): "\n".join(["START a", "STARTENV b", "STARTCODE a"] * (L // 2 + 2) + ["REPEAT 3", "  START a"]), ("a.txt",): "STRING a", ("b.txt",): "VAR x 1"}
            out.append(fcase(files, ("main.txt",), {"stack_limit": L}, expect="OK"))
        for d, exp in ((99, "OK"), (100, "OK"), (101, "CE:StackOverflowError")):
            out.append(comp("$STRING " + "(" * d + "1" + ")" * d, {}, expect=exp))
            out.append(comp("$STRING 1+" + "(" * d + "1" + ")" * d + "*2", {}, expect=exp))
        return out

    def oracle(self, c, i):
        exp = c.get("expect")
        if exp is None:
            return None
        if i["status"] == "TIMEOUT":
            return ("hang", "no result within the time bound")
        if i["status"] == "CRASH":
            # the recorded finding is: START chains of about 190 levels or more; host-stack exhaustion by any
            # other construct or at a smaller depth is a different violation
            if i["err"] == "RecursionError":
                tag = "host_recursion" if (c.get("construct") == "start" and c.get("depth", 0) >= 185) else "host_recursion:%s@%s" % (c.get("construct"), c.get("depth"))
            else:
                tag = "crash:" + i["err"]
            return (tag, "%s instead of a compile error (limit %s)" % (i["err"], c["opts"].get("stack_limit", 20)))
        if exp == "OK":
            if i["status"] != "OK":
                return ("below_limit_rejected", "a program below the limit failed: %s" % i.get("err"))
            if "expect_out" in c and out_text(i) != c["expect_out"]:
                return ("limit_wrong_output", "output %r" % out_text(i)[:3])
        elif exp == "SO":
            if not (i["status"] == "CE" and i.get("err") == "StackOverflowError"):
                return ("limit_not_enforced", "depth at the limit gave %s %s" % (i["status"], i.get("err", "")))
        elif exp.startswith("CE:"):
            if not (i["status"] == "CE" and i.get("err") == exp[3:]):
                return ("limit_not_enforced", "expected %s, got %s %s" % (exp, i["status"], i.get("err", "")))
        return None

    def witness_fails(self, w, k):
        if w.get("kind") == "gen":
            files = {}
            t = self.nest(w["construct"], w["depth"], files)
            files[("main.txt",)] = t
            c = fcase(files, ("main.txt",), {"stack_limit": w["limit"]}, expect="OK", timeout=90.0, construct=w["construct"], depth=w["depth"])
            c["root"] = common.SCRATCH_BASE + ["kf_c14_%d" % os.getpid()]
            i = common.run_impl_case(c, timeout=90.0)
            o = self.oracle(c, i)
            return o[1] if o and o[0] == k["tag"] else None
        return Prop.witness_fails(self, w, k)

    def ignore_disagreement(self, c, m, i):
        # host-stack exhaustion is outside the model; only the recorded region (known finding host_recursion) is excused
        return i["status"] == "CRASH" and i.get("err") == "RecursionError" and c.get("construct") == "start" and c.get("depth", 0) >= 185


# ====================================================================================== C15
class C15(Prop):
    id = "C15"
    fields = ["out", "err", "warnings", "prints"]
    quick_n = 900
    thorough_n = 20000
    rule = "all 16 combinations of the four boolean options x programs mixing REM / Flipper-only / unknown / ordinary commands at any nesting, string and file entry points, project config.yaml contents; distinct = distinct (program, options)"
    explanation = "each run is compared with the model; option relations (comments interleave, flipper gate, warning suppression, entry-point equality, project merge) are checked between runs of the implementation"

    def flipper_corpus(self):
        # the Flipper gate applies to the command, with or without an argument, wherever it is executed
        out = []
        k = 0
        for cmd in ["SYSRQ", "CTRL-ALT", "CTRL-SHIFT", "ALT-SHIFT", "ALT-GUI", "GUI-SHIFT", "ALTCHAR 65", "ALTSTRING a", "ALTCODE a", "SYSRQ h", "CTRL-ALT k", "$SYSRQ", "sysrq"]:
            for wrap in ("%s", "STRING a\n%s", "IF TRUE\n    %s", "FUNC f\n    %s\nRUN f", "REPEAT 2\n    %s", "IF FALSE\n    %s\nSTRING unexecuted"):
                text = wrap % cmd
                base = dict(include_comments=False, flipper_commands=True, supress_command_not_exist=False)
                grp = "fl%d" % k
                k += 1
                for role, o in (("base", {}), ("comments", {"include_comments": True}), ("noflip", {"flipper_commands": False}), ("suppress", {"supress_command_not_exist": True})):
                    out.append(comp(text, dict(base, **o), group=grp, role=role))
                out.append(fcase({("p", "main.txt"): text}, ("p", "main.txt"), dict(base), group=grp, role="file"))
                out.append(comp(text, dict(base, flipper_commands=False, include_comments=True), group=grp, role="rand"))
        return out

    def generate(self, rng, n, tier):
        cases = []
        for k in range(n // 6):
            r = rsub(rng)
            pg = gen.ProgGen(r, valid=1.0, weights={"rem": 4, "unknown": 2, "simple": 6, "ignore": 0, "quoted": 0.2, "group": 1})
            # the string twin of a file is what a text-mode read of that file returns (a CR is a line end there)
            text = common.as_read("\n".join(gen.render(pg.program(), "    ", r, blank=0.05)))
            base = dict(include_comments=False, flipper_commands=True, supress_command_not_exist=False)
            grp = "o%d" % k
            for role, o in (("base", {}), ("comments", {"include_comments": True}), ("noflip", {"flipper_commands": False}), ("suppress", {"supress_command_not_exist": True})):
                cases.append(comp(text, dict(base, **o), group=grp, role=role))
            cases.append(fcase({("p", "main.txt"): text}, ("p", "main.txt"), dict(base), group=grp, role="file"))
            o = dict(include_comments=r.random() < 0.5, flipper_commands=r.random() < 0.5, supress_command_not_exist=r.random() < 0.5)
            cases.append(comp(text, o, group=grp, role="rand"))
        return cases

    def corpus(self, tier):
        """ProjectEnvironment.calculate_options against the Coq model (Options.v), every shape of config.yaml"""
        out = self.flipper_corpus()
        vals = {"stack_limit": [7, 200], "include_comments": [True, False], "flipper_commands": [True, False], "supress_command_not_exist": [True, False], "use_project_config": [True, False]}
        keys = list(vals)
        r = random.Random(15)
        projs = [None, {}]
        for n in range(1, 6):
            for ks in itertools.combinations(keys, n):
                for _ in range(2 if tier != "thorough" else 6):
                    projs.append({k: r.choice(vals[k]) for k in ks})
        for proj in projs:
            for g_use in (True, False):
                g = {"stack_limit": r.choice([20, 33]), "include_comments": r.random() < 0.5, "flipper_commands": r.random() < 0.5,
                     "supress_command_not_exist": r.random() < 0.5, "use_project_config": g_use}
                out.append({"kind": "opts", "global": g, "project": proj})
        return out

    def oracle(self, c, i):
        if c.get("kind") == "opts" and i.get("status") == "OK":
            g = dict(common.DEFAULT_OPTS, **c["global"])
            y = c["project"]
            full = dict(common.DEFAULT_OPTS, **(y or {}))
            use = g["use_project_config"] and y is not None and full["use_project_config"]
            want = full if use else g
            want_l = [want[k] for k in ("stack_limit", "include_comments", "flipper_commands", "supress_command_not_exist", "use_project_config")]
            if i["effective"] != want_l:
                return ("project_merge_wrong", "effective options %s, expected %s (project %r, global use_project_config=%s)" % (i["effective"], want_l, y, g["use_project_config"]))
            if y is not None:
                full_l = [full[k] for k in ("stack_limit", "include_comments", "flipper_commands", "supress_command_not_exist", "use_project_config")]
                if i.get("after_options") != full_l:
                    return ("project_config_meaning_changed", "config.yaml denotes %s afterwards, before %s" % (i.get("after_options"), full_l))
        return None

    def group_oracle(self, cases, impls):
        groups = {}
        for c, i in zip(cases, impls):
            if "group" in c:
                groups.setdefault(c["group"], {})[c["role"]] = (c, i)
        viol = []
        FLIP = {"ALTCHAR", "ALTCODE", "ALTSTRING", "SYSRQ"} | set(gen.FLIP_MOD)
        for g, d in groups.items():
            if len(d) < 5 or any(i["status"] in ("CRASH", "TIMEOUT") for c, i in d.values()):
                continue
            b = d["base"][1]
            co, nf, su, fi = d["comments"][1], d["noflip"][1], d["suppress"][1], d["file"][1]
            text = d["base"][0]["text"]
            # comments
            if b["status"] != co["status"]:
                viol.append((d["comments"][0], "comments_change_status", "enabling comments changed success/failure"))
            elif b["status"] == "OK":
                kept = [l for l in out_text(co) if not (l == "REM" or l.startswith("REM "))]
                if kept != out_text(b) and "REM" not in " ".join(out_text(b)):
                    viol.append((d["comments"][0], "comments_not_interleaved", "comments-on output minus REM lines differs from the comments-off output"))
                nrem = sum(1 for l in text.split("\n") if l.strip().upper().startswith("REM"))
                if nrem and len(out_text(co)) == len(out_text(b)) and "REPEAT 0" not in text:
                    pass
                if [p[0] for p in co["prints"]] != [p[0] for p in b["prints"]] or co["vars"] != b["vars"]:
                    viol.append((d["comments"][0], "comments_change_state", "enabling comments changed prints or variables"))
            # suppression
            if b["status"] == "OK":
                if su["status"] != "OK" or su["out"] != b["out"]:
                    viol.append((d["suppress"][0], "suppress_changes_output", "suppressing warnings changed the result"))
                else:
                    want = [w for w in b["warnings"] if "may not exist" not in dec(w[0])]
                    if sorted(json.dumps(w) for w in su["warnings"]) != sorted(json.dumps(w) for w in want):
                        viol.append((d["suppress"][0], "suppress_wrong_set", "suppression did not remove exactly the unknown-command warnings"))
            # flipper gate (for programs that succeed with flipper commands enabled)
            if b["status"] == "OK":
                used = any(l.split(" ")[0] in FLIP for l in out_text(b))
                if used and not (nf["status"] == "CE" and nf.get("err") == "InvalidCommand"):
                    viol.append((d["noflip"][0], "flipper_gate_open", "a Flipper-only command ran with Flipper commands disabled"))
                if not used and (nf["status"] != "OK" or nf["out"] != b["out"]):
                    # a flipper-only command may be executed without emitting (none of them is silent) -> must be equal
                    viol.append((d["noflip"][0], "flipper_gate_overblocks", "disabling Flipper commands changed a program that executes none"))
            # entry points
            if (b["status"], b.get("out"), b.get("err")) != (fi["status"], fi.get("out"), fi.get("err")):
                viol.append((d["file"][0], "entry_points_differ", "compile(text) and compile_file(file) disagree"))
            elif b["status"] == "OK" and ([dec(w[0]) for w in b["warnings"]] != [dec(w[0]) for w in fi["warnings"]] or [p[0] for p in b["prints"]] != [p[0] for p in fi["prints"]]):
                viol.append((d["file"][0], "entry_points_differ", "compile(text) and compile_file(file) disagree on warnings/prints"))
        return viol

    def extra_checks(self, rng, tier, escalate):
        """project config merge through compile_file (implementation only)"""
        import yaml
        ds = common.impl()["ds"]
        viol = []
        ev = 0
        combos = list(itertools.product([False, True], repeat=3))
        root = "/tmp/dsv/c15_%d" % os.getpid()
        try:
            for g_use in (True, False):
                for proj in (None, {}, {"use_project_config": False, "include_comments": True}, {"include_comments": True, "stack_limit": 7},
                             {"include_comments": True, "flipper_commands": False, "supress_command_not_exist": True, "stack_limit": 9, "use_project_config": True}):
                    for g_comments in (False, True):
                        shutil.rmtree(root, ignore_errors=True)
                        os.makedirs(root)
                        open(os.path.join(root, "main.txt"), "w").write("REM c\nSTRING x\nFOO")
                        if proj is not None:
                            yaml.dump(proj, open(os.path.join(root, "config.yaml"), "w"))
                        gopts = ds.CompileOptions(include_comments=g_comments, use_project_config=g_use)
                        ev += 1
                        try:
                            res = ds.Compiler(gopts).compile_file(os.path.join(root, "main.txt"))
                        except Exception as e:
                            viol.append(({"kind": "project", "global": gopts.to_dict(), "project": proj}, "project_config_crash:" + type(e).__name__, "compile_file raised %s with this project config" % type(e).__name__))
                            continue
                        use_proj = g_use and proj is not None and proj.get("use_project_config", True)
                        eff_comments = proj.get("include_comments", False) if use_proj else g_comments
                        eff_suppress = proj.get("supress_command_not_exist", False) if use_proj else False
                        got_comments = "REM c" in res.output
                        got_warn = len(res.warnings) > 0
                        if got_comments != eff_comments or got_warn == eff_suppress:
                            viol.append(({"kind": "project", "global": gopts.to_dict(), "project": proj}, "project_merge_wrong",
                                         "project config %r with global use_project_config=%s: comments=%s warnings=%s" % (proj, g_use, got_comments, got_warn)))
                        if proj is not None:
                            after = yaml.safe_load(open(os.path.join(root, "config.yaml")))
                            before_opts = ds.CompileOptions(**proj).to_dict()
                            if ds.CompileOptions(**(after or {})).to_dict() != before_opts:
                                viol.append(({"kind": "project", "global": gopts.to_dict(), "project": proj}, "project_config_meaning_changed", "config.yaml denotes different options after compiling"))
                        # the options hold per compilation through every entry point of ONE Compiler object: after a
                        # file of this project, a string (and a file of a directory without config) compile under
                        # the options the object was built with
                        plain = os.path.join(root, "plain")
                        os.makedirs(plain, exist_ok=True)
                        open(os.path.join(plain, "p.txt"), "w").write("REM c\nSTRING x\nFOO")
                        one = ds.Compiler(ds.CompileOptions(include_comments=g_comments, use_project_config=g_use))
                        try:
                            one.compile_file(os.path.join(root, "main.txt"))
                            later_s = one.compile("REM c\nSTRING x\nFOO")
                            later_f = one.compile_file(os.path.join(plain, "p.txt"))
                            fresh = ds.Compiler(ds.CompileOptions(include_comments=g_comments, use_project_config=g_use)).compile("REM c\nSTRING x\nFOO")
                            ev += 2
                            for nm, later in (("compile(text)", later_s), ("compile_file(dir without config)", later_f)):
                                if later.output != fresh.output or len(later.warnings) != len(fresh.warnings):
                                    viol.append(({"kind": "project", "global": gopts.to_dict(), "project": proj, "entry": nm}, "options_leak_between_entry_points",
                                                 "after compile_file of a project, %s on the same Compiler gives %r, with these options a fresh one gives %r" % (nm, later.output, fresh.output)))
                        except ds.CompilationError:
                            pass
        finally:
            shutil.rmtree(root, ignore_errors=True)
        return {"violations": viol, "evaluations": ev, "summary": {"project_config_runs": ev}}


# ====================================================================================== C16
DUCKY3 = ["HOLD", "RELEASE", "WAIT_FOR_BUTTON_PRESS", "ATTACKMODE", "DEFINE", "STRING_DELAY", "LED_R", "INJECT_MOD", "BUTTON_DEF", "END_IF", "THEN", "FUNCTION()", "RESTART_PAYLOAD", "MOUSE", "MEDIA"]


class C16(Prop):
    id = "C16"
    fields = ["out", "warnings", "err"]
    quick_n = 1500
    thorough_n = 30000
    rule = "command words at edit distance 1 from every palette name, Ducky 3 keywords, block keywords without a block, random Unicode words x random arguments x positions (top level, branches, loops, functions); random IGNORE bodies; distinct = distinct program text"
    explanation = "output and located warnings compared with the model; pass-through oracle on the implementation (upper-cased word + trimmed argument in place, a warning locating the line; no such warning for known-only programs)"

    def words(self, r, allnames):
        x = r.random()
        if x < 0.45:
            w = r.choice(allnames)
            k = r.randrange(3)
            j = r.randrange(len(w) + 1)
            ch = r.choice("ABCXYZ_-09é")
            if k == 0 and len(w) > 1:
                w2 = w[:j] + w[j + 1:] if j < len(w) else w[:-1]
            elif k == 1:
                w2 = w[:j] + ch + w[j:]
            else:
                w2 = w[:j] + ch + w[j + 1:] if j < len(w) else w + ch
            return w2
        if x < 0.6:
            return r.choice(DUCKY3)
        if x < 0.75:
            return r.choice(["IF", "ELIF", "ELSE", "WHILE", "FUNC", "FUNCTION", "IGNORE"])   # block keywords without a block
        return (gen.rtext(r, r.randint(1, 6), list("abcxyzABC_-019éßıλЖ中😀#%&*")) or "w")

    def generate(self, rng, n, tier):
        allnames = [nm for _, names in props.PALETTE_NAMES for nm in names]
        known = set(allnames)
        cases = []
        for _ in range(n):
            r = rsub(rng)
            x = r.random()
            if x < 0.7:
                w = self.words(r, allnames)
                if not w.strip() or w.split()[0] != w or w.startswith("$") or w.startswith('"""'):
                    w = "FOO"
                arg = gen.rtext(r, r.randint(0, 8))
                arg = arg.replace("\n", "")
                up = w.upper()
                isknown = up in known and up not in ("IF", "ELIF", "ELSE", "WHILE", "FUNC", "FUNCTION", "IGNORE")
                line = w + (" " + arg if arg.strip() else "")
                exp = up + (" " + arg.strip() if arg.strip() else "")
                wrap = r.randrange(5)
                pre = ["STRING before"]
                if wrap == 0:
                    lines, at = pre + [line, "STRING after"], 2
                elif wrap == 1:
                    lines, at = pre + ["IF TRUE", "    " + line, "STRING after"], 3
                elif wrap == 2:
                    lines, at = pre + ["REPEAT 2", "    " + line, "STRING after"], 3
                elif wrap == 3:
                    lines, at = pre + ["FUNC f", "    " + line, "RUN f", "STRING after"], 3
                else:
                    lines, at = pre + ["IF FALSE", "    PASS", "ELSE", "    WHILE i,i<1", "        " + line], 6
                c = comp("\n".join(lines))
                if not isknown and up not in known:
                    c["unknown"] = {"expect_line": exp, "at": at}
                elif up in ("IF", "ELIF", "ELSE", "WHILE", "FUNC", "FUNCTION", "IGNORE") and wrap != 4:
                    c["unknown"] = {"expect_line": exp, "at": at}
                cases.append(c)
            elif x < 0.85:
                body = [(gen.rtext(r, r.randint(1, 8)).strip() or "raw") for _ in range(r.randint(1, 4))]
                if r.random() < 0.5:
                    text = "IGNORE\n" + "\n".join("    " + b for b in body)
                    exp = body
                else:
                    body = [(" " * r.randint(0, 4)) + b for b in body]
                    text = 'IGNORE\n    """\n' + "\n".join("    " + b for b in body) + '\n    """'
                    exp = body
                cases.append(comp("STRING a\n" + text + "\nSTRING z", {}, expect_out=["STRING a"] + exp + ["STRING z"]))
            else:
                pg = gen.ProgGen(r, valid=1.0, weights={"unknown": 0, "ignore": 0, "legacy": 0.5})
                text = "\n".join(gen.render(pg.program(), "    ", r))
                words = [l.split()[0].upper().lstrip("$") for l in text.split("\n") if l.strip()]
                cases.append(comp(text, {}, known_only=all(w in known for w in words)))
        return cases

    def corpus(self, tier):
        out = []
        out.append(fcase({("m.txt",): "START lib\nFROB main", ("lib.txt",): "STRING l1\nFROB lib"}, ("m.txt",), expect_located=[("lib.txt", 2), ("m.txt", 2)]))
        # line numbers inside imported files count their leading blank lines
        for kind in ("START", "STARTCODE", "STARTENV"):
            out.append(fcase({("m.txt",): "%s lib\nFROB main" % kind, ("lib.txt",): "\n\n   \nSTRING l4\nFROB lib\nIF\n\n"}, ("m.txt",), expect_located=[("lib.txt", 5), ("lib.txt", 6), ("m.txt", 2)]))
        out.append(fcase({("m.txt",): "STARTENV lib\nRUN f\nFROB main", ("lib.txt",): "FUNC f\n    STRING in\n    FROB lib"}, ("m.txt",), expect_located=[("lib.txt", 3), ("m.txt", 3)]))
        for t, exp in [("FOO  bar  ", "FOO bar"), ("foo", "FOO"), ("ſtring x", "STRING x"), ("$FOO 1+1", "FOO 2"), ("$foo \"a\"", "FOO a"), ("ELSE x", None)]:
            c = comp(t)
            if exp and t != "ſtring x":
                c["unknown"] = {"expect_line": exp, "at": 1}
            out.append(c)
        return out

    def oracle(self, c, i):
        if "expect_out" in c:
            if i["status"] != "OK" or out_text(i) != c["expect_out"]:
                return ("ignore_not_verbatim", "IGNORE body not emitted verbatim: %r" % out_text(i)[:6])
        if "expect_located" in c and i["status"] == "OK":
            got = sorted({(dec(w[1][-1][0][-1]) if w[1][-1][0] else None, w[1][-1][1][0]) for w in i["warnings"] if w[1]})
            if got != sorted(tuple(x) for x in c["expect_located"]):
                return ("unknown_not_warned", "warnings locate %r, expected %r" % (got, c["expect_located"]))
        if c.get("known_only") and i["status"] == "OK":
            if any("may not exist" in dec(w[0]) for w in i["warnings"]):
                return ("known_program_warned", "unknown-command warning on a program of known commands")
        u = c.get("unknown")
        if u:
            if i["status"] == "CRASH":
                return None
            if i["status"] != "OK":
                return ("unknown_rejected", "a line with an unknown command word was rejected: %s %s" % (i.get("err"), i.get("msg", "")))
            if u["expect_line"] not in out_text(i):
                return ("unknown_not_emitted", "expected the line %r in the output %r" % (u["expect_line"], out_text(i)[:8]))
            located = set()
            for w in i["warnings"]:
                if w[1]:
                    located.add(w[1][-1][1][0])
            if u["at"] not in located:
                return ("unknown_not_warned", "no warning locates line %d" % u["at"])
        return None


# ====================================================================================== C17
class C17(Prop):
    id = "C17"
    fields = None
    quick_n = 300
    thorough_n = 5000
    rule = "histories of 2-30 compilations mixing succeeding and failing programs, $-evaluated and plain uses of the same command, different options, reused and fresh Compiler objects; each element is compared with its result in isolation (and, thorough, in a fresh process); distinct = distinct program"
    explanation = "the pure model is history-free by construction (world_invariant); histories are run on the implementation and each element must equal its isolated result and the model's"

    def generate(self, rng, n, tier):
        cases = []
        for _ in range(n):
            r = rsub(rng)
            x = r.random()
            if x < 0.4:
                cmd = r.choice(["STRING", "ALT", "REM", "PRINT", "ALTSTRING", "FOO", "GUI", "STRINGLN"])
                t = r.choice(["$%s \"a\"+1" % cmd, "%s 1+1" % cmd, "$%s 1/0" % cmd, "%s x" % cmd, "$%s \"e\"" % cmd,
                              "DEFAULT_DELAY\n    1\n    2", "DEFAULTDELAY 3\n    4\n%s y" % cmd])
                cases.append(comp(t, {"include_comments": r.random() < 0.5}))
            else:
                pg = gen.ProgGen(r, valid=r.choice([1.0, 0.8]))
                cases.append(comp("\n".join(gen.render(pg.program(), r.choice(gen.UNITS), r)), {"include_comments": r.random() < 0.3, "flipper_commands": r.random() < 0.8}))
        return cases

    def extra_checks(self, rng, tier, escalate):
        nh = 40 if tier == "quick" and not escalate else 400
        viol = []
        ev = 0
        r0 = rsub(rng)
        pool = self.generate(r0, 120, tier)
        iso = {}
        fresh = tier == "thorough" or escalate
        if fresh:
            # isolated results from a fresh process per element
            code = "import sys,json; sys.path.insert(0,%r); import common; c=json.loads(sys.stdin.read()); print(json.dumps(common.run_impl_case(c)))" % os.path.dirname(os.path.abspath(__file__))
            for k, c in enumerate(pool[:60]):
                p = subprocess.run([sys.executable, "-c", code], input=json.dumps(c).encode(), stdout=subprocess.PIPE, env=dict(os.environ, PYTHONHASHSEED="0"))
                try:
                    iso[k] = json.loads(p.stdout.decode())
                except Exception:
                    pass
        for h in range(nh):
            r = rsub(rng)
            hist = [r.randrange(len(pool)) for _ in range(r.randint(2, 30))]
            for k in hist:
                i = common.run_impl_case(pool[k])
                ev += 1
                key = json.dumps(i, sort_keys=True)
                if k not in iso:
                    iso[k] = i
                elif json.dumps(iso[k], sort_keys=True) != key:
                    viol.append((dict(pool[k], note="history: " + json.dumps([pool[j]["text"] for j in hist])[:1500]), "history_dependence", "the result depends on earlier compilations"))
                    break
        # a reused Compiler object behaves like a fresh one, whatever it compiled before
        import yaml, shutil
        ds = common.impl()["ds"]
        root = "/tmp/dsv/c17r_%d" % os.getpid()
        try:
            shutil.rmtree(root, ignore_errors=True)
            os.makedirs(os.path.join(root, "proj"))
            os.makedirs(os.path.join(root, "plain"))
            yaml.dump({"include_comments": True, "flipper_commands": False}, open(os.path.join(root, "proj", "config.yaml"), "w"))
            open(os.path.join(root, "proj", "main.txt"), "w").write("REM c\nSTRING p")
            open(os.path.join(root, "plain", "main.txt"), "w").write("START lib\nSTRING after")
            open(os.path.join(root, "plain", "lib.txt"), "w").write("$STRING needs")
            open(os.path.join(root, "plain", "ok.txt"), "w").write("VAR needs 1\nSTART lib")
            probes = ["REM note\nALTCHAR 65\nFOO bar", "DEFAULT_DELAY 5\n$STRING $DEFAULT_DELAY", "$STRING $DEFAULT_DELAY+1", "DELAY -1", "STRING x"]

            def rec(fn):
                try:
                    return common.compiled_rec(fn())
                except Exception as e:
                    return common.error_rec(e)
            fresh = [rec(lambda t=t: ds.Compiler().compile(t)) for t in probes]
            fresh_ok = rec(lambda: ds.Compiler().compile_file(os.path.join(root, "plain", "ok.txt")))
            for first in ("proj", "fail", "text-fail", "text-ok"):
                comp_obj = ds.Compiler()
                if first == "proj":
                    rec(lambda: comp_obj.compile_file(os.path.join(root, "proj", "main.txt")))
                elif first == "fail":
                    rec(lambda: comp_obj.compile_file(os.path.join(root, "plain", "main.txt")))   # fails inside lib.txt
                elif first == "text-fail":
                    rec(lambda: comp_obj.compile("DELAY -1"))
                else:
                    rec(lambda: comp_obj.compile("DEFAULT_DELAY 9\nSTRING a"))
                for t, want in zip(probes, fresh):
                    ev += 1
                    got = rec(lambda t=t: comp_obj.compile(t))
                    if json.dumps(got, sort_keys=True) != json.dumps(want, sort_keys=True):
                        viol.append(({"kind": "reused-compiler", "first": first, "then": t}, "reused_compiler_differs",
                                     "a reused Compiler gives %s for %r, a fresh one %s" % (got.get("status"), t, want.get("status"))))
                        break
                ev += 1
                got = rec(lambda: ds.Compiler().compile_file(os.path.join(root, "plain", "ok.txt")))
                if json.dumps(got, sort_keys=True) != json.dumps(fresh_ok, sort_keys=True):
                    viol.append(({"kind": "after-failed-import", "first": first}, "history_dependence",
                                 "a valid import gives %s %s after an earlier compilation (%s)" % (got.get("status"), got.get("err", ""), first)))
        finally:
            shutil.rmtree(root, ignore_errors=True)
        # the nested-list input form: compiling must not consume or change the caller's lists (the same list
        # object compiled twice, and one block list shared by two programs)
        try:
            body = ["STRING in", "VAR q 1"]
            src = ["STRING a", "REPEAT 2", body, "IF TRUE", ["STRING t"], "DELAY -1"]
            good = ["STRING a", "REPEAT 2", body, "STRING z"]
            import copy
            for source in (good, src):
                snap = copy.deepcopy(source)
                r1 = rec(lambda: ds.Compiler().compile(source, skip_indentation=True))
                r2 = rec(lambda: ds.Compiler().compile(source, skip_indentation=True))
                ev += 2
                if source != snap:
                    viol.append(({"kind": "list-form", "source": snap}, "source_list_modified", "compiling the nested-list form changed the caller's list: %r" % (source,)))
                elif json.dumps(r1, sort_keys=True) != json.dumps(r2, sort_keys=True):
                    viol.append(({"kind": "list-form", "source": snap}, "history_dependence", "the same list source compiled twice gives %s then %s" % (r1.get("status"), r2.get("status"))))
            other = rec(lambda: ds.Compiler().compile(["IF 1 > 0", body, "STRING end"], skip_indentation=True))
            fresh = rec(lambda: ds.Compiler().compile(["IF 1 > 0", ["STRING in", "VAR q 1"], "STRING end"], skip_indentation=True))
            ev += 2
            if json.dumps(other, sort_keys=True) != json.dumps(fresh, sort_keys=True):
                viol.append(({"kind": "list-form", "source": ["IF 1 > 0", ["STRING in", "VAR q 1"], "STRING end"]}, "history_dependence", "a block list shared with an earlier program compiles differently"))
        except Exception as e:
            viol.append(({"kind": "list-form"}, "history_dependence", "list-form compilation raised %s" % type(e).__name__))
        # a compilation must not change the caller's options object (shared between Compiler instances)
        import yaml, shutil
        ds = common.impl()["ds"]
        root = "/tmp/dsv/c17_%d" % os.getpid()
        try:
            for proj_cfg in ({"include_comments": True, "supress_command_not_exist": True, "stack_limit": 4}, {"flipper_commands": False}, {"include_comments": True}):
                shutil.rmtree(root, ignore_errors=True)
                os.makedirs(root)
                open(os.path.join(root, "main.txt"), "w").write("REM c\nSTRING x")
                yaml.dump(proj_cfg, open(os.path.join(root, "config.yaml"), "w"))
                opts = ds.CompileOptions()
                before = opts.to_dict()
                probe = "REM note\nFOO bar\nALTCHAR 65\nIF TRUE\n  IF TRUE\n    IF TRUE\n      IF TRUE\n        STRING deep"
                try:
                    base = common.compiled_rec(ds.Compiler(ds.CompileOptions()).compile(probe))
                except Exception as e:
                    # the probe is a valid program (it compiles in a fresh process): failing here, after the
                    # compilations above, is itself a dependence on history
                    viol.append(({"kind": "history", "probe": probe}, "history_dependence",
                                 "a valid program fails after earlier compilations in the process: %s" % common.error_rec(e).get("err")))
                    break
                ev += 1
                try:
                    ds.Compiler(opts).compile_file(os.path.join(root, "main.txt"))
                except ds.CompilationError:
                    pass
                try:
                    after = common.compiled_rec(ds.Compiler(opts).compile(probe))
                except Exception as e:
                    after = common.error_rec(e)
                if opts.to_dict() != before or json.dumps(after, sort_keys=True) != json.dumps(base, sort_keys=True):
                    viol.append(({"kind": "history", "project_config": proj_cfg, "probe": probe}, "options_object_mutated",
                                 "compiling a project file changed the caller's CompileOptions object / a later compilation with it"))
        finally:
            shutil.rmtree(root, ignore_errors=True)
        return {"violations": viol, "evaluations": ev, "summary": {"histories": nh, "fresh_process_baseline": fresh}}


# ====================================================================================== C19
CLI_RUNNER = r'''
import sys, os, json, importlib, io, contextlib
sys.path.insert(0, %(repo)r)
job = json.loads(sys.stdin.read())
os.chdir(job["cwd"])
from pathlib import Path
res = {"raised": None}
try:
    if job["cmd"] == "compile":
        m = importlib.import_module("ducklingscript.cli.compile")
        kw = {}
        if "stack_limit" in job: kw["stack_limit"] = job["stack_limit"]
        if "comments" in job: kw["comments"] = job["comments"]
        buf = io.StringIO()
        with contextlib.redirect_stdout(buf):
            m.compile(Path(job["file"]).resolve(), Path(job["output"]).resolve(), **({"stack_limit": 20, "comments": False} | kw))
        res["stdout"] = buf.getvalue()
    else:
        m = importlib.import_module("ducklingscript.cli.new")
        buf = io.StringIO()
        with contextlib.redirect_stdout(buf):
            m.new(job["name"], Path(job["path"]) if job.get("path") else None)
        res["stdout"] = buf.getvalue()
except BaseException as e:
    res["raised"] = type(e).__name__ + ": " + str(e)[:200]
print(json.dumps(res))
'''


def snapshot(root):
    snap = {}
    for dp, dn, fn in os.walk(root):
        for f in fn:
            p = os.path.join(dp, f)
            try:
                snap[os.path.relpath(p, root)] = open(p, "rb").read().decode("utf-8", "replace")
            except Exception:
                snap[os.path.relpath(p, root)] = None
        for d in dn:
            snap[os.path.relpath(os.path.join(dp, d), root) + "/"] = None
    return snap


class C19(Prop):
    id = "C19"
    fields = ["out", "err"]
    functional = False
    quick_n = 60
    thorough_n = 600
    rule = "CLI compile on sources succeeding / failing at every point (also after output was produced and inside imported files) x prior output state (absent, stale) x project/global configs x sequences of invocations; CLI new on fresh and existing names; histories of 2-6 invocations (compile/new, flags given or not, outputs overwriting later sources) over two projects with partial/full/absent project and global configs; distinct = distinct (source, prior state)"
    explanation = "the CLI functions are called in a sandboxed HOME/cwd; file-system snapshots before/after are compared with the all-or-nothing specification; the compile result itself is compared with the model; each history is also run through the model's cli_run and the final world (files, parsed configs with their key sets, global config, directories) and the per-invocation reports are compared"

    def generate(self, rng, n, tier):
        # the compile results of the sources used by the CLI runs are also compared with the model
        return [comp(s) for s in self.sources(rsub(rng), 30)]

    def sources(self, r, n):
        out = ["PRINT p\nSTRING a\nFUNC f\n    RUN f\nRUN f", "IF TRUE\n  IF TRUE\n    IF TRUE\n      IF TRUE\n        IF TRUE\n          IF TRUE\n            STRING deep", "STRING ok", "STRING a\nDELAY -1", "PRINT hi\nSTRING a", "PRINT hi\nDELAY -1", "FOO x", "STRING a\n  b\n      c", "REM c\nSTRING x", "",
               "PRINT [/red] x\nSTRING a", "PRINT a\nSTRING [bold]\nDELAY -1", "STRING \\[x]\n[/red] 5", "PRINT [link\nSTRING a",
               # markup-like text in every place the error report quotes: the command line, the argument line of a group, prints
               "PRINT p\nSTRING out\n$STRING\n    1+1\n    [/quote] +", "ALT\n    a\n    [/x]bad", "IF TRUE\n    DELAY\n        5\n        [/b] \"x\"", "PRINT [/i]\n$STRING\n    [bold]1+"]
        for _ in range(n):
            pg = gen.ProgGen(r, valid=r.choice([1.0, 0.8]), weights={"prt": 3})
            out.append("\n".join(gen.render(pg.program(), "    ", r)))
        # the sources are written to files and also compiled from the string: the string twin of a file is what
        # a text-mode read returns
        return [common.as_read(x) for x in out]

    def run_cli(self, job, home):
        env = dict(os.environ, HOME=home, PYTHONHASHSEED="0", COLUMNS="200", NO_COLOR="1")
        try:
            p = subprocess.run([sys.executable, "-c", CLI_RUNNER % {"repo": common.REPO}], input=json.dumps(job).encode(), stdout=subprocess.PIPE, stderr=subprocess.PIPE, env=env, timeout=120)
        except subprocess.TimeoutExpired:
            return {"raised": "Timeout: the CLI invocation did not finish within 120 s"}
        try:
            return json.loads(p.stdout.decode().strip().split("\n")[-1])
        except Exception:
            return {"raised": "runner failure: " + p.stderr.decode()[-300:]}

    def extra_checks(self, rng, tier, escalate):
        import yaml
        r = rsub(rng)
        n = 40 if tier == "quick" and not escalate else 400
        srcs = self.sources(r, n)
        viol = []
        ev = 0
        base = "/tmp/dsv/c19_%d" % os.getpid()
        ds = common.impl()["ds"]
        try:
            for k, src in enumerate(srcs):
                shutil.rmtree(base, ignore_errors=True)
                home = os.path.join(base, "home")
                proj = os.path.join(base, "proj")
                os.makedirs(home)
                os.makedirs(proj)
                open(os.path.join(proj, "main.txt"), "w").write(src)
                extra_file = os.path.join(proj, "notes.md")
                open(extra_file, "w").write("keep me")
                stale = r.random() < 0.5
                outp = os.path.join(proj, "out.txt")
                if stale:
                    open(outp, "w").write("STALE PAYLOAD")
                with_proj_cfg = r.random() < 0.4
                proj_cfg = r.choice([{"include_comments": True, "stack_limit": 30}, {"stack_limit": 30}, {"flipper_commands": True}, {"include_comments": False}])
                cli_comments = r.random() < 0.5
                cli_limit = r.choice([20, 20, 40, 5])
                if with_proj_cfg:
                    yaml.dump(proj_cfg, open(os.path.join(proj, "config.yaml"), "w"))
                if r.random() < 0.4:
                    os.makedirs(os.path.join(home, ".duckling"))
                    yaml.dump({"include_comments": False, "flipper_commands": True, "stack_limit": 25, "supress_command_not_exist": False, "use_project_config": True},
                              open(os.path.join(home, ".duckling", "config.yaml"), "w"))
                # what the compiler itself says (same options the CLI will use)
                before = snapshot(base)
                res = self.run_cli({"cmd": "compile", "cwd": proj, "file": "main.txt", "output": "out.txt", "comments": cli_comments, "stack_limit": cli_limit}, home)
                ev += 1
                after = snapshot(base)
                case = {"kind": "cli", "source": src, "stale_output": stale, "project_config": proj_cfg if with_proj_cfg else None, "cli": {"comments": cli_comments, "stack_limit": cli_limit}}
                try:
                    if with_proj_cfg:
                        opts = ds.CompileOptions(**proj_cfg)     # the project file replaces the options (both allow it)
                    else:
                        opts = ds.CompileOptions(include_comments=cli_comments, stack_limit=cli_limit)
                    expect = ds.Compiler(opts).compile(src)
                    ok = True
                except ds.CompilationError:
                    ok = False
                except Exception:
                    continue   # a crash of the compiler is C09's finding
                if res.get("raised"):
                    tag = "cli_raises:" + res["raised"].split(":")[0]
                    viol.append((case, tag, "the compile command raised %s instead of reporting" % res["raised"]))
                    continue
                okey = "proj/out.txt"
                if ok:
                    if after.get(okey) != "\n".join(expect.output):
                        viol.append((case, "output_file_wrong", "output file content is not the output lines joined by newlines"))
                else:
                    if after.get(okey) != before.get(okey):
                        viol.append((case, "output_written_on_failure", "the output path changed although compilation failed"))
                    if "Error" not in res.get("stdout", "") and "error" not in res.get("stdout", ""):
                        viol.append((case, "error_not_reported", "a compile error was not reported on the console"))
                for p in set(before) | set(after):
                    if p == okey:
                        continue
                    if p.endswith("config.yaml"):
                        if p in before and p in after:
                            try:
                                if ds.CompileOptions(**(yaml.safe_load(before[p]) or {})).to_dict() != ds.CompileOptions(**(yaml.safe_load(after[p]) or {})).to_dict():
                                    viol.append((case, "config_meaning_changed", p + " denotes different options afterwards"))
                            except Exception:
                                pass
                        continue
                    if p == "home/.duckling/":
                        continue
                    if before.get(p, "<absent>") != after.get(p, "<absent>"):
                        viol.append((case, "other_file_touched", "file %s was created/modified/removed" % p))
            # new
            for name, exists in (("My Proj", False), ("demo", False), ("demo2", True), ("Bad/Name", False)):
                shutil.rmtree(base, ignore_errors=True)
                home = os.path.join(base, "home")
                ws = os.path.join(base, "ws")
                os.makedirs(home)
                os.makedirs(ws)
                tgt = os.path.join(ws, name.strip().lower().replace(" ", "-"))
                if exists:
                    os.makedirs(tgt)
                    open(os.path.join(tgt, "main.txt"), "w").write("STRING mine")
                before = snapshot(ws)
                res = self.run_cli({"cmd": "new", "cwd": ws, "name": name}, home)
                ev += 1
                after = snapshot(ws)
                case = {"kind": "cli-new", "name": name, "exists": exists}
                if res.get("raised"):
                    viol.append((case, "cli_new_raises", "new raised " + res["raised"]))
                    continue
                if exists or "/" in name:
                    if before != after:
                        viol.append((case, "new_touched_existing", "new modified an existing project / invalid name"))
                else:
                    rel = os.path.relpath(tgt, ws)
                    main = after.get(rel + "/main.txt")
                    cfg = after.get(rel + "/config.yaml")
                    if main is None or cfg is None:
                        viol.append((case, "new_incomplete", "new did not create main.txt and config.yaml"))
                    else:
                        o = ds.Compiler().compile(main).output
                        if o != ["STRING Hello, World!"] or ds.CompileOptions(**yaml.safe_load(cfg)).to_dict() != ds.CompileOptions().to_dict():
                            viol.append((case, "new_wrong_content", "the new project does not compile to the hello-world line under default options"))
        finally:
            shutil.rmtree(base, ignore_errors=True)
        # a failing compile creates nothing at all, also when the output path lies in folders that do not exist yet
        try:
            shutil.rmtree(base, ignore_errors=True)
            home = os.path.join(base, "home")
            proj = os.path.join(base, "proj")
            os.makedirs(home)
            os.makedirs(os.path.join(proj, "lib"))
            open(os.path.join(proj, "main.txt"), "w").write("STRING a\nPRINT p\nSTART lib.helper\nSTRING never")
            open(os.path.join(proj, "lib", "helper.txt"), "w").write("VAR a 1/0")
            before = snapshot(base)
            res = self.run_cli({"cmd": "compile", "cwd": proj, "file": "main.txt", "output": "build/out/payload.txt", "comments": False, "stack_limit": 20}, home)
            ev += 1
            after = snapshot(base)
            case = {"kind": "cli-missing-folder", "output": "build/out/payload.txt"}
            if res.get("raised"):
                viol.append((case, "cli_raises:" + res["raised"].split(":")[0], "the compile command raised %s instead of reporting the compile error" % res["raised"]))
            else:
                new = sorted(p for p in after if p not in before and not p.startswith("home/"))
                if new:
                    viol.append((case, "other_file_touched", "a failed compile created %r" % (new,)))
        finally:
            shutil.rmtree(base, ignore_errors=True)
        # a function defined in a library folder: a failure inside it is reported at the library file and line, and
        # an import made by the function resolves from the library's folder (the project compiles and is written)
        try:
            shutil.rmtree(base, ignore_errors=True)
            home = os.path.join(base, "home")
            proj = os.path.join(base, "proj")
            os.makedirs(home)
            os.makedirs(os.path.join(proj, "lib"))
            open(os.path.join(proj, "lib", "tools.txt"), "w").write("\n" * 9 + "FUNC boom\n    PRINT inboom\n    DELAY -1\nFUNC pull\n    START helper\n")
            open(os.path.join(proj, "lib", "helper.txt"), "w").write("STRING from-helper")
            open(os.path.join(proj, "helper.txt"), "w").write("STRING wrong-helper")
            open(os.path.join(proj, "bad.txt"), "w").write("STARTENV lib.tools\nSTRING a\nRUN boom")
            open(os.path.join(proj, "good.txt"), "w").write("STARTENV lib.tools\nRUN pull\nSTRING end")
            res = self.run_cli({"cmd": "compile", "cwd": proj, "file": "bad.txt", "output": "out1.txt", "comments": False, "stack_limit": 20}, home)
            ev += 1
            so = res.get("stdout") or ""
            case = {"kind": "cli-lib", "file": "bad.txt"}
            if res.get("raised"):
                viol.append((case, "cli_raises:" + res["raised"].split(":")[0], "the compile command raised %s" % res["raised"]))
            elif "tools.txt" not in so or "line 12" not in so or os.path.exists(os.path.join(proj, "out1.txt")):
                viol.append((case, "error_location_wrong", "a failure inside a library function must be reported at lib/tools.txt line 12 and write nothing; report: %r" % so[-400:]))
            res = self.run_cli({"cmd": "compile", "cwd": proj, "file": "good.txt", "output": "out2.txt", "comments": False, "stack_limit": 20}, home)
            ev += 1
            case = {"kind": "cli-lib", "file": "good.txt"}
            got = open(os.path.join(proj, "out2.txt")).read() if os.path.exists(os.path.join(proj, "out2.txt")) else None
            if res.get("raised"):
                viol.append((case, "cli_raises:" + res["raised"].split(":")[0], "the compile command raised %s" % res["raised"]))
            elif got != "STRING from-helper\nSTRING end":
                viol.append((case, "output_file_wrong", "a project whose library function imports a sibling of the library must compile to 'STRING from-helper / STRING end'; output file: %r" % (got,)))
        finally:
            shutil.rmtree(base, ignore_errors=True)
        # histories of CLI invocations against the model's cli_run (Model/CliWorld.v): per-invocation
        # reports, every text file, every config.yaml (key set and values), the global config, directories
        import clihist
        hv, hev, hstats = clihist.run(rsub(rng), 15 if tier == "quick" and not escalate else 150)
        viol.extend(hv)
        ev += hev
        return {"violations": viol, "evaluations": ev, "summary": {"cli_compile_runs": len(srcs), "cli_new_runs": 4, "cli_histories": hstats}}


# ====================================================================================== C20
ALPHA = ["a", "Z", "x", "_", "0", "7", "$", "-", ".", "é", "٣", "T", "F", " "]


class C20(Prop):
    id = "C20"
    fields = ["value", "err", "out", "vars", "funcs"]
    quick_n = 800
    thorough_n = 20000
    rule = "all strings of length <=3 over a 14-symbol alphabet (letters, digits, _ $ - . a non-ASCII letter, an Arabic digit, T, F, blank) through is_var and at each defining construct (VAR, FUNC name, FUNC parameter, REPEAT/WHILE counter); random sets of 1-6 simultaneously defined names with prefix chains, each read by $STRING n, n+0, EXIST n; distinct = distinct case"
    explanation = "is_var compared with the pinned identifier spec (Coq identb, re-proved against the generated table) on the implementation; defining constructs accept iff identifier; accepted names are read back"

    def corpus(self, tier):
        out = []
        maxlen = 3
        for L in range(0, maxlen + 1):
            for tup in itertools.product(ALPHA, repeat=L):
                s = "".join(tup)
                out.append({"kind": "isvar", "name": s, "sys": False})
        r = random.Random(20)
        names = ["".join(t) for L in range(1, 4) for t in itertools.product([a for a in ALPHA if a != " "], repeat=L)]
        sample = r.sample(names, 350 if tier != "thorough" else 2000)
        for nm in sample + ["TRUE", "FALSE", "TRUEx", "T", "TR", "FALS", "Fx", "a" * 40, "_", "__", "a.b", "é"]:
            k = r.randrange(5)
            if k == 0:
                out.append(comp("VAR %s 1" % nm, {}, define=nm))
            elif k == 1:
                out.append(comp("FUNC %s\n    PASS" % nm, {}, define=nm))
            elif k == 2:
                out.append(comp("FUNC f a,%s\n    PASS" % nm, {}, define=nm))
            elif k == 3:
                out.append(comp("REPEAT %s,1\n    PASS" % nm, {}, define=nm))
            else:
                out.append(comp("WHILE %s,FALSE\n    PASS" % nm, {}, define=nm))
        for t in ["FUNC f a,\n    PASS", "FUNC f a,b,\n    PASS", "FUNC f a, b ,\n    PASS", "FUNC f ,a\n    PASS", "FUNC f a,,\n    PASS"]:
            out.append(comp(t, {}, define=""))
        out.append(comp("REPEAT 1a,0\n    PASS", {}, define="1a", zero_iter=True))
        for nm in ("$i", "$DEFAULT_DELAY", "$"):
            for cnt in ("0", "1-1", "1"):
                out.append(comp("REPEAT %s,%s\n    PASS" % (nm, cnt), {}, define=nm, zero_iter=(cnt != "1")))
                out.append(comp("FOR %s,%s\n    PASS" % (nm, cnt), {}, define=nm, zero_iter=(cnt != "1")))
        # an accepted name exists whatever value it holds
        for val in ("0", "5-5", "0.0", "\"\"", "FALSE", "1==2"):
            out.append(comp("VAR z %s\nEXIST z\nSTRING ok" % val, {}, expect_status="OK"))
            out.append(comp("FUNC f p\n    EXIST p\n    STRING ok\nRUN f %s" % val, {}, expect_status="OK"))
        out.append(comp("REPEAT i,2\n    EXIST i\n    STRING ok\nWHILE w,w<1\n    EXIST w", {}, expect_status="OK"))
        out.append(comp("VAR $x 1", {}, define="$x"))
        out.append(comp("VAR $DEFAULT_DELAY 5", {}, define="$DEFAULT_DELAY"))
        return out

    def generate(self, rng, n, tier):
        cases = []
        pool = ["a", "ab", "abc", "abcd", "b", "ba", "hell", "hello", "hello_", "x1", "x10", "x", "_", "_a", "A", "Ab", "i", "id", "idx", "T", "TR", "TRU", "TRUE", "TRUEx", "Tx",
                "F", "FA", "FALSE", "FALSEy", "Fa", "n", "n_", "v", "va", "var", "VAR", "IF", "e", "E", "E1"]
        for _ in range(n):
            r = rsub(rng)
            names = r.sample(pool, r.randint(1, 6))
            lines = ["VAR %s %d" % (nm, 100 + k) for k, nm in enumerate(names)]
            if r.random() < 0.25:
                # the same definitions written as one VAR with an argument group
                lines = ["VAR"] + ["    %s %d" % (nm, 100 + k) for k, nm in enumerate(names)]
            target = r.choice(names)
            val = 100 + names.index(target)
            form = r.randrange(4)
            if form == 0:
                lines.append("$STRING " + target)
                exp = "STRING %d" % val
            elif form == 1:
                lines.append("$STRING " + target + "+0")
                exp = "STRING %d" % val
            elif form == 2:
                lines.append("$STRING 0+" + target)
                exp = "STRING %d" % val
            else:
                lines.append("EXIST " + target)
                exp = None
            if r.random() < 0.3:
                # the same name bound elsewhere (a parameter of a function that is run, a loop counter)
                # assigns it; it must still be readable afterwards
                other = r.choice([x for x in names if bool_safe(x)] or ["zz"])
                k = r.randrange(3)
                extra = {0: ["FUNC fq " + other, "    PASS", "RUN fq 7"], 1: ["REPEAT " + other + ",2", "    PASS"], 2: ["WHILE " + other + "," + other + "<1", "    PASS"]}[k]
                lines = lines[:-1] + extra + lines[-1:]
                if other == target:
                    newval = {0: 7, 1: 1, 2: 1}[k]
                    exp = None if exp is None else "STRING %d" % newval
            cases.append(comp("\n".join(lines), {}, read=target, expect_last=exp, names=names))
        return cases

    def oracle(self, c, i):
        if c.get("expect_status") == "OK" and i["status"] == "CE":
            return ("accepted_name_not_existing", "EXIST fails on a defined name: %s %s" % (i.get("err"), i.get("msg", "")))
        if c["kind"] == "isvar":
            want = bool(IDENT.match(c["name"]))
            if i["status"] == "OK" and i["value"] != want:
                return ("is_var_wrong", "is_var(%r) = %s" % (c["name"], i["value"]))
            return None
        if "define" in c:
            nm = c["define"]
            ok = bool(IDENT.match(nm))
            if i["status"] == "CRASH":
                return None
            if ok and i["status"] != "OK":
                return ("identifier_rejected", "the identifier %r was rejected: %s" % (nm, i.get("err")))
            if not ok and i["status"] == "OK":
                if c.get("zero_iter"):
                    return ("repeat_counter_unchecked_zero_iter", "REPEAT with the invalid counter name %r and zero iterations is accepted" % nm)
                return ("non_identifier_accepted", "the non-identifier %r was accepted" % nm)
            if not ok and i["status"] == "CE" and i.get("err") not in ("UnacceptableVarNameError", "InvalidArgumentsError", "ExpectedTokenError"):
                return None
            return None
        if "read" in c:
            if i["status"] == "CRASH":
                return None
            t = c["read"]
            if i["status"] != "OK":
                tag = "bool_prefix_name_unreadable" if not bool_safe(t) else "accepted_name_unreadable"
                return (tag, "the accepted name %r cannot be read with %r defined: %s %s" % (t, c["names"], i.get("err"), i.get("msg", "")))
            if c["expect_last"] is not None and out_text(i)[-1:] != [c["expect_last"]]:
                tag = "bool_prefix_name_unreadable" if not bool_safe(t) else "accepted_name_wrong_value"
                return (tag, "reading %r gave %r, expected %r" % (t, out_text(i)[-1:], c["expect_last"]))
        return None


for _c in (C10, C11, C12, C13, C14, C15, C16, C17, C19, C20):
    register(_c)
