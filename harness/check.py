#!/usr/bin/env python3
"""bin/check <property> [--tier quick|thorough]

1. regenerate coq/Generated/*.v from /repo's working tree (fail-closed translator)
2. re-check the proofs of the property (full .vo build of its cone) and collect Print Assumptions
3. rebuild the extracted model + driver
4. correspondence for this property (corpus first, then a seeded campaign), compared through alpha_P,
   and the property's oracle evaluated on the implementation's own behaviour for every case
5. decide: VIOLATION (with a concrete replay when one is found), KNOWN-FINDING lines, evidence
"""
import argparse, collections, fcntl, hashlib, json, multiprocessing, os, random, re, shutil, signal, subprocess, sys, tempfile, time

HERE = os.path.dirname(os.path.abspath(__file__))
sys.path.insert(0, HERE)
import common
from common import VERIF, REPO

COQ = os.path.join(VERIF, "coq")
PY = os.environ.get("VERIF_PYTHON", "/venv/bin/python")
TRUSTED_BASE = [
    "Coq 8.16.1 kernel (coqc; vm_compute used for finite table sweeps; no native_compute)",
    "axioms: none (Print Assumptions output is recorded per theorem below)",
    "translator/gen.py (Python ast -> Gallina tables, fail-closed)",
    "extraction: Require Extraction + ExtrOcamlBasic only (no Extract Constant / Extract Inductive of our own)",
    "driver/main.ml (case parsing, IEEE-double instance of the abstract FloatOps, JSON printing; zarith only for printing)",
    "harness/*.py (implementation runner, generators, alpha_P comparators, oracles)",
    "hand-written Gallina model of the Python algorithms, tied to /repo by the differential correspondence run below",
]


def sh(cmd, timeout=1800, cwd=None, env=None):
    p = subprocess.run(cmd, shell=True, stdout=subprocess.PIPE, stderr=subprocess.STDOUT, cwd=cwd, timeout=timeout, env=env)
    return p.returncode, p.stdout.decode(errors="replace")


class Build:
    """steps 1-3, shared by all checks (serialised by a lock; incremental through make)"""

    def __init__(self, prop):
        self.prop = prop
        self.notes = []
        self.translator_ok = True
        self.translator_msg = ""
        self.generated_changed = []
        self.proof_ok = True
        self.proof_msg = ""
        self.driver_ok = True
        self.assumptions = ""
        self.theorems = []
        self.fingerprint_drift = []
        self.axioms_reported = []
        self.coqchk = None

    def run(self):
        lock = open(os.path.join(VERIF, ".build.lock"), "w")
        fcntl.flock(lock, fcntl.LOCK_EX)
        try:
            self._run()
        finally:
            fcntl.flock(lock, fcntl.LOCK_UN)
            lock.close()

    def _run(self):
        rc, out = sh(f"{PY} {VERIF}/translator/gen.py {COQ}/Generated", timeout=300)
        self.translator_msg = out.strip()
        if rc != 0:
            self.translator_ok = False
            self.notes.append("translator failed: " + out.strip()[-300:])
        else:
            m = re.search(r"changed: (\S+);", out)
            if m and m.group(1) != "none":
                self.generated_changed = m.group(1).split(",")
        # fingerprint drift (informational: escalates the campaign)
        try:
            cur = json.load(open(os.path.join(COQ, "Generated", "fingerprints.json")))
            exp = json.load(open(os.path.join(VERIF, "harness", "fingerprints.expected.json")))
            self.fingerprint_drift = sorted(k for k in set(cur) | set(exp) if cur.get(k) != exp.get(k))
        except Exception:
            pass
        if not os.path.exists(os.path.join(COQ, "Makefile")):
            sh("coq_makefile -f _CoqProject -o Makefile", cwd=COQ)
        pfile = f"Properties/{self.prop}.v"
        import glob as _glob
        pfiles = sorted(os.path.relpath(x, COQ) for x in _glob.glob(os.path.join(COQ, "Properties", self.prop + "*.v"))
                        if re.fullmatch(re.escape(self.prop) + r"[a-z]?\.v", os.path.basename(x)))
        # model + extraction first (needed by the correspondence), then the property's cone
        rc, out = sh("timeout 1500 make -j8 Extract/Extract.vo 2>&1 | grep -v '^Warning\\|docroot\\|orphan\\|install-doc'", cwd=COQ, timeout=1600)
        ok_model = os.path.exists(os.path.join(COQ, "Extract", "Extract.vo")) and "Error" not in out
        if not ok_model:
            self.driver_ok = False
            self.notes.append("model/extraction build failed: " + out[-600:])
        else:
            mm = os.path.join(COQ, "model.ml")
            drv = os.path.join(VERIF, "driver", "driver")
            if (not os.path.exists(drv)) or os.path.getmtime(mm) > os.path.getmtime(drv) or os.path.getmtime(os.path.join(VERIF, "driver", "main.ml")) > os.path.getmtime(drv):
                rc, out2 = sh("./build.sh", cwd=os.path.join(VERIF, "driver"), timeout=600)
                if rc != 0 or not os.path.exists(drv):
                    self.driver_ok = False
                    self.notes.append("driver build failed: " + out2[-400:])
        if os.path.exists(os.path.join(COQ, pfile)):
            targets = " ".join(x[:-2] + ".vo" for x in pfiles)
            rc, out = sh(f"timeout 1500 make -j8 {targets} 2>&1 | grep -v '^Warning\\|docroot\\|orphan\\|install-doc'", cwd=COQ, timeout=1600)
            if rc != 0 or "Error" in out or not all(os.path.exists(os.path.join(COQ, x[:-2] + ".vo")) for x in pfiles):
                self.proof_ok = False
                m = re.search(r'File "\./([^"]+)", line (\d+)', out)
                self.proof_msg = (m.group(1) + ":" + m.group(2) + " " if m else "") + out.strip()[-500:]
                self.notes.append("proof obligation broken: " + self.proof_msg[:300])
            self.theorems = []
            for pf in pfiles:
                src = open(os.path.join(COQ, pf)).read()
                self.theorems += re.findall(r"^(?:Theorem|Lemma|Corollary|Example)\s+(\w+)", src, re.M)
            if self.proof_ok:
                # re-run coqc on the property files alone to capture Print Assumptions
                for pf in pfiles:
                    rc, out = sh(f"timeout 600 coqc $(grep '^-Q' _CoqProject | tr '\\n' ' ') {pf}", cwd=COQ, timeout=700)
                    self.assumptions += out.strip() + "\n"
                    if rc != 0:
                        self.proof_ok = False
                        self.proof_msg = out[-400:]
                n_closed = self.assumptions.count("Closed under the global context")
                self.axioms_reported = [l for l in self.assumptions.split("\n") if l.strip() and "Closed under the global context" not in l]
                if "Axioms:" in self.assumptions or n_closed < len(self.theorems):
                    # every property theorem must be closed under the global context (no axioms at all)
                    if "Axioms:" in self.assumptions:
                        self.proof_ok = False
                        self.proof_msg = "Print Assumptions reports axioms: " + " | ".join(self.axioms_reported)[:400]
            # thorough tier: independent re-check of the compiled property files with coqchk
            self.coqchk = None
            if self.proof_ok and os.environ.get("VERIF_TIER_EFFECTIVE") == "thorough":
                mods = " ".join("DS." + os.path.basename(x)[:-2] for x in pfiles)
                rc, out = sh(f"timeout 3000 coqchk -silent -o $(grep '^-Q' _CoqProject | tr '\\n' ' ') {mods} 2>&1 | tail -25", cwd=COQ, timeout=3100)
                ok = "Axioms: <none>" in out and "type-in-type: <none>" in out and "unsafe (co)fixpoints: <none>" in out and "positivity is assumed: <none>" in out
                self.coqchk = "ok: no axioms, no type-in-type, no unsafe fixpoints, no assumed positivity" if ok else out[-600:]
                if not ok:
                    self.proof_ok = False
                    self.proof_msg = "coqchk: " + out[-400:]
            # hygiene: forbidden vernacular anywhere in the development
            rc, out = sh("grep -rnE '\\b(Admitted|admit|Axiom|Parameter|Conjecture|Unset Guard|bypass_check|Admit Obligations)\\b' --include=*.v Model Spec Proofs Properties Extract | grep -v '^[^:]*:[0-9]*:\\s*(\\*' || true", cwd=COQ)
            if out.strip():
                self.proof_ok = False
                self.proof_msg = "forbidden vernacular: " + out.strip()[:300]
        else:
            self.proof_ok = False
            self.proof_msg = "no property file"


# ------------------------------------------------------------------ implementation pool
def _impl_init():
    # a change that makes the implementation hoard memory must show up as MemoryError in that worker
    # (a CRASH record with its input), not as the operating system killing the check
    import resource
    try:
        resource.setrlimit(resource.RLIMIT_AS, (3 << 30, 3 << 30))
    except Exception:
        pass


def _impl_worker(c):
    try:
        r = common.run_impl_case(c, timeout=c.get("timeout", 30.0))
        # records travel to the main process: an implementation gone wrong may emit millions of lines
        for k in ("out", "prints", "warnings"):
            if isinstance(r.get(k), list) and len(r[k]) > 60000:
                r[k] = r[k][:60000]
                r["truncated"] = True
        return r
    except MemoryError:
        return {"status": "TIMEOUT", "resource": "memory"}


def run_impl_all(cases, procs=None):
    """-> implementation records in case order.  Worker processes are forked by hand and write their records
    to files: no pipes that a runaway implementation can fill, and the whole run can be cut short (SIGKILL) when
    far more cases time out than ever do on a sound tree (see mass_timeouts)."""
    procs = procs or min(16, os.cpu_count() or 4)
    if len(cases) < 40:
        return [common.run_impl_case(c, timeout=c.get("timeout", 30.0)) for c in cases]
    os.makedirs("/tmp/dsv", exist_ok=True)
    tmpdir = tempfile.mkdtemp(prefix="impl_", dir="/tmp/dsv")
    budget = max(20, len(cases) // 200)
    tlog = os.path.join(tmpdir, "timeouts")
    open(tlog, "w").close()
    # contiguous blocks keep the order of cases inside a worker (histories, process noise)
    per = (len(cases) + procs - 1) // procs
    pids = []
    pids_by_worker = []
    stuck = set()
    started = time.time()
    hard_limit = 3 * max([c.get("timeout", 30.0) for c in cases] + [30.0]) + 60
    for w in range(procs):
        lo, hi = w * per, min(len(cases), (w + 1) * per)
        if lo >= hi:
            pids_by_worker.append(None)
            continue
        pid = os.fork()
        if pid == 0:
            code = 0
            try:
                _impl_init()
                with open(os.path.join(tmpdir, "w%d.jsonl" % w), "w") as f:
                    for idx in range(lo, hi):
                        r = _impl_worker(cases[idx])
                        if r.get("status") == "TIMEOUT":
                            with open(tlog, "a") as t:
                                t.write("t")
                        f.write(json.dumps([idx, r]) + "\n")
                        f.flush()
            except BaseException:
                code = 1
            finally:
                os._exit(code)
        pids.append(pid)
        pids_by_worker.append(pid)
    alive = set(pids)
    aborted = False
    while alive:
        for pid in list(alive):
            try:
                got, _ = os.waitpid(pid, os.WNOHANG)
            except ChildProcessError:
                got = pid
            if got:
                alive.discard(pid)
        if alive:
            if os.path.getsize(tlog) > budget:
                aborted = True
                for pid in alive:
                    try:
                        os.kill(pid, signal.SIGKILL)
                    except ProcessLookupError:
                        pass
            # watchdog: a worker that has written nothing for far longer than any case may take is stuck in a
            # case that cannot be interrupted (counts as a time-out of that case; the rest of its block is not run)
            now = time.time()
            for w, pid in enumerate(pids_by_worker):
                if pid in alive:
                    fpath = os.path.join(tmpdir, "w%d.jsonl" % w)
                    last = os.path.getmtime(fpath) if os.path.exists(fpath) else started
                    if now - max(last, started) > hard_limit:
                        stuck.add(w)
                        try:
                            os.kill(pid, signal.SIGKILL)
                        except ProcessLookupError:
                            pass
            time.sleep(0.3)
    out = [None] * len(cases)
    for w in range(procs):
        fpath = os.path.join(tmpdir, "w%d.jsonl" % w)
        if os.path.exists(fpath):
            for ln in open(fpath):
                try:
                    idx, r = json.loads(ln)
                    out[idx] = r
                except Exception:
                    pass
    shutil.rmtree(tmpdir, ignore_errors=True)
    for w in range(procs):
        lo, hi = w * per, min(len(cases), (w + 1) * per)
        first = True
        for k in range(lo, hi):
            if out[k] is None:
                # the case a worker died on is a crash; what it never reached (or what was cut short) was not run
                if first and w in stuck:
                    out[k] = {"status": "TIMEOUT", "hard": True}
                elif first and not aborted:
                    out[k] = {"status": "CRASH", "err": "WorkerDied", "site": "harness-worker", "msg": "the worker process running this case died"}
                else:
                    out[k] = {"status": "TIMEOUT", "skipped": True}
                first = False
    return out


def run_model_all(cases, procs=None):
    procs = procs or min(16, os.cpu_count() or 4)
    if len(cases) < 300:
        return common.run_model(cases)
    chunks = [cases[i:i + 250] for i in range(0, len(cases), 250)]
    with multiprocessing.Pool(procs) as pool:
        res = pool.map(common.run_model, chunks)
    out = []
    for ch in res:
        out.extend(ch)
    return out


# ------------------------------------------------------------------ known findings
def load_known():
    p = os.path.join(VERIF, "known_findings.json")
    if not os.path.exists(p):
        return []
    return json.load(open(p))["findings"]


def match_known(prop, tag, known):
    for k in known:
        if k.get("status") == "known" and prop in k["properties"] and k["tag"] == tag:
            return k
    return None


def main():
    ap = argparse.ArgumentParser()
    ap.add_argument("prop")
    ap.add_argument("--tier", default=os.environ.get("VERIF_TIER", "quick"))
    ap.add_argument("--replay")
    ap.add_argument("--no-build", action="store_true")
    a = ap.parse_args()
    seed = int(os.environ.get("VERIF_SEED", "20261001"))
    os.environ.setdefault("PYTHONHASHSEED", "0")
    home = "/tmp/dsv/home"
    os.makedirs(home, exist_ok=True)
    os.environ["HOME"] = home
    t0 = time.time()
    import props
    P = props.get(a.prop)

    if a.replay:
        rp = json.load(open(a.replay))
        c = rp["case"]
        i = common.run_impl_case(c)
        print(json.dumps({"impl": i, "oracle": P.oracle(c, i)}, ensure_ascii=False)[:4000])
        return 0

    os.environ["VERIF_TIER_EFFECTIVE"] = a.tier
    b = Build(a.prop)
    if not a.no_build:
        b.run()
    else:
        b.theorems = ["(skipped)"]
    escalate = bool(b.fingerprint_drift) or bool(b.generated_changed) or not b.proof_ok or not b.translator_ok
    # from here on only the harness, the driver and the implementation run: bound the address space so that an
    # implementation that hoards memory fails with MemoryError (a CRASH record) instead of taking the check down
    try:
        import resource
        resource.setrlimit(resource.RLIMIT_AS, (12 << 30, 12 << 30))
    except Exception:
        pass
    tier = a.tier
    n = P.thorough_n if (tier == "thorough" or escalate) else P.quick_n
    rng = random.Random(seed)
    cases = list(P.corpus(tier))
    ncorpus = len(cases)
    cases += P.generate(rng, n, tier)
    # self-test of the harness: cases that carry expectations need an oracle that reads them
    if type(P).oracle is props.Prop.oracle and any(k in c for c in cases[:200] for k in ("ref", "expect", "expect_out", "expect_trace", "expect_status")):
        print("harness self-test failed: %s has expectation-carrying cases but no oracle" % a.prop)
        return 2
    for idx, c in enumerate(cases):
        c.setdefault("id", idx)
        if c.get("files") is not None:
            c["root"] = common.SCRATCH_BASE + ["%s_%d_%d" % (a.prop, os.getpid(), idx)]
    t1 = time.time()
    models = run_model_all(cases) if b.driver_ok else [{"status": "DRIVER", "err": "model unavailable"}] * len(cases)
    t2 = time.time()
    impls = run_impl_all(cases)
    t3 = time.time()

    known = load_known()
    stats = collections.Counter()
    disagreements = []
    violations = []       # (case, impl, tag, description)
    known_hits = collections.OrderedDict()
    distinct = set()
    for c, m, i in zip(cases, models, impls):
        stats["model:" + m["status"]] += 1
        stats["impl:" + i["status"]] += 1
        if i["status"] == "CE":
            stats["impl_err:" + i.get("err", "?")] += 1
        if P.nontrivial(c, i):
            distinct.add(hashlib.sha1(json.dumps(P.key(c), sort_keys=True, ensure_ascii=False).encode()).hexdigest())
        if b.driver_ok:
            d = common.compare(c, m, i, P.fields)
            if d and not P.ignore_disagreement(c, m, i):
                disagreements.append((c, m, i, d))
        # a TIMEOUT is no observation (only C14, whose subject is termination, judges it)
        o = P.oracle(c, i) if (i["status"] != "TIMEOUT" or getattr(P, "timeout_is_observation", False)) else None
        if o:
            tag, desc = o
            k = match_known(a.prop, tag, known)
            if k:
                known_hits.setdefault(tag, (k, c, desc))
            else:
                violations.append((c, i, tag, desc))
    if hasattr(P, "group_oracle"):
        for (c, tag, desc) in P.group_oracle(cases, impls):
            k = match_known(a.prop, tag, known)
            if k:
                known_hits.setdefault(tag, (k, c, desc))
            else:
                violations.append((c, None, tag, desc))
    # mass time-outs: the model answered, the implementation did not, far more often than on any sound tree
    ntimeouts = sum(1 for i in impls if i["status"] == "TIMEOUT" and not i.get("skipped"))
    if ntimeouts > max(20, len(cases) // 200):
        for c, m, i in zip(cases, models, impls):
            if i["status"] == "TIMEOUT" and not i.get("skipped") and m["status"] in ("OK", "CE"):
                violations.append((c, i, "mass_timeouts", "%d cases did not finish within their time bound (the model answers %s for this one)" % (ntimeouts, m["status"])))
                break
    # metamorphic / multi-run oracles of the property (run on the implementation only)
    extra = P.extra_checks(rng, tier, escalate) if ntimeouts <= max(20, len(cases) // 200) else {"violations": [], "evaluations": 0, "summary": {"skipped": "mass time-outs"}}
    for (c, tag, desc) in extra.get("violations", []):
        k = match_known(a.prop, tag, known)
        if k:
            known_hits.setdefault(tag, (k, c, desc))
        else:
            violations.append((c, None, tag, desc))
    # known findings: replay each listed witness; print the line only while it still fails
    for k in known:
        if k.get("status") == "known" and a.prop in k["properties"] and k.get("witness") is not None:
            w = dict(k["witness"])
            if w.get("files") is not None:
                w["root"] = common.SCRATCH_BASE + ["kf_%s_%d" % (a.prop, os.getpid())]
            still = P.witness_fails(w, k)
            if still:
                known_hits.setdefault(k["tag"], (k, w, still))
            else:
                known_hits.pop(k["tag"], None)

    # repaired defects: their witnesses are replayed on every run; a fixed entry suppresses nothing
    for k in known:
        if k.get("status") == "fixed" and a.prop in k["properties"] and k.get("witness") is not None:
            w = dict(k["witness"])
            if w.get("files") is not None:
                w["root"] = common.SCRATCH_BASE + ["fx_%s_%d" % (a.prop, os.getpid())]
            i = common.run_impl_case(w)
            exp = k["expect"]
            bad = None
            if i["status"] != exp["status"]:
                bad = "status %s (expected %s)" % (i["status"], exp["status"])
            elif "err" in exp and i.get("err") != exp["err"]:
                bad = "error %s (expected %s)" % (i.get("err"), exp["err"])
            elif "out" in exp and [common.dec(l) if isinstance(l, list) else None for l in i.get("out", [])] != exp["out"]:
                bad = "output %r (expected %r)" % ([common.dec(l) for l in i.get("out", []) if isinstance(l, list)], exp["out"])
            elif "nwarnings" in exp and len(i.get("warnings", [])) != exp["nwarnings"]:
                bad = "%d warnings (expected %d)" % (len(i.get("warnings", [])), exp["nwarnings"])
            elif "trace_lines" in exp and [fr[1][0] for fr in (i.get("trace") or [])] != exp["trace_lines"]:
                bad = "trace %r" % (i.get("trace"),)
            if bad:
                violations.append((w, i, "regression:" + k["id"], "the defect repaired by %s is back (%s): %s" % (k["commit"], k["what"], bad)))

    os.makedirs(os.path.join(VERIF, "replay"), exist_ok=True)
    for old in os.listdir(os.path.join(VERIF, "replay")):
        if old.startswith(a.prop + "-"):
            os.remove(os.path.join(VERIF, "replay", old))
    exit_code = 0
    lines = []
    for tag, (k, c, desc) in known_hits.items():
        lines.append("KNOWN-FINDING: property=%s %s [%s]" % (a.prop, k["what"], tag))

    def write_replay(name, payload):
        p = os.path.join(VERIF, "replay", "%s-%s.json" % (a.prop, name))
        json.dump(payload, open(p, "w"), ensure_ascii=False, indent=1)
        return p

    nviol = 0
    if violations:
        c, i, tag, desc = min(violations, key=lambda v: len(json.dumps(v[0])))
        c = P.shrink(c, tag)
        p = write_replay("violation", {"property": a.prop, "kind": "oracle", "tag": tag, "what": desc, "case": c, "observed": i, "seed": seed,
                                       "others": len(violations) - 1})
        lines.append("VIOLATION property=%s replay=%s" % (a.prop, p))
        exit_code = 1
        nviol = len(violations)
    elif disagreements and b.proof_ok and P.functional:
        c, m, i, d = min(disagreements, key=lambda v: len(json.dumps(v[0])))
        p = write_replay("violation", {"property": a.prop, "kind": "model-vs-implementation", "what": d,
                                       "why": "the theorems of Properties/%s.v hold of the model and fix these fields; the implementation differs on this input" % a.prop,
                                       "case": c, "expected(model)": m, "observed": i, "seed": seed, "others": len(disagreements) - 1})
        lines.append("VIOLATION property=%s replay=%s" % (a.prop, p))
        exit_code = 1
        nviol = len(disagreements)
    elif disagreements or not b.proof_ok or not b.translator_ok or not b.driver_ok:
        what = []
        if not b.translator_ok:
            what.append("translator: " + b.translator_msg[-300:])
        if not b.proof_ok:
            what.append("theorem(s) of Properties/%s.v no longer check: %s" % (a.prop, b.proof_msg[:400]))
        if not b.driver_ok:
            what.append("model no longer builds against the regenerated tables")
        if disagreements:
            what.append("correspondence alpha_%s broken on %d cases, e.g. %s" % (a.prop, len(disagreements), disagreements[0][3]))
        p = write_replay("broken", {"property": a.prop, "kind": "broken-obligation", "what": what,
                                    "disagreeing_cases": [{"case": c, "model": m, "impl": i, "diff": d} for c, m, i, d in disagreements[:5]],
                                    "seed": seed, "searched": {"cases": len(cases), "oracle_violations": 0}})
        lines.append("VIOLATION property=%s replay=%s no-failing-input-found" % (a.prop, p))
        exit_code = 1
        nviol = 1

    # ---------------------------------------------------------------- evidence
    def sample(c):
        s = {k: v for k, v in c.items() if k in ("kind", "text", "expr", "vars", "opts", "lines", "files", "main", "name", "note", "expect", "expect_out", "expect_trace", "ref")}
        return s
    samples = [sample(c) for c in (cases[:2] + cases[ncorpus:ncorpus + 3])]
    obligations = len(b.theorems)
    ev = {
        "property_id": a.prop,
        "tier": tier,
        "seed": seed,
        "level": "proof",
        "coverage": {
            "obligations": max(obligations, 1),
            "discharged": obligations if b.proof_ok else 0,
            "checker_cmd": "make -C coq Properties/%s.vo (coq_makefile, full .vo build) ; coqc Properties/%s.v for Print Assumptions" % (a.prop, a.prop),
            "trusted_base": TRUSTED_BASE,
            "theorems": b.theorems,
            "print_assumptions": ("%d x Closed under the global context" % b.assumptions.count("Closed under the global context")) + ("; OTHER OUTPUT: " + " | ".join(b.axioms_reported)[:2000] if b.axioms_reported else ""),
            "coqchk": b.coqchk,
            "generated_tables_changed_this_run": b.generated_changed,
            "fingerprint_drift": b.fingerprint_drift,
            "programs": len(cases),
            "corpus_cases": ncorpus,
            "disagreements_checked": len(cases) if b.driver_ok else 0,
            "disagreements": len(disagreements),
            "evaluations": len(cases) + extra.get("evaluations", 0),
            "distinct_nontrivial": len(distinct),
            "rule": P.rule,
            "samples": samples,
            "distribution": dict(stats),
            "extra_checks": extra.get("summary", {}),
            "alpha_fields": P.fields,
            "explanation": P.explanation,
        },
        "assumptions": P.assumptions,
        "wall_s": round(time.time() - t0, 2),
        "violations": nviol,
        "known_findings_reported": list(known_hits.keys()),
        "timing": {"build_s": round(t1 - t0, 2), "model_s": round(t2 - t1, 2), "impl_s": round(t3 - t2, 2)},
        "notes": b.notes,
    }
    os.makedirs(os.path.join(VERIF, "evidence"), exist_ok=True)
    json.dump(ev, open(os.path.join(VERIF, "evidence", a.prop + ".json"), "w"), ensure_ascii=False, indent=1)
    for ln in lines:
        print(ln)
    print("check %s tier=%s: theorems=%d proof_ok=%s cases=%d disagreements=%d oracle_violations=%d known=%d wall=%.1fs" % (
        a.prop, tier, obligations, b.proof_ok, len(cases), len(disagreements), len(violations), len(known_hits), time.time() - t0))
    return exit_code


if __name__ == "__main__":
    sys.exit(main())
