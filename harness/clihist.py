"""CLI histories: sequences of CLI invocations (one fresh process each, as in real use) on a sandbox
world of projects, configs and a HOME, compared with the model's `cli_run` (Model/CliWorld.v):
per-invocation reports, final content of every text file, parsed meaning AND key set of every
config.yaml, the global config, and the set of directories."""
import json, os, re, shutil, subprocess, sys

import common

KEYS = ("stack_limit", "include_comments", "flipper_commands", "supress_command_not_exist", "use_project_config")

RUNNER = r'''
import sys, os, json, importlib, io, contextlib, inspect
sys.path.insert(0, %(repo)r)
job = json.loads(sys.stdin.read())
os.chdir(job["cwd"])
from pathlib import Path
res = {"raised": None}
buf = io.StringIO()
try:
    with contextlib.redirect_stdout(buf):
        if job["cmd"] == "compile":
            m = importlib.import_module("ducklingscript.cli.compile")
            sig = inspect.signature(m.compile)
            # flags that are not given take the defaults Typer would use: the values bound in the signature
            sl = job["stack_limit"] if job.get("stack_limit") is not None else sig.parameters["stack_limit"].default
            cm = job["comments"] if job.get("comments") is not None else sig.parameters["comments"].default
            m.compile(Path(job["file"]), Path(job["output"]), stack_limit=sl, comments=cm)
        else:
            m = importlib.import_module("ducklingscript.cli.new")
            m.new(job["name"], Path(job["path"]))
except BaseException as e:
    res["raised"] = type(e).__name__ + ": " + str(e)[:200]
res["stdout"] = buf.getvalue()
print(json.dumps(res))
'''

SOURCES = [
    "STRING ok", "STRING a\nDELAY -1", "PRINT hi\nSTRING a", "PRINT hi\nDELAY -1", "FOO x\nSTRING y", "REM c\nSTRING x\nREM d",
    "ALTCHAR 65\nSTRING f", "REM note\nALTSTRING abc", "STRING a\n  b\n      c", "", "PRINT p\nFUNC f\n    RUN f\nRUN f",
    "REPEAT 2\n    FOO\n    REM in\n    STRING r", "START lib\nSTRING after", "PRINT one\nSTART lib\nDELAY x", "VAR a 1\n$STRING a+1\nBAR 1 2",
    "IF TRUE\n IF TRUE\n  IF TRUE\n   IF TRUE\n    IF TRUE\n     IF TRUE\n      STRING deep",
    "PRINT [/red] p\nSTRING out\n$STRING\n    1+1\n    [/quote] +", "START lib\nALT\n    a\n    [/x]bad",
]
LIBS = ["STRING lib", "PRINT inlib\nSTRING lib\nFOO z", "PRINT inlib\nDELAY -5", "REM lib\nALTCHAR 66", "PRINT inlib\n$STRING\n    2\n    [/quote] +"]
CFGS = [None, None, {}, {"include_comments": True}, {"stack_limit": 5}, {"flipper_commands": False}, {"use_project_config": False, "include_comments": True},
        {"supress_command_not_exist": True, "stack_limit": 30}, dict(zip(KEYS, (20, False, True, False, True))), dict(zip(KEYS, (7, True, False, True, True)))]
GLOBALS = [None, None, dict(zip(KEYS, (20, False, True, False, True))), {"flipper_commands": False}, {"use_project_config": False},
           {"include_comments": True, "stack_limit": 30}, {"supress_command_not_exist": True}, dict(zip(KEYS, (6, True, False, True, False)))]
NAMES = ["demo", "My Proj", "p1", "Bad/Name", "UPPER", " x ", "a_b", "new-1", "", "out.txt"]


def gen_case(r):
    files, cfgs, dirs = {}, {}, ["ws"]
    for p in ("p1", "p2"):
        dirs.append(p)
        files[p + "/main.txt"] = r.choice(SOURCES)
        files[p + "/lib.txt"] = r.choice(LIBS)
        c = r.choice(CFGS)
        if c is not None:
            cfgs[p] = dict(c)
        if r.random() < 0.4:
            files[p + "/out.txt"] = "STALE PAYLOAD"
    files["p1/notes.md"] = "keep me"
    if r.random() < 0.3:
        files["out.txt"] = "STALE ROOT"
    glob = r.choice(GLOBALS)
    ops = []
    created = []
    for _ in range(r.randint(2, 6)):
        k = r.random()
        if k < 0.7:
            cand = ["p1/main.txt", "p2/main.txt"] + [c + "/main.txt" for c in created] + (["p1/nosuch.txt"] if r.random() < 0.1 else [])
            f = r.choice(cand)
            out = r.choice([os.path.dirname(f) + "/out.txt", "out.txt", os.path.dirname(f) + "/out.txt"] + (["p2/main.txt"] if f != "p2/main.txt" and r.random() < 0.15 else []))
            ops.append({"op": "compile", "file": f, "output": out, "stack_limit": r.choice([None, None, 40, 5, 6]), "comments": r.choice([None, None, True, False])})
        else:
            nm = r.choice(NAMES)
            d = r.choice(["ws", "ws", ""])
            ops.append({"op": "new", "dir": d, "name": nm})
            norm = nm.strip().lower().replace(" ", "-")
            if norm and all(ch in "abcdefghijklmnopqrstuvwxyz1234567890-" for ch in norm):
                created.append((d + "/" if d else "") + norm)
    return {"kind": "cli", "files": files, "cfgs": cfgs, "global": glob, "dirs": dirs, "ops": ops}


# ------------------------------------------------------------------ model side
def enc_yaml(y):
    parts = []
    for key in KEYS:
        parts.append("1 %d" % int(y[key]) if key in y else "0")
    return " ".join(parts)


def rel_path(root, rel):
    return common.enc_path(root + ([c for c in rel.split("/") if c] if rel else []))


def encode(c, root):
    fl = ["%s %s" % (rel_path(root, p), common.enc_str(t)) for p, t in sorted(c["files"].items())]
    cf = ["%s %s" % (rel_path(root, p), enc_yaml(y)) for p, y in sorted(c["cfgs"].items())]
    gl = "0" if c["global"] is None else "1 " + enc_yaml(c["global"])
    dr = [rel_path(root, "")] + [rel_path(root, d) for d in c["dirs"]]
    ops = []
    for o in c["ops"]:
        if o["op"] == "compile":
            ops.append("C %s %s %s %s" % (rel_path(root, o["file"]), rel_path(root, o["output"]),
                                          "0" if o["stack_limit"] is None else "1 %d" % o["stack_limit"],
                                          "0" if o["comments"] is None else "1 %d" % int(o["comments"])))
        else:
            ops.append("N %s %s" % (rel_path(root, o["dir"]), common.enc_str(o["name"])))
    return "CLI %d %s %d %s %s %d %s %d %s" % (len(fl), " ".join(fl), len(cf), " ".join(cf), gl, len(dr), " ".join(dr), len(ops), " ".join(ops))


def run_model(cases, root):
    if not cases:
        return []
    inp = "\n".join(encode(c, root) for c in cases) + "\n"
    p = subprocess.run(["bash", "-c", "ulimit -s unlimited 2>/dev/null; exec \"$0\"", common.DRIVER], input=inp.encode(), stdout=subprocess.PIPE, stderr=subprocess.PIPE, timeout=600)
    out = []
    for ln in p.stdout.decode().splitlines():
        try:
            out.append(json.loads(ln))
        except Exception:
            out.append({"status": "DRIVER", "err": ln[:200]})
    while len(out) < len(cases):
        out.append({"status": "DRIVER", "err": "no output " + p.stderr.decode()[-200:]})
    return out


def model_world(m, root):
    """canonical final world of the model record"""
    n = len(root)

    def rel(p):
        return "/".join(common.dec(c) for c in p[n:])

    def yam(y):
        return None if y is None else {k: v for k, v in zip(KEYS, y) if v is not None}
    return {"reports": [tuple(r) for r in m["reports"]],
            "files": {rel(p): (None if t is None else common.dec(t)) for p, t in m["files"]},
            "cfgs": {rel(p): yam(y) for p, y in m["cfgs"]},
            "global": yam(m["global"]),
            "dirs": sorted(set(rel(p) for p in m["dirs"]) - {""})}


# ------------------------------------------------------------------ implementation side
ERR_NAMES = ["InvalidTabError", "UnclosedQuotationsError", "GeneralError", "StackOverflowError", "VarIsNonExistentError", "UnacceptableVarNameError",
             "InvalidArgumentsError", "UnexpectedTokenError", "ExpectedTokenError", "MismatchError", "NotAValidCommand", "CircularStructureError",
             "ExceededLimitError", "InvalidCommand", "StackReturnTypeError", "DivideByZeroError"]


def classify(op, res):
    out = res.get("stdout") or ""
    if res.get("raised"):
        return ("missing",) if res["raised"].startswith("FileNotFoundError") else ("raised", res["raised"])
    if op["op"] == "new":
        if "successfully created" in out:
            return ("created",)
        return ("refused",)
    if "Compilation complete!" in out:
        m = re.search(r"\(with (\d+) warning", out)
        return ("success", int(m.group(1)) if m else 0)
    if "Compile failed with an error." in out:
        cls = None
        for ln in out.split("\n"):
            mm = re.match(r"^(\w+): ", ln)
            if mm and mm.group(1) in ERR_NAMES:
                cls = mm.group(1)
        tail = out.split("Compile failed with an error.", 1)[1]
        npr = 0
        if "--> Captured STD:OUT" in tail:
            body = tail.split("--> Captured STD:OUT", 1)[1]
            body = body.rsplit("---", 1)[0]
            npr = len([x for x in body.split("\n") if x.strip() != ""])
        return ("error", cls, npr)
    return ("unknown", out[-200:])


def run_impl(c, base):
    import yaml
    shutil.rmtree(base, ignore_errors=True)
    home = os.path.join(base, "home")
    root = os.path.join(base, "w")
    os.makedirs(home)
    os.makedirs(root)
    for d in c["dirs"]:
        os.makedirs(os.path.join(root, d), exist_ok=True)
    for p, t in c["files"].items():
        with open(os.path.join(root, p), "w", newline="") as f:
            f.write(t)
    for d, y in c["cfgs"].items():
        with open(os.path.join(root, d, "config.yaml"), "w") as f:
            yaml.dump(y, f)
    if c["global"] is not None:
        os.makedirs(os.path.join(home, ".duckling"))
        with open(os.path.join(home, ".duckling", "config.yaml"), "w") as f:
            yaml.dump(c["global"], f)
    env = dict(os.environ, HOME=home, PYTHONHASHSEED="0", COLUMNS="400", NO_COLOR="1", TERM="dumb")
    reports = []
    for o in c["ops"]:
        if o["op"] == "compile":
            job = {"cmd": "compile", "cwd": root, "file": os.path.join(root, o["file"]), "output": os.path.join(root, o["output"]), "stack_limit": o["stack_limit"], "comments": o["comments"]}
        else:
            job = {"cmd": "new", "cwd": root, "name": o["name"], "path": os.path.join(root, o["dir"]) if o["dir"] else root}
        try:
            p = subprocess.run([sys.executable, "-c", RUNNER % {"repo": common.REPO}], input=json.dumps(job).encode(), stdout=subprocess.PIPE, stderr=subprocess.PIPE, env=env, timeout=120)
            res = json.loads(p.stdout.decode().strip().split("\n")[-1])
        except subprocess.TimeoutExpired:
            res = {"raised": "Timeout: the CLI invocation did not finish within 120 s"}
        except Exception:
            res = {"raised": "RunnerFailure: " + p.stderr.decode()[-300:]}
        reports.append(classify(o, res))
    files, cfgs, dirs = {}, {}, []
    for dp, dn, fn in os.walk(root):
        for d in dn:
            dirs.append(os.path.relpath(os.path.join(dp, d), root))
        for f in fn:
            full = os.path.join(dp, f)
            rel = os.path.relpath(full, root)
            txt = open(full, "rb").read().decode("utf-8", "replace")
            if f == "config.yaml":
                try:
                    cfgs[os.path.dirname(rel)] = yaml.safe_load(txt) or {}
                except Exception:
                    cfgs[os.path.dirname(rel)] = {"<unparsable>": txt[:100]}
            else:
                files[rel] = txt
    gpath = os.path.join(home, ".duckling", "config.yaml")
    glob = None
    if os.path.exists(gpath):
        try:
            glob = yaml.safe_load(open(gpath).read()) or {}
        except Exception:
            glob = {"<unparsable>": True}
    extra_home = []
    for dp, dn, fn in os.walk(home):
        for f in fn:
            rel = os.path.relpath(os.path.join(dp, f), home)
            if rel != ".duckling/config.yaml":
                extra_home.append(rel)
    shutil.rmtree(base, ignore_errors=True)
    return {"reports": reports, "files": files, "cfgs": cfgs, "global": glob, "dirs": sorted(dirs), "extra_home": extra_home}


def compare(c, mw, iw):
    """-> None or a description of the first difference"""
    for k, (a, b) in enumerate(zip(mw["reports"], iw["reports"])):
        if a[0] == "raised":
            return None          # outside the model from here on
        if b[0] == "raised" or tuple(a) != tuple(b):
            return "invocation %d (%s): model reports %s, CLI %s" % (k + 1, c["ops"][k]["op"], list(a), list(b))
    for p, t in mw["files"].items():
        if iw["files"].get(p) != t:
            return "file %s: model %r, CLI left %r" % (p, None if t is None else t[:60], None if iw["files"].get(p) is None else iw["files"][p][:60])
    for p in iw["files"]:
        if p not in mw["files"]:
            return "file %s exists after the history but no invocation may have created it" % p
    for d, y in mw["cfgs"].items():
        if iw["cfgs"].get(d) != y:
            return "config %s/config.yaml: model %s, CLI left %s" % (d, y, iw["cfgs"].get(d))
    for d in iw["cfgs"]:
        if d not in mw["cfgs"]:
            return "config %s/config.yaml exists after the history but no invocation may have created it" % d
    if mw["global"] != iw["global"]:
        return "global config: model %s, CLI left %s" % (mw["global"], iw["global"])
    if mw["dirs"] != iw["dirs"]:
        return "directories: model %s, CLI %s" % (mw["dirs"], iw["dirs"])
    if iw["extra_home"]:
        return "files written under HOME besides the global config: %s" % iw["extra_home"]
    return None


def run(r, n, tag="c19h"):
    """-> (violations [(case, tag, description)], evaluations, summary)"""
    cases = [gen_case(r) for _ in range(n)]
    root = ["tmp", "dsv", "%s_%d" % (tag, os.getpid()), "w"]
    models = run_model(cases, root)
    viol = []
    ev = 0
    stats = {"histories": n, "invocations": 0, "model_unmodelled": 0, "reports": {}}
    for c, m in zip(cases, models):
        if m.get("status") != "OK":
            if m.get("status") == "DRIVER":
                viol.append((c, "cli_model_unavailable", "the model gave no answer: %s" % m.get("err")))
            else:
                stats["model_unmodelled"] += 1
            continue
        mw = model_world(m, root)
        iw = run_impl(c, "/" + "/".join(root[:-1]))
        ev += len(c["ops"])
        stats["invocations"] += len(c["ops"])
        for rep in iw["reports"]:
            stats["reports"][rep[0]] = stats["reports"].get(rep[0], 0) + 1
        d = compare(c, mw, iw)
        if d:
            viol.append((c, "cli_history_differs", d))
    return viol, ev, stats
