"""Case generators.  Every random choice derives from the `random.Random` passed in."""
import random

KEYS_ALT = ["END", "ESC", "ESCAPE", "SPACE", "TAB"] + ["F%d" % i for i in range(1, 13)]
KEYS_CTRL = ["BREAK", "PAUSE", "ESCAPE", "ESC"] + ["F%d" % i for i in range(1, 13)]
KEYS_SHIFT = ["DELETE", "HOME", "INSERT", "PAGEUP", "PAGEDOWN", "WINDOWS", "GUI", "UPARROW", "DOWNARROW", "LEFTARROW", "RIGHTARROW", "TAB"]
NOARG = ["DOWNARROW", "DOWN", "LEFTARROW", "LEFT", "RIGHTARROW", "RIGHT", "UPARROW", "UP", "MENU",
         "BREAK", "PAUSE", "CAPSLOCK", "DELETE", "END", "ESC", "ESCAPE", "HOME", "INSERT", "NUMLOCK",
         "PAGEUP", "PAGEDOWN", "PRINTSCREEN", "SCROLLLOCK", "SPACE", "TAB", "FN", "ENTER"]
FLIP_MOD = ["CTRL-ALT", "CTRL-SHIFT", "ALT-SHIFT", "ALT-GUI", "GUI-SHIFT"]
UNKNOWN = ["FOO", "STRNG", "DELAYY", "HOLD", "RELEASE", "WAIT_FOR_BUTTON_PRESS", "ATTACKMODE", "DEFINE", "STRING_DELAY",
           "LED_R", "xyzzy", "ALTT", "AL", "ÉCRIRE", "ſtring2", "IF", "WHILE", "FUNC", "ELSE", "IGNORE", "REMOTE", "REM_BLOCK", "remap", "STRINGS", "DELAY_MS"]
CHARS = list("abcxyzABZ019 !#%&*+,-./:;<=>?@[]^_{|}~()\"'$\\") + ["é", "ß", "ǆ", "İ", "ı", "λ", "Ж", "中", "😀", " ", "٣", "²", "½", " "] + \
    ["\x0b", "\x0c", "\x1c", "\x1d", "\x1e", "\x85", "\u2028", "\u2029"]   # str.splitlines() breaks at these, split("\n") does not (CR too, but a CR in a
# file is a line end for Python's text-mode read, so string and file twins of a text would differ: CR appears in explicit string-entry cases only)
NAMES = ["a", "b", "i", "j", "n", "x", "count", "ab", "abc", "a1", "_t", "idx", "Tx", "FAL", "hello", "hell"]
OPS_MATH = ["+", "-", "*", "/", "//", "%", "^"]
OPS_COND = ["==", "!=", "<", ">", "<=", ">="]


def casing(rng, w):
    r = rng.random()
    if r < 0.7:
        return w
    if r < 0.85:
        return w.lower()
    return "".join(c.upper() if rng.random() < 0.5 else c.lower() for c in w)


def rtext(rng, n=None, chars=CHARS):
    n = rng.randint(0, 8) if n is None else n
    return "".join(rng.choice(chars) for _ in range(n))


def ws(rng, p=0.3):
    r = rng.random()
    if r > p:
        return ""
    return rng.choice([" ", " ", "  ", "\t", " \t"])


class ExprGen:
    def __init__(self, rng, names=(), typed=0.8, strings=True, floats=True, commas=False, maxint=30):
        self.rng = rng
        # names: list (kind unknown -> treated as numbers) or dict name -> kind
        if isinstance(names, dict):
            self.kinds = dict(names)
        else:
            self.kinds = {n: "num" for n in names}
        self.names = list(self.kinds)
        self.typed = typed
        self.strings = strings
        self.floats = floats
        self.commas = commas
        self.maxint = maxint

    def lit_int(self):
        r = self.rng
        x = r.random()
        if x < 0.75:
            return str(r.randint(0, self.maxint))
        if x < 0.85:
            return "-" + str(r.randint(1, self.maxint))
        if x < 0.9:
            return "0" + str(r.randint(0, 99))
        if x < 0.94 and self.maxint >= 30:
            return str(r.randint(1000, 10**6))
        if x < 0.95 and self.maxint >= 30:
            # integers are exact at any size: literals no double can represent
            return r.choice(["9007199254740993", "9007199254740992", "10000000000000000000001", "18446744073709551617", str(r.randint(2**53, 2**70))])
        return str(r.randint(0, 9)) + "."

    def lit_float(self):
        r = self.rng
        return r.choice(["0.5", "1.5", "2.25", ".5", "-.5", "-1.5", "0.1", "3.75", "10.0", "2.0", "0.125", "7.5"])

    def lit_str(self):
        r = self.rng
        body = rtext(r, r.randint(0, 6), [c for c in CHARS if c != '"'])
        return '"' + body + '"'

    def leaf(self, kind):
        r = self.rng
        of_kind = [n for n, k in self.kinds.items() if k == kind]
        if kind == "num":
            x = r.random()
            if of_kind and x < 0.3:
                return r.choice(of_kind)
            if self.floats and x < 0.45:
                return self.lit_float()
            return self.lit_int()
        if kind == "str":
            if of_kind and r.random() < 0.3:
                return r.choice(of_kind)
            return self.lit_str()
        if kind == "bool":
            if of_kind and r.random() < 0.3:
                return r.choice(of_kind)
            return r.choice(["TRUE", "FALSE"])
        return r.choice(self.names) if self.names else self.lit_int()

    def gen(self, depth, kind=None):
        r = self.rng
        if kind is None:
            kind = r.choice(["num", "num", "num", "bool", "str" if self.strings else "num"])
        if r.random() > self.typed:
            kind = r.choice(["num", "str", "bool", "var"])
        if depth <= 0 or r.random() < 0.25:
            e = self.leaf(kind)
        elif kind == "num":
            op = r.choice(OPS_MATH)
            if op == "^":
                e = self.wrap(self.gen(depth - 1, "num"), 0.5) + self.sp() + "^" + self.sp() + str(r.randint(0, 3))
            elif op in ("/", "//", "%") and r.random() < 0.85:
                e = self.sub(depth, "num") + self.sp() + op + self.sp() + str(r.randint(1, 9))
            else:
                e = self.sub(depth, "num") + self.sp() + op + self.sp() + self.sub(depth, "num")
        elif kind == "bool":
            x = r.random()
            if x < 0.7:
                k = r.choice(["num", "num", "str"])
                e = self.sub(depth, k) + self.sp() + r.choice(OPS_COND if k == "num" else ["==", "!=", "<", ">="]) + self.sp() + self.sub(depth, k)
            elif x < 0.85:
                e = "!" + self.sp(0.05) + "(" + self.gen(depth - 1, "bool") + ")"
            else:
                e = self.leaf("bool")
        elif kind == "str":
            x = r.random()
            if x < 0.6:
                e = self.sub(depth, r.choice(["str", "num", "str"])) + self.sp() + "+" + self.sp() + self.sub(depth, "str")
            elif x < 0.7:
                e = str(r.randint(0, 3)) + self.sp() + "*" + self.sp() + self.lit_str()
            else:
                e = self.leaf("str")
        else:
            e = self.leaf("var")
        return e

    def sp(self, p=0.3):
        return ws(self.rng, p)

    def wrap(self, e, p):
        return "(" + self.sp(0.1) + e + self.sp(0.1) + ")" if self.rng.random() < p else e

    def sub(self, depth, kind):
        return self.wrap(self.gen(depth - 1, kind), 0.35)

    def expr(self, depth=3, kind=None):
        e = self.sp(0.1) + self.gen(depth, kind) + self.sp(0.1)
        if self.commas and self.rng.random() < 0.3:
            e += "," + self.gen(1)
        return e


def token_soup(rng, n=None):
    pieces = ["1", "2", "10", "-", "+", "*", "/", "//", "%", "^", "==", "!=", "<", ">", "<=", ">=", ",", "(", ")", "!", '"', '"a"', "TRUE", "FALSE",
              "TRU", "a", "ab", "x", ".", "1.5", " ", "  ", "=", "&", "½", "²", "٣", "é", "$", "$DEFAULT_DELAY", "hello", "hell", "T", "F", "-.", "..", "0"]
    n = rng.randint(1, 9) if n is None else n
    return "".join(rng.choice(pieces) for _ in range(n))


# ------------------------------------------------------------------ programs
class Node:
    """a line with an optional indented block of children"""
    __slots__ = ("text", "kids", "quoted")

    def __init__(self, text, kids=None, quoted=False):
        self.text = text.replace("\n", " ").lstrip() or "PASS"
        self.kids = kids
        self.quoted = quoted   # children are raw strings between triple quotes


class ProgGen:
    def __init__(self, rng, weights=None, max_depth=3, names=NAMES, valid=0.9, files=None, allow_while=True):
        self.rng = rng
        self.max_depth = max_depth
        self.valid = valid
        self.names = list(names)
        self.vars = {}          # name -> kind of the variables (probably) defined at this point
        self.funcs = []         # (name, arity)
        self.files = files or []   # importable dotted names
        self.allow_while = allow_while
        self.w = dict(simple=6, dstring=3, var=4, ifc=3, repeat=2, whil=1, func=1.5, run=1.5, ctl=1, prt=1.5, exist=0.7,
                      unknown=0.8, ignore=0.4, group=1.2, quoted=0.5, count=0.6, passc=0.3, rem=0.8, start=0.0, legacy=0.3)
        if weights:
            self.w.update(weights)
        self.in_loop = 0
        self.in_func = 0

    def eg(self, **kw):
        return ExprGen(self.rng, names=dict(self.vars), **kw)

    def expr(self, depth=2, kind=None, **kw):
        return self.eg(**kw).expr(depth, kind)

    def simple_line(self):
        r = self.rng
        k = r.randrange(14)
        if k == 0:
            return casing(r, r.choice(["STRING", "STRINGLN"])) + " " + (rtext(r, r.randint(1, 10)) or "x")
        if k == 1:
            return casing(r, "DELAY") + " " + (str(r.randint(0, 5000)) if r.random() < 0.6 else self.expr(2, "num", floats=False))
        if k == 2:
            return casing(r, "ALT") + " " + (casing(r, r.choice(KEYS_ALT)) if r.random() < 0.6 else r.choice(CHARS).strip() or "a")
        if k == 3:
            return casing(r, r.choice(["CTRL", "CONTROL"])) + " " + (casing(r, r.choice(KEYS_CTRL)) if r.random() < 0.6 else r.choice(CHARS).strip() or "a")
        if k == 4:
            return casing(r, "SHIFT") + " " + casing(r, r.choice(KEYS_SHIFT))
        if k == 5:
            return casing(r, r.choice(["GUI", "WINDOWS", "META"])) + " " + (r.choice(CHARS).strip() or "r")
        if k == 6:
            return casing(r, r.choice(NOARG))
        if k == 7:
            return casing(r, r.choice(["DEFAULT_DELAY", "DEFAULTDELAY"])) + " " + str(r.randint(0, 300))
        if k == 8:
            return casing(r, "ALTCHAR") + " " + "".join(r.choice("0123456789") for _ in range(r.randint(1, 4)))
        if k == 9:
            return casing(r, r.choice(["ALTSTRING", "ALTCODE"])) + " " + (rtext(r, r.randint(1, 6)).strip() or "z")
        if k == 10:
            return casing(r, r.choice(FLIP_MOD)) + " " + (r.choice(CHARS).strip() or "k")
        if k == 11:
            return casing(r, "SYSRQ") + " " + (r.choice(CHARS).strip() or "h")
        if k == 12:
            return casing(r, r.choice(["ALT", "CTRL", "SHIFT", "GUI"]))
        return casing(r, "STRING") + "  " + rtext(r, r.randint(1, 6)) + " "

    def bad_simple(self):
        r = self.rng
        return r.choice([
            "ALT ab", "GUI", "GUI ab", "SHIFT x", "DELAY", "DELAY -1", "DELAY 1.5", 'DELAY "a"', "DELAY TRUE", "MENU x", "ENTER 2", "UP 1",
            "ALTCHAR 12345", "ALTCHAR x", "ALTCHAR", "CTRL-ALT ab", "SYSRQ", "DEFAULT_DELAY x", "WHITESPACE -1", "WHITESPACE 100", "WHITESPACE x",
            "$ENTER -1", "$ENTER 1.5", "$ENTER TRUE", "VAR", "VAR x", "VAR 1a 5", "VAR a- 1", "VAR $x 1", "RUN", "RUN nosuch", "RETURN 1\n", "EXIST", "EXIST nosuch",
            "NOTEXIST", "START x", "STARTCODE .", "PASS x", "BREAKLOOP 1", "$STRING", "$STRING 1 +", "$STRING (1", "$STRING 1/0", '$STRING "a"-1', "$DELAY 5,6",
            "IF", "ELSE", "WHILE TRUE", "FUNC f", "REPEAT", "REPEAT x,3", "REPEAT -1", "REPEAT 1.5", "IGNORE", "ELIF TRUE", "$VAR 100", "$RUN 1.5", "$IF TRUE", "CTRL F13", "ALT  ",
            "$$DELAY 5", "$$STRING 1+1", "$$$ENTER", "$$FOO 1+1", "$ STRING 1", "$$ALT a", "$$REM 1+1", "$$VAR x 1",
        ])

    def block(self, depth, n=None):
        r = self.rng
        n = r.randint(1, 3) if n is None else n
        out = []
        saved_vars, saved_funcs = dict(self.vars), list(self.funcs)
        for _ in range(n):
            out.extend(self.stmt(depth))
        self.vars, self.funcs = saved_vars, saved_funcs
        return out

    def fresh_name(self):
        r = self.rng
        if r.random() < self.valid:
            return r.choice(self.names)
        return r.choice(["1a", "a-b", "", "$x", "a b", "é", "a.b", "_", "TRUE", "T", "TRUEx", "F1"])

    def stmt(self, depth):
        """-> list of Nodes (an IF chain is several nodes)"""
        r = self.rng
        kinds = list(self.w.keys())
        weights = [self.w[k] if (depth < self.max_depth or k not in ("ifc", "repeat", "whil", "func")) else 0 for k in kinds]
        k = r.choices(kinds, weights)[0]
        if r.random() > self.valid and r.random() < 0.4:
            return [Node(self.bad_simple())]
        if k == "simple":
            return [Node(self.simple_line())]
        if k == "dstring":
            cmd = r.choice(["$STRING", "$STRING", "$STRINGLN", "$ALTSTRING", "$REM", "$string", "$FOO"])
            return [Node(cmd + " " + self.expr(3))]
        if k == "var":
            n = self.fresh_name()
            kind = self.vars.get(n) or r.choice(["num", "num", "num", "str", "bool"])
            e = self.expr(2, kind, commas=r.random() < 0.05)
            if n in self.names:
                self.vars[n] = kind
            return [Node(casing(r, "VAR") + " " + n + " " + e)]
        if k == "ifc":
            nodes = [Node(casing(r, "IF") + " " + self.expr(2, "bool"), self.block(depth + 1))]
            for _ in range(r.choice([0, 0, 1, 1, 2, 3])):
                nodes.append(Node(casing(r, "ELIF") + " " + self.expr(2, "bool"), self.block(depth + 1)))
            if r.random() < 0.5:
                nodes.append(Node(casing(r, "ELSE"), self.block(depth + 1)))
            return nodes
        if k == "repeat":
            cnt = str(r.choice([0, 1, 2, 2, 3, 4])) if r.random() < 0.8 else self.expr(1, "num", floats=False, maxint=4)
            self.in_loop += 1
            if r.random() < 0.5:
                v = self.fresh_name()
                old = self.vars.get(v)
                if v in self.names:
                    self.vars[v] = "num"
                body = self.block(depth + 1)
                if old is None:
                    self.vars.pop(v, None)
                node = Node(casing(r, r.choice(["REPEAT", "FOR"])) + " " + v + "," + ws(r) + cnt, body)
            else:
                node = Node(casing(r, r.choice(["REPEAT", "FOR"])) + " " + cnt, self.block(depth + 1))
            self.in_loop -= 1
            return [node]
        if k == "whil":
            if not self.allow_while:
                return [Node("PASS")]
            self.in_loop += 1
            v = r.choice(["w", "k", "wi"])
            lim = r.randint(0, 4)
            had = v in self.vars
            self.vars[v] = "num"
            body = self.block(depth + 1)
            if not had:
                self.vars.pop(v, None)
            cond = r.choice([v + "<" + str(lim), v + " < " + str(lim), "(" + v + "<" + str(lim) + ")", v + "!=" + str(lim), str(lim) + ">" + v])
            self.in_loop -= 1
            return [Node(casing(r, "WHILE") + " " + v + "," + cond, body)]
        if k == "func":
            name = r.choice(["f", "g", "h", "fn1", "go"]) if r.random() < self.valid else self.fresh_name()
            ar = r.choice([0, 0, 1, 1, 2, 3])
            params = r.sample(["p", "q", "s", "t", "a", "b"], ar)
            saved = dict(self.vars)
            for p_ in params:
                self.vars[p_] = "num"
            self.in_func += 1
            il, self.in_loop = self.in_loop, 0
            body = self.block(depth + 1)
            self.in_loop = il
            self.in_func -= 1
            self.vars = saved
            self.funcs.append((name, ar))
            sep = r.choice([",", ", ", " ,"]) if r.random() > 0.8 else ","
            return [Node(casing(r, r.choice(["FUNC", "FUNCTION"])) + " " + name + (" " + sep.join(params) if params else ""), body)]
        if k == "run":
            if self.funcs and r.random() < 0.95:
                name, ar = r.choice(self.funcs)
                if r.random() > self.valid:
                    ar = max(0, ar + r.choice([-1, 1]))
            elif r.random() < 0.15:
                name, ar = "nosuch", 0
            else:
                return [Node("PASS")]
            args = ",".join(self.expr(1, "num") for _ in range(ar))
            return [Node(casing(r, "RUN") + " " + name + (" " + args if args else ""))]
        if k == "ctl":
            if self.in_loop and r.random() < 0.7:
                c = r.choice(["BREAKLOOP", "BREAK_LOOP", "CONTINUELOOP", "CONTINUE_LOOP", "CONTINUE"])
            elif self.in_func and r.random() < 0.7:
                c = r.choice(["RETURN", "RET"])
            else:
                c = r.choice(["BREAKLOOP", "CONTINUE", "RETURN", "RET"]) if r.random() < 0.3 else "PASS"
            if r.random() < 0.6:
                return [Node(casing(r, "IF") + " " + self.expr(1, "bool"), [Node(casing(r, c))])]
            return [Node(casing(r, c))]
        if k == "prt":
            if r.random() < 0.5:
                return [Node(casing(r, "PRINT") + " " + (rtext(r, r.randint(1, 8)).strip() or "p"))]
            return [Node("$PRINT " + self.expr(2))]
        if k == "exist":
            if self.vars and r.random() < 0.8:
                return [Node(casing(r, "EXIST") + " " + r.choice(list(self.vars)))]
            n = r.choice(self.names)
            return [Node(casing(r, r.choice(["NOTEXIST", "NOT_EXIST"]) if n not in self.vars else "EXIST") + " " + n)]
        if k == "unknown":
            w = r.choice(UNKNOWN)
            if r.random() < 0.3:
                return [Node("$" + w + " " + self.expr(1))]
            return [Node(w + (" " + rtext(r, r.randint(1, 6)).strip() if r.random() < 0.7 else ""))]
        if k == "ignore":
            if r.random() < 0.5:
                return [Node(casing(r, "IGNORE"), [Node(rtext(r, r.randint(1, 8)).strip() or "raw") for _ in range(r.randint(1, 3))])]
            return [Node(casing(r, "IGNORE"), [(" " * r.randint(0, 3)) + (rtext(r, r.randint(1, 6)).strip() or "q") for _ in range(r.randint(1, 3))], quoted=True)]
        if k == "group":
            cmd = r.choice(["STRING", "STRINGLN", "ALT", "CTRL", "DELAY", "REM", "PRINT", "$STRING", "GUI", "FOO", "$DELAY", "SHIFT", "DEFAULT_DELAY", "ALTCHAR", "VAR", "RUN", "EXIST"])
            def arg():
                if cmd in ("STRING", "STRINGLN", "REM", "PRINT", "FOO"):
                    return rtext(r, r.randint(1, 6)).strip() or "t"
                if cmd == "ALT":
                    return r.choice(KEYS_ALT + ["a", "é"])
                if cmd == "CTRL":
                    return r.choice(KEYS_CTRL + ["c"])
                if cmd == "SHIFT":
                    return r.choice(KEYS_SHIFT)
                if cmd == "GUI":
                    return r.choice(["r", "d", "é"])
                if cmd in ("DELAY", "$DELAY", "DEFAULT_DELAY"):
                    return str(r.randint(0, 99))
                if cmd == "ALTCHAR":
                    return str(r.randint(0, 9999))
                if cmd == "VAR":
                    n = r.choice(self.names)
                    return n + " " + str(r.randint(0, 9))
                if cmd == "RUN":
                    return r.choice(self.funcs)[0] if self.funcs else "nosuch"
                if cmd == "EXIST":
                    return r.choice(list(self.vars)) if self.vars else "nosuch"
                return self.expr(1)
            kids = [Node(arg()) for _ in range(r.randint(1, 3))]
            first = (" " + arg()) if r.random() < 0.4 else ""
            return [Node(casing(r, cmd) + first, kids)]
        if k == "quoted":
            cmd = r.choice(["STRING", "STRINGLN", "REM", "PRINT", "FOO"])
            return [Node(cmd, [(" " * r.randint(0, 4)) + (rtext(r, r.randint(1, 6)).strip() or "v") for _ in range(r.randint(1, 3))], quoted=True)]
        if k == "count":
            c = r.choice(["$ENTER", "WHITESPACE", "$WHITESPACE", "ENTER"])
            if c == "ENTER":
                return [Node("ENTER")]
            return [Node(c + " " + (str(r.randint(0, 5)) if r.random() < 0.8 else self.expr(1, "num", floats=False, maxint=4)))]
        if k == "passc":
            return [Node(casing(r, "PASS"))]
        if k == "rem":
            if r.random() < 0.15:
                return [Node(casing(r, "REM"))]          # a comment without text
            return [Node(casing(r, "REM") + " " + (rtext(r, r.randint(1, 8)).strip() or "c"))]
        if k == "legacy":
            return [Node(r.choice(["REPEAT", "repeat", "FOR"]) + " " + str(r.randint(0, 9)))]
        if k == "start":
            if not self.files:
                return [Node("PASS")]
            return [Node(casing(r, r.choice(["START", "START", "STARTCODE", "STARTENV"])) + " " + r.choice(self.files))]
        return [Node("PASS")]

    def program(self, n=None):
        r = self.rng
        n = r.randint(1, 8) if n is None else n
        out = []
        for _ in range(n):
            out.extend(self.stmt(0))
        return out


def render(nodes, unit="    ", rng=None, blank=0.0, level=0):
    """nodes -> list of text lines"""
    lines = []
    for nd in nodes:
        if rng is not None and rng.random() < blank:
            lines.append(rng.choice(["", " ", "\t", unit * level]))
        lines.append(unit * level + nd.text)
        if nd.kids is not None:
            if nd.quoted:
                lines.append(unit * (level + 1) + '"""')
                for k in nd.kids:
                    lines.append(unit * (level + 1) + k)
                lines.append(unit * (level + 1) + '"""')
            else:
                lines.extend(render(nd.kids, unit, rng, blank, level + 1))
    return lines


def to_raw(nodes):
    """nodes -> the nested-list input form"""
    out = []
    for nd in nodes:
        out.append(nd.text)
        if nd.kids is not None:
            if nd.quoted:
                out.append(list(nd.kids))
            else:
                out.append(to_raw(nd.kids))
    return out


UNITS = ["    ", "  ", "\t", " ", "   ", "\t\t", " \t", "        "]


def mutate_text(rng, text):
    """a malformed variant of a program text"""
    r = rng
    k = r.randrange(8)
    if not text:
        return " x"
    i = r.randrange(len(text))
    if k == 0:
        return text[:i] + text[i + 1:]
    if k == 1:
        return text[:i] + r.choice(CHARS + ["\n", "\n ", "\n\t", "  ", '"""', "$"]) + text[i:]
    if k == 2:
        ls = text.split("\n")
        j = r.randrange(len(ls))
        ls[j] = r.choice([" ", "  ", "\t", "   ", " ", "\x0b"]) + ls[j]
        return "\n".join(ls)
    if k == 3:
        ls = text.split("\n")
        j = r.randrange(len(ls))
        ls[j] = ls[j].lstrip()
        return "\n".join(ls)
    if k == 4:
        ls = text.split("\n")
        r.shuffle(ls)
        return "\n".join(ls)
    if k == 5:
        return text[:i]
    if k == 6:
        ls = text.split("\n")
        j = r.randrange(len(ls))
        ls.insert(j, r.choice(['"""', '    """', "IF TRUE", "ELSE", "    RETURN", "BREAKLOOP", "$STRING " + token_soup(r)]))
        return "\n".join(ls)
    return text.replace(r.choice(["TRUE", "STRING", "VAR", "IF", " ", "1", ","]), r.choice(["FALSE", "STRNG", "", "ELIF", "  ", "0", ",,"]), 1)
