#!/usr/bin/env python3
"""bin/seed_ingest.py <out_dir> <A|B> <seed_id> <check> [<check> ...]
Confirms a seeded change independently (scratch worktree: tests pass, demo fails with / passes without),
stores it under /verif/seeded/<seed_id>/ and runs the given checks against /repo with the change applied."""
import json, os, shutil, subprocess, sys, time

out, which, sid = sys.argv[1], sys.argv[2], sys.argv[3]
checks = sys.argv[4:]
patch = os.path.join(out, which + ".diff")
demo = os.path.join(out, "demo_%s.py" % which)
meta = json.load(open(os.path.join(out, which + ".meta.json")))
wt = "/tmp/seedwt_%d" % os.getpid()


def sh(cmd, **kw):
    p = subprocess.run(cmd, shell=True, stdout=subprocess.PIPE, stderr=subprocess.STDOUT, **kw)
    return p.returncode, p.stdout.decode(errors="replace")


ran = []
rc, o = sh("git -C /repo worktree add -q --detach %s HEAD" % wt)
try:
    env = dict(os.environ, PYTHONPATH=wt, PYTHONHASHSEED="0")
    rc0, o0 = sh("/venv/bin/python %s" % demo, cwd=wt, env=env)
    ran.append("demo on unchanged tree: rc=%d" % rc0)
    rc, o = sh("git apply %s" % patch, cwd=wt)
    if rc != 0:
        print("patch does not apply", o)
        sys.exit(2)
    rct, ot = sh("/venv/bin/python -m pytest -q -p no:cacheprovider --timeout=900 2>&1 | tail -2", cwd=wt, env=env)
    ran.append("test suite with the change: " + ot.strip().split("\n")[-1])
    rc1, o1 = sh("/venv/bin/python %s" % demo, cwd=wt, env=env)
    ran.append("demo with the change: rc=%d" % rc1)
finally:
    sh("git -C /repo worktree remove --force %s" % wt)
    shutil.rmtree(wt, ignore_errors=True)
confirmed = rc0 == 0 and rc1 != 0 and "passed" in ot and "failed" not in ot
print("\n".join(ran), "\nconfirmed:", confirmed)
if not confirmed:
    sys.exit(3)
d = os.path.join("/verif/seeded", sid)
os.makedirs(d, exist_ok=True)
shutil.copy(patch, os.path.join(d, "patch.diff"))
shutil.copy(demo, os.path.join(d, "demo.py"))
results = []
for c in checks:
    rc, o = sh("/verif/bin/seedtest %s %s" % (os.path.join(d, "patch.diff"), c))
    line = [l for l in o.split("\n") if l.startswith("SEED")]
    results.append({"check": c, "detected": " rc=1 " in (line[0] if line else ""), "line": line[0] if line else o[-300:]})
    print(results[-1]["line"])
m = {"property": meta.get("property"), "summary": meta.get("summary"), "needs": meta.get("needs"), "files": meta.get("files"),
     "confirmed": ran, "checks_run": results, "caught_by": [r["check"] for r in results if r["detected"]]}
json.dump(m, open(os.path.join(d, "meta.json"), "w"), indent=1, ensure_ascii=False)
