#!/usr/bin/env python3
"""Regenerates DESIGN.md section 14.8 (which checks catch which seeded changes) from seeded/*/meta.json
and the seed-test logs given on the command line (later lines override earlier ones)."""
import glob, json, os, re, sys

rows = {}
for d in sorted(x for x in glob.glob("/verif/seeded/*/") if os.path.exists(os.path.join(x, "meta.json"))):
    sid = os.path.basename(d.rstrip("/"))
    m = json.load(open(os.path.join(d, "meta.json")))
    rows[sid] = {"prop": m.get("property"), "summary": (m.get("summary") or "").replace("\n", " "), "needs": (m.get("needs") or "").replace("\n", " "),
                 "results": {r["check"]: r["detected"] for r in m.get("checks_run", [])}, "nofail": set(), "first_miss": set()}
for log in sys.argv[1:]:
    for line in open(log):
        mm = re.match(r"SEED (\S+)/patch.diff check=(\S+) rc=(\d+) (.*)", line)
        if not mm:
            continue
        sid, chk, rc, rest = mm.group(1), mm.group(2), int(mm.group(3)), mm.group(4)
        if sid not in rows:
            continue
        det = rc == 1 and rest.startswith("VIOLATION")
        prev = rows[sid]["results"].get(chk)
        if prev is False and det:
            rows[sid]["first_miss"].add(chk)
        if prev is None and not det:
            pass
        rows[sid]["results"][chk] = det or bool(prev and False)
        if det and "no-failing-input-found" in rest:
            rows[sid]["nofail"].add(chk)
        elif det:
            rows[sid]["nofail"].discard(chk)
out = []
out.append("### 14.8 Seeded changes: which checks catch which\n")
out.append("Each change was produced by a sub-agent that saw only the property text and a scratch worktree, confirmed")
out.append("independently (`bin/seed_ingest.py`: tests pass with it, its demonstration fails with it and passes without),")
out.append("stored under `seeded/<id>/` (patch.diff, demo.py, meta.json) and run against the checks with `bin/seedtest`.")
out.append("`caught` = exit 1 with a VIOLATION line and a concrete replay; `(nfi)` = reported with `no-failing-input-found`")
out.append("(translator or proof broke, no concrete input in the searched set); `strengthened` = the property's own check")
out.append("missed the change at first and its stream/oracle was extended (section 14.9), after which it is caught.\n")
out.append("| seed | property | change (short) | caught by | missed by |")
out.append("|---|---|---|---|---|")
tot = own = 0
for sid, r in rows.items():
    caught = [c + (" (nfi)" if c in r["nofail"] else "") + (" (strengthened)" if c in r["first_miss"] else "") for c, d in r["results"].items() if d]
    missed = [c for c, d in r["results"].items() if not d]
    tot += 1
    if r["results"].get(r["prop"]):
        own += 1
    out.append("| %s | %s | %s | %s | %s |" % (sid, r["prop"], r["summary"][:150].replace("|", "/"), ", ".join(caught) or "-", ", ".join(missed) or "-"))
none = [sid for sid, r in rows.items() if not any(r["results"].values())]
other = tot - own - len(none)
out.append("\n%d seeded changes; %d caught by the check of the property they were written against, %d only by a neighbouring property's check (listed), %d by no check that was run against them%s." % (tot, own, other, len(none), (": " + ", ".join(none)) if none else ""))
text = "\n".join(out) + "\n"
p = "/verif/DESIGN.md"
s = open(p).read()
if "### 14.8 Seeded changes" in s:
    i = s.index("### 14.8 Seeded changes")
    j = s.find("\n### 14.9", i)
    s = s[:i] + text + (s[j:] if j != -1 else "")
else:
    s = s.rstrip("\n") + "\n\n" + text
open(p, "w").write(s)
print(text[-400:])
