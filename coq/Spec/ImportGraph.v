(* C13 at the level of WHOLE IMPORT GRAPHS: the abstraction.

   A graph is a finite association list  file name -> the imports of that file, in order.  Every
   import carries the command word used (START / STARTCODE / STARTENV).  The graph denotes a file
   system in which every file lives in one folder [dir]; the file of node [n] is  dir/n.txt  and
   its text is

       STRING n                 (a marker line: the output shows the visit order)
       START m1                 (one line per import, with the word of that import)
       STARTCODE m2
       ...

   [gvisit] is the depth-first traversal that the interpreter performs on such a file system (the
   correspondence is Proofs/GraphRun.v): it either completes with the list of markers emitted, or
   stops at the first offending import with the chain of imports that leads to it. *)
From Coq Require Import NArith ZArith List Bool.
From DS Require Import Base PyStr Expr TabParse Constants Interp.
Import ListNotations.

(* ------------------------------------------------------------------ names, words, texts *)
Notation name := str (only parsing).

(* a file name: not empty, made of  a-z A-Z 0-9 _  (the alphabet of variable names) *)
Definition name_ok (n : name) : bool :=
  match n with [] => false | _ => forallb (fun c => char_in c acceptable_vars) n end.

Inductive variant := VStart | VCode | VEnv.

Definition word (v : variant) : str :=
  match v with VStart => s_START | VCode => s_STARTCODE | VEnv => s_STARTENV end.

Definition w_STRING : str := [83;84;82;73;78;71]%N.

Definition marker_ln (n : name) : str := w_STRING ++ [space] ++ n.
Definition edge_ln (v : variant) (m : name) : str := word v ++ [space] ++ m.

Definition imports := list (variant * name).
Definition graph := list (name * imports).

(* the literal form of the task: (file, the files it STARTs, in order) *)
Definition plain_graph (g : list (name * list name)) : graph :=
  map (fun p => (fst p, map (fun m => (VStart, m)) (snd p))) g.

Definition file_lines (n : name) (imps : imports) : list str :=
  marker_ln n :: map (fun e => edge_ln (fst e) (snd e)) imps.

Definition file_text (n : name) (imps : imports) : str := join [10%N] (file_lines n imps).

(* ------------------------------------------------------------------ the file system denoted *)
Definition file_of (dir : path) (n : name) : path := dir ++ [n ++ script_extension].

Fixpoint graph_fs (dir : path) (g : graph) (p : path) : option str :=
  match g with
  | [] => None
  | (n, imps) :: r => if path_eqb p (file_of dir n) then Some (file_text n imps) else graph_fs dir r p
  end.

(* every name that occurs is a legal file name *)
Definition graph_ok (g : graph) : Prop :=
  Forall (fun p => name_ok (fst p) = true /\ Forall (fun e => name_ok (snd e) = true) (snd p)) g.

(* ------------------------------------------------------------------ chains of imports *)
(* one live import: the file, the (1-based) number of the importing line in it, the word, the target *)
Record link := mkLink { lk_file : name; lk_num : Z; lk_var : variant; lk_target : name }.

(* the stack frame of a live import: the importing file, the importing line (twice: Stack.current_line
   and the argument line `line_2`, which for an inline argument is the same source line) *)
Definition frame_of_link (dir : path) (l : link) : frame :=
  let ln := (edge_ln (lk_var l) (lk_target l), lk_num l) in
  mkFrame (Some (file_of dir (lk_file l))) ln (Some ln).

(* the files that are being compiled, outermost first *)
Definition live (links : list link) (n : name) : list name := map lk_file links ++ [n].

(* ------------------------------------------------------------------ the traversal *)
Inductive gres :=
| GOk (out : list name)          (* completed: the markers emitted, in order *)
| GCircular (chain : list link)  (* the last link of the chain re-enters a live file *)
| GMissing (chain : list link)   (* the last link of the chain names a file that does not exist *)
| GOverflow (chain : list link)  (* the last link of the chain would exceed the stack limit *)
| GFuel.                         (* traversal fuel exhausted (excluded by [gvisit_fuel_enough]) *)

Section Traversal.
Variable L : Z.          (* the stack limit *)
Variable g : graph.

Section Edges.
Variable visit : list link -> name -> gres.

(* the import lines of file [n] from line [k] on; [acc] = markers emitted so far by this file.
   Order of the tests = order of the code: existence, circularity, stack limit, then the import. *)
Fixpoint gedges (links : list link) (n : name) (imps : imports) (k : Z) (acc : list name) : gres :=
  match imps with
  | [] => GOk acc
  | (v, m) :: r =>
      let links' := links ++ [mkLink n k v m] in
      match lookup m g with
      | None => GMissing links'
      | Some _ =>
          if str_in m (live links n) then GCircular links'
          else if (L <=? Z.of_nat (length links) + 1)%Z then GOverflow links'
          else match visit links' m with
               | GOk o => gedges links n r (k + 1)%Z (acc ++ match v with VEnv => [] | _ => o end)
               | e => e
               end
      end
  end.
End Edges.

Fixpoint gvisit (fuel : nat) (links : list link) (n : name) : gres :=
  match fuel with
  | O => GFuel
  | S f =>
      match lookup n g with
      | None => GMissing links
      | Some imps => gedges (gvisit f) links n imps 2%Z [n]
      end
  end.

(* enough fuel for every stack limit: a descent needs  length links + 1 < L *)
Definition gtraverse (entry : name) : gres := gvisit (S (Z.to_nat L)) [] entry.
End Traversal.

(* ------------------------------------------------------------------ graph vocabulary *)
Definition edge (g : graph) (n m : name) : Prop :=
  exists imps v, lookup n g = Some imps /\ In (v, m) imps.

Inductive reach (g : graph) : name -> name -> Prop :=
| reach_refl : forall n, reach g n n
| reach_step : forall n m x, edge g n m -> reach g m x -> reach g n x.

(* a non-empty path *)
Definition reach_plus (g : graph) (n x : name) : Prop := exists m, edge g n m /\ reach g m x.

(* a cycle can be reached from [entry] *)
Definition cycle_reachable (g : graph) (entry : name) : Prop :=
  exists x, reach g entry x /\ reach_plus g x x.

(* every import made by a file reachable from [entry] names a file of the graph *)
Definition closed_from (g : graph) (entry : name) : Prop :=
  forall n m, reach g entry n -> edge g n m -> lookup m g <> None.

(* [chain] is a path of the graph that starts at file [n]: every link is the import written on
   line lk_num of lk_file (line 1 is the marker, import number i is on line i + 2) and leads to the
   file of the next link *)
Fixpoint is_chain (g : graph) (n : name) (chain : list link) : Prop :=
  match chain with
  | [] => True
  | l :: r =>
      lk_file l = n /\
      (exists imps, lookup n g = Some imps /\ (2 <= lk_num l)%Z /\
                    nth_error imps (Z.to_nat (lk_num l - 2)) = Some (lk_var l, lk_target l)) /\
      is_chain g (lk_target l) r
  end.

(* the DFS pre-order unfolding of an acyclic graph: a file's marker, then the unfolding of each of
   its imports -- a file reached along two paths is unfolded twice (nothing is cached); the
   subtree of a STARTENV import emits nothing *)
Fixpoint preorder (fuel : nat) (g : graph) (n : name) : list name :=
  n :: match fuel with
       | O => []
       | S f => match lookup n g with
                | None => []
                | Some imps => flat_map (fun e => match fst e with VEnv => [] | _ => preorder f g (snd e) end) imps
                end
       end.

(* the output lines of a completed traversal *)
Definition marker_out (cname : str) (out : list name) : list oline :=
  map (fun n => mkO (ByCommand cname) (marker_ln n)) out.

(* the commands of a file, as the tab parser returns them *)
Fixpoint edge_items (imps : imports) (k : Z) : list item :=
  match imps with
  | [] => []
  | (v, m) :: r => Ln (edge_ln v m) k :: edge_items r (k + 1)%Z
  end.
Definition node_items (n : name) (imps : imports) : list item := Ln (marker_ln n) 1%Z :: edge_items imps 2%Z.

(* ring graphs: file i imports file i+1, the last one imports the first *)
Fixpoint ring_from (first : name) (ns : list name) : graph :=
  match ns with
  | [] => []
  | [n] => [(n, [(VStart, first)])]
  | n :: ((m :: _) as r) => (n, [(VStart, m)]) :: ring_from first r
  end.
Definition ring (ns : list name) : graph := match ns with [] => [] | n :: _ => ring_from n ns end.
