(* CoreFunc -- the reference semantics of Spec/CoreLang.v EXTENDED WITH FUNCTIONS:
   FUNC name p1,...,pk + block, RUN name a1,...,an, RETURN.

   Like CoreLang.v this file does not mention the interpreter (Model/Interp.v): only strings,
   values, the expression evaluator [tokenize] (through CoreLang.eval) and the type [item] of
   parsed lines.  Proofs/CoreFuncRefine.v proves that the interpreter implements it.

   Three parts:   1. the abstract syntax          [fstmt]
                  2. how a program is written     [fitems_of]
                  3. what a program means         [exec_list]  (big-step, indexed by a DEPTH)

   The state of a running stack is (IF flag, variable store, FUNCTION TABLE).
   The points marked (!) are what the code does, confirmed by the refinement theorem; they are
   where the "obvious" semantics of functions and the code differ. *)
From Coq Require Import NArith ZArith List Bool.
From DS Require Import Base PyStr Values Expr TabParse CoreLang.
Import ListNotations.

(* ================================================================== 1. syntax *)
Inductive fstmt :=
| FEmit (name : str) (text : str)          (* NAME text                                                  *)
| FEmitEval (name : str) (e : str)         (* $NAME e                                                    *)
| FVar (x : str) (e : str)                 (* VAR x e                                                    *)
| FIf (arms : list (str * list fstmt)) (els : option (list fstmt))
| FRepeat (counter : option str) (count : str) (body : list fstmt)
| FWhile (counter : option str) (cond : str) (body : list fstmt)
| FBreakLoop
| FContinueLoop
| FFunc (name : str) (params : list str) (body : list fstmt)   (* FUNC name p1,...,pk   + block          *)
| FRun (name : str) (args : list str)      (* RUN name a1,...,an                                         *)
| FReturn.                                 (* RETURN                                                     *)

(* ================================================================== 2. concrete form *)
Definition kw_FUNC : str := [70;85;78;67]%N.
Definition kw_RUN : str := [82;85;78]%N.
Definition kw_RETURN : str := [82;69;84;85;82;78]%N.

(* "a1,a2,...,an" *)
Definition comma_list (l : list str) : str := join [comma_c] l.

(* "name" or "name a1,...,an" *)
Definition name_args (name : str) (l : list str) : str :=
  match l with [] => name | _ => name ++ sp :: comma_list l end.

Fixpoint fsize (s : fstmt) : Z :=
  match s with
  | FIf arms els =>
      (sum_sizes (fun cb : str * list fstmt => let (_, b) := cb in 1 + sum_sizes fsize b) arms
       + match els with Some b => 1 + sum_sizes fsize b | None => 0 end)%Z
  | FRepeat _ _ b => (1 + sum_sizes fsize b)%Z
  | FWhile _ _ b => (1 + sum_sizes fsize b)%Z
  | FFunc _ _ b => (1 + sum_sizes fsize b)%Z
  | _ => 1%Z
  end.

Definition farms_items_gen {A} (blk : Z -> list A -> list item) (szb : list A -> Z)
           (els : option (list A)) : bool -> Z -> list (str * list A) -> list item :=
  fix go first n arms :=
    match arms with
    | [] => match els with
            | Some b => [Ln kw_ELSE n; Blk (blk (n + 1)%Z b)]
            | None => []
            end
    | (c, b) :: r =>
        Ln ((if first then kw_IF else kw_ELIF) ++ sp :: c) n :: Blk (blk (n + 1)%Z b)
        :: go false (n + 1 + szb b)%Z r
    end.

Fixpoint fstmt_items (n : Z) (s : fstmt) : list item :=
  match s with
  | FEmit name text => [Ln (name ++ sp :: text) n]
  | FEmitEval name e => [Ln (dollar_c :: name ++ sp :: e) n]
  | FVar x e => [Ln (kw_VAR ++ sp :: x ++ sp :: e) n]
  | FIf arms els => farms_items_gen (seq_items fstmt_items fsize) (sum_sizes fsize) els true n arms
  | FRepeat c e b => [Ln (kw_REPEAT ++ sp :: loop_arg c e) n; Blk (seq_items fstmt_items fsize (n + 1)%Z b)]
  | FWhile c e b => [Ln (kw_WHILE ++ sp :: loop_arg c e) n; Blk (seq_items fstmt_items fsize (n + 1)%Z b)]
  | FBreakLoop => [Ln kw_BREAKLOOP n]
  | FContinueLoop => [Ln kw_CONTINUELOOP n]
  | FFunc name ps b => [Ln (kw_FUNC ++ sp :: name_args name ps) n; Blk (seq_items fstmt_items fsize (n + 1)%Z b)]
  | FRun name args => [Ln (kw_RUN ++ sp :: name_args name args) n]
  | FReturn => [Ln kw_RETURN n]
  end.

Definition fitems_from (n : Z) (p : list fstmt) : list item := seq_items fstmt_items fsize n p.
Definition fitems_of (p : list fstmt) : list item := fitems_from 1 p.

(* ================================================================== 3. meaning *)
(* the signal with which a statement (list) ends *)
Inductive fsig := Normal | Broke | Continued | Returned.

(* a function definition: parameter names and body; the table is an association list in
   definition order, no name twice *)
Definition fdef : Type := (list str * list fstmt)%type.
Definition ftable := list (str * fdef).

(* (re)definition: an existing name keeps its place, THE LATEST DEFINITION REPLACES THE EARLIER *)
Fixpoint set_fun (x : str) (d : fdef) (F : ftable) : ftable :=
  match F with
  | [] => [(x, d)]
  | (y, w) :: r => if str_eqb x y then (x, d) :: r else (y, w) :: set_fun x d r
  end.

Section Semantics.
Variable fo : FloatOps.
Notation value := (value fo).
Notation store := (store fo).
Variable sys : store.

(* (!) the text after the function name is ONE expression, evaluated in the CALLER (its store and
   its IF flag).  Top-level commas build a list value, whose elements are the arguments; a value
   that is not a list is one argument; so a single argument whose value is a list is SPREAD into
   several arguments. *)
Definition spread (v : value) : list value := match v with VList xs => xs | _ => [v] end.

Definition run_args (f : option bool) (vs : store) (args : list str) (vals : list value) : Prop :=
  match args with
  | [] => vals = []
  | _ => exists v, eval fo sys f vs (comma_list args) v /\ vals = spread v
  end.

(* positional binding: the pairs (parameter, value) are assigned in order on a copy of the
   caller's store; (!) a parameter named like a variable of the caller takes that variable's
   place in the copy *)
Definition bind_params (ps : list str) (vals : list value) (vs : store) : store :=
  overlay fo (combine ps vals) vs.

(* how a loop ends when its body ended with Broke / Returned *)
Definition loop_end (sg : fsig) : fsig := match sg with Returned => Returned | _ => Normal end.
Definition goes_on (sg : fsig) : Prop := sg = Normal \/ sg = Continued.
Definition stops (sg : fsig) : Prop := sg = Broke \/ sg = Returned.

(* exec d F f vs s  sg F' f' vs' out :  statement s, started with function table F, flag f and
   store vs, ends with signal sg, table F', flag f', store vs', having emitted the lines out, and
   needs at most d stacks above the current one (every block and EVERY CALL is one stack).

   A BLOCK (arm, iteration, function body) runs on COPIES of the store and of the function table,
   with no IF flag.  When it ends, the enclosing store becomes [copy_back outer inner] and the
   enclosing function table is UNCHANGED: (!) a definition made inside a block (or inside a
   function body) is invisible after the block.

   RUN name args (rule E_Run):
     - the arguments are evaluated in the caller, before anything else;
     - the name is looked up in the table AT CALL TIME (so a function may call itself, and sees
       redefinitions made after its own definition);
     - the number of values must be the number of parameters;
     - (!) DYNAMIC SCOPING: the body runs on the caller's store with the parameters assigned,
       [bind_params ps vals vs]: it sees every variable of the caller, and the table F of the caller;
     - when the body ends normally or with RETURN (signal Returned) the call ends Normal: RETURN
       ends only the innermost call; Broke / Continued have NO rule: they are errors;
     - the body's lines are the call's lines (they appear at the call site);
     - the caller's store becomes [copy_back vs vs1]: (!) assignments of the body to variables the
       caller already has PERSIST; variables created by the body, and parameters, disappear;
       (!) but a parameter named like a variable of the caller OVERWRITES that variable;
     - the IF flag of the caller is untouched.
   No derivation = error (unknown function, wrong arity, failing expression, escaping signal...). *)
Inductive exec : nat -> ftable -> option bool -> store -> fstmt ->
                 fsig -> ftable -> option bool -> store -> list str -> Prop :=
| E_Emit : forall d F f vs name text,
    exec d F f vs (FEmit name text) Normal F f vs [name ++ sp :: text]
| E_EmitEval : forall d F f vs name e v t,
    eval fo sys f vs e v -> py_str fo v = Some t ->
    exec d F f vs (FEmitEval name e) Normal F f vs [name ++ sp :: t]
| E_Var : forall d F f vs x e v,
    eval fo sys f vs e v ->
    exec d F f vs (FVar x e) Normal F f (set_var fo x v vs) []
| E_If : forall d F f vs arms els sg taken vs' out,
    exec_arms d F (match f with Some b => b | None => false end) vs arms els sg taken vs' out ->
    exec d F f vs (FIf arms els) sg F (Some taken) vs' out
| E_Repeat : forall d F f vs c e body sg vs' out,
    exec_repeat d F f c e body 0 vs sg vs' out ->
    exec d F f vs (FRepeat c e body) sg F f vs' out
| E_While : forall d F f vs c e body sg vs' out,
    exec_while d F c e body 0 vs sg vs' out ->
    exec d F f vs (FWhile c e body) sg F f vs' out
| E_Break : forall d F f vs, exec d F f vs FBreakLoop Broke F f vs []
| E_Continue : forall d F f vs, exec d F f vs FContinueLoop Continued F f vs []
| E_Return : forall d F f vs, exec d F f vs FReturn Returned F f vs []
| E_Func : forall d F f vs name ps body,
    exec d F f vs (FFunc name ps body) Normal (set_fun name (ps, body) F) f vs []
| E_Run : forall d F f vs name args vals ps body sg F1 f1 vs1 out,
    run_args f vs args vals ->
    lookup name F = Some (ps, body) ->
    length ps = length vals ->
    exec_list d F None (bind_params ps vals vs) body sg F1 f1 vs1 out ->
    sg = Normal \/ sg = Returned ->
    exec (S d) F f vs (FRun name args) Normal F f (copy_back fo vs vs1) out

(* a statement list stops at the first statement that does not end normally *)
with exec_list : nat -> ftable -> option bool -> store -> list fstmt ->
                 fsig -> ftable -> option bool -> store -> list str -> Prop :=
| L_Nil : forall d F f vs, exec_list d F f vs [] Normal F f vs []
| L_Cons : forall d F f vs s r F1 f1 vs1 o1 sg F2 f2 vs2 o2,
    exec d F f vs s Normal F1 f1 vs1 o1 -> exec_list d F1 f1 vs1 r sg F2 f2 vs2 o2 ->
    exec_list d F f vs (s :: r) sg F2 f2 vs2 (o1 ++ o2)
| L_Stop : forall d F f vs s r sg F1 f1 vs1 o1,
    exec d F f vs s sg F1 f1 vs1 o1 -> sg <> Normal ->
    exec_list d F f vs (s :: r) sg F1 f1 vs1 o1

(* the remaining arms of a chain (see CoreLang.exec_arms); the table does not change *)
with exec_arms : nat -> ftable -> bool -> store -> list (str * list fstmt) -> option (list fstmt) ->
                 fsig -> bool -> store -> list str -> Prop :=
| A_Take : forall d F b vs c body rest els v sg F1 f1 vs1 out,
    eval fo sys (Some b) vs c v -> truthy fo v = true ->
    exec_list d F None vs body sg F1 f1 vs1 out ->
    (sg = Normal -> Forall (fun cb => exists v', eval fo sys (Some true) (copy_back fo vs vs1) (fst cb) v') rest) ->
    exec_arms (S d) F b vs ((c, body) :: rest) els sg true (copy_back fo vs vs1) out
| A_Skip : forall d F b vs c body rest els v sg taken vs' out,
    eval fo sys (Some b) vs c v -> truthy fo v = false ->
    exec_arms d F false vs rest els sg taken vs' out ->
    exec_arms d F b vs ((c, body) :: rest) els sg taken vs' out
| A_Else : forall d F b vs body sg F1 f1 vs1 out,
    exec_list d F None vs body sg F1 f1 vs1 out ->
    exec_arms (S d) F b vs [] (Some body) sg true (copy_back fo vs vs1) out
| A_None : forall d F b vs,
    exec_arms d F b vs [] None Normal false vs []

(* REPEAT from iteration k on (see CoreLang.exec_repeat).  A body that ends with Returned ends the
   loop AND hands the signal on: the loop statement ends with Returned *)
with exec_repeat : nat -> ftable -> option bool -> option str -> str -> list fstmt -> Z -> store ->
                   fsig -> store -> list str -> Prop :=
| R_Done : forall d F f c e body k vs v n,
    eval fo sys f vs e v -> count_of fo v = Some n -> (0 <= n <= loop_max)%Z -> (n <= k)%Z ->
    exec_repeat d F f c e body k vs Normal vs []
| R_Iter : forall d F f c e body k vs v n sg F1 f1 vs1 o1 sg' vs' o2,
    eval fo sys f vs e v -> count_of fo v = Some n -> (0 <= n <= loop_max)%Z -> (k < n)%Z ->
    exec_list d F None (with_counter fo c k vs) body sg F1 f1 vs1 o1 -> goes_on sg ->
    exec_repeat (S d) F f c e body (k + 1) (copy_back fo vs vs1) sg' vs' o2 ->
    exec_repeat (S d) F f c e body k vs sg' vs' (o1 ++ o2)
| R_Stop : forall d F f c e body k vs v n sg F1 f1 vs1 o1,
    eval fo sys f vs e v -> count_of fo v = Some n -> (0 <= n <= loop_max)%Z -> (k < n)%Z ->
    exec_list d F None (with_counter fo c k vs) body sg F1 f1 vs1 o1 -> stops sg ->
    exec_repeat (S d) F f c e body k vs (loop_end sg) (copy_back fo vs vs1) o1

(* WHILE from iteration k on (see CoreLang.exec_while).  (!) even the final, false evaluation of
   the condition happens inside a block: it needs one stack *)
with exec_while : nat -> ftable -> option str -> str -> list fstmt -> Z -> store ->
                  fsig -> store -> list str -> Prop :=
| W_Done : forall d F c e body k vs v,
    (k <= loop_max)%Z ->
    eval fo sys None (with_counter fo c k vs) e v -> truthy fo v = false ->
    exec_while (S d) F c e body k vs Normal (copy_back fo vs (with_counter fo c k vs)) []
| W_Iter : forall d F c e body k vs v sg F1 f1 vs1 o1 sg' vs' o2,
    (k <= loop_max)%Z ->
    eval fo sys None (with_counter fo c k vs) e v -> truthy fo v = true ->
    exec_list d F None (with_counter fo c k vs) body sg F1 f1 vs1 o1 -> goes_on sg ->
    exec_while (S d) F c e body (k + 1) (copy_back fo vs vs1) sg' vs' o2 ->
    exec_while (S d) F c e body k vs sg' vs' (o1 ++ o2)
| W_Stop : forall d F c e body k vs v sg F1 f1 vs1 o1,
    (k <= loop_max)%Z ->
    eval fo sys None (with_counter fo c k vs) e v -> truthy fo v = true ->
    exec_list d F None (with_counter fo c k vs) body sg F1 f1 vs1 o1 -> stops sg ->
    exec_while (S d) F c e body k vs (loop_end sg) (copy_back fo vs vs1) o1.

Scheme exec_mind := Minimality for exec Sort Prop
  with exec_list_mind := Minimality for exec_list Sort Prop
  with exec_arms_mind := Minimality for exec_arms Sort Prop
  with exec_repeat_mind := Minimality for exec_repeat Sort Prop
  with exec_while_mind := Minimality for exec_while Sort Prop.
Combined Scheme exec_all_mind from exec_mind, exec_list_mind, exec_arms_mind, exec_repeat_mind, exec_while_mind.

End Semantics.

(* a whole program: no user variable, no flag, no function, $DEFAULT_DELAY = 0.
   fruns fo p d sg F' f' vs' out: the program ends with signal sg (Normal, or Returned: a RETURN
   at top level; Broke / Continued: a stray BREAKLOOP / CONTINUELOOP), defines the functions F',
   and needs at most d stacks above the main one *)
Definition fruns (fo : FloatOps) (p : list fstmt) (d : nat) (sg : fsig) (F' : ftable) (f' : option bool)
           (vs' : store fo) (out : list str) : Prop :=
  exec_list fo (initial_sys fo) d [] None [] p sg F' f' vs' out.
