(* CoreAllErase -- two notions on the unified reference semantics (Spec/CoreAll.v), used by C12e
   (START as paste) and C18e (print erasure).  No interpreter.

   1. [erase_prints p]: the statement list p without its PRINT / $PRINT statements, at every depth
      (arms, ELSE, loop bodies, function bodies).  A block body that consisted of prints only
      becomes EMPTY: such a program has a meaning in the reference semantics (an empty body does
      nothing) but cannot be written as text (CoreAllLines.uwf wants non-empty bodies); the
      predicate [erase_safe] singles out the programs where this does not happen.
   2. [shape e]: an event WITHOUT its location (line number, file, pile of stack frames).  Two runs
      that differ only by WHERE the statements stand (another file, other line numbers, another
      stack below) have the same shapes, in the same order. *)
From Coq Require Import NArith ZArith List Bool.
From DS Require Import Base PyStr TabParse CoreLang CoreFunc CoreText CoreAll.
Import ListNotations.

(* ================================================================== 1. erasing prints *)
(* [tr er s]: the statements that stand for s: s itself, with every nested body transformed;
   nothing if s is a print and er = true.  ([tr false] is the identity, see Proofs/CoreAllSim.v) *)
Fixpoint tr (er : bool) (s : ustmt) {struct s} : list ustmt :=
  match s with
  | UPrint _ => if er then [] else [s]
  | UPrintEval _ => if er then [] else [s]
  | UIf arms els =>
      [UIf (map (fun cb : str * list ustmt => let (c, b) := cb in (c, flat_map (tr er) b)) arms)
           (match els with Some b => Some (flat_map (tr er) b) | None => None end)]
  | URepeat c e b => [URepeat c e (flat_map (tr er) b)]
  | UWhile c e b => [UWhile c e (flat_map (tr er) b)]
  | UFunc name ps b => [UFunc name ps (flat_map (tr er) b)]
  | _ => [s]
  end.
Definition trl (er : bool) (p : list ustmt) : list ustmt := flat_map (tr er) p.
Definition tr_arms (er : bool) (arms : list (str * list ustmt)) : list (str * list ustmt) :=
  map (fun cb : str * list ustmt => let (c, b) := cb in (c, trl er b)) arms.
Definition tr_els (er : bool) (els : option (list ustmt)) : option (list ustmt) :=
  match els with Some b => Some (trl er b) | None => None end.

Definition erase_prints (p : list ustmt) : list ustmt := trl true p.
Definition erase_prog (prog : program) : program := map (fun ms : str * list ustmt => (fst ms, erase_prints (snd ms))) prog.

(* no body becomes empty *)
Fixpoint erase_safe (s : ustmt) : Prop :=
  match s with
  | UIf arms els =>
      each (fun cb : str * list ustmt => let (_, b) := cb in erase_prints b <> [] /\ each erase_safe b) arms /\
      match els with Some b => erase_prints b <> [] /\ each erase_safe b | None => True end
  | URepeat _ _ b => erase_prints b <> [] /\ each erase_safe b
  | UWhile _ _ b => erase_prints b <> [] /\ each erase_safe b
  | UFunc _ _ b => erase_prints b <> [] /\ each erase_safe b
  | _ => True
  end.
Definition erase_safe_list (p : list ustmt) : Prop := each erase_safe p.

(* ================================================================== 2. events without locations *)
Inductive sevent :=
| SPrint (text : str)              (* a print: its text *)
| SUnknown (text : str)            (* "may not exist": the text of the offending line *)
| SStray (by_break : bool).        (* "Program was exited using BREAK / CONTINUE" *)

Definition shape (e : event) : sevent :=
  match e with
  | EvPrint t _ _ => SPrint t
  | EvWarn (WUnknown _ _ t _) => SUnknown t
  | EvWarn (WStray b) => SStray b
  end.

Definition is_print (e : event) : bool := match e with EvPrint _ _ _ => true | EvWarn _ => false end.
(* the events minus the prints *)
Definition no_prints (ev : list event) : list event := filter (fun e => negb (is_print e)) ev.
Definition view (er : bool) (ev : list event) : list event := if er then no_prints ev else ev.

(* ev2 is ev1 (minus the prints if er) up to locations *)
Definition sim_ev (er : bool) (ev1 ev2 : list event) : Prop := map shape (view er ev1) = map shape ev2.
