(* C03: specification vocabulary for the indentation parser (Model/TabParse.v).
   Everything here is pinned by hand and is independent of the parser's code. *)
From Coq Require Import NArith ZArith List Bool.
From DS Require Import Base PyStr TabParse.
Import ListNotations.

(* ------------------------------------------------------------------ traversals of a block tree *)

(* all [Ln c n] leaves of a tree, in order (blocks are entered recursively) *)
Fixpoint item_lines (i : item) : list preline :=
  match i with
  | Ln c n => [(c, n)]
  | Blk l => flat_map item_lines l
  end.
Definition items_flat (t : list item) : list preline := flat_map item_lines t.

(* the line numbers of a tree, in order *)
Fixpoint item_numbers (i : item) : list Z :=
  match i with
  | Ln _ n => [n]
  | Blk l => flat_map item_numbers l
  end.
Definition numbers (t : list item) : list Z := flat_map item_numbers t.

(* ------------------------------------------------------------------ vocabulary about the input *)

Definition nonblank_line (l : preline) : bool := negb (is_blank (fst l)).

(* the numbers of the code (non-blank) lines of a text, in order *)
Definition code_numbers (text : list preline) : list Z := map snd (filter nonblank_line text).

(* no line contains a double quote (so no line can open or close a triple-quote region) *)
Definition no_quote (text : list preline) : bool :=
  forallb (fun l => negb (char_in 34%N (fst l))) text.

(* [c] is what remains of the line [(c0, n)] of [text] after deleting leading characters *)
Definition stripped_from (text : list preline) (c : str) (n : Z) : Prop :=
  exists p : str, In (p ++ c, n) text.

(* ------------------------------------------------------------------ T5: forests and rendering *)

Inductive node := Stmt (c : str) (kids : list node).
Definition forest := list node.

(* one statement per line; the children of a statement are written one indent unit deeper, so
   a statement at nesting level k is prefixed by k copies of [u] *)
Fixpoint render_node (u : str) (nd : node) : list str :=
  match nd with
  | Stmt c kids => c :: map (app u) (flat_map (render_node u) kids)
  end.
Definition render (u : str) (f : forest) : list str := flat_map (render_node u) f.

(* the same rendering written with an explicit prefix ([pre] = level copies of [u]) *)
Fixpoint render_node_at (u pre : str) (nd : node) : list str :=
  match nd with
  | Stmt c kids => (pre ++ c) :: flat_map (render_node_at u (pre ++ u)) kids
  end.
Definition render_at (u pre : str) (f : forest) : list str := flat_map (render_node_at u pre) f.

Fixpoint node_size (nd : node) : nat :=
  match nd with
  | Stmt _ kids => S (list_sum (map node_size kids))
  end.
Definition forest_size (f : forest) : nat := list_sum (map node_size f).

(* the tree the parser must produce when the first line of the forest has number [n]:
   line numbers are positions *)
Fixpoint expected_node (nd : node) (n : Z) {struct nd} : list item :=
  match nd with
  | Stmt c kids =>
      Ln c n ::
      match kids with
      | [] => []
      | _ => [Blk ((fix go (l : list node) (m : Z) {struct l} : list item :=
                      match l with
                      | [] => []
                      | k :: r => expected_node k m ++ go r (m + Z.of_nat (node_size k))%Z
                      end) kids (n + 1)%Z)]
      end
  end.
Fixpoint expected_forest (f : forest) (n : Z) : list item :=
  match f with
  | [] => []
  | k :: r => expected_node k n ++ expected_forest r (n + Z.of_nat (node_size k))%Z
  end.
Definition expected (f : forest) (n : Z) : list item * Z :=
  (expected_forest f n, (n + Z.of_nat (forest_size f))%Z).

(* statement text: starts with a non-whitespace character and does not open a quotation *)
Definition wf_content (c : str) : Prop :=
  match c with
  | [] => False
  | x :: _ => isspace_c x = false
  end /\ startswith triple_quote c = false.

Inductive wf_node : node -> Prop :=
| wf_stmt : forall c kids, wf_content c -> Forall wf_node kids -> wf_node (Stmt c kids).
Definition wf_forest (f : forest) : Prop := Forall wf_node f.

(* indent unit: non-empty, whitespace only, begins with a space or a tab *)
Definition wf_unit (u : str) : Prop :=
  match u with
  | [] => False
  | x :: _ => x = sp \/ x = tb
  end /\ forallb isspace_c u = true.
