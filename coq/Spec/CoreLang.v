(* CoreLang -- a READABLE REFERENCE SEMANTICS for the core of DucklingScript: output lines,
   variables, IF / ELIF / ELSE, REPEAT, WHILE, BREAKLOOP, CONTINUELOOP.

   This file does not mention the interpreter (Model/Interp.v).  It uses only strings (PyStr),
   values (Values), the expression evaluator [tokenize] (Expr: the expression language has its
   own specification, Spec/ExprLang.v) and the type [item] of parsed lines (TabParse).
   Proofs/CoreRefine.v proves that the interpreter implements it.

   Three parts:   1. the abstract syntax          [stmt]
                  2. how a program is written     [items_of]   (lines and indented blocks)
                  3. what a program means         [exec_list]  (big-step relation)

   The meaning is the textbook one EXCEPT for the points marked (!), which are what the code does
   and which the refinement theorem confirms. *)
From Coq Require Import NArith ZArith List Bool.
From DS Require Import Base PyStr Values Expr TabParse.
Import ListNotations.

(* ================================================================== 1. syntax *)
Inductive stmt :=
| SEmit (name : str) (text : str)          (* NAME text          one output line "NAME text"            *)
| SEmitEval (name : str) (e : str)         (* $NAME e            one output line "NAME <value of e>"    *)
| SVar (x : str) (e : str)                 (* VAR x e                                                   *)
| SIf (arms : list (str * list stmt)) (els : option (list stmt))
                                           (* IF c1 / ELIF c2 / ... / [ELSE], each with its block       *)
| SRepeat (counter : option str) (count : str) (body : list stmt)     (* REPEAT [i,]count   + block      *)
| SWhile (counter : option str) (cond : str) (body : list stmt)       (* WHILE [i,]cond     + block      *)
| SBreakLoop                               (* BREAKLOOP                                                 *)
| SContinueLoop.                           (* CONTINUELOOP                                              *)

(* ================================================================== 2. concrete form *)
Definition sp : N := 32.       (* ' ' *)
Definition dollar_c : N := 36. (* '$' *)
Definition comma_c : N := 44.  (* ',' *)
Definition kw_VAR : str := [86;65;82]%N.
Definition kw_IF : str := [73;70]%N.
Definition kw_ELIF : str := [69;76;73;70]%N.
Definition kw_ELSE : str := [69;76;83;69]%N.
Definition kw_REPEAT : str := [82;69;80;69;65;84]%N.
Definition kw_WHILE : str := [87;72;73;76;69]%N.
Definition kw_BREAKLOOP : str := [66;82;69;65;75;76;79;79;80]%N.
Definition kw_CONTINUELOOP : str := [67;79;78;84;73;78;85;69;76;79;79;80]%N.

(* "[i,]e" *)
Definition loop_arg (counter : option str) (e : str) : str :=
  match counter with Some x => x ++ comma_c :: e | None => e end.

(* lines are numbered consecutively from n, a block's lines following its header *)
Definition sum_sizes {A} (sz : A -> Z) : list A -> Z :=
  fix go l := match l with [] => 0%Z | a :: r => (sz a + go r)%Z end.

Definition seq_items {A} (f : Z -> A -> list item) (sz : A -> Z) : Z -> list A -> list item :=
  fix go n l := match l with [] => [] | a :: r => f n a ++ go (n + sz a)%Z r end.

Fixpoint size (s : stmt) : Z :=
  match s with
  | SIf arms els =>
      (sum_sizes (fun cb : str * list stmt => let (_, b) := cb in 1 + sum_sizes size b) arms
       + match els with Some b => 1 + sum_sizes size b | None => 0 end)%Z
  | SRepeat _ _ b => (1 + sum_sizes size b)%Z
  | SWhile _ _ b => (1 + sum_sizes size b)%Z
  | _ => 1%Z
  end.

(* the arms of a chain: the first is written IF, the others ELIF, then the optional ELSE *)
Definition arms_items_gen (blk : Z -> list stmt -> list item) (szb : list stmt -> Z)
           (els : option (list stmt)) : bool -> Z -> list (str * list stmt) -> list item :=
  fix go first n arms :=
    match arms with
    | [] => match els with
            | Some b => [Ln kw_ELSE n; Blk (blk (n + 1)%Z b)]
            | None => []
            end
    | (c, b) :: r =>
        Ln ((if first then kw_IF else kw_ELIF) ++ sp :: c) n :: Blk (blk (n + 1)%Z b)
        :: go false (n + 1 + szb b)%Z r
    end.

Fixpoint stmt_items (n : Z) (s : stmt) : list item :=
  match s with
  | SEmit name text => [Ln (name ++ sp :: text) n]
  | SEmitEval name e => [Ln (dollar_c :: name ++ sp :: e) n]
  | SVar x e => [Ln (kw_VAR ++ sp :: x ++ sp :: e) n]
  | SIf arms els => arms_items_gen (seq_items stmt_items size) (sum_sizes size) els true n arms
  | SRepeat c e b => [Ln (kw_REPEAT ++ sp :: loop_arg c e) n; Blk (seq_items stmt_items size (n + 1)%Z b)]
  | SWhile c e b => [Ln (kw_WHILE ++ sp :: loop_arg c e) n; Blk (seq_items stmt_items size (n + 1)%Z b)]
  | SBreakLoop => [Ln kw_BREAKLOOP n]
  | SContinueLoop => [Ln kw_CONTINUELOOP n]
  end.

Definition items_from (n : Z) (p : list stmt) : list item := seq_items stmt_items size n p.
Definition items_of (p : list stmt) : list item := items_from 1 p.

(* depth of block nesting: how many stacks above the current one the program needs *)
Definition max_over {A} (f : A -> nat) : list A -> nat :=
  fix go l := match l with [] => O | a :: r => Nat.max (f a) (go r) end.

Fixpoint nesting (s : stmt) : nat :=
  match s with
  | SIf arms els =>
      Nat.max (max_over (fun cb : str * list stmt => let (_, b) := cb in S (max_over nesting b)) arms)
              (match els with Some b => S (max_over nesting b) | None => O end)
  | SRepeat _ _ b => S (max_over nesting b)
  | SWhile _ _ b => S (max_over nesting b)
  | _ => O
  end.
Definition nesting_list (p : list stmt) : nat := max_over nesting p.

(* ================================================================== 3. meaning *)
Section Semantics.
Variable fo : FloatOps.
Notation value := (value fo).

(* a variable store: an association list in creation order, no name twice *)
Definition store := list (str * value).

(* assignment: an existing name keeps its place *)
Fixpoint set_var (x : str) (v : value) (l : store) : store :=
  match l with
  | [] => [(x, v)]
  | (y, w) :: r => if str_eqb x y then (x, v) :: r else (y, w) :: set_var x v r
  end.

(* leaving a block: the outer variables, each with the value it has in the block's store;
   what the block created is gone *)
Definition copy_back (outer inner : store) : store :=
  flat_map (fun yw => match lookup (fst yw) inner with Some v => [(fst yw, v)] | None => [] end) outer.

Definition overlay (top bottom : store) : store :=
  fold_left (fun d yw => set_var (fst yw) (snd yw) d) top bottom.

(* the system variables ($DEFAULT_DELAY): nothing in the fragment changes them *)
Variable sys : store.

(* (!) the IF flag.  Every stack (the program, and each running block) remembers whether the last
   IF chain executed at ITS level took an arm: None before the first IF, then Some b.  The flag
   is the temporary variable $IF_SUCCESS and EXPRESSIONS CAN READ IT. *)
Definition flag_name : str := [36;73;70;95;83;85;67;67;69;83;83]%N.      (* "$IF_SUCCESS" *)
Definition flag_var (f : option bool) : store :=
  match f with Some b => [(flag_name, VBool b)] | None => [] end.

(* what an expression sees: system variables, the flag, the user variables (later wins) *)
Definition visible (f : option bool) (vs : store) : store :=
  overlay vs (overlay (flag_var f) (overlay sys [])).

Definition eval (f : option bool) (vs : store) (e : str) (v : value) : Prop :=
  tokenize fo (visible f vs) e = Ok v.

Inductive sig := Normal | Broke | Continued.

(* the loop counter is an ordinary variable of the iteration's block *)
Definition with_counter (counter : option str) (k : Z) (vs : store) : store :=
  match counter with Some x => set_var x (VInt k) vs | None => vs end.

(* the value of a REPEAT count *)
Definition count_of (v : value) : option Z :=
  match v with
  | VInt z => Some z
  | VBool b => Some (if b then 1 else 0)%Z
  | VFlt x => if f_is_integer fo x then Some (f_to_Z fo x) else None
  | _ => None
  end.

Definition loop_max : Z := 20000.

(* A BLOCK (the body of an arm or of one loop iteration) runs as [exec_list None inner body]:
   on a copy [inner] of the enclosing store (plus the counter), with no IF flag.  When it ends
   with store vs1 the enclosing store [outer] becomes [copy_back outer vs1]: assignments to outer
   variables survive, variables created in the block disappear; (!) a counter named like an outer
   variable overwrites that variable.

   exec f vs s  sg f' vs' out :  statement s, started with flag f and store vs, ends with signal
   sg, flag f', store vs', having emitted the lines out.  No derivation = error (an expression
   fails, a count is out of range, a loop exceeds its bound). *)
Inductive exec : option bool -> store -> stmt -> sig -> option bool -> store -> list str -> Prop :=
| E_Emit : forall f vs name text,
    exec f vs (SEmit name text) Normal f vs [name ++ sp :: text]
| E_EmitEval : forall f vs name e v t,
    eval f vs e v -> py_str fo v = Some t ->
    exec f vs (SEmitEval name e) Normal f vs [name ++ sp :: t]
| E_Var : forall f vs x e v,
    eval f vs e v ->
    exec f vs (SVar x e) Normal f (set_var x v vs) []
| E_If : forall f vs arms els sg taken vs' out,
    (* (!) the IF condition sees the flag left by the PREVIOUS chain (false if there was none) *)
    exec_arms (match f with Some b => b | None => false end) vs arms els sg taken vs' out ->
    exec f vs (SIf arms els) sg (Some taken) vs' out
| E_Repeat : forall f vs c e body vs' out,
    exec_repeat f c e body 0 vs vs' out ->
    exec f vs (SRepeat c e body) Normal f vs' out
| E_While : forall f vs c e body vs' out,
    exec_while c e body 0 vs vs' out ->
    exec f vs (SWhile c e body) Normal f vs' out
| E_Break : forall f vs, exec f vs SBreakLoop Broke f vs []
| E_Continue : forall f vs, exec f vs SContinueLoop Continued f vs []

(* a statement list stops at the first statement that does not end normally *)
with exec_list : option bool -> store -> list stmt -> sig -> option bool -> store -> list str -> Prop :=
| L_Nil : forall f vs, exec_list f vs [] Normal f vs []
| L_Cons : forall f vs s r f1 vs1 o1 sg f2 vs2 o2,
    exec f vs s Normal f1 vs1 o1 -> exec_list f1 vs1 r sg f2 vs2 o2 ->
    exec_list f vs (s :: r) sg f2 vs2 (o1 ++ o2)
| L_Stop : forall f vs s r sg f1 vs1 o1,
    exec f vs s sg f1 vs1 o1 -> sg <> Normal ->
    exec_list f vs (s :: r) sg f1 vs1 o1

(* exec_arms b vs arms els sg taken vs' out: the remaining arms of a chain; b is the value of the
   flag while the next condition is evaluated; taken = some arm (or the ELSE) ran *)
with exec_arms : bool -> store -> list (str * list stmt) -> option (list stmt) ->
                 sig -> bool -> store -> list str -> Prop :=
| A_Take : forall b vs c body rest els v sg f1 vs1 out,
    eval (Some b) vs c v -> truthy fo v = true ->
    exec_list None vs body sg f1 vs1 out ->
    (* (!) the conditions of the later ELIFs are still evaluated (flag true, store after the body)
       and must evaluate; their values are ignored *)
    (sg = Normal -> Forall (fun cb => exists v', eval (Some true) (copy_back vs vs1) (fst cb) v') rest) ->
    exec_arms b vs ((c, body) :: rest) els sg true (copy_back vs vs1) out
| A_Skip : forall b vs c body rest els v sg taken vs' out,
    eval (Some b) vs c v -> truthy fo v = false ->
    exec_arms false vs rest els sg taken vs' out ->
    exec_arms b vs ((c, body) :: rest) els sg taken vs' out
| A_Else : forall b vs body sg f1 vs1 out,
    exec_list None vs body sg f1 vs1 out ->
    exec_arms b vs [] (Some body) sg true (copy_back vs vs1) out
| A_None : forall b vs,
    exec_arms b vs [] None Normal false vs []

(* exec_repeat f c e body k vs vs' out: the loop from iteration k on.
   (!) the count expression is evaluated again before EVERY iteration (and once more at the
   end), in the enclosing store as the iterations left it; it must be in 0 .. 20000 each time *)
with exec_repeat : option bool -> option str -> str -> list stmt -> Z -> store -> store -> list str -> Prop :=
| R_Done : forall f c e body k vs v n,
    eval f vs e v -> count_of v = Some n -> (0 <= n <= loop_max)%Z -> (n <= k)%Z ->
    exec_repeat f c e body k vs vs []
| R_Iter : forall f c e body k vs v n sg f1 vs1 o1 vs' o2,
    eval f vs e v -> count_of v = Some n -> (0 <= n <= loop_max)%Z -> (k < n)%Z ->
    exec_list None (with_counter c k vs) body sg f1 vs1 o1 -> sg <> Broke ->
    exec_repeat f c e body (k + 1) (copy_back vs vs1) vs' o2 ->
    exec_repeat f c e body k vs vs' (o1 ++ o2)
| R_Break : forall f c e body k vs v n f1 vs1 o1,
    eval f vs e v -> count_of v = Some n -> (0 <= n <= loop_max)%Z -> (k < n)%Z ->
    exec_list None (with_counter c k vs) body Broke f1 vs1 o1 ->
    exec_repeat f c e body k vs (copy_back vs vs1) o1

(* exec_while c e body k vs vs' out: the loop from iteration k on.
   (!) the condition is evaluated INSIDE the iteration's block: it sees the counter and no IF
   flag.  At most 20001 evaluations of the condition (k = 0 .. 20000). *)
with exec_while : option str -> str -> list stmt -> Z -> store -> store -> list str -> Prop :=
| W_Done : forall c e body k vs v,
    (k <= loop_max)%Z ->
    eval None (with_counter c k vs) e v -> truthy fo v = false ->
    exec_while c e body k vs (copy_back vs (with_counter c k vs)) []
| W_Iter : forall c e body k vs v sg f1 vs1 o1 vs' o2,
    (k <= loop_max)%Z ->
    eval None (with_counter c k vs) e v -> truthy fo v = true ->
    exec_list None (with_counter c k vs) body sg f1 vs1 o1 -> sg <> Broke ->
    exec_while c e body (k + 1) (copy_back vs vs1) vs' o2 ->
    exec_while c e body k vs vs' (o1 ++ o2)
| W_Break : forall c e body k vs v f1 vs1 o1,
    (k <= loop_max)%Z ->
    eval None (with_counter c k vs) e v -> truthy fo v = true ->
    exec_list None (with_counter c k vs) body Broke f1 vs1 o1 ->
    exec_while c e body k vs (copy_back vs vs1) o1.

Scheme exec_mind := Minimality for exec Sort Prop
  with exec_list_mind := Minimality for exec_list Sort Prop
  with exec_arms_mind := Minimality for exec_arms Sort Prop
  with exec_repeat_mind := Minimality for exec_repeat Sort Prop
  with exec_while_mind := Minimality for exec_while Sort Prop.
Combined Scheme exec_all_mind from exec_mind, exec_list_mind, exec_arms_mind, exec_repeat_mind, exec_while_mind.

End Semantics.

(* a whole program: starts with no user variable, no flag, and $DEFAULT_DELAY = 0 *)
Definition default_delay_name : str := [36;68;69;70;65;85;76;84;95;68;69;76;65;89]%N.   (* "$DEFAULT_DELAY" *)
Definition initial_sys (fo : FloatOps) : store fo := [(default_delay_name, VInt 0)].

Definition runs (fo : FloatOps) (p : list stmt) (sg : sig) (f' : option bool) (vs' : store fo) (out : list str) : Prop :=
  exec_list fo (initial_sys fo) None [] p sg f' vs' out.
