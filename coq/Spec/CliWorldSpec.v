(* C19 / C15 over whole CLI histories: the vocabulary used by Properties/C19b.v and C15c.v.
   Everything here is a plain definition over Model/CliWorld.v; nothing is proved in this file. *)
From Coq Require Import NArith ZArith List Bool.
From DS Require Import Base PyStr Values TabParse Interp Options Constants Cli CliWorld.
Import ListNotations.

(* ------------------------------------------------------------------ what a config file MEANS *)
(* the options a (possibly absent) project config.yaml denotes *)
Definition meaning_cfg (c : option yaml_opts) : option options := option_map options_of_yaml c.

(* the options the global ~/.duckling/config.yaml denotes: an absent file means the defaults *)
Definition global_meaning (g : option yaml_opts) : options :=
  match g with Some y => options_of_yaml y | None => default_options end.

(* a config file that spells every key (what yaml.dump(asdict(options)) writes) *)
Definition full_yaml (y : yaml_opts) : Prop := exists o, y = yaml_of_options o.

(* every config file present in the world is full, and the global one is present *)
Definition configs_full (w : cworld) : Prop :=
  (exists o, w_global w = Some (yaml_of_options o)) /\
  (forall d y, w_cfg w d = Some y -> full_yaml y).

(* ------------------------------------------------------------------ the options a compile runs with *)
(* --stack-limit / --comments replace two fields of the global options *)
Definition flag_options (g : options) (limit : option Z) (comments : option bool) : options :=
  mkOptions (dflt limit (stack_limit g)) (dflt comments (include_comments g))
            (flipper_commands g) (supress_command_not_exist g) (use_project_config g).

(* what `compile FILE ... [--stack-limit] [--comments]` hands to the compiler in world [w] *)
Definition effective_options (w : cworld) (file : path) (limit : option Z) (comments : option bool) : options :=
  calculate_options (flag_options (global_meaning (w_global w)) limit comments) (w_cfg w (parent file)).

(* the world after the config files were loaded and written back (before any text file is written):
   the global config in full, and FILE's project config in full when it was used *)
Definition normalised (w : cworld) (file : path) (limit : option Z) (comments : option bool) : cworld :=
  let g := global_meaning (w_global w) in
  mkCW (w_files w)
       (match rewritten_config (flag_options g limit comments) (w_cfg w (parent file)) with
        | Some p => set_cfg (w_cfg w) (parent file) (yaml_of_options p)
        | None => w_cfg w
        end)
       (Some (yaml_of_options g))
       (w_dirs w).

(* the world after the global config was loaded and written back, and nothing else happened *)
Definition only_global (w : cworld) : cworld := fst (load_global w).

(* the content of the output file after a successful compilation *)
Definition joined_output {fo} (c : compiled fo) : str := join [10%N] (map o_text (out fo c)).

(* ------------------------------------------------------------------ paths an operation may write *)
(* `new NAME DIR` works in DIR / normalised-name  ([child]: DIR / "" is DIR itself) *)
Definition new_project_dir (dir : path) (name : str) : path := child dir (normalise_name name).
Definition new_main_file (dir : path) (name : str) : path := new_project_dir dir name ++ [main_name].

Definition op_touches (op : cli_op) : list path :=
  match op with
  | OpCompile _ output _ _ => [output]
  | OpNew dir name => [new_main_file dir name]
  end.

Definition touched_paths (ops : list cli_op) : list path := flat_map op_touches ops.

(* the directories `new` operations of a history may create *)
Definition op_new_dirs (op : cli_op) : list path :=
  match op with
  | OpCompile _ _ _ _ => []
  | OpNew dir name => [new_project_dir dir name]
  end.

Definition new_dirs (ops : list cli_op) : list path := flat_map op_new_dirs ops.

(* ------------------------------------------------------------------ reports *)
Definition is_success (r : cli_report) : bool := match r with RSuccess _ => true | _ => false end.

(* the reports after which no text file has changed *)
Definition is_failure (r : cli_report) : bool :=
  match r with RError _ _ | RMissingFile | RRaised | RNewRefused => true | _ => false end.

(* ------------------------------------------------------------------ well-formed worlds *)
(* a config.yaml lives in a directory: the directory of every project config exists
   (needed: `new` only looks at the directory, not at a config file inside a missing directory) *)
Definition configs_in_existing_dirs (w : cworld) : Prop :=
  forall d y, w_cfg w d = Some y -> dir_exists w d = true.

(* ------------------------------------------------------------------ `compile`, said directly *)
(* what `compile FILE OUTPUT [--stack-limit] [--comments]` does to world [w], in terms of
   [effective_options] and [normalised] (Proofs/CliWorldProofs.v: cli_step_compile proves that this
   IS cli_step on an OpCompile) *)
Definition compile_outcome (fo : FloatOps) (w : cworld) (file output : path)
           (limit : option Z) (comments : option bool) : cworld * cli_report :=
  let w2 := normalised w file limit comments in
  match w_files w file with
  | None => (only_global w, RMissingFile)
  | Some text =>
      match compile_text fo (effective_options w file limit comments) (w_files w) (Some file) text with
      | (_, IOk c) =>
          (mkCW (write (w_files w) output (joined_output c)) (w_cfg w2) (w_global w2) (w_dirs w),
           RSuccess (length (warnings fo c)))
      | (gl, IErr e t) => (w2, RError e (err_prints gl t))
      | (_, ICrash _) => (w2, RRaised)
      | (_, IUnmod) => (w2, RRaised)
      end
  end.

(* ------------------------------------------------------------------ `new`, said directly *)
Definition new_accepts (w : cworld) (dir : path) (name : str) : bool :=
  isascii_s name && forallb valid_project_char (normalise_name name)
  && negb (dir_exists w (new_project_dir dir name)).

(* the world after `new NAME DIR` created the project *)
Definition new_world (w : cworld) (dir : path) (name : str) : cworld :=
  mkCW (write (w_files w) (new_main_file dir name) hello_world)
       (set_cfg (w_cfg w) (new_project_dir dir name) (yaml_of_options default_options))
       (Some (yaml_of_options (global_meaning (w_global w))))
       (new_project_dir dir name :: w_dirs w).

Definition new_outcome (w : cworld) (dir : path) (name : str) : cworld * cli_report :=
  if new_accepts w dir name then (new_world w dir name, RNewCreated)
  else (only_global w, if isascii_s name then RNewRefused else RRaised).

(* ------------------------------------------------------------------ worlds that mean the same *)
(* same text files, same directories, and config files that DENOTE the same options (they may be
   spelled differently: partial vs. full, absent vs. default global file) *)
Definition same_meaning (a b : cworld) : Prop :=
  w_files a = w_files b /\
  (forall d, meaning_cfg (w_cfg a d) = meaning_cfg (w_cfg b d)) /\
  global_meaning (w_global a) = global_meaning (w_global b) /\
  (forall d, existsb (path_eqb d) (w_dirs a) = existsb (path_eqb d) (w_dirs b)).
