(* C06 / C07, "any depth": SIGNAL PATHS.

   [raises d cx s cmds sg segs s'] : executing the block [cmds] as a stack with context [cx] from
   state [s], the children of the stack being run by the depth-indexed interpreter ([child_of d],
   i.e. the stack itself is what [run d] runs), reaches a BREAKLOOP / CONTINUELOOP / RETURN line
   and therefore ends with signal [sg]; [segs] are the outputs of the segments that ran before the
   control line, OUTERMOST FIRST, and [s'] is the state the stack is left in.

   The only hypotheses of the rules are
     - the segments [pre] before the IF chain / loop line / control line run successfully and end
       with SNormal ([runs]),
     - the truth of the IF conditions (exactly the hypotheses of ChainProofs.chain_first_true),
     - for the loop rules (RETURN only): the count / condition evaluates and the earlier iterations
       ran to their end (SNormal or SContinue),
     - the stack limit is not reached where a child stack is pushed ([stack_full cx = false]:
       otherwise the line fails with StackOverflowError instead).
   Nothing is assumed about the commands AFTER the control point: they are never executed.

   Because the loop rules conclude SReturn only, a path for SBreak / SContinue can only go through
   taken IF arms: it is an [if_nest] (below), whose nesting depth m is explicit. *)
From Coq Require Import NArith ZArith List Bool Lia.
From DS Require Import Base PyStr Values Expr TabParse Tables Constants Interp.
From DS Require Import ScopeProofs LimitProofs ChainProofs LoopUnroll LoopBlock UnknownWarn RunProofs FuncProofs.
Import ListNotations.

Arguments IOk {A}. Arguments IErr {A}. Arguments ICrash {A}. Arguments IUnmod {A}.
Arguments s_g {fo}. Arguments s_env {fo}. Arguments s_line2 {fo}. Arguments mkSt {fo}.

(* ------------------------------------------------------------------ control words *)
Definition s_BREAKLOOP : str := [66;82;69;65;75;76;79;79;80]%N.
Definition s_BREAK_LOOP : str := [66;82;69;65;75;95;76;79;79;80]%N.
Definition s_CONTINUELOOP : str := [67;79;78;84;73;78;85;69;76;79;79;80]%N.
Definition s_CONTINUE_LOOP : str := [67;79;78;84;73;78;85;69;95;76;79;79;80]%N.
Definition s_CONTINUE : str := [67;79;78;84;73;78;85;69]%N.

Definition ctl_names (sg : signal) : list str :=
  match sg with
  | SNormal => []
  | SBreak => [s_BREAKLOOP; s_BREAK_LOOP]
  | SContinue => [s_CONTINUELOOP; s_CONTINUE_LOOP; s_CONTINUE]
  | SReturn => [s_RETURN; s_RET]
  end.

(* the first word of the line is one of the aliases, in any casing (and is not $-prefixed) *)
Definition ctl_word (sg : signal) (cmd : str) : Prop :=
  In (upper cmd) (ctl_names sg) /\ starts_dollar cmd = false.

Section Path.
Variable fo : FloatOps.
Notation st := (st fo).
Notation env := (env fo).

(* ------------------------------------------------------------------ entering and leaving a child stack *)
(* the child stack pushed by the line [cur] of stack [cx] in state [s] *)
Definition child_ctx (cx : ctx) (cur : preline) (s : st) (file : option path) : ctx :=
  mkCtx (c_opts cx) (c_fs cx) (here cx cur (s_line2 s)) file.
(* the copied-in environment, before the setup (counter / parameters) *)
Definition entry_env (s : st) : env := append_env fo (empty_env fo) (s_env s).
(* the state in which the child stack starts, [cenv1] being the environment after the setup *)
Definition enter (s : st) (cenv1 : env) : st := mkSt (s_g s) cenv1 None.
(* the parent's state after the child stack ended in [sB]: copy-back *)
Definition leave (s sB : st) : st := mkSt (s_g sB) (update_from_env fo (s_env s) (s_env sB)) (s_line2 s).

(* what bind_counter does when the counter name is acceptable *)
Definition counter_env (var_name : option str) (count : Z) (ce : env) : env :=
  match var_name with
  | None => ce
  | Some v => mkEnv fo (e_sys fo ce) (upd v (VInt count) (e_user fo ce)) (e_temp fo ce) (e_funcs fo ce)
  end.

(* the segment [pre] runs successfully to its end, emitting [o1] *)
Definition runs (d : nat) (cx : ctx) (s : st) (pre : list item) (o1 : list oline) (s1 : st) : Prop :=
  exec_cmds fo (child_of fo d) cx pre [] s = (s1, IOk (mkCret o1 SNormal)).

(* the state in which the body of the taken arm starts: line_2 cleared, $IF_SUCCESS true *)
Definition arm_state (s1 : st) : st := with_flag fo true (clear_line2 fo s1).

(* ------------------------------------------------------------------ signal paths *)
Inductive raises : nat -> ctx -> st -> list item -> signal -> list (list oline) -> st -> Prop :=
(* (1) the control line itself, after a segment that ran normally; [post] is never executed
       ([block_after post = None]: what follows is not an indented block of the control line) *)
| R_ctl : forall d cx s pre c cmd n post sg o1 s1,
    runs d cx s pre o1 s1 ->
    split_ws1 c = [cmd] -> ctl_word sg cmd -> block_after post = None ->
    raises d cx s (pre ++ Ln c n :: post) sg [o1] (mkSt (s_g s1) (s_env s1) (Some (c, n)))
(* (2) an IF / ELIF / ELSE chain whose first true arm has a body that raises sg *)
| R_if : forall d cx s pre arms earlier a later post sg o1 s1 segs sB,
    runs (S d) cx s pre o1 s1 ->
    chain_ok arms -> arms = earlier ++ a :: later ->
    all_false fo (clear_line2 fo s1) earlier ->
    evals fo (cond_state fo (clear_line2 fo s1) earlier) a true ->
    stack_full cx = false ->
    raises d (child_ctx cx (a_line a, a_num a) (arm_state s1) (c_file cx))
             (enter (arm_state s1) (entry_env (arm_state s1))) (a_body a) sg segs sB ->
    raises (S d) cx s (pre ++ chain_items arms ++ post) sg (o1 :: segs) (leave (arm_state s1) sB)
(* (3) RETURN only: a REPEAT whose iteration j reaches RETURN; iterations 0..j-1 ran to their end *)
| R_repeat : forall d cx s pre a n body post o1 s1 var_name count_expr (m j : nat)
                    (sts : nat -> st) (crs : nat -> cret) segs sB,
    runs (S d) cx s pre o1 s1 ->
    is_blank a = false -> body <> [] ->
    split_loop_arg (strip a) = (var_name, count_expr) -> counter_ok var_name ->
    sts 0%nat = clear_line2 fo s1 ->
    (forall k, (k <= j)%nat ->
       tokenize_count fo cx (s_REPEAT ++ 32%N :: a, n) count_expr (sts k) = (sts k, IOk (Z.of_nat m))) ->
    (j < m)%nat ->
    (forall k, (k < j)%nat ->
       run_child fo (run fo d) cx (s_REPEAT ++ 32%N :: a, n) body (c_file cx) false
         (bind_counter fo var_name (Z.of_nat k)) (sts k) = (sts (S k), IOk (crs k))) ->
    (forall k, (k < j)%nat -> cr_sig (crs k) = SNormal \/ cr_sig (crs k) = SContinue) ->
    stack_full cx = false ->
    raises d (child_ctx cx (s_REPEAT ++ 32%N :: a, n) (sts j) (c_file cx))
             (enter (sts j) (counter_env var_name (Z.of_nat j) (entry_env (sts j)))) body SReturn segs sB ->
    raises (S d) cx s (pre ++ Ln (s_REPEAT ++ 32%N :: a) n :: Blk body :: post) SReturn
           (o1 :: outputs crs j :: segs) (leave (sts j) sB)
(* (3') ... and a WHILE: the condition of iteration j is true in the iteration's own environment *)
| R_while : forall d cx s pre a n body post o1 s1 var_name cond (j : nat)
                   (sts : nat -> st) (crs : nat -> cret) cenv1 v segs sB,
    runs (S d) cx s pre o1 s1 ->
    is_blank a = false -> body <> [] ->
    split_loop_arg (strip a) = (var_name, cond) ->
    sts 0%nat = clear_line2 fo s1 ->
    (Z.of_nat j <= 20000)%Z ->
    (forall k, (k < j)%nat ->
       run_child_with fo (run fo d) cx (s_WHILE ++ 32%N :: a, n) body (c_file cx) false
         (bind_counter fo var_name (Z.of_nat k)) (while_pre fo cond) (sts k) = (sts (S k), IOk (Some (crs k)))) ->
    (forall k, (k < j)%nat -> cr_sig (crs k) = SNormal \/ cr_sig (crs k) = SContinue) ->
    stack_full cx = false ->
    bind_counter fo var_name (Z.of_nat j) (entry_env (sts j)) = Ok cenv1 ->
    tokenize fo (all_vars fo cenv1) cond = Ok v -> truthy fo v = true ->
    raises d (child_ctx cx (s_WHILE ++ 32%N :: a, n) (sts j) (c_file cx))
             (enter (sts j) cenv1) body SReturn segs sB ->
    raises (S d) cx s (pre ++ Ln (s_WHILE ++ 32%N :: a) n :: Blk body :: post) SReturn
           (o1 :: outputs crs j :: segs) (leave (sts j) sB).

(* ------------------------------------------------------------------ IF nests of explicit depth
   body = pre_0 ++ IF c_0 / (pre_1 ++ IF c_1 / ( ... pre_m ++ CTL)): the control line is reached
   through m taken IF arms; [segs] = [out pre_0; ...; out pre_m] *)
Inductive if_nest : nat -> nat -> ctx -> st -> list item -> signal -> list (list oline) -> st -> Prop :=
| N_ctl : forall d cx s pre c cmd n post sg o1 s1,
    runs d cx s pre o1 s1 ->
    split_ws1 c = [cmd] -> ctl_word sg cmd -> block_after post = None ->
    if_nest 0 d cx s (pre ++ Ln c n :: post) sg [o1] (mkSt (s_g s1) (s_env s1) (Some (c, n)))
| N_if : forall m d cx s pre arms earlier a later post sg o1 s1 segs sB,
    runs (S d) cx s pre o1 s1 ->
    chain_ok arms -> arms = earlier ++ a :: later ->
    all_false fo (clear_line2 fo s1) earlier ->
    evals fo (cond_state fo (clear_line2 fo s1) earlier) a true ->
    stack_full cx = false ->
    if_nest m d (child_ctx cx (a_line a, a_num a) (arm_state s1) (c_file cx))
            (enter (arm_state s1) (entry_env (arm_state s1))) (a_body a) sg segs sB ->
    if_nest (S m) (S d) cx s (pre ++ chain_items arms ++ post) sg (o1 :: segs) (leave (arm_state s1) sB).

End Path.
