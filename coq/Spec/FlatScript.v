(* C01 (whole script): the language of valid flat Rubber Ducky 1.0 / Flipper BadUSB lines, pinned by
   hand, with the spelling of a line (any casing of the command word, any blanks) and its canonical
   compiled output.  Nothing here mentions the generated tables (Generated/Tables.v): command words
   come from Spec/LineGrammar.v / Spec/DuckyGrammar.v, which write them out as text. *)
From Coq Require Import String Ascii NArith ZArith List Bool.
From DS Require Import Base PyStr TabParse Interp DuckyGrammar LineGrammar Spelling.
Import ListNotations.

(* ------------------------------------------------------------------ command words *)
Definition w_String : list str := Eval vm_compute in map lit ["STRING"; "STRINGLN"]%string.
Definition w_Rem : str := Eval vm_compute in lit "REM".
(* Flipper: the text commands that take a free argument *)
Definition w_FlipText : list str := Eval vm_compute in map lit ["ALTSTRING"; "ALTCODE"]%string.

(* the keys that take no argument (MENU, the arrows, the extended keys) and ENTER *)
Definition key_words : list str := w_Menu ++ w_ArrowKeys ++ w_Extended ++ w_Enter.

(* ------------------------------------------------------------------ valid lines *)
Inductive vline :=
| VKey (k : str)                              (* a key alone on its line *)
| VString (w text : str)                      (* STRING / STRINGLN text *)
| VRem (text : str)                           (* REM text   (text may be empty: a bare REM) *)
| VMod (c : spec_cmd) (w a : str)             (* modifier / ALTCHAR with its argument *)
| VModBare (c : spec_cmd) (w : str)           (* modifier alone *)
| VFlipText (w text : str)                    (* ALTSTRING / ALTCODE text *)
| VDelay (c : spec_cmd) (w digits : str).     (* DELAY / DEFAULT_DELAY digits *)

(* the validating classes whose argument is text *)
Definition str_class (c : spec_cmd) : bool :=
  match c with
  | SAlt | SCtrl | SShift | SGui | SSysrq | SFlipMod | SAltChar => true
  | _ => false
  end.

(* the classes that exist only with flipper_commands *)
Definition flip_class (c : spec_cmd) : bool :=
  match c with SSysrq | SFlipMod | SAltChar => true | _ => false end.

Definition delay_class (c : spec_cmd) : bool :=
  match c with SDelay | SDefaultDelay => true | _ => false end.

Definition first_nonblank (s : str) : Prop :=
  match s with [] => False | c :: _ => isspace_c c = false end.

Definition vline_ok (l : vline) : Prop :=
  match l with
  | VKey k => In k key_words
  | VString w text => In w w_String /\ first_nonblank text
  | VRem text => text = strip text
  | VMod c w a => str_class c = true /\ In w (cmd_words c) /\ legal_arg c (AStr a) = true /\ a = strip a
  | VModBare c w => bare_ok c = true /\ In w (cmd_words c)
  | VFlipText w text => In w w_FlipText /\ text = strip text /\ text <> []
  | VDelay c w ds => delay_class c = true /\ In w (cmd_words c) /\ is_digits ds = true
  end.

Definition needs_flipper (l : vline) : bool :=
  match l with
  | VMod c _ _ | VModBare c _ => flip_class c
  | VFlipText _ _ => true
  | _ => false
  end.

Definition is_default_delay (l : vline) : bool :=
  match l with VDelay SDefaultDelay _ _ => true | _ => false end.

(* ------------------------------------------------------------------ canonical output *)
(* what the formatter of the class does to a legal argument: ALT upper-cases the listed key names
   (written in any casing); every other class leaves the argument alone *)
Definition fmt_image (c : spec_cmd) (a : str) : str :=
  match c with
  | SAlt => if key_name alt_keys a then upper a else a
  | _ => a
  end.

Definition spc : str := [32%N].

Definition canon (comments : bool) (l : vline) : list str :=
  match l with
  | VKey k => [k]
  | VString w text => [w ++ spc ++ text]
  | VRem text => if comments then [match text with [] => w_Rem | _ => w_Rem ++ spc ++ text end] else []
  | VMod c w a => [w ++ spc ++ fmt_image c a]
  | VModBare c w => [w]
  | VFlipText w text => [w ++ spc ++ text]
  | VDelay c w ds => [w ++ spc ++ Z_to_str (Z.of_N (dec_value ds 0))]
  end.

(* ------------------------------------------------------------------ spelling *)
Definition word_of (l : vline) : str :=
  match l with
  | VKey k => k
  | VString w _ => w
  | VRem _ => w_Rem
  | VMod _ w _ => w
  | VModBare _ w => w
  | VFlipText w _ => w
  | VDelay _ w _ => w
  end.

(* the argument as written in the source *)
Definition arg_of (l : vline) : option str :=
  match l with
  | VKey _ => None
  | VString _ text => Some text
  | VRem [] => None
  | VRem text => Some text
  | VMod _ _ a => Some a
  | VModBare _ _ => None
  | VFlipText _ text => Some text
  | VDelay _ _ ds => Some ds
  end.

(* STRING / STRINGLN: the text runs to the end of the line *)
Definition to_eol (l : vline) : bool := match l with VString _ _ => true | _ => false end.

Record spelling := mkSp {
  sp_cmd : str;      (* the command word as typed *)
  sp_ws : str;       (* the blanks between the word and the argument *)
  sp_trail : str     (* blanks at the end of the line *)
}.

Definition spell_line (s : spelling) (l : vline) : str :=
  sp_cmd s ++
  match arg_of l with
  | None => sp_trail s
  | Some a => sp_ws s ++ a ++ (if to_eol l then [] else sp_trail s)
  end.

(* the command word in ANY casing (that it contains no blank follows: Proofs/FlatStrings.v, upper_nows) *)
Definition spelling_ok (s : spelling) (l : vline) : Prop :=
  upper (sp_cmd s) = word_of l /\
  sp_ws s <> [] /\ forallb isspace_c (sp_ws s) = true /\
  forallb isspace_c (sp_trail s) = true.

(* a flat script: spelled valid lines, numbered consecutively *)
Definition script := list (spelling * vline).

Fixpoint flat_items (n : Z) (sc : script) : list item :=
  match sc with
  | [] => []
  | (s, l) :: r => Ln (spell_line s l) n :: flat_items (n + 1)%Z r
  end.

Definition script_ok (sc : script) : Prop :=
  Forall (fun p => vline_ok (snd p) /\ spelling_ok (fst p) (snd p)) sc.

Definition lines_of (sc : script) : list vline := map snd sc.

(* the whole canonical output *)
Definition canon_script (comments : bool) (ls : list vline) : list str :=
  concat (map (canon comments) ls).

(* the value DEFAULT_DELAY leaves in $DEFAULT_DELAY: that of the last such line, if any *)
Fixpoint last_default_delay (ls : list vline) (acc : option Z) : option Z :=
  match ls with
  | [] => acc
  | VDelay SDefaultDelay _ ds :: r => last_default_delay r (Some (Z.of_N (dec_value ds 0)))
  | _ :: r => last_default_delay r acc
  end.
