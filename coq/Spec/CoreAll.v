(* CoreAll -- the UNIFIED REFERENCE SEMANTICS of DucklingScript: the language of Spec/CoreFunc.v
   (output lines, variables, IF chains, loops, functions) EXTENDED WITH
       PRINT t / $PRINT e        (prints: shown to the user, never part of the output)
       REM t                     (comments: in the output iff the option include_comments)
       WORD args                 (an unknown first word: passes through, one warning)
       START / STARTCODE / STARTENV name      (multi-file imports)

   Like CoreLang.v and CoreFunc.v this file does not mention the interpreter (Model/Interp.v):
   only strings, values, the expression evaluator [tokenize] (through CoreLang.eval) and the type
   [item] of parsed lines.  Proofs/CoreAllRefine.v proves that the interpreter implements it.

   Four parts:   1. the abstract syntax                  [ustmt], programs = files of statements
                 2. how a program is written             [uitems_of]
                 3. what is observed                     output lines, EVENTS (prints and warnings)
                 4. what a program means                 [exec_list]  (big-step, indexed by a DEPTH)

   The points marked (!) are what the code does, confirmed by the refinement theorem. *)
From Coq Require Import NArith ZArith List Bool.
From DS Require Import Base PyStr Values Expr TabParse CoreLang CoreFunc.
Import ListNotations.

(* ================================================================== 1. syntax *)
Inductive kind := KStart | KCode | KEnv.       (* START | STARTCODE | STARTENV *)

Inductive ustmt :=
| UEmit (name : str) (text : str)          (* NAME text                                                  *)
| UEmitEval (name : str) (e : str)         (* $NAME e                                                    *)
| UVar (x : str) (e : str)                 (* VAR x e                                                    *)
| UIf (arms : list (str * list ustmt)) (els : option (list ustmt))
| URepeat (counter : option str) (count : str) (body : list ustmt)
| UWhile (counter : option str) (cond : str) (body : list ustmt)
| UBreakLoop
| UContinueLoop
| UFunc (name : str) (params : list str) (body : list ustmt)
| URun (name : str) (args : list str)
| UReturn
| UPrint (text : str)                      (* PRINT text                                                 *)
| UPrintEval (e : str)                     (* $PRINT e                                                   *)
| URem (text : str)                        (* REM text                                                   *)
| UUnknown (word : str) (args : str)       (* word args         where word is no command of the language *)
| UStart (k : kind) (name : str).          (* START name        name: a file of the same folder          *)

(* a program: its files (name -> statements), in an association list; one of them is the entry *)
Definition program := list (str * list ustmt).

(* ================================================================== 2. concrete form *)
Definition kw_PRINT : str := [80;82;73;78;84]%N.
Definition kw_REM : str := [82;69;77]%N.
Definition kw_START : str := [83;84;65;82;84]%N.
Definition kw_STARTCODE : str := [83;84;65;82;84;67;79;68;69]%N.
Definition kw_STARTENV : str := [83;84;65;82;84;69;78;86]%N.

Definition kind_word (k : kind) : str :=
  match k with KStart => kw_START | KCode => kw_STARTCODE | KEnv => kw_STARTENV end.

Fixpoint usize (s : ustmt) : Z :=
  match s with
  | UIf arms els =>
      (sum_sizes (fun cb : str * list ustmt => let (_, b) := cb in 1 + sum_sizes usize b) arms
       + match els with Some b => 1 + sum_sizes usize b | None => 0 end)%Z
  | URepeat _ _ b => (1 + sum_sizes usize b)%Z
  | UWhile _ _ b => (1 + sum_sizes usize b)%Z
  | UFunc _ _ b => (1 + sum_sizes usize b)%Z
  | _ => 1%Z
  end.

(* the head lines of the statements (a block's lines follow its head, one level deeper) *)
Definition if_head (first : bool) (c : str) : str := (if first then kw_IF else kw_ELIF) ++ sp :: c.
Definition repeat_head (c : option str) (e : str) : str := kw_REPEAT ++ sp :: loop_arg c e.
Definition while_head (c : option str) (e : str) : str := kw_WHILE ++ sp :: loop_arg c e.
Definition func_head (name : str) (ps : list str) : str := kw_FUNC ++ sp :: name_args name ps.
Definition run_head (name : str) (args : list str) : str := kw_RUN ++ sp :: name_args name args.
Definition print_head (text : str) : str := kw_PRINT ++ sp :: text.
Definition print_eval_head (e : str) : str := dollar_c :: kw_PRINT ++ sp :: e.
Definition rem_head (text : str) : str := kw_REM ++ sp :: text.
Definition unknown_head (w args : str) : str := w ++ sp :: args.
Definition start_head (k : kind) (name : str) : str := kind_word k ++ sp :: name.

Fixpoint ustmt_items (n : Z) (s : ustmt) : list item :=
  match s with
  | UEmit name text => [Ln (name ++ sp :: text) n]
  | UEmitEval name e => [Ln (dollar_c :: name ++ sp :: e) n]
  | UVar x e => [Ln (kw_VAR ++ sp :: x ++ sp :: e) n]
  | UIf arms els => farms_items_gen (seq_items ustmt_items usize) (sum_sizes usize) els true n arms
  | URepeat c e b => [Ln (repeat_head c e) n; Blk (seq_items ustmt_items usize (n + 1)%Z b)]
  | UWhile c e b => [Ln (while_head c e) n; Blk (seq_items ustmt_items usize (n + 1)%Z b)]
  | UBreakLoop => [Ln kw_BREAKLOOP n]
  | UContinueLoop => [Ln kw_CONTINUELOOP n]
  | UFunc name ps b => [Ln (func_head name ps) n; Blk (seq_items ustmt_items usize (n + 1)%Z b)]
  | URun name args => [Ln (run_head name args) n]
  | UReturn => [Ln kw_RETURN n]
  | UPrint text => [Ln (print_head text) n]
  | UPrintEval e => [Ln (print_eval_head e) n]
  | URem text => [Ln (rem_head text) n]
  | UUnknown w args => [Ln (unknown_head w args) n]
  | UStart k name => [Ln (start_head k name) n]
  end.

Definition uitems_from (n : Z) (p : list ustmt) : list item := seq_items ustmt_items usize n p.
Definition uitems_of (p : list ustmt) : list item := uitems_from 1 p.

(* ================================================================== 3. what is observed *)
(* an output line: a line of code, or a comment (a REM line kept by include_comments) *)
Inductive uline := LCode (t : str) | LRem (t : str).
Definition line_text (l : uline) : str := match l with LCode t => t | LRem t => t end.
Definition is_code (l : uline) : bool := match l with LCode _ => true | LRem _ => false end.

(* THE STACK.  Every running block, call and imported file is one stack frame: the file in which
   the command stands, the text and number of its line, and whether the frame was made by a
   command with an inline argument (RUN, START*: true) or by a block header (false).
   The pile of frames serves three purposes: it LOCATES warnings, it is what makes two warnings
   "the same", and its files are the files "being compiled" of the circularity rule. *)
Record sframe := mkSF { sf_file : str; sf_text : str; sf_num : Z; sf_inline : bool }.

Inductive uwarning :=
| WUnknown (pile : list sframe) (file : str) (text : str) (line : Z)
     (* "The command on line <line> may not exist", raised by the line [text] of [file] while
        the stacks [pile] were running *)
| WStray (by_break : bool).
     (* "Program was exited using BREAK instead of using RETURN" (true) / "... using CONTINUE ..." (false) *)

Inductive event :=
| EvPrint (text : str) (line : Z) (file : str)     (* PRINT: the text, the line of the PRINT, its file *)
| EvWarn (w : uwarning).

(* the prints of a run, in execution order *)
Definition prints_of (ev : list event) : list (str * Z * str) :=
  flat_map (fun e => match e with EvPrint t n f => [(t, n, f)] | EvWarn _ => [] end) ev.

(* (!) WARNINGS ARE DE-DUPLICATED: a warning equal to one raised earlier (same text AND same
   location: for an unknown command the same line reached through the same pile of stacks) is
   dropped.  So an unknown command inside a loop body warns once; inside a function called from
   two different lines it warns twice. *)
Definition sframe_eqb (a b : sframe) : bool :=
  str_eqb (sf_file a) (sf_file b) && str_eqb (sf_text a) (sf_text b) && Z.eqb (sf_num a) (sf_num b)
  && Bool.eqb (sf_inline a) (sf_inline b).
Fixpoint pile_eqb (a b : list sframe) : bool :=
  match a, b with
  | [], [] => true
  | x :: a', y :: b' => sframe_eqb x y && pile_eqb a' b'
  | _, _ => false
  end.
Definition uwarning_eqb (a b : uwarning) : bool :=
  match a, b with
  | WUnknown p f t n, WUnknown p' f' t' n' => pile_eqb p p' && str_eqb f f' && str_eqb t t' && Z.eqb n n'
  | WStray x, WStray y => Bool.eqb x y
  | _, _ => false
  end.
Definition add_uwarning (w : uwarning) (ws : list uwarning) : list uwarning :=
  if existsb (uwarning_eqb w) ws then ws else ws ++ [w].
(* the warnings of a run, in the order in which each was first raised *)
Definition warnings_of (ev : list event) : list uwarning :=
  fold_left (fun ws e => match e with EvWarn w => add_uwarning w ws | EvPrint _ _ _ => ws end) ev [].

(* a list of statements that ends with a stray BREAKLOOP / CONTINUELOOP (a file, or the program) *)
Definition stray (sg : fsig) : list event :=
  match sg with
  | Broke => [EvWarn (WStray true)]
  | Continued => [EvWarn (WStray false)]
  | _ => []
  end.

(* ================================================================== 4. meaning *)
(* a function definition: parameters, body, and WHERE it was defined: the body runs "in" that
   file (prints carry it, imports are resolved from it) with the line numbers it has there *)
Record udef := mkDef { d_params : list str; d_body : list ustmt; d_file : str; d_line : Z }.
Definition utable := list (str * udef).

Fixpoint set_def (x : str) (d : udef) (F : utable) : utable :=
  match F with
  | [] => [(x, d)]
  | (y, w) :: r => if str_eqb x y then (x, d) :: r else (y, w) :: set_def x d r
  end.
(* every definition of [top], in order, (re)defined in [bottom] *)
Definition overlay_defs (top bottom : utable) : utable :=
  fold_left (fun F yw => set_def (fst yw) (snd yw) F) top bottom.

Section Semantics.
Variable fo : FloatOps.
Notation value := (value fo).
Notation store := (store fo).
Variable sys : store.
Variable prog : program.
Variable inc : bool.     (* the option include_comments *)
Variable sup : bool.     (* the option supress_command_not_exist *)

(* the files with a running stack *)
Definition live_files (pile : list sframe) (cf : str) : list str := cf :: map sf_file pile.

(* exec d pile cf n F f vs s   sg F' f' vs' out ev :
   statement s stands on line n of file cf; the stacks below the current one are [pile]; it starts
   with function table F, flag f, store vs; it ends with signal sg, table F', flag f', store vs',
   having emitted the lines out and raised the events ev (in this order); it needs at most d
   stacks above the current one (every block, EVERY CALL and EVERY IMPORT is one stack).
   No derivation = error.

   The rules of Spec/CoreFunc.v are unchanged except that blocks and calls push a frame.
   RUN (E_Run): the body runs in the DEFINING file [d_file] at the line numbers of the definition.

   PRINT (E_Print, E_PrintEval): no output, no change of state, one event.
   REM (E_Rem): one output line iff include_comments; nothing else in either case.
   An unknown word (E_Unknown): (!) the line passes through with the word in UPPER CASE; one
     warning event unless supress_command_not_exist.
   START / STARTENV / STARTCODE name (E_Start):
     - the file must exist and must not be one of the files with a running stack (the current
       file, the files of the blocks/calls/imports below): (!) this includes the file of a
       function that is being called, so a function defined in lib and called from main cannot
       import main;  a file imported earlier and finished may be imported again (diamonds, repeats);
     - its statements run from line 1 as ONE NEW STACK, on copies of the importer's store and
       function table, with NO IF flag; the importer's flag is untouched;
     - whatever signal ends the file, the import ends Normal: (!) RETURN ends only the file,
       a stray BREAKLOOP / CONTINUELOOP ends the file and raises the warning [stray];
     - START and STARTENV: the importer's store becomes [overlay vs1 vs]: EVERY variable of the
       file's final store is assigned in the importer (existing ones are UPDATED in place, new ones
       appended in the file's order); the same for the function table [overlay_defs F1 F];
     - STARTCODE: like a block: [copy_back vs vs1] (assignments to existing variables persist,
       new variables are dropped) and the function table is unchanged;
     - START and STARTCODE splice the file's output lines in place; STARTENV drops them;
     - (!) the events (prints, warnings) of the file are kept by all three. *)
Inductive exec : nat -> list sframe -> str -> Z -> utable -> option bool -> store -> ustmt ->
                 fsig -> utable -> option bool -> store -> list uline -> list event -> Prop :=
| E_Emit : forall d pile cf n F f vs name text,
    exec d pile cf n F f vs (UEmit name text) Normal F f vs [LCode (name ++ sp :: text)] []
| E_EmitEval : forall d pile cf n F f vs name e v t,
    eval fo sys f vs e v -> py_str fo v = Some t ->
    exec d pile cf n F f vs (UEmitEval name e) Normal F f vs [LCode (name ++ sp :: t)] []
| E_Var : forall d pile cf n F f vs x e v,
    eval fo sys f vs e v ->
    exec d pile cf n F f vs (UVar x e) Normal F f (set_var fo x v vs) [] []
| E_If : forall d pile cf n F f vs arms els sg taken vs' out ev,
    exec_arms d pile cf true n F (match f with Some b => b | None => false end) vs arms els sg taken vs' out ev ->
    exec d pile cf n F f vs (UIf arms els) sg F (Some taken) vs' out ev
| E_Repeat : forall d pile cf n F f vs c e body sg vs' out ev,
    exec_repeat d pile cf n F f c e body 0 vs sg vs' out ev ->
    exec d pile cf n F f vs (URepeat c e body) sg F f vs' out ev
| E_While : forall d pile cf n F f vs c e body sg vs' out ev,
    exec_while d pile cf n F c e body 0 vs sg vs' out ev ->
    exec d pile cf n F f vs (UWhile c e body) sg F f vs' out ev
| E_Break : forall d pile cf n F f vs, exec d pile cf n F f vs UBreakLoop Broke F f vs [] []
| E_Continue : forall d pile cf n F f vs, exec d pile cf n F f vs UContinueLoop Continued F f vs [] []
| E_Return : forall d pile cf n F f vs, exec d pile cf n F f vs UReturn Returned F f vs [] []
| E_Func : forall d pile cf n F f vs name ps body,
    exec d pile cf n F f vs (UFunc name ps body) Normal (set_def name (mkDef ps body cf n) F) f vs [] []
| E_Run : forall d pile cf n F f vs name args vals df sg F1 f1 vs1 out ev,
    run_args fo sys f vs args vals ->
    lookup name F = Some df ->
    length (d_params df) = length vals ->
    exec_list d (pile ++ [mkSF cf (run_head name args) n true]) (d_file df) (d_line df + 1) F None
              (bind_params fo (d_params df) vals vs) (d_body df) sg F1 f1 vs1 out ev ->
    sg = Normal \/ sg = Returned ->
    exec (S d) pile cf n F f vs (URun name args) Normal F f (copy_back fo vs vs1) out ev
| E_Print : forall d pile cf n F f vs text,
    exec d pile cf n F f vs (UPrint text) Normal F f vs [] [EvPrint text n cf]
| E_PrintEval : forall d pile cf n F f vs e v t,
    eval fo sys f vs e v -> py_str fo v = Some t ->
    exec d pile cf n F f vs (UPrintEval e) Normal F f vs [] [EvPrint t n cf]
| E_Rem : forall d pile cf n F f vs text,
    exec d pile cf n F f vs (URem text) Normal F f vs (if inc then [LRem (rem_head text)] else []) []
| E_Unknown : forall d pile cf n F f vs w args,
    exec d pile cf n F f vs (UUnknown w args) Normal F f vs [LCode (upper w ++ sp :: args)]
         (if sup then [] else [EvWarn (WUnknown pile cf (unknown_head w args) n)])
| E_Start : forall d pile cf n F f vs k name stmts sg F1 f1 vs1 out ev,
    lookup name prog = Some stmts ->
    ~ In name (live_files pile cf) ->
    exec_list d (pile ++ [mkSF cf (start_head k name) n true]) name 1 F None vs stmts sg F1 f1 vs1 out ev ->
    exec (S d) pile cf n F f vs (UStart k name) Normal
         (match k with KCode => F | _ => overlay_defs F1 F end) f
         (match k with KCode => copy_back fo vs vs1 | _ => overlay fo vs1 vs end)
         (match k with KEnv => [] | _ => out end)
         (ev ++ stray sg)

(* a statement list stops at the first statement that does not end normally; the statements
   stand on consecutive lines *)
with exec_list : nat -> list sframe -> str -> Z -> utable -> option bool -> store -> list ustmt ->
                 fsig -> utable -> option bool -> store -> list uline -> list event -> Prop :=
| L_Nil : forall d pile cf n F f vs, exec_list d pile cf n F f vs [] Normal F f vs [] []
| L_Cons : forall d pile cf n F f vs s r F1 f1 vs1 o1 e1 sg F2 f2 vs2 o2 e2,
    exec d pile cf n F f vs s Normal F1 f1 vs1 o1 e1 ->
    exec_list d pile cf (n + usize s) F1 f1 vs1 r sg F2 f2 vs2 o2 e2 ->
    exec_list d pile cf n F f vs (s :: r) sg F2 f2 vs2 (o1 ++ o2) (e1 ++ e2)
| L_Stop : forall d pile cf n F f vs s r sg F1 f1 vs1 o1 e1,
    exec d pile cf n F f vs s sg F1 f1 vs1 o1 e1 -> sg <> Normal ->
    exec_list d pile cf n F f vs (s :: r) sg F1 f1 vs1 o1 e1

(* the remaining arms of a chain; [first]: the next arm is written IF (else ELIF); n: its line *)
with exec_arms : nat -> list sframe -> str -> bool -> Z -> utable -> bool -> store ->
                 list (str * list ustmt) -> option (list ustmt) ->
                 fsig -> bool -> store -> list uline -> list event -> Prop :=
| A_Take : forall d pile cf first n F b vs c body rest els v sg F1 f1 vs1 out ev,
    eval fo sys (Some b) vs c v -> truthy fo v = true ->
    exec_list d (pile ++ [mkSF cf (if_head first c) n false]) cf (n + 1) F None vs body sg F1 f1 vs1 out ev ->
    (sg = Normal -> Forall (fun cb => exists v', eval fo sys (Some true) (copy_back fo vs vs1) (fst cb) v') rest) ->
    exec_arms (S d) pile cf first n F b vs ((c, body) :: rest) els sg true (copy_back fo vs vs1) out ev
| A_Skip : forall d pile cf first n F b vs c body rest els v sg taken vs' out ev,
    eval fo sys (Some b) vs c v -> truthy fo v = false ->
    exec_arms d pile cf false (n + 1 + sum_sizes usize body) F false vs rest els sg taken vs' out ev ->
    exec_arms d pile cf first n F b vs ((c, body) :: rest) els sg taken vs' out ev
| A_Else : forall d pile cf first n F b vs body sg F1 f1 vs1 out ev,
    exec_list d (pile ++ [mkSF cf kw_ELSE n false]) cf (n + 1) F None vs body sg F1 f1 vs1 out ev ->
    exec_arms (S d) pile cf first n F b vs [] (Some body) sg true (copy_back fo vs vs1) out ev
| A_None : forall d pile cf first n F b vs,
    exec_arms d pile cf first n F b vs [] None Normal false vs [] []

with exec_repeat : nat -> list sframe -> str -> Z -> utable -> option bool -> option str -> str ->
                   list ustmt -> Z -> store -> fsig -> store -> list uline -> list event -> Prop :=
| R_Done : forall d pile cf n F f c e body k vs v m,
    eval fo sys f vs e v -> count_of fo v = Some m -> (0 <= m <= loop_max)%Z -> (m <= k)%Z ->
    exec_repeat d pile cf n F f c e body k vs Normal vs [] []
| R_Iter : forall d pile cf n F f c e body k vs v m sg F1 f1 vs1 o1 e1 sg' vs' o2 e2,
    eval fo sys f vs e v -> count_of fo v = Some m -> (0 <= m <= loop_max)%Z -> (k < m)%Z ->
    exec_list d (pile ++ [mkSF cf (repeat_head c e) n false]) cf (n + 1) F None (with_counter fo c k vs) body
              sg F1 f1 vs1 o1 e1 ->
    goes_on sg ->
    exec_repeat (S d) pile cf n F f c e body (k + 1) (copy_back fo vs vs1) sg' vs' o2 e2 ->
    exec_repeat (S d) pile cf n F f c e body k vs sg' vs' (o1 ++ o2) (e1 ++ e2)
| R_Stop : forall d pile cf n F f c e body k vs v m sg F1 f1 vs1 o1 e1,
    eval fo sys f vs e v -> count_of fo v = Some m -> (0 <= m <= loop_max)%Z -> (k < m)%Z ->
    exec_list d (pile ++ [mkSF cf (repeat_head c e) n false]) cf (n + 1) F None (with_counter fo c k vs) body
              sg F1 f1 vs1 o1 e1 ->
    stops sg ->
    exec_repeat (S d) pile cf n F f c e body k vs (loop_end sg) (copy_back fo vs vs1) o1 e1

with exec_while : nat -> list sframe -> str -> Z -> utable -> option str -> str ->
                  list ustmt -> Z -> store -> fsig -> store -> list uline -> list event -> Prop :=
| W_Done : forall d pile cf n F c e body k vs v,
    (k <= loop_max)%Z ->
    eval fo sys None (with_counter fo c k vs) e v -> truthy fo v = false ->
    exec_while (S d) pile cf n F c e body k vs Normal (copy_back fo vs (with_counter fo c k vs)) [] []
| W_Iter : forall d pile cf n F c e body k vs v sg F1 f1 vs1 o1 e1 sg' vs' o2 e2,
    (k <= loop_max)%Z ->
    eval fo sys None (with_counter fo c k vs) e v -> truthy fo v = true ->
    exec_list d (pile ++ [mkSF cf (while_head c e) n false]) cf (n + 1) F None (with_counter fo c k vs) body
              sg F1 f1 vs1 o1 e1 ->
    goes_on sg ->
    exec_while (S d) pile cf n F c e body (k + 1) (copy_back fo vs vs1) sg' vs' o2 e2 ->
    exec_while (S d) pile cf n F c e body k vs sg' vs' (o1 ++ o2) (e1 ++ e2)
| W_Stop : forall d pile cf n F c e body k vs v sg F1 f1 vs1 o1 e1,
    (k <= loop_max)%Z ->
    eval fo sys None (with_counter fo c k vs) e v -> truthy fo v = true ->
    exec_list d (pile ++ [mkSF cf (while_head c e) n false]) cf (n + 1) F None (with_counter fo c k vs) body
              sg F1 f1 vs1 o1 e1 ->
    stops sg ->
    exec_while (S d) pile cf n F c e body k vs (loop_end sg) (copy_back fo vs vs1) o1 e1.

Scheme exec_mind := Minimality for exec Sort Prop
  with exec_list_mind := Minimality for exec_list Sort Prop
  with exec_arms_mind := Minimality for exec_arms Sort Prop
  with exec_repeat_mind := Minimality for exec_repeat Sort Prop
  with exec_while_mind := Minimality for exec_while Sort Prop.
Combined Scheme exec_all_mind from exec_mind, exec_list_mind, exec_arms_mind, exec_repeat_mind, exec_while_mind.

End Semantics.

(* ================================================================== whole programs *)
(* uruns fo prog inc sup entry d  sg F' f' vs' out ev: compiling the file [entry] of [prog] under
   the two options ends with signal sg (Normal; Returned: a RETURN at top level; Broke / Continued:
   a stray BREAKLOOP / CONTINUELOOP, which also raises the [stray] warning), needs at most d
   stacks above the main one, leaves the functions F', the flag f', the variables vs', and yields
   the output lines out and the events ev. *)
Definition uruns (fo : FloatOps) (prog : program) (inc sup : bool) (entry : str) (d : nat)
           (sg : fsig) (F' : utable) (f' : option bool) (vs' : store fo) (out : list uline) (ev : list event) : Prop :=
  exists stmts ev0, lookup entry prog = Some stmts /\
    exec_list fo (initial_sys fo) prog inc sup d [] entry 1 [] None [] stmts sg F' f' vs' out ev0 /\
    ev = ev0 ++ stray sg.
