(* C02 (whole program): the grammar of an emitted line, pinned by hand.
   Nothing here mentions the generated tables: command words and class names are written out as
   text.  [legal_arg], [spec_cmd], [class_name] come from Spec/DuckyGrammar.v. *)
From Coq Require Import String Ascii NArith ZArith List Bool.
From DS Require Import Base PyStr Interp DuckyGrammar.
Import ListNotations.

(* class name (the tag of an output line) -> the validated command of the grammar *)
Definition spec_of (cn : str) : option spec_cmd :=
  if str_eqb cn n_Alt then Some SAlt
  else if str_eqb cn n_Ctrl then Some SCtrl
  else if str_eqb cn n_Shift then Some SShift
  else if str_eqb cn n_Gui then Some SGui
  else if str_eqb cn n_Sysrq then Some SSysrq
  else if str_eqb cn n_FlipMod then Some SFlipMod
  else if str_eqb cn n_Delay then Some SDelay
  else if str_eqb cn n_DefaultDelay then Some SDefaultDelay
  else if str_eqb cn n_AltChar then Some SAltChar
  else if str_eqb cn n_Whitespace then Some SWhitespace
  else None.

(* the command words of each validated command, as they appear (upper-cased) in the output *)
Definition w_Alt : list str := Eval vm_compute in map lit ["ALT"]%string.
Definition w_Ctrl : list str := Eval vm_compute in map lit ["CTRL"; "CONTROL"]%string.
Definition w_Shift : list str := Eval vm_compute in map lit ["SHIFT"]%string.
Definition w_Gui : list str := Eval vm_compute in map lit ["GUI"; "WINDOWS"; "META"]%string.
Definition w_Sysrq : list str := Eval vm_compute in map lit ["SYSRQ"]%string.
Definition w_FlipMod : list str :=
  Eval vm_compute in map lit ["CTRL-ALT"; "CTRL-SHIFT"; "ALT-SHIFT"; "ALT-GUI"; "GUI-SHIFT"]%string.
Definition w_Delay : list str := Eval vm_compute in map lit ["DELAY"]%string.
Definition w_DefaultDelay : list str := Eval vm_compute in map lit ["DEFAULT_DELAY"; "DEFAULTDELAY"]%string.
Definition w_AltChar : list str := Eval vm_compute in map lit ["ALTCHAR"]%string.

Definition cmd_words (c : spec_cmd) : list str :=
  match c with
  | SAlt => w_Alt | SCtrl => w_Ctrl | SShift => w_Shift | SGui => w_Gui
  | SSysrq => w_Sysrq | SFlipMod => w_FlipMod | SDelay => w_Delay
  | SDefaultDelay => w_DefaultDelay | SAltChar => w_AltChar
  | SWhitespace => []            (* WHITESPACE emits empty lines, never its own word *)
  end.

(* the modifier commands may stand alone on a line (argument allowed, not required) *)
Definition bare_ok (c : spec_cmd) : bool :=
  match c with
  | SAlt | SCtrl | SShift | SGui | SSysrq | SFlipMod => true
  | _ => false
  end.

(* a legal output line of a validated command:
   WORD, one space, a legal argument -- or the bare WORD for the modifier commands;
   WHITESPACE: an empty line *)
Definition legal_line (c : spec_cmd) (text : str) : Prop :=
  match c with
  | SWhitespace => text = []
  | _ => exists w, In w (cmd_words c) /\
           ((exists a, legal_arg c a = true /\ text = w ++ [32%N] ++ content_text a)
            \/ (bare_ok c = true /\ text = w))
  end.

(* the key classes that take no argument, and ENTER: the line is exactly one of the words *)
Definition n_ArrowKeys : str := Eval vm_compute in lit "ArrowKeys".
Definition n_Extended : str := Eval vm_compute in lit "Extended".
Definition n_Menu : str := Eval vm_compute in lit "Menu".
Definition n_Enter : str := Eval vm_compute in lit "Enter".

Definition w_ArrowKeys : list str :=
  Eval vm_compute in
    map lit ["DOWNARROW"; "DOWN"; "LEFTARROW"; "LEFT"; "RIGHTARROW"; "RIGHT"; "UPARROW"; "UP"]%string.
Definition w_Extended : list str :=
  Eval vm_compute in
    map lit ["BREAK"; "PAUSE"; "CAPSLOCK"; "DELETE"; "END"; "ESC"; "ESCAPE"; "HOME"; "INSERT"; "NUMLOCK";
             "PAGEUP"; "PAGEDOWN"; "PRINTSCREEN"; "SCROLLLOCK"; "SPACE"; "TAB"; "FN"]%string.
Definition w_Menu : list str := Eval vm_compute in map lit ["MENU"]%string.
Definition w_Enter : list str := Eval vm_compute in map lit ["ENTER"]%string.

Definition bare_words (cn : str) : option (list str) :=
  if str_eqb cn n_ArrowKeys then Some w_ArrowKeys
  else if str_eqb cn n_Extended then Some w_Extended
  else if str_eqb cn n_Menu then Some w_Menu
  else if str_eqb cn n_Enter then Some w_Enter
  else None.

(* the property of one output line *)
Definition line_ok (l : oline) : Prop :=
  match o_tag l with
  | ByCommand cn =>
      match spec_of cn with
      | Some c => legal_line c (o_text l)
      | None => match bare_words cn with
                | Some ws => In (o_text l) ws      (* keys that take no argument have none *)
                | None => True
                end
      end
  | _ => True
  end.
