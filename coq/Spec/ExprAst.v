(* C04: precedence and associativity, pinned by hand.
   A tree is "well-bracketed" for a precedence table (a list of rows, tightest first) when it is
   exactly the tree the documented rules assign to its in-order token sequence:
   operators of one row group to the left, an operator of a tighter row binds first. *)
From Coq Require Import NArith ZArith List Bool Arith.
From DS Require Import Base PyStr Values Expr.
Import ListNotations.

(* index of the first row containing sym; lower index binds tighter *)
Fixpoint rank_in (rows : list (list str)) (sym : str) : option nat :=
  match rows with
  | [] => None
  | row :: more => if str_in sym row then Some 0 else option_map S (rank_in more sym)
  end.

Section WithFloats.
Variable fo : FloatOps.
Notation ptok := (ptok fo).
Notation ptree := (ptree fo).

(* in-order token list *)
Fixpoint flatten (t : ptree) : list ptok :=
  match t with
  | Leaf v => [v]
  | Node oc sym l r => flatten l ++ [POp oc sym] ++ flatten r
  end.

(* a leaf is a value token (a value or a parenthesised group), never an operator *)
Definition leaf_ok (v : ptok) : Prop :=
  match v with POp _ _ => False | _ => True end.

Definition leaf_okb (v : ptok) : bool :=
  match v with POp _ _ => false | _ => true end.

(* rank of the operator at the root, if the tree is not a leaf *)
Definition top_rank (rows : list (list str)) (t : ptree) : option nat :=
  match t with
  | Leaf _ => None
  | Node _ sym _ _ => rank_in rows sym
  end.

(* well-bracketed: the left child may have the same rank (left-associativity) or a tighter one,
   the right child must be strictly tighter *)
Fixpoint wb (rows : list (list str)) (t : ptree) : Prop :=
  match t with
  | Leaf v => leaf_ok v
  | Node oc sym l r =>
      exists k, rank_in rows sym = Some k /\ wb rows l /\ wb rows r /\
                (forall kl, top_rank rows l = Some kl -> kl <= k) /\
                (forall kr, top_rank rows r = Some kr -> kr < k)
  end.

(* the same as a boolean, for concrete trees *)
Fixpoint wbb (rows : list (list str)) (t : ptree) : bool :=
  match t with
  | Leaf v => leaf_okb v
  | Node oc sym l r =>
      match rank_in rows sym with
      | None => false
      | Some k =>
          wbb rows l && wbb rows r &&
          match top_rank rows l with Some kl => kl <=? k | None => true end &&
          match top_rank rows r with Some kr => kr <? k | None => true end
      end
  end.

End WithFloats.
