(* C20: the identifier language, pinned by hand (independent of the code's character table). *)
From Coq Require Import NArith List Bool.
From DS Require Import Base PyStr.
Import ListNotations.
Local Open Scope N_scope.

Definition ident_start (c : N) : bool := is_ascii_letter c || (c =? 95).
Definition ident_char (c : N) : bool := is_ascii_letter c || is_ascii_digit c || (c =? 95).

(* a non-empty string of letters, digits and underscores that does not start with a digit *)
Definition identb (s : str) : bool :=
  match s with
  | [] => false
  | c :: r => ident_start c && forallb ident_char r
  end.
