(* C14 -- vocabulary of the exactness statement: the nested-IF chain. *)
From Coq Require Import NArith ZArith List Bool.
From DS Require Import Base PyStr Values Expr TabParse Constants Interp.
Import ListNotations.

Definition s_IF_TRUE : str := [73;70;32;84;82;85;69]%N.          (* "IF TRUE" *)
Definition s_STRING_x : str := [83;84;82;73;78;71;32;120]%N.     (* "STRING x" *)
Definition s_String : str := [83;116;114;105;110;103]%N.         (* palette class name "String" *)

(* k nested `IF TRUE` lines, numbered from n, with `STRING x` at the bottom:
     IF TRUE
         IF TRUE
             ...
                 STRING x                                                      *)
Fixpoint nest_at (n : Z) (k : nat) : list item :=
  match k with
  | O => [Ln s_STRING_x n]
  | S k' => [Ln s_IF_TRUE n; Blk (nest_at (n + 1) k')]
  end.

Section WithFloats.
Variable fo : FloatOps.

(* the environment of a stack after it ran an IF whose condition held *)
Definition env_if : env fo :=
  mkEnv fo [(default_delay_var, VInt 0)] [] [(if_success, VBool true)] [].

(* the final environment of compiling [nest_at n k] *)
Definition env_after (k : nat) : env fo :=
  match k with O => initial_env fo | S _ => env_if end.

End WithFloats.
