(* CoreText -- the program TEXT of a core program (Spec/CoreLang.v).

   A core program is first turned into a FOREST of statements (Spec/BlockTree.v: a statement
   and, one level deeper, its children), then rendered with the project's forest rendering
   [render] (one line per statement head, the body one indent unit deeper), and the lines are
   joined by "\n".  So the round-trip theorem of the indentation parser
   (Proofs/TabRoundTrip.v, [parse_render_round_trip]) applies to [text_of] as it stands.

   This file mentions neither the parser nor the interpreter. *)
From Coq Require Import NArith ZArith List Bool.
From DS Require Import Base PyStr TabParse BlockTree CoreLang.
Import ListNotations.

(* the arms of a chain as statements of the forest: IF c1 / ELIF c2 / ... / [ELSE] *)
Definition arms_nodes_gen (blk : list stmt -> forest) (els : option (list stmt))
  : bool -> list (str * list stmt) -> forest :=
  fix go first arms :=
    match arms with
    | [] => match els with
            | Some b => [Stmt kw_ELSE (blk b)]
            | None => []
            end
    | (c, b) :: r => Stmt ((if first then kw_IF else kw_ELIF) ++ CoreLang.sp :: c) (blk b) :: go false r
    end.

(* the head lines are those of [stmt_items] (Spec/CoreLang.v), character for character *)
Fixpoint stmt_nodes (s : stmt) : forest :=
  match s with
  | SEmit name text => [Stmt (name ++ CoreLang.sp :: text) []]
  | SEmitEval name e => [Stmt (dollar_c :: name ++ CoreLang.sp :: e) []]
  | SVar x e => [Stmt (kw_VAR ++ CoreLang.sp :: x ++ CoreLang.sp :: e) []]
  | SIf arms els => arms_nodes_gen (flat_map stmt_nodes) els true arms
  | SRepeat c e b => [Stmt (kw_REPEAT ++ CoreLang.sp :: loop_arg c e) (flat_map stmt_nodes b)]
  | SWhile c e b => [Stmt (kw_WHILE ++ CoreLang.sp :: loop_arg c e) (flat_map stmt_nodes b)]
  | SBreakLoop => [Stmt kw_BREAKLOOP []]
  | SContinueLoop => [Stmt kw_CONTINUELOOP []]
  end.

Definition forest_of (p : list stmt) : forest := flat_map stmt_nodes p.

(* the lines of the program, indented with the unit [u] *)
Definition lines_of (u : str) (p : list stmt) : list str := render u (forest_of p).

Definition nl : N := 10.       (* '\n' *)

(* THE TEXT *)
Definition text_of (u : str) (p : list stmt) : str := join [nl] (lines_of u p).

(* no statement head contains a newline character (the strings of a [stmt] are arbitrary: a
   newline inside an expression or an output text would cut the line in two) *)
Fixpoint node_one_line (nd : node) : bool :=
  match nd with
  | Stmt c kids => negb (char_in nl c) && forallb node_one_line kids
  end.
Definition one_line_heads (p : list stmt) : bool := forallb node_one_line (forest_of p).

(* every block (arm, ELSE, loop body) has at least one statement and every chain at least its IF:
   an empty block cannot be written (the parser makes no block of no lines) *)
Definition each {A} (P : A -> Prop) : list A -> Prop :=
  fix go l := match l with [] => True | a :: r => P a /\ go r end.

Fixpoint blocks_nonempty (s : stmt) : Prop :=
  match s with
  | SIf arms els =>
      arms <> [] /\
      each (fun cb : str * list stmt => let (_, b) := cb in b <> [] /\ each blocks_nonempty b) arms /\
      match els with Some b => b <> [] /\ each blocks_nonempty b | None => True end
  | SRepeat _ _ b => b <> [] /\ each blocks_nonempty b
  | SWhile _ _ b => b <> [] /\ each blocks_nonempty b
  | _ => True
  end.
Definition blocks_nonempty_list (p : list stmt) : Prop := each blocks_nonempty p.

(* ------------------------------------------------------------------ blank lines *)
(* [with_blanks ls ls']: ls' is ls with blank (empty or white-space-only) lines inserted anywhere *)
Definition with_blanks (ls ls' : list str) : Prop :=
  filter (fun l => negb (is_blank l)) ls' = ls.

(* ------------------------------------------------------------------ renumbering a parsed tree *)
Fixpoint renum_item (nu : Z -> Z) (i : item) : item :=
  match i with
  | Ln c n => Ln c (nu n)
  | Blk l => Blk (map (renum_item nu) l)
  end.
Definition renum (nu : Z -> Z) (t : list item) : list item := map (renum_item nu) t.
