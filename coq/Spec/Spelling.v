(* C04 (scanner part): what it means to SPELL a flat expression -- a sequence of value and operator
   tokens -- with an arbitrary whitespace layout.  Definitions only; the theorem that the scanner
   recovers exactly the spelled tokens is in Proofs/ScanSpelled.v. *)
From Coq Require Import NArith ZArith List Bool.
From DS Require Import Base PyStr Values Expr.
Import ListNotations.
Local Open Scope N_scope.

(* ------------------------------------------------------------------ spellable tokens *)
(* Not covered: floats ("1.5", "1.", ".5"), parenthesised groups, "!" negation. *)
Inductive stok :=
| SInt (digits : str)               (* non-empty string of ASCII digits *)
| SNeg (digits : str)               (* negative literal: "-" directly followed by digits *)
| SStr (body : str)                 (* string literal; no double quote inside *)
| SBool (b : bool)                  (* TRUE / FALSE *)
| SVar (name : str)                 (* a defined variable *)
| SOp (oc : opclassid) (sym : str). (* one of the 14 operator symbols, with its class *)

Definition is_sop (t : stok) : bool := match t with SOp _ _ => true | _ => false end.

(* the 14 operator symbols, pinned by hand (Proofs/ScanTokens.v: [op_table_generated] shows that
   this is exactly the generated table) *)
Definition op_table : list (opclassid * str) :=
  [ (OCMath, [43]); (OCMath, [45]); (OCMath, [42]); (OCMath, [47]); (OCMath, [47;47]);
    (OCMath, [37]); (OCMath, [94]);
    (OCCond, [61;61]); (OCCond, [33;61]); (OCCond, [60]); (OCCond, [62]); (OCCond, [60;61]);
    (OCCond, [62;61]);
    (OCComma, [44]) ].

Definition spell_tok (t : stok) : str :=
  match t with
  | SInt ds => ds
  | SNeg ds => 45 :: ds
  | SStr body => 34 :: body ++ [34]
  | SBool true => s_TRUE
  | SBool false => s_FALSE
  | SVar name => name
  | SOp _ sym => sym
  end.

(* decimal value of a digit string, most significant digit first *)
Fixpoint dec_value (s : str) (acc : N) : N :=
  match s with
  | [] => acc
  | c :: r => dec_value r (acc * 10 + (c - 48))
  end.

(* ------------------------------------------------------------------ side conditions on one token *)
Definition is_digits (s : str) : bool :=
  match s with [] => false | _ => forallb is_ascii_digit s end.

Definition no_quote (s : str) : bool := forallb (fun c => negb (c =? 34)) s.

(* VariableEnvironment.is_var: an optional leading "$" (system variables), then letters, digits and
   underscores, the first character not a digit *)
Definition is_ident_start (c : N) : bool := is_ascii_letter c || (c =? 95) || (c =? 36).
Definition is_ident_char (c : N) : bool := is_ascii_letter c || is_ascii_digit c || (c =? 95).

Definition ident (s : str) : bool :=
  match s with
  | [] => false
  | c :: r => is_ident_start c && forallb is_ident_char r
  end.

(* first character of a name *)
Definition name_start (s : str) : bool :=
  match s with [] => false | c :: _ => is_ident_start c end.

(* neither keyword is a prefix of the name (otherwise Boolean, which is tried before Variable,
   takes the keyword) *)
Definition kw_free (s : str) : bool :=
  forallb (fun kw => negb (startswith kw s)) [s_TRUE; s_FALSE].

(* "bool-safe": in addition the name is not a prefix of a keyword *)
Definition bool_safe (s : str) : bool :=
  forallb (fun kw => negb (startswith kw s) && negb (startswith s kw)) [s_TRUE; s_FALSE].

Section WithFloats.
Variable fo : FloatOps.
Notation value := (value fo).
Notation ptok := (ptok fo).
Notation vars_t := (vars_t fo).

(* the parsed token a spelled token stands for; a variable contributes its current value *)
Definition ptok_of (vars : vars_t) (t : stok) : ptok :=
  match t with
  | SInt ds => PVal (VInt (Z.of_N (dec_value ds 0)))
  | SNeg ds => PVal (VInt (- Z.of_N (dec_value ds 0)))
  | SStr body => PVal (VStr body)
  | SBool b => PVal (VBool b)
  | SVar name => match lookup name vars with Some v => PVal v | None => PVal VNone end
  | SOp oc sym => POp oc sym
  end.

Definition tok_ok (vars : vars_t) (t : stok) : Prop :=
  match t with
  | SInt ds => is_digits ds = true
  | SNeg ds => is_digits ds = true
  | SStr body => no_quote body = true
  | SBool _ => True
  | SVar name => name_start name = true /\ kw_free name = true /\ lookup name vars <> None
  | SOp oc sym => In (oc, sym) op_table
  end.

Definition well_formed (vars : vars_t) (toks : list stok) : Prop := Forall (tok_ok vars) toks.

(* the stricter reading: every variable name is an identifier and bool-safe *)
Definition tok_strict (t : stok) : Prop :=
  match t with
  | SVar name => ident name = true /\ bool_safe name = true
  | _ => True
  end.
Definition strict (toks : list stok) : Prop := Forall tok_strict toks.

(* every defined name is an identifier *)
Definition vars_ident (vars : vars_t) : Prop := Forall (fun kv => ident (fst kv) = true) vars.

(* ------------------------------------------------------------------ layouts *)
(* value / operator / value / ... / value *)
Fixpoint alt_from (op : bool) (toks : list stok) : Prop :=
  match toks with
  | [] => op = true
  | t :: ts => is_sop t = op /\ alt_from (negb op) ts
  end.
Definition alternating (toks : list stok) : Prop := alt_from false toks.

(* a layout: one whitespace run before each token and one at the end; missing runs are empty *)
Definition layout := list str.
Definition layout_ok (lay : layout) : Prop := Forall (fun ws => forallb isspace_c ws = true) lay.

Fixpoint spell (lay : layout) (toks : list stok) : str :=
  match toks with
  | [] => hd [] lay
  | t :: ts => hd [] lay ++ spell_tok t ++ spell (tl lay) ts
  end.

(* The only boundaries the scanner cannot always find are those after a variable name:
   - directly followed by a character [c] such that some defined name starts with name ++ [c]
     (the matcher goes on reading);
   - at the very end of the text when the name is a prefix of a keyword  (Boolean, tried first, is
     still holding the name and fails).
   All other boundaries of an alternating token list -- digits|operator, operator|value,
   string|operator, name|whitespace ..., with or without whitespace -- are always found; that is part
   of the theorem. *)
Definition follow_ok (vars : vars_t) (t : stok) (rest : str) : Prop :=
  match t, rest with
  | SVar name, [] => forall w, In w [s_TRUE; s_FALSE] -> startswith name w = false
  | SVar name, c :: _ => forall w, In w (map fst vars) -> startswith (name ++ [c]) w = false
  | _, _ => True
  end.

Fixpoint boundaries_ok (vars : vars_t) (lay : layout) (toks : list stok) : Prop :=
  match toks with
  | [] => True
  | t :: ts => follow_ok vars t (spell (tl lay) ts) /\ boundaries_ok vars (tl lay) ts
  end.

End WithFloats.
