(* CoreAllText -- the FILE SYSTEM of a CoreAll program (Spec/CoreAll.v): every file's statements are
   turned into a forest (Spec/BlockTree.v), rendered with the indent unit u, joined by "\n"; the
   file m lives at dir/m.txt.  Mentions neither the parser nor the interpreter's functions (only
   the types of paths and file systems). *)
From Coq Require Import NArith ZArith List Bool.
From DS Require Import Base PyStr TabParse Constants BlockTree CoreLang CoreFunc CoreText CoreAll.
Import ListNotations.

Definition uarms_nodes_gen (blk : list ustmt -> forest) (els : option (list ustmt))
  : bool -> list (str * list ustmt) -> forest :=
  fix go first arms :=
    match arms with
    | [] => match els with Some b => [Stmt kw_ELSE (blk b)] | None => [] end
    | (c, b) :: r => Stmt (if_head first c) (blk b) :: go false r
    end.

(* the head lines are those of [ustmt_items] (Spec/CoreAll.v), character for character *)
Fixpoint ustmt_nodes (s : ustmt) : forest :=
  match s with
  | UEmit name text => [Stmt (name ++ CoreLang.sp :: text) []]
  | UEmitEval name e => [Stmt (dollar_c :: name ++ CoreLang.sp :: e) []]
  | UVar x e => [Stmt (kw_VAR ++ CoreLang.sp :: x ++ CoreLang.sp :: e) []]
  | UIf arms els => uarms_nodes_gen (flat_map ustmt_nodes) els true arms
  | URepeat c e b => [Stmt (repeat_head c e) (flat_map ustmt_nodes b)]
  | UWhile c e b => [Stmt (while_head c e) (flat_map ustmt_nodes b)]
  | UBreakLoop => [Stmt kw_BREAKLOOP []]
  | UContinueLoop => [Stmt kw_CONTINUELOOP []]
  | UFunc name ps b => [Stmt (func_head name ps) (flat_map ustmt_nodes b)]
  | URun name args => [Stmt (run_head name args) []]
  | UReturn => [Stmt kw_RETURN []]
  | UPrint text => [Stmt (print_head text) []]
  | UPrintEval e => [Stmt (print_eval_head e) []]
  | URem text => [Stmt (rem_head text) []]
  | UUnknown w args => [Stmt (unknown_head w args) []]
  | UStart k name => [Stmt (start_head k name) []]
  end.

Definition uforest_of (p : list ustmt) : forest := flat_map ustmt_nodes p.

(* THE TEXT of a file *)
Definition utext_of (u : str) (p : list ustmt) : str := join [nl] (render u (uforest_of p)).

(* the path of file m: dir/m.txt *)
Definition file_path (dir : list str) (m : str) : list str := dir ++ [m ++ script_extension].

Fixpoint path_eq (a b : list str) : bool :=
  match a, b with
  | [], [] => true
  | x :: a', y :: b' => str_eqb x y && path_eq a' b'
  | _, _ => false
  end.

(* THE FILE SYSTEM: the files of the program, nothing else *)
Fixpoint fs_of (u : str) (dir : list str) (prog : program) (p : list str) : option str :=
  match prog with
  | [] => None
  | (m, stmts) :: r => if path_eq p (file_path dir m) then Some (utext_of u stmts) else fs_of u dir r p
  end.
