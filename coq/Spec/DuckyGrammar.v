(* C02: the Ducky line grammar of the validated commands, pinned by hand.
   Nothing here mentions the generated tables (Generated/Tables.v): the key names are written out
   as text and turned into code-point lists at definition time. *)
From Coq Require Import String Ascii NArith ZArith List Bool.
From DS Require Import Base PyStr Interp.
Import ListNotations.

(* an ASCII literal as a Python str (list of code points) *)
Definition lit (t : string) : str := map N_of_ascii (list_ascii_of_string t).

Definition fkeys : list str :=
  Eval vm_compute in
    map lit ["F1"; "F2"; "F3"; "F4"; "F5"; "F6"; "F7"; "F8"; "F9"; "F10"; "F11"; "F12"]%string.

Definition alt_keys : list str :=
  Eval vm_compute in
    (map lit ["END"; "ESC"; "ESCAPE"; "SPACE"; "TAB"]%string ++ fkeys).

Definition ctrl_keys : list str :=
  Eval vm_compute in
    (map lit ["BREAK"; "PAUSE"; "ESCAPE"; "ESC"]%string ++ fkeys).

Definition shift_keys : list str :=
  Eval vm_compute in
    map lit ["DELETE"; "HOME"; "INSERT"; "PAGEUP"; "PAGEDOWN"; "WINDOWS"; "GUI";
             "UPARROW"; "DOWNARROW"; "LEFTARROW"; "RIGHTARROW"; "TAB"]%string.

Inductive spec_cmd :=
| SAlt | SCtrl | SShift | SGui | SSysrq | SFlipMod
| SDelay | SDefaultDelay | SAltChar | SWhitespace.

(* exactly one code point *)
Definition one_char (s : str) : bool := Nat.eqb (List.length s) 1.

(* a listed key name, in any casing *)
Definition key_name (keys : list str) (s : str) : bool := str_in (upper s) keys.

(* 1-4 ASCII digits, surrounding blanks ignored *)
Definition altchar_code (s : str) : bool :=
  let t := strip s in
  forallb is_ascii_digit t && negb (Nat.eqb (List.length t) 0) && Nat.leb (List.length t) 4.

Definition legal_arg (cmd : spec_cmd) (a : acontent) : bool :=
  match cmd, a with
  | SAlt, AStr s => one_char s || key_name alt_keys s
  | SCtrl, AStr s => one_char s || key_name ctrl_keys s
  | SShift, AStr s => key_name shift_keys s
  | SGui, AStr s => one_char s
  | SSysrq, AStr s => one_char s
  | SFlipMod, AStr s => one_char s
  | SDelay, AInt z => (0 <=? z)%Z
  | SDefaultDelay, AInt z => (0 <=? z)%Z
  | SAltChar, AStr s => altchar_code s
  | SWhitespace, AInt z => (0 <=? z)%Z && (z <? 100)%Z
  | _, _ => false
  end.

(* the argument text of an emitted DELAY / DEFAULT_DELAY line: a non-empty run of ASCII digits *)
Definition digit_string (s : str) : bool :=
  forallb is_ascii_digit s && negb (Nat.eqb (List.length s) 0).

(* an integer literal: optional minus sign, then digits (what DEFAULT_DELAY can really emit) *)
Definition int_literal (s : str) : bool :=
  match s with
  | c :: r => if (c =? 45)%N then digit_string r else digit_string s
  | [] => false
  end.

(* the class names of the validated commands, as the code spells them *)
Definition n_Alt : str := Eval vm_compute in lit "Alt".
Definition n_Ctrl : str := Eval vm_compute in lit "Ctrl".
Definition n_Shift : str := Eval vm_compute in lit "Shift".
Definition n_Gui : str := Eval vm_compute in lit "Gui".
Definition n_Delay : str := Eval vm_compute in lit "Delay".
Definition n_DefaultDelay : str := Eval vm_compute in lit "DefaultDelay".
Definition n_AltChar : str := Eval vm_compute in lit "FlipperAltChar".
Definition n_FlipMod : str := Eval vm_compute in lit "FlipperModifierKeys".
Definition n_Sysrq : str := Eval vm_compute in lit "FlipperSysrq".
Definition n_Whitespace : str := Eval vm_compute in lit "Whitespace".

(* the shape of the contents that reach a validator (cf. typed_content in the model) *)
Definition is_str (a : acontent) : Prop := match a with AStr _ => True | AInt _ => False end.
Definition is_int (a : acontent) : Prop := match a with AInt _ => True | AStr _ => False end.

Definition class_name (c : spec_cmd) : str :=
  match c with
  | SAlt => n_Alt | SCtrl => n_Ctrl | SShift => n_Shift | SGui => n_Gui
  | SSysrq => n_Sysrq | SFlipMod => n_FlipMod | SDelay => n_Delay
  | SDefaultDelay => n_DefaultDelay | SAltChar => n_AltChar | SWhitespace => n_Whitespace
  end.

(* which contents reach the validator of the class (cf. typed_content) *)
Definition typed (c : spec_cmd) (a : acontent) : Prop :=
  match c with
  | SDelay | SDefaultDelay | SWhitespace => is_int a
  | _ => is_str a
  end.

