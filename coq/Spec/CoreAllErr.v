(* CoreAllErr -- the ERROR JUDGEMENT of the UNIFIED reference semantics of Spec/CoreAll.v
   (core + functions + PRINT/REM/unknown + START family), with the LOCATION CHAIN of the error
   across files and the EVENTS (prints, warnings) raised before the failure.

   Like CoreAll.v this file does not mention the interpreter: strings, values, the expression
   evaluator (through [eval] / [eval_err]), the success relations of CoreAll.v, the error classes
   [errcls] of Base.v, the identifier language of Spec/IdentSpec.v.
   Proofs/CoreAllErrRefine.v proves that the interpreter implements it; Proofs/CoreAllDet.v that
   the success judgement is deterministic and disjoint from this one; Proofs/CoreAllTotal.v that
   success and failure are exhaustive.

     fails d pile cf n F f vs s   er chain ev
        statement s, standing on line n of file cf, while the stacks [pile] are running below the
        current one, started with function table F, IF flag f and store vs, FAILS with the compile
        error of class er.
        d : nat               HOW MANY MORE STACKS FIT above the current one (every block, call and
                              import is one stack).  A block / call / import entered with d = 0 is
                              the error StackOverflow; otherwise its body runs with d - 1.
                              The success premises [exec d ...] use the same d: the depth index of
                              CoreAll.exec is an upper bound, so "succeeds within the room d".
        chain : list sframe   THE LOCATION: the frames pushed above [pile] by the blocks, calls and
                              imports that were entered (file, head line text, line number, inline
                              = made by RUN / START-family), outermost first, ENDING with the frame of
                              the line at fault (inline = the fault is in the argument of a plain
                              command: $NAME e, VAR x e, $PRINT e, RUN, START-family; not inline = the
                              head of a block).  The error's trace is [pile ++ chain];
                              [chain_lines chain] is its list of (file, line).
        ev : list event       the prints and warnings raised BEFORE the failure, in order: the
                              interpreter keeps them when the compilation fails.

   Points marked (!) are what the code does (confirmed by the refinement theorem); those of
   Spec/CoreErr.v (own line of a failing ELIF, WHILE condition blamed on the WHILE line, loop head
   once in the chain, REPEAT count re-checked, VAR expression before name) still hold, and:
    (!) RUN: the argument expression is evaluated first (its error wins over an unknown name), then
        the name is looked up (VarNonExistent), then the arity is checked (InvalidArguments), then
        the stack limit;
    (!) a failure inside a function body is located by the RUN line, then by lines of the file in
        which the function was DEFINED;
    (!) a body that ends with Broke / Continued runs completely (its prints stay), THEN the call is
        the error StackReturnType, located at the RUN line;
    (!) START of a file that does not exist: InvalidArguments; of a file with a running stack:
        CircularStructure; both located at the START line; existence is tested first;
    (!) the stack limit is tested when a block is ENTERED: an IF whose condition is false, a REPEAT
        of count 0 need no room, but a WHILE needs room even to find its condition false, and the
        iteration bound of WHILE is tested before the room. *)
From Coq Require Import NArith ZArith List Bool.
From DS Require Import Base PyStr Values Expr TabParse IdentSpec CoreLang CoreFunc CoreErr CoreAll.
Import ListNotations.

(* every VAR of the statement (at any depth, also inside FUNC bodies) assigns to an identifier.
   As in Spec/CoreErr.v: the success relation [exec] does not look at names (E_Var has no side
   condition); it is the meaning of statements whose names are identifiers, and the error
   judgement uses it for those only. *)
Fixpoint unames_ok (s : ustmt) : Prop :=
  match s with
  | UVar x _ => identb x = true
  | UIf arms els =>
      every (fun cb : str * list ustmt => let (_, b) := cb in every unames_ok b) arms /\
      match els with Some b => every unames_ok b | None => True end
  | URepeat _ _ b => every unames_ok b
  | UWhile _ _ b => every unames_ok b
  | UFunc _ _ b => every unames_ok b
  | _ => True
  end.
Definition unames_ok_list (p : list ustmt) : Prop := every unames_ok p.

(* the (file, line) list of a chain *)
Definition chain_lines (ch : list sframe) : list (str * Z) := map (fun sf => (sf_file sf, sf_num sf)) ch.

Section Errors.
Variable fo : FloatOps.
Notation value := (value fo).
Notation store := (store fo).
Variable sys : store.
Variable prog : program.
Variable inc : bool.
Variable sup : bool.

Notation eval := (eval fo sys).
Notation eval_err := (eval_err fo sys).
Notation exec := (CoreAll.exec fo sys prog inc sup).
Notation exec_list := (CoreAll.exec_list fo sys prog inc sup).

(* the argument text of a RUN does not evaluate *)
Definition run_args_err (f : option bool) (vs : store) (args : list str) (er : errcls) : Prop :=
  args <> [] /\ eval_err f vs (comma_list args) er.

(* the first of the conditions of [arms] (the ELIFs after the taken arm, the first one written at
   line n of file cf) that does not evaluate, with flag true in store vs: class er, frame fr *)
Inductive later_fails (cf : str) (vs : store) : Z -> list (str * list ustmt) -> errcls -> sframe -> Prop :=
| LF_Here : forall n c body rest er,
    eval_err (Some true) vs c er ->
    later_fails cf vs n ((c, body) :: rest) er (mkSF cf (if_head false c) n false)
| LF_Next : forall n c body rest v er fr,
    eval (Some true) vs c v ->
    later_fails cf vs (n + 1 + sum_sizes usize body)%Z rest er fr ->
    later_fails cf vs n ((c, body) :: rest) er fr.

Inductive fails : nat -> list sframe -> str -> Z -> utable -> option bool -> store -> ustmt ->
                  errcls -> list sframe -> list event -> Prop :=
(* ---- plain commands with an evaluated argument *)
| F_EmitEval : forall d pile cf n F f vs name e er,
    eval_err f vs e er ->
    fails d pile cf n F f vs (UEmitEval name e) er [mkSF cf (dollar_c :: name ++ sp :: e) n true] []
| F_VarExpr : forall d pile cf n F f vs x e er,
    eval_err f vs e er ->
    fails d pile cf n F f vs (UVar x e) er [mkSF cf (kw_VAR ++ sp :: x ++ sp :: e) n true] []
| F_VarName : forall d pile cf n F f vs x e v,
    (* (!) the expression first, then the name *)
    eval f vs e v -> identb x = false ->
    fails d pile cf n F f vs (UVar x e) EUnacceptableVarName [mkSF cf (kw_VAR ++ sp :: x ++ sp :: e) n true] []
| F_PrintEval : forall d pile cf n F f vs e er,
    eval_err f vs e er ->
    fails d pile cf n F f vs (UPrintEval e) er [mkSF cf (print_eval_head e) n true] []
(* ---- blocks *)
| F_If : forall d pile cf n F f vs arms els er ch ev,
    fails_arms d pile cf true n F (match f with Some b => b | None => false end) vs arms els er ch ev ->
    fails d pile cf n F f vs (UIf arms els) er ch ev
| F_Repeat : forall d pile cf n F f vs c e body er ch ev,
    fails_repeat d pile cf n F f c e body 0 vs er ch ev ->
    fails d pile cf n F f vs (URepeat c e body) er ch ev
| F_While : forall d pile cf n F f vs c e body er ch ev,
    fails_while d pile cf n F c e body 0 vs er ch ev ->
    fails d pile cf n F f vs (UWhile c e body) er ch ev
(* ---- RUN name args *)
| F_RunArgs : forall d pile cf n F f vs name args er,
    (* (!) before the name is looked up *)
    run_args_err f vs args er ->
    fails d pile cf n F f vs (URun name args) er [mkSF cf (run_head name args) n true] []
| F_RunUnknown : forall d pile cf n F f vs name args vals,
    run_args fo sys f vs args vals -> lookup name F = None ->
    fails d pile cf n F f vs (URun name args) EVarNonExistent [mkSF cf (run_head name args) n true] []
| F_RunArity : forall d pile cf n F f vs name args vals df,
    run_args fo sys f vs args vals -> lookup name F = Some df -> length (d_params df) <> length vals ->
    fails d pile cf n F f vs (URun name args) EInvalidArguments [mkSF cf (run_head name args) n true] []
| F_RunOverflow : forall pile cf n F f vs name args vals df,
    run_args fo sys f vs args vals -> lookup name F = Some df -> length (d_params df) = length vals ->
    fails 0 pile cf n F f vs (URun name args) EStackOverflow [mkSF cf (run_head name args) n true] []
| F_RunBody : forall d pile cf n F f vs name args vals df er ch ev,
    run_args fo sys f vs args vals -> lookup name F = Some df -> length (d_params df) = length vals ->
    (* (!) in the DEFINING file, at the lines of the definition *)
    fails_list d (pile ++ [mkSF cf (run_head name args) n true]) (d_file df) (d_line df + 1) F None
               (bind_params fo (d_params df) vals vs) (d_body df) er ch ev ->
    fails (S d) pile cf n F f vs (URun name args) er (mkSF cf (run_head name args) n true :: ch) ev
| F_RunEscape : forall d pile cf n F f vs name args vals df sg F1 f1 vs1 out ev,
    run_args fo sys f vs args vals -> lookup name F = Some df -> length (d_params df) = length vals ->
    (* (!) the body runs to its end, then the call is the error *)
    exec_list d (pile ++ [mkSF cf (run_head name args) n true]) (d_file df) (d_line df + 1) F None
              (bind_params fo (d_params df) vals vs) (d_body df) sg F1 f1 vs1 out ev ->
    sg = Broke \/ sg = Continued ->
    fails (S d) pile cf n F f vs (URun name args) EStackReturnType [mkSF cf (run_head name args) n true] ev
(* ---- START / STARTCODE / STARTENV name *)
| F_StartMissing : forall d pile cf n F f vs k name,
    lookup name prog = None ->
    fails d pile cf n F f vs (UStart k name) EInvalidArguments [mkSF cf (start_head k name) n true] []
| F_StartCircular : forall d pile cf n F f vs k name stmts,
    lookup name prog = Some stmts -> In name (live_files pile cf) ->
    fails d pile cf n F f vs (UStart k name) ECircular [mkSF cf (start_head k name) n true] []
| F_StartOverflow : forall pile cf n F f vs k name stmts,
    lookup name prog = Some stmts -> ~ In name (live_files pile cf) ->
    fails 0 pile cf n F f vs (UStart k name) EStackOverflow [mkSF cf (start_head k name) n true] []
| F_StartBody : forall d pile cf n F f vs k name stmts er ch ev,
    lookup name prog = Some stmts -> ~ In name (live_files pile cf) ->
    (* the chain continues in the imported file, from its line 1 *)
    fails_list d (pile ++ [mkSF cf (start_head k name) n true]) name 1 F None vs stmts er ch ev ->
    fails (S d) pile cf n F f vs (UStart k name) er (mkSF cf (start_head k name) n true :: ch) ev

(* a list standing from line n on: the first statement fails, or it succeeds normally and the rest
   (standing after it) fails; the events of the statements that succeeded come first *)
with fails_list : nat -> list sframe -> str -> Z -> utable -> option bool -> store -> list ustmt ->
                  errcls -> list sframe -> list event -> Prop :=
| FL_Here : forall d pile cf n F f vs s r er ch ev,
    fails d pile cf n F f vs s er ch ev ->
    fails_list d pile cf n F f vs (s :: r) er ch ev
| FL_Later : forall d pile cf n F f vs s r F1 f1 vs1 o1 e1 er ch e2,
    exec d pile cf n F f vs s Normal F1 f1 vs1 o1 e1 -> unames_ok s ->
    fails_list d pile cf (n + usize s)%Z F1 f1 vs1 r er ch e2 ->
    fails_list d pile cf n F f vs (s :: r) er ch (e1 ++ e2)

(* the remaining arms of a chain, the next one written at line n ([first]: as IF, else as ELIF);
   b = the flag while its condition is evaluated *)
with fails_arms : nat -> list sframe -> str -> bool -> Z -> utable -> bool -> store ->
                  list (str * list ustmt) -> option (list ustmt) ->
                  errcls -> list sframe -> list event -> Prop :=
| FA_Cond : forall d pile cf first n F b vs c body rest els er,
    (* (!) at the arm's own line, IF or ELIF *)
    eval_err (Some b) vs c er ->
    fails_arms d pile cf first n F b vs ((c, body) :: rest) els er [mkSF cf (if_head first c) n false] []
| FA_Overflow : forall pile cf first n F b vs c body rest els v,
    eval (Some b) vs c v -> truthy fo v = true ->
    fails_arms 0 pile cf first n F b vs ((c, body) :: rest) els EStackOverflow [mkSF cf (if_head first c) n false] []
| FA_Body : forall d pile cf first n F b vs c body rest els v er ch ev,
    eval (Some b) vs c v -> truthy fo v = true ->
    fails_list d (pile ++ [mkSF cf (if_head first c) n false]) cf (n + 1)%Z F None vs body er ch ev ->
    fails_arms (S d) pile cf first n F b vs ((c, body) :: rest) els er (mkSF cf (if_head first c) n false :: ch) ev
| FA_Later : forall d pile cf first n F b vs c body rest els v F1 f1 vs1 out ev er fr,
    (* (!) the body ended normally, then a later ELIF condition does not evaluate *)
    eval (Some b) vs c v -> truthy fo v = true ->
    exec_list d (pile ++ [mkSF cf (if_head first c) n false]) cf (n + 1)%Z F None vs body Normal F1 f1 vs1 out ev ->
    unames_ok_list body ->
    later_fails cf (copy_back fo vs vs1) (n + 1 + sum_sizes usize body)%Z rest er fr ->
    fails_arms (S d) pile cf first n F b vs ((c, body) :: rest) els er [fr] ev
| FA_Skip : forall d pile cf first n F b vs c body rest els v er ch ev,
    eval (Some b) vs c v -> truthy fo v = false ->
    fails_arms d pile cf false (n + 1 + sum_sizes usize body)%Z F false vs rest els er ch ev ->
    fails_arms d pile cf first n F b vs ((c, body) :: rest) els er ch ev
| FA_ElseOverflow : forall pile cf first n F b vs body,
    fails_arms 0 pile cf first n F b vs [] (Some body) EStackOverflow [mkSF cf kw_ELSE n false] []
| FA_Else : forall d pile cf first n F b vs body er ch ev,
    fails_list d (pile ++ [mkSF cf kw_ELSE n false]) cf (n + 1)%Z F None vs body er ch ev ->
    fails_arms (S d) pile cf first n F b vs [] (Some body) er (mkSF cf kw_ELSE n false :: ch) ev

(* REPEAT written at line n, from iteration k on *)
with fails_repeat : nat -> list sframe -> str -> Z -> utable -> option bool -> option str -> str ->
                    list ustmt -> Z -> store -> errcls -> list sframe -> list event -> Prop :=
| FR_Count : forall d pile cf n F f c e body k vs er,
    eval_err f vs e er ->
    fails_repeat d pile cf n F f c e body k vs er [mkSF cf (repeat_head c e) n false] []
| FR_NotCount : forall d pile cf n F f c e body k vs v,
    eval f vs e v -> count_of fo v = None ->
    fails_repeat d pile cf n F f c e body k vs EInvalidArguments [mkSF cf (repeat_head c e) n false] []
| FR_Range : forall d pile cf n F f c e body k vs v m,
    eval f vs e v -> count_of fo v = Some m -> ~ (0 <= m <= loop_max)%Z ->
    fails_repeat d pile cf n F f c e body k vs EInvalidArguments [mkSF cf (repeat_head c e) n false] []
| FR_Overflow : forall pile cf n F f c e body k vs v m,
    eval f vs e v -> count_of fo v = Some m -> (0 <= m <= loop_max)%Z -> (k < m)%Z ->
    fails_repeat 0 pile cf n F f c e body k vs EStackOverflow [mkSF cf (repeat_head c e) n false] []
| FR_Body : forall d pile cf n F f c e body k vs v m er ch ev,
    eval f vs e v -> count_of fo v = Some m -> (0 <= m <= loop_max)%Z -> (k < m)%Z ->
    fails_list d (pile ++ [mkSF cf (repeat_head c e) n false]) cf (n + 1)%Z F None (with_counter fo c k vs) body er ch ev ->
    (* (!) the head once, whatever k *)
    fails_repeat (S d) pile cf n F f c e body k vs er (mkSF cf (repeat_head c e) n false :: ch) ev
| FR_Iter : forall d pile cf n F f c e body k vs v m sg F1 f1 vs1 o1 e1 er ch e2,
    eval f vs e v -> count_of fo v = Some m -> (0 <= m <= loop_max)%Z -> (k < m)%Z ->
    exec_list d (pile ++ [mkSF cf (repeat_head c e) n false]) cf (n + 1)%Z F None (with_counter fo c k vs) body
              sg F1 f1 vs1 o1 e1 ->
    goes_on sg -> unames_ok_list body ->
    fails_repeat (S d) pile cf n F f c e body (k + 1)%Z (copy_back fo vs vs1) er ch e2 ->
    fails_repeat (S d) pile cf n F f c e body k vs er ch (e1 ++ e2)

(* WHILE written at line n, from iteration k on *)
with fails_while : nat -> list sframe -> str -> Z -> utable -> option str -> str ->
                   list ustmt -> Z -> store -> errcls -> list sframe -> list event -> Prop :=
| FW_Limit : forall d pile cf n F c e body k vs,
    (* the 20002nd evaluation of the condition does not happen; (!) tested before the room *)
    (loop_max < k)%Z ->
    fails_while d pile cf n F c e body k vs EExceededLimit [mkSF cf (while_head c e) n false] []
| FW_Overflow : forall pile cf n F c e body k vs,
    (* (!) the condition is evaluated inside the block: no room, no evaluation *)
    (k <= loop_max)%Z ->
    fails_while 0 pile cf n F c e body k vs EStackOverflow [mkSF cf (while_head c e) n false] []
| FW_Cond : forall d pile cf n F c e body k vs er,
    (k <= loop_max)%Z ->
    (* (!) inside the block (counter, no flag), but blamed on the WHILE line alone *)
    eval_err None (with_counter fo c k vs) e er ->
    fails_while (S d) pile cf n F c e body k vs er [mkSF cf (while_head c e) n false] []
| FW_Body : forall d pile cf n F c e body k vs v er ch ev,
    (k <= loop_max)%Z ->
    eval None (with_counter fo c k vs) e v -> truthy fo v = true ->
    fails_list d (pile ++ [mkSF cf (while_head c e) n false]) cf (n + 1)%Z F None (with_counter fo c k vs) body er ch ev ->
    fails_while (S d) pile cf n F c e body k vs er (mkSF cf (while_head c e) n false :: ch) ev
| FW_Iter : forall d pile cf n F c e body k vs v sg F1 f1 vs1 o1 e1 er ch e2,
    (k <= loop_max)%Z ->
    eval None (with_counter fo c k vs) e v -> truthy fo v = true ->
    exec_list d (pile ++ [mkSF cf (while_head c e) n false]) cf (n + 1)%Z F None (with_counter fo c k vs) body
              sg F1 f1 vs1 o1 e1 ->
    goes_on sg -> unames_ok_list body ->
    fails_while (S d) pile cf n F c e body (k + 1)%Z (copy_back fo vs vs1) er ch e2 ->
    fails_while (S d) pile cf n F c e body k vs er ch (e1 ++ e2).

Scheme fails_mind := Minimality for fails Sort Prop
  with fails_list_mind := Minimality for fails_list Sort Prop
  with fails_arms_mind := Minimality for fails_arms Sort Prop
  with fails_repeat_mind := Minimality for fails_repeat Sort Prop
  with fails_while_mind := Minimality for fails_while Sort Prop.
Combined Scheme fails_all_mind from fails_mind, fails_list_mind, fails_arms_mind, fails_repeat_mind, fails_while_mind.

End Errors.

(* ================================================================== whole programs *)
(* the room above the main stack under a stack limit L >= 1: L - 1 more stacks *)
Definition room_of_limit (limit : Z) : nat := Z.to_nat (limit - 1).

(* ufails fo prog inc sup entry d  er chain ev: compiling the file [entry] of [prog] under the two
   options, with room for d stacks above the main one, fails with class er at [chain] after the
   events ev *)
Definition ufails (fo : FloatOps) (prog : program) (inc sup : bool) (entry : str) (d : nat)
           (er : errcls) (chain : list sframe) (ev : list event) : Prop :=
  exists stmts, lookup entry prog = Some stmts /\
    fails_list fo (initial_sys fo) prog inc sup d [] entry 1 [] None [] stmts er chain ev.
