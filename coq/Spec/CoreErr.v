(* CoreErr -- the ERROR JUDGEMENT of the reference semantics of Spec/CoreLang.v, with the location
   chain of the error.

   Like CoreLang.v this file does not mention the interpreter: it uses strings, values, the
   expression evaluator [tokenize], the success relations [exec ...] of CoreLang.v, the error
   classes [errcls] of Base.v and the identifier language of Spec/IdentSpec.v.
   Proofs/CoreErrRefine.v proves that the interpreter implements it (class, trace, nothing else
   happens); Proofs/CoreTotal.v proves that success and failure are exhaustive.

     fails fo sys f vs n s  e arg chain
        statement s, written from LINE n on (CoreLang.stmt_items n s), started with IF flag f and
        store vs, FAILS with the compile error of class e.
        chain : list Z   the line numbers, outermost first, of the block heads entered (the line of
                         the IF / ELIF / ELSE arm that was taken, the REPEAT / WHILE line), ending
                         with the line of the statement at fault;
        arg : bool       true  = the fault is in the argument of a plain command ($NAME e, VAR x e):
                                 the error also carries that line as its "second line";
                         false = the fault is in the head of a block (a condition, a count, the
                                 iteration bound): no second line.
   The lines are numbered as CoreLang.items_from numbers them: statement k of a list starting at
   line n is at  n + size s_0 + ... + size s_(k-1);  a block body starts at its head line + 1;
   the arms of a chain follow each other.

   WHAT IS NOT TRACKED: output and prints made before the failure.  The interpreter discards the
   output of a failed compilation (the result is the error alone), and the fragment prints
   nothing; the statements BEFORE the failing one must succeed ([exec] premises), which fixes the
   store and the flag at the point of failure.

   Points marked (!) are what the code does (confirmed by the refinement theorem):
    (!) a failing ELIF condition is attributed to the ELIF's OWN line (not to the IF), also when
        it is one of the ELIFs that are evaluated after the taken arm (FA_Later);
    (!) a failing WHILE condition is attributed to the WHILE line alone, although it is evaluated
        inside the iteration's block (counter bound, no flag);
    (!) a loop head appears ONCE in the chain whatever the iteration that fails;
    (!) a REPEAT count that is not a number, a non-integral float, or outside 0..20000 is
        InvalidArguments; the count is checked again before every iteration and after the last;
    (!) the expression of VAR is evaluated BEFORE the name is checked. *)
From Coq Require Import NArith ZArith List Bool.
From DS Require Import Base PyStr Values Expr TabParse IdentSpec CoreLang.
Import ListNotations.

(* P holds of every element *)
Definition every {A} (P : A -> Prop) : list A -> Prop :=
  fix go l := match l with [] => True | a :: r => P a /\ go r end.

(* every VAR of the statement (at any depth) assigns to an identifier.  The success relation
   [exec] of CoreLang.v does not look at names (E_Var has no side condition): it is the meaning of
   statements whose names are identifiers, and the error judgement uses it for those only. *)
Fixpoint names_ok (s : stmt) : Prop :=
  match s with
  | SVar x _ => identb x = true
  | SIf arms els =>
      every (fun cb : str * list stmt => let (_, b) := cb in every names_ok b) arms /\
      match els with Some b => every names_ok b | None => True end
  | SRepeat _ _ b => every names_ok b
  | SWhile _ _ b => every names_ok b
  | _ => True
  end.
Definition names_ok_list (p : list stmt) : Prop := every names_ok p.

Section Errors.
Variable fo : FloatOps.
Notation value := (value fo).
Variable sys : store fo.

(* the expression does not evaluate: the evaluator returns the compile error e *)
Definition eval_err (f : option bool) (vs : store fo) (e : str) (er : errcls) : Prop :=
  tokenize fo (visible fo sys f vs) e = Err er.

(* the first of the conditions of [arms] (the ELIFs after the taken arm, the first one written at
   line n) that does not evaluate, with flag true in store vs: class er, at line m *)
Inductive later_fails (vs : store fo) : Z -> list (str * list stmt) -> errcls -> Z -> Prop :=
| LF_Here : forall n c body rest er,
    eval_err (Some true) vs c er ->
    later_fails vs n ((c, body) :: rest) er n
| LF_Next : forall n c body rest v er m,
    eval fo sys (Some true) vs c v ->
    later_fails vs (n + 1 + sum_sizes size body)%Z rest er m ->
    later_fails vs n ((c, body) :: rest) er m.

Inductive fails : option bool -> store fo -> Z -> stmt -> errcls -> bool -> list Z -> Prop :=
| F_EmitEval : forall f vs n name e er,
    eval_err f vs e er ->
    fails f vs n (SEmitEval name e) er true [n]
| F_VarExpr : forall f vs n x e er,
    eval_err f vs e er ->
    fails f vs n (SVar x e) er true [n]
| F_VarName : forall f vs n x e v,
    (* (!) the expression first, then the name *)
    eval fo sys f vs e v -> identb x = false ->
    fails f vs n (SVar x e) EUnacceptableVarName true [n]
| F_If : forall f vs n arms els er a ch,
    fails_arms (match f with Some b => b | None => false end) vs n arms els er a ch ->
    fails f vs n (SIf arms els) er a ch
| F_Repeat : forall f vs n c e body er a ch,
    fails_repeat f c e body n 0 vs er a ch ->
    fails f vs n (SRepeat c e body) er a ch
| F_While : forall f vs n c e body er a ch,
    fails_while c e body n 0 vs er a ch ->
    fails f vs n (SWhile c e body) er a ch

(* a list written from line n on: the first statement fails, or it succeeds normally and the rest
   (written after it) fails *)
with fails_list : option bool -> store fo -> Z -> list stmt -> errcls -> bool -> list Z -> Prop :=
| FL_Here : forall f vs n s r er a ch,
    fails f vs n s er a ch ->
    fails_list f vs n (s :: r) er a ch
| FL_Later : forall f vs n s r f1 vs1 o1 er a ch,
    exec fo sys f vs s Normal f1 vs1 o1 -> names_ok s ->
    fails_list f1 vs1 (n + size s)%Z r er a ch ->
    fails_list f vs n (s :: r) er a ch

(* the remaining arms of a chain, the next one written at line n; b = the flag while its
   condition is evaluated *)
with fails_arms : bool -> store fo -> Z -> list (str * list stmt) -> option (list stmt) ->
                  errcls -> bool -> list Z -> Prop :=
| FA_Cond : forall b vs n c body rest els er,
    (* (!) at the arm's own line, IF or ELIF *)
    eval_err (Some b) vs c er ->
    fails_arms b vs n ((c, body) :: rest) els er false [n]
| FA_Body : forall b vs n c body rest els v er a ch,
    eval fo sys (Some b) vs c v -> truthy fo v = true ->
    fails_list None vs (n + 1)%Z body er a ch ->
    fails_arms b vs n ((c, body) :: rest) els er a (n :: ch)
| FA_Later : forall b vs n c body rest els v f1 vs1 out er m,
    (* (!) the body ended normally, then a later ELIF condition does not evaluate *)
    eval fo sys (Some b) vs c v -> truthy fo v = true ->
    exec_list fo sys None vs body Normal f1 vs1 out -> names_ok_list body ->
    later_fails (copy_back fo vs vs1) (n + 1 + sum_sizes size body)%Z rest er m ->
    fails_arms b vs n ((c, body) :: rest) els er false [m]
| FA_Skip : forall b vs n c body rest els v er a ch,
    eval fo sys (Some b) vs c v -> truthy fo v = false ->
    fails_arms false vs (n + 1 + sum_sizes size body)%Z rest els er a ch ->
    fails_arms b vs n ((c, body) :: rest) els er a ch
| FA_Else : forall b vs n body er a ch,
    fails_list None vs (n + 1)%Z body er a ch ->
    fails_arms b vs n [] (Some body) er a (n :: ch)

(* REPEAT written at line n, from iteration k on *)
with fails_repeat : option bool -> option str -> str -> list stmt -> Z -> Z -> store fo ->
                    errcls -> bool -> list Z -> Prop :=
| FR_Count : forall f c e body n k vs er,
    eval_err f vs e er ->
    fails_repeat f c e body n k vs er false [n]
| FR_NotCount : forall f c e body n k vs v,
    eval fo sys f vs e v -> count_of fo v = None ->
    fails_repeat f c e body n k vs EInvalidArguments false [n]
| FR_Range : forall f c e body n k vs v m,
    eval fo sys f vs e v -> count_of fo v = Some m -> ~ (0 <= m <= loop_max)%Z ->
    fails_repeat f c e body n k vs EInvalidArguments false [n]
| FR_Body : forall f c e body n k vs v m er a ch,
    eval fo sys f vs e v -> count_of fo v = Some m -> (0 <= m <= loop_max)%Z -> (k < m)%Z ->
    fails_list None (with_counter fo c k vs) (n + 1)%Z body er a ch ->
    (* (!) the head once, whatever k *)
    fails_repeat f c e body n k vs er a (n :: ch)
| FR_Iter : forall f c e body n k vs v m sg f1 vs1 o1 er a ch,
    eval fo sys f vs e v -> count_of fo v = Some m -> (0 <= m <= loop_max)%Z -> (k < m)%Z ->
    exec_list fo sys None (with_counter fo c k vs) body sg f1 vs1 o1 -> sg <> Broke ->
    names_ok_list body ->
    fails_repeat f c e body n (k + 1)%Z (copy_back fo vs vs1) er a ch ->
    fails_repeat f c e body n k vs er a ch

(* WHILE written at line n, from iteration k on *)
with fails_while : option str -> str -> list stmt -> Z -> Z -> store fo ->
                   errcls -> bool -> list Z -> Prop :=
| FW_Limit : forall c e body n k vs,
    (* the 20002nd evaluation of the condition does not happen *)
    (loop_max < k)%Z ->
    fails_while c e body n k vs EExceededLimit false [n]
| FW_Cond : forall c e body n k vs er,
    (k <= loop_max)%Z ->
    (* (!) inside the block (counter, no flag), but blamed on the WHILE line alone *)
    eval_err None (with_counter fo c k vs) e er ->
    fails_while c e body n k vs er false [n]
| FW_Body : forall c e body n k vs v er a ch,
    (k <= loop_max)%Z ->
    eval fo sys None (with_counter fo c k vs) e v -> truthy fo v = true ->
    fails_list None (with_counter fo c k vs) (n + 1)%Z body er a ch ->
    fails_while c e body n k vs er a (n :: ch)
| FW_Iter : forall c e body n k vs v sg f1 vs1 o1 er a ch,
    (k <= loop_max)%Z ->
    eval fo sys None (with_counter fo c k vs) e v -> truthy fo v = true ->
    exec_list fo sys None (with_counter fo c k vs) body sg f1 vs1 o1 -> sg <> Broke ->
    names_ok_list body ->
    fails_while c e body n (k + 1)%Z (copy_back fo vs vs1) er a ch ->
    fails_while c e body n k vs er a ch.

Scheme fails_mind := Minimality for fails Sort Prop
  with fails_list_mind := Minimality for fails_list Sort Prop
  with fails_arms_mind := Minimality for fails_arms Sort Prop
  with fails_repeat_mind := Minimality for fails_repeat Sort Prop
  with fails_while_mind := Minimality for fails_while Sort Prop.
Combined Scheme fails_all_mind from fails_mind, fails_list_mind, fails_arms_mind, fails_repeat_mind, fails_while_mind.

End Errors.

(* a whole program fails: from the initial state, written from line 1 on *)
Definition fails_prog (fo : FloatOps) (p : list stmt) (er : errcls) (arg : bool) (chain : list Z) : Prop :=
  fails_list fo (initial_sys fo) None [] 1%Z p er arg chain.
