(* C14 (extension) -- vocabulary: chains of nested blocks of several kinds, chains of nested calls,
   direct recursion, and sequences of chains. *)
From Coq Require Import NArith ZArith List Bool.
From DS Require Import Base PyStr Values Expr TabParse Constants Interp LimitSpec.
Import ListNotations.

Definition s_REPEAT_1 : str := [82;69;80;69;65;84;32;49]%N.        (* "REPEAT 1" *)
Definition s_WHILE_TRUE : str := [87;72;73;76;69;32;84;82;85;69]%N. (* "WHILE TRUE" *)
Definition s_BREAKLOOP : str := [66;82;69;65;75;76;79;79;80]%N.    (* "BREAKLOOP" *)
Definition s_FUNC_f : str := [70;85;78;67;32;102]%N.               (* "FUNC f" *)
Definition s_RUN_f : str := [82;85;78;32;102]%N.                   (* "RUN f" *)
Definition s_f : str := [102]%N.                                   (* "f" *)

(* the three block constructs that push one stack each *)
Inductive kind := KIf | KRepeat | KWhile.

Definition hdr (k : kind) : str :=
  match k with KIf => s_IF_TRUE | KRepeat => s_REPEAT_1 | KWhile => s_WHILE_TRUE end.

(* `WHILE TRUE` needs a BREAKLOOP as the last line of ITS OWN block (a BREAKLOOP only ends the
   innermost loop: with one at the very bottom only, every outer WHILE TRUE would run into the
   iteration limit instead) *)
Definition tail_of (k : kind) (m : Z) : list item :=
  match k with KWhile => [Ln s_BREAKLOOP m] | _ => [] end.

(* number of lines of a chain *)
Fixpoint nlines (ks : list kind) : Z :=
  match ks with
  | [] => 1
  | KWhile :: r => (2 + nlines r)%Z
  | _ :: r => (1 + nlines r)%Z
  end.

(* a chain of nested constructs, outermost first, numbered from n, `STRING x` at the bottom:
     IF TRUE
         REPEAT 1
             WHILE TRUE
                 STRING x
                 BREAKLOOP                                                    *)
Fixpoint knest (n : Z) (ks : list kind) : list item :=
  match ks with
  | [] => [Ln s_STRING_x n]
  | k :: r => [Ln (hdr k) n; Blk (knest (n + 1) r ++ tail_of k (n + 1 + nlines r))]
  end.

(* chains one after the other (the numbering restarts: line numbers play no role) *)
Definition kseq (n : Z) (kss : list (list kind)) : list item := concat (map (knest n) kss).

(* k nested calls: every level defines `f` (shadowing the caller's) and runs it
     FUNC f
         FUNC f
             STRING x
         RUN f
     RUN f                                                                    *)
Fixpoint fnest (n : Z) (k : nat) : list item :=
  match k with
  | O => [Ln s_STRING_x n]
  | S k' => [Ln s_FUNC_f n; Blk (fnest (n + 1) k'); Ln s_RUN_f (n + 1 + (2 * Z.of_nat k' + 1))]
  end.

(* direct recursion:   FUNC f / RUN f   then   RUN f *)
Definition rec_prog : list item := [Ln s_FUNC_f 1; Blk [Ln s_RUN_f 2]; Ln s_RUN_f 3].
