(* C03 / C11: specification vocabulary for forests WITH quoted (triple-quote) regions.
   Extends Spec/BlockTree.v; pinned by hand, independent of the parser's code. *)
From Coq Require Import NArith ZArith List Bool.
From DS Require Import Base PyStr TabParse BlockTree.
Import ListNotations.

(* a statement with ordinary children, or a statement whose argument group is a verbatim region *)
Inductive nodeq :=
| StmtQ (c : str) (kids : list nodeq)
| QuotedQ (c : str) (lines : list str).
Definition forestq := list nodeq.

(* the lines of a quoted region, as written one level below the statement: the opening
   delimiter, the lines, the closing delimiter *)
Definition region (ls : list str) : list str := triple_quote :: ls ++ [triple_quote].

(* one statement per line; children and the quoted region (delimiters included) are written one
   indent unit deeper than the statement; the lines of the region are prefixed by that
   indentation and otherwise written as they are *)
Fixpoint render_nodeq (u : str) (nd : nodeq) : list str :=
  match nd with
  | StmtQ c kids => c :: map (app u) (flat_map (render_nodeq u) kids)
  | QuotedQ c ls => c :: map (app u) (region ls)
  end.
Definition renderq (u : str) (f : forestq) : list str := flat_map (render_nodeq u) f.

(* number of text lines *)
Fixpoint node_sizeq (nd : nodeq) : nat :=
  match nd with
  | StmtQ _ kids => S (list_sum (map node_sizeq kids))
  | QuotedQ _ ls => S (S (S (length ls)))
  end.
Definition forest_sizeq (f : forestq) : nat := list_sum (map node_sizeq f).

(* a block of plain lines *)
Definition lines_block (ls : list preline) : list item := map (fun cn => Ln (fst cn) (snd cn)) ls.

(* the tree the parser must produce when the first line has number [n]: line numbers are
   positions; the lines of a region are kept verbatim with their own numbers (the opening
   delimiter is line n+1, so the first line of the region is n+2); the delimiters are not in
   the tree *)
Fixpoint expected_nodeq (nd : nodeq) (n : Z) {struct nd} : list item :=
  match nd with
  | StmtQ c kids =>
      Ln c n ::
      match kids with
      | [] => []
      | _ => [Blk ((fix go (l : list nodeq) (m : Z) {struct l} : list item :=
                      match l with
                      | [] => []
                      | k :: r => expected_nodeq k m ++ go r (m + Z.of_nat (node_sizeq k))%Z
                      end) kids (n + 1)%Z)]
      end
  | QuotedQ c ls => [Ln c n; Blk (lines_block (number_from (n + 2)%Z ls))]
  end.
Fixpoint expected_forestq (f : forestq) (n : Z) : list item :=
  match f with
  | [] => []
  | k :: r => expected_nodeq k n ++ expected_forestq r (n + Z.of_nat (node_sizeq k))%Z
  end.

(* the same when blank lines are allowed inside a region: they are dropped, the other lines
   keep their numbers *)
Fixpoint expected_nodeq_b (nd : nodeq) (n : Z) {struct nd} : list item :=
  match nd with
  | StmtQ c kids =>
      Ln c n ::
      match kids with
      | [] => []
      | _ => [Blk ((fix go (l : list nodeq) (m : Z) {struct l} : list item :=
                      match l with
                      | [] => []
                      | k :: r => expected_nodeq_b k m ++ go r (m + Z.of_nat (node_sizeq k))%Z
                      end) kids (n + 1)%Z)]
      end
  | QuotedQ c ls => [Ln c n; Blk (lines_block (filter nonblank_line (number_from (n + 2)%Z ls)))]
  end.
Fixpoint expected_forestq_b (f : forestq) (n : Z) : list item :=
  match f with
  | [] => []
  | k :: r => expected_nodeq_b k n ++ expected_forestq_b r (n + Z.of_nat (node_sizeq k))%Z
  end.

(* a line of a region: anything (leading blanks, quotes, ...) that is not blank and does not
   begin with the delimiter -- such a line would close the region *)
Definition region_line (l : str) : Prop := is_blank l = false /\ startswith triple_quote l = false.
(* the lax form: blank lines allowed *)
Definition region_line_b (l : str) : Prop := is_blank l = true \/ startswith triple_quote l = false.

Inductive wf_nodeq (P : str -> Prop) : nodeq -> Prop :=
| wf_stmtq : forall c kids, wf_content c -> Forall (wf_nodeq P) kids -> wf_nodeq P (StmtQ c kids)
| wf_quotedq : forall c ls, wf_content c -> Forall P ls -> wf_nodeq P (QuotedQ c ls).
Definition wf_forestq (f : forestq) : Prop := Forall (wf_nodeq region_line) f.
Definition wf_forestq_b (f : forestq) : Prop := Forall (wf_nodeq region_line_b) f.

(* forests without regions are the forests of Spec/BlockTree.v *)
Fixpoint embed (nd : node) : nodeq :=
  match nd with Stmt c kids => StmtQ c (map embed kids) end.
