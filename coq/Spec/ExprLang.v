(* C04 (end to end): the expression language with parentheses and "!( )" -- abstract syntax, the
   printer (whitespace from a layout supply, parentheses where precedence / left-associativity require
   them, explicit redundant parentheses) and the reference evaluator.  Definitions only; the theorem
   [tokenize_print] (tokenizer on the printed text = reference evaluator) is in Proofs/ExprPrint.v. *)
From Coq Require Import NArith ZArith List Bool Arith.
From DS Require Import Base PyStr Values Tables Expr ExprAst Spelling.
Import ListNotations.

(* ------------------------------------------------------------------ parentheses outside string literals *)
(* One character of a text read inside a group: [d] = number of parentheses of the text that are
   open, [ign] = inside a string literal (the scanner's ignore_paren).  None: a closing parenthesis
   without an opening one, or more than [lim] open parentheses. *)
Fixpoint prun (lim : nat) (s : str) (d : nat) (ign : bool) : option (nat * bool) :=
  match s with
  | [] => Some (d, ign)
  | c :: r =>
      if ign then prun lim r d (negb (c =? q)%N)
      else if (c =? q)%N then prun lim r d true
      else if (c =? lpar)%N then (if S d <=? lim then prun lim r (S d) false else None)
      else if (c =? rpar)%N then match d with O => None | S d' => prun lim r d' false end
      else prun lim r d false
  end.

(* balanced outside string literals, every string literal closed, nesting depth at most lim *)
Definition balanced (lim : nat) (s : str) : Prop := prun lim s 0 false = Some (0, false).

(* ------------------------------------------------------------------ the group token *)
Definition spell_group (inner : str) (neg : bool) : str :=
  (if neg then [bang] else []) ++ lpar :: inner ++ [rpar].

(* the spelled-token vocabulary of Spec/Spelling.v, extended with groups *)
Inductive gtok :=
| GTok (t : stok)
| SGroup (inner : str) (neg : bool).   (* "(" inner ")"  or  "!(" inner ")" *)

Definition spell_gtok (t : gtok) : str :=
  match t with
  | GTok t => spell_tok t
  | SGroup inner neg => spell_group inner neg
  end.

(* the generated paren_limit is 100: the parentheses of the group itself count *)
Definition group_limit : nat := 99.

(* ------------------------------------------------------------------ abstract syntax *)
Inductive expr :=
| ELit (t : stok)                                  (* SInt / SNeg / SStr / SBool *)
| EVar (name : str)
| EBin (oc : opclassid) (sym : str) (a b : expr)
| EParen (e : expr)                                (* explicit (possibly redundant) parentheses *)
| ENot (e : expr).                                 (* !( e ) *)

Definition is_lit (t : stok) : bool :=
  match t with SInt _ | SNeg _ | SStr _ | SBool _ => true | _ => false end.

(* rank of an operator: index of its precedence row, 0 binds tightest
   (Proofs/TreeProofs.v [rank_table]: ^ 0;  * / // % 1;  + - 2;  the six comparisons 3;  "," 4) *)
Definition rank (sym : str) : option nat := rank_in all_rows sym.

Definition etop (e : expr) : option nat :=
  match e with EBin _ sym _ _ => rank sym | _ => None end.

(* a left operand needs parentheses when its top operator is looser than the parent's,
   a right operand when it is looser or of equal rank (operators of equal rank associate left) *)
Definition need_left (sym : str) (a : expr) : bool :=
  match rank sym, etop a with Some k, Some ka => k <? ka | _, _ => false end.
Definition need_right (sym : str) (b : expr) : bool :=
  match rank sym, etop b with Some k, Some kb => k <=? kb | _, _ => false end.

(* insert the parentheses that precedence and associativity require *)
Fixpoint paren (e : expr) : expr :=
  match e with
  | EBin oc sym a b =>
      EBin oc sym (if need_left sym a then EParen (paren a) else paren a)
                  (if need_right sym b then EParen (paren b) else paren b)
  | EParen e => EParen (paren e)
  | ENot e => ENot (paren e)
  | _ => e
  end.

(* no further parentheses are needed: every operand already has a tight enough top operator (the left
   one may have the same rank).  [paren e] always is (Proofs/ExprPrint.v [ewb_paren]). *)
Fixpoint ewb (e : expr) : Prop :=
  match e with
  | EBin _ sym a b =>
      exists k, rank sym = Some k /\ ewb a /\ ewb b /\
                (forall ka, etop a = Some ka -> ka <= k) /\
                (forall kb, etop b = Some kb -> kb < k)
  | EParen e | ENot e => ewb e
  | _ => True
  end.

(* ------------------------------------------------------------------ printing *)
(* number of whitespace slots an expression consumes: one before every token, one before every
   closing parenthesis *)
Fixpoint slots (e : expr) : nat :=
  match e with
  | ELit _ | EVar _ => 1
  | EBin _ _ a b => slots a + 1 + slots b
  | EParen e | ENot e => slots e + 2
  end.

Section Print.
Variable ws : nat -> str.     (* the whitespace run put in slot i *)

(* the text of e, slots n, n+1, ...; no parentheses are added here; without the final run *)
Fixpoint body (e : expr) (n : nat) : str :=
  match e with
  | ELit t => ws n ++ spell_tok t
  | EVar x => ws n ++ x
  | EBin _ sym a b => body a n ++ ws (n + slots a) ++ sym ++ body b (n + slots a + 1)
  | EParen e => ws n ++ [lpar] ++ (body e (n + 1) ++ ws (n + 1 + slots e)) ++ [rpar]
  | ENot e => ws n ++ [bang; lpar] ++ (body e (n + 1) ++ ws (n + 1 + slots e)) ++ [rpar]
  end.

Definition text (e : expr) (n : nat) : str := body e n ++ ws (n + slots e).
End Print.

(* a layout supplies the runs in order; missing runs are empty (as in Spec/Spelling.v) *)
Definition ws_of (lay : layout) : nat -> str := fun i => nth i lay [].

Definition print (lay : layout) (e : expr) : str := text (ws_of lay) (paren e) 0.

(* nesting depth of the parentheses *)
Fixpoint gdepth (e : expr) : nat :=
  match e with
  | ELit _ | EVar _ => 0
  | EBin _ _ a b => Nat.max (gdepth a) (gdepth b)
  | EParen e | ENot e => S (gdepth e)
  end.

(* ... of the printed text, i.e. counting the parentheses the printer adds *)
Definition depth (e : expr) : nat := gdepth (paren e).

(* ------------------------------------------------------------------ reference evaluator *)
Section Eval.
Variable fo : FloatOps.
Notation value := (value fo).
Variable vars : vars_t fo.

Definition tok_value (t : stok) : res value :=
  match ptok_of fo vars t with PVal v => Ok v | _ => Crash KOther end.

(* value of a sub-expression (not normalised at the top) *)
Fixpoint eval_in (e : expr) : res value :=
  match e with
  | ELit t => tok_value t
  | EVar x => tok_value (SVar x)
  | EBin oc sym a b => do x <- eval_in a; do y <- eval_in b; apply_op fo oc sym x y
  | EParen e => do v <- eval_in e; Ok (normalise fo v)
  | ENot e => do v <- eval_in e; Ok (py_not fo (normalise fo v))
  end.

(* value of a whole expression *)
Definition eval_ref (e : expr) : res value := do v <- eval_in e; Ok (normalise fo v).

(* well-formed: literals are literals, variables are defined identifiers that do not clash with
   TRUE / FALSE, operators are among the 14 symbols *)
Fixpoint expr_ok (e : expr) : Prop :=
  match e with
  | ELit t => is_lit t = true /\ tok_ok fo vars t
  | EVar x => tok_ok fo vars (SVar x) /\ tok_strict (SVar x)
  | EBin oc sym a b => In (oc, sym) op_table /\ expr_ok a /\ expr_ok b
  | EParen e | ENot e => expr_ok e
  end.

(* every stored value is normalised (an invariant of the interpreter: values are stored after
   [tokenize], which normalises) *)
Definition vars_normal : Prop := Forall (fun kv => normalise fo (snd kv) = snd kv) vars.

End Eval.

(* ------------------------------------------------------------------ integer arithmetic *)
(* integer literals, + - *, parentheses *)
Fixpoint int_expr (e : expr) : bool :=
  match e with
  | ELit (SInt ds) | ELit (SNeg ds) => is_digits ds
  | EBin OCMath sym a b =>
      (str_eqb sym sym_plus || str_eqb sym sym_minus || str_eqb sym sym_times) && int_expr a && int_expr b
  | EParen e => int_expr e
  | _ => false
  end.

Fixpoint zeval (e : expr) : Z :=
  match e with
  | ELit (SInt ds) => Z.of_N (dec_value ds 0)
  | ELit (SNeg ds) => - Z.of_N (dec_value ds 0)
  | EBin _ sym a b =>
      if str_eqb sym sym_plus then zeval a + zeval b
      else if str_eqb sym sym_minus then zeval a - zeval b
      else zeval a * zeval b
  | EParen e => zeval e
  | _ => 0
  end%Z.

(* ------------------------------------------------------------------ redundant parentheses *)
(* e' is e with one pair of parentheses put around some sub-expression *)
Inductive add_paren : expr -> expr -> Prop :=
| ap_here : forall e, add_paren e (EParen e)
| ap_left : forall oc sym a a' b, add_paren a a' -> add_paren (EBin oc sym a b) (EBin oc sym a' b)
| ap_right : forall oc sym a b b', add_paren b b' -> add_paren (EBin oc sym a b) (EBin oc sym a b')
| ap_paren : forall e e', add_paren e e' -> add_paren (EParen e) (EParen e')
| ap_not : forall e e', add_paren e e' -> add_paren (ENot e) (ENot e').

(* all explicit parentheses removed *)
Fixpoint unparen (e : expr) : expr :=
  match e with
  | EBin oc sym a b => EBin oc sym (unparen a) (unparen b)
  | EParen e => unparen e
  | ENot e => ENot (unparen e)
  | _ => e
  end.

(* ------------------------------------------------------------------ flat token lists with groups *)
(* the vocabulary of Spec/Spelling.v with the group token: value / operator / value ..., a group is
   a value; the inner text of a group is any text with balanced parentheses *)
Definition is_gop (t : gtok) : bool := match t with GTok t => is_sop t | SGroup _ _ => false end.

Fixpoint galt_from (op : bool) (toks : list gtok) : Prop :=
  match toks with
  | [] => op = true
  | t :: ts => is_gop t = op /\ galt_from (negb op) ts
  end.
Definition galternating (toks : list gtok) : Prop := galt_from false toks.

Fixpoint gspell (lay : layout) (toks : list gtok) : str :=
  match toks with
  | [] => hd [] lay
  | t :: ts => hd [] lay ++ spell_gtok t ++ gspell (tl lay) ts
  end.

Section GTok.
Variable fo : FloatOps.
Variable vars : vars_t fo.

Definition gptok_of (t : gtok) : ptok fo :=
  match t with
  | GTok t => ptok_of fo vars t
  | SGroup inner neg => PGroup inner neg
  end.

Definition gtok_ok (t : gtok) : Prop :=
  match t with
  | GTok t => tok_ok fo vars t /\ tok_strict t
  | SGroup inner _ => balanced group_limit inner
  end.
End GTok.
