(* Extraction of the executable model for the correspondence driver.
   ExtrOcamlBasic only: no Extract Constant / Extract Inductive of our own; Z, N, positive, nat
   stay extracted inductives. *)
Require Extraction.
Require Import ExtrOcamlBasic.
From DS Require Import Base PyStr Values Expr TabParse Interp Options Cli CliWorld Tables Constants.
Extraction Language OCaml.

Extraction "model.ml" compile_text compile_raw tokenize prepare_text parse_document convert_to
  is_var all_vars Z_to_str N_to_str upper strip split_ws1 default_options palette
  calculate_options rewritten_config options_of_yaml
  cli_run normalise_name main_name parent child.
