(* C04 (scanner part): the scanner recovers exactly the token sequence that was spelled, for every
   whitespace layout (runs of any length, including empty ones); spacing independence. *)
From Coq Require Import NArith ZArith List Bool Lia.
From DS Require Import Base Unicode PyStr Values Tables Constants Expr ExprSafety ExprFuel ExprTotal
  ExprAst TreeProofs Spelling ScanRun ScanTokens.
Import ListNotations.

(* ------------------------------------------------------------------ first characters of spellings *)
Local Open Scope N_scope.

Lemma start_split : forall c, is_ident_start c = true ->
  isnumeric_c c = false /\ isspace_c c = false /\ (c =? 34) = false /\ (c =? 45) = false /\
  (c =? 46) = false /\ (c =? 47) = false /\ (c =? 61) = false.
Proof.
  intros c H. apply start_facts_ok in H. unfold start_facts in H.
  repeat (apply andb_true_iff in H; destruct H as [H ?]).
  repeat match goal with Hn : negb _ = true |- _ => apply negb_true_iff in Hn end. auto 10.
Qed.

Lemma sep_split : forall c, sep_facts c = true ->
  isnumeric_c c = false /\ (c =? 46) = false /\ is_ident_char c = false.
Proof.
  intros c H. unfold sep_facts in H.
  repeat (apply andb_true_iff in H; destruct H as [H ?]).
  repeat match goal with Hn : negb _ = true |- _ => apply negb_true_iff in Hn end.
  repeat split; auto. unfold is_ident_char.
  repeat match goal with Hn : _ = false |- _ => rewrite Hn end. reflexivity.
Qed.

Lemma val_first_slash : forall c, val_first c = true -> (c =? 47) = false /\ (c =? 61) = false.
Proof.
  intros c H. unfold val_first in H.
  apply orb_true_iff in H. destruct H as [H|H];
    [apply orb_true_iff in H; destruct H as [H|H]; [apply orb_true_iff in H; destruct H as [H|H]|]|].
  - destruct (digit_split c H) as [_ [_ [_ [H1 H2]]]]. auto.
  - apply N.eqb_eq in H. subst c. split; reflexivity.
  - apply N.eqb_eq in H. subst c. split; reflexivity.
  - destruct (start_split c H) as [_ [_ [_ [_ [_ [H1 H2]]]]]]. auto.
Qed.

Local Close Scope N_scope.

Section WithFloats.
Variable fo : FloatOps.
Notation value := (value fo).
Notation ptok := (ptok fo).
Notation vars_t := (vars_t fo).
Notation TS := (TS fo).
Notation leads := (leads fo).
Notation reaches := (reaches fo).
Notation ptok_of := (ptok_of fo).
Notation tok_ok := (tok_ok fo).
Notation well_formed := (well_formed fo).
Notation boundaries_ok := (boundaries_ok fo).
Notation follow_ok := (follow_ok fo).

Variable vars : vars_t.

Lemma startswith_snoc_in : forall (n w : str) c, startswith (n ++ [c]) w = true -> n <> [] ->
  exists a m, w = a :: m /\ In c m.
Proof.
  intros n w c H Hn. apply startswith_exact in H. destruct H as [m ->].
  destruct n as [|a n]; [contradiction|]. exists a, ((n ++ [c]) ++ m). split; [reflexivity|].
  apply in_or_app. left. apply in_or_app. right. left. reflexivity.
Qed.

(* a separator (whitespace, first character of an operator) after a name never continues a keyword *)
Lemma sep_not_keyword : forall (name : str) c w,
  sep_facts c = true -> name <> [] -> In w [s_TRUE; s_FALSE] -> startswith (name ++ [c]) w = false.
Proof.
  intros name c w Hsep Hn Hw. destruct (startswith (name ++ [c]) w) eqn:E; [|reflexivity].
  exfalso. destruct (startswith_snoc_in name w c E Hn) as [a [m [-> Hin]]].
  cbn [In] in Hw. destruct Hw as [Hw|[Hw|[]]]; inversion Hw; subst a m; cbn [In] in Hin;
    repeat (destruct Hin as [Hin|Hin]; [subst c; vm_compute in Hsep; discriminate Hsep|]);
    contradiction.
Qed.

(* the first character of a spelled token *)
Lemma spell_tok_first : forall t, tok_ok vars t ->
  exists c m, spell_tok t = c :: m /\ (if is_sop t then op_first c else val_first c) = true.
Proof.
  intros t H. destruct t as [ds|ds|body|b|name|oc sym]; cbn [tok_ok spell_tok is_sop] in *.
  - destruct ds as [|d ds]; [discriminate H|]. exists d, ds. split; [reflexivity|].
    unfold is_digits in H. cbn [forallb] in H. apply andb_true_iff in H. destruct H as [Hd _].
    unfold val_first. rewrite Hd. reflexivity.
  - eexists. eexists. split; reflexivity.
  - eexists. eexists. split; reflexivity.
  - destruct b; eexists; eexists; split; reflexivity.
  - destruct H as [Hid _]. destruct name as [|c m]; [discriminate Hid|]. exists c, m.
    split; [reflexivity|]. cbn [name_start] in Hid.
    unfold val_first. rewrite Hid. apply orb_true_r.
  - unfold op_table in H. cbn [In] in H.
    repeat (destruct H as [H|H]; [inversion H; subst oc sym; eexists; eexists; split; reflexivity|]).
    contradiction.
Qed.

(* the first character of a spelled token list: whitespace, or the first character of a token *)
Lemma spell_head : forall toks lay op,
  alt_from op toks -> well_formed vars toks -> layout_ok lay ->
  match spell lay toks with
  | [] => True
  | c :: _ => isspace_c c = true \/ (if op then op_first c else val_first c) = true
  end.
Proof.
  intros toks lay op Ha Hw Hl.
  assert (Hws : forallb isspace_c (hd [] lay) = true).
  { destruct lay as [|ws lay]; [reflexivity|]. inversion Hl. assumption. }
  destruct toks as [|t ts]; cbn [spell].
  - destruct (hd [] lay) as [|c ws]; [exact I|]. cbn [forallb] in Hws.
    apply andb_true_iff in Hws. left. apply Hws.
  - destruct (hd [] lay) as [|c ws]; cbn [app].
    + inversion Hw as [|x l Ht _]; subst x l. cbn [alt_from] in Ha. destruct Ha as [Hop _].
      destruct (spell_tok_first t Ht) as [c [m [-> Hc]]]. cbn [app]. right.
      rewrite Hop in Hc. exact Hc.
    + cbn [forallb] in Hws. apply andb_true_iff in Hws. left. apply Hws.
Qed.

Lemma layout_tl : forall lay, layout_ok lay -> layout_ok (tl lay).
Proof. intros [|ws lay] H; [exact H|]. inversion H. assumption. Qed.

Lemma layout_hd : forall lay, layout_ok lay -> forallb isspace_c (hd [] lay) = true.
Proof. intros [|ws lay] H; [reflexivity|]. inversion H. assumption. Qed.

(* ------------------------------------------------------------------ the main induction *)
Lemma spelled_run : forall toks lay op out,
  alt_from op toks -> well_formed vars toks -> layout_ok lay -> boundaries_ok vars lay toks ->
  Nat.even (length out) = negb op ->
  reaches vars (TS (spell lay toks) op out) (Ok (rev out ++ map (ptok_of vars) toks)).
Proof.
  induction toks as [|t ts IH]; intros lay op out Ha Hw Hl Hb Hpar.
  - cbn [alt_from] in Ha. subst op. cbn [spell map]. rewrite app_nil_r.
    rewrite <- (app_nil_r (hd [] lay)).
    apply (ws_run fo vars (hd [] lay) [] true out (layout_hd lay Hl)).
    apply reaches_end. exact Hpar.
  - cbn [alt_from] in Ha. destruct Ha as [Hop Ha].
    inversion Hw as [|x l Ht Hw']; subst x l.
    cbn [boundaries_ok] in Hb. destruct Hb as [Hfol Hb].
    cbn [spell map].
    apply (ws_run fo vars (hd [] lay) _ op out (layout_hd lay Hl)).
    set (rest := spell (tl lay) ts) in *.
    pose proof (spell_head ts (tl lay) (negb op) Ha Hw' (layout_tl lay Hl)) as Hhead.
    fold rest in Hhead.
    assert (Hnext : reaches vars (TS rest (negb op) (ptok_of vars t :: out))
                      (Ok (rev out ++ ptok_of vars t :: map (ptok_of vars) ts))).
    { replace (rev out ++ ptok_of vars t :: map (ptok_of vars) ts)
        with (rev (ptok_of vars t :: out) ++ map (ptok_of vars) ts)
        by (cbn [rev]; rewrite <- app_assoc; reflexivity).
      apply IH; auto using layout_tl.
      cbn [length]. rewrite Nat.even_succ, <- Nat.negb_even, Hpar. reflexivity. }
    revert Hnext.
    assert (Hnf : negb op = true -> num_follow rest).
    { intro Hno. rewrite Hno in Hhead.
      unfold num_follow. destruct rest as [|c rest']; [exact I|].
      assert (Hsep : sep_facts c = true).
      { destruct Hhead as [Hs|Hs]; [apply space_sep in Hs|apply op_first_sep in Hs]; apply Hs. }
      apply sep_split in Hsep. destruct Hsep as [H1 [H2 _]]. split; assumption. }
    destruct t as [ds|ds|body|b|name|oc sym]; cbn [is_sop] in Hop; subst op;
      cbn [tok_ok] in Ht; cbn [spell_tok ptok_of negb] in *.
    + (* digits *)
      apply int_token; [exact Ht|]. apply Hnf. reflexivity.
    + (* negative literal *)
      cbn [app]. apply neg_token; [exact Ht|]. apply Hnf. reflexivity.
    + (* string literal *)
      replace ((34%N :: body ++ [34%N]) ++ rest) with (q :: body ++ q :: rest)
        by (cbn [app]; rewrite <- app_assoc; reflexivity).
      apply str_token. exact Ht.
    + (* TRUE / FALSE *)
      apply (bool_token fo vars b rest out).
    + (* variable *)
      destruct Ht as [Hid [Hbs Hlk]].
      destruct (lookup name vars) as [v|] eqn:Hv; [|contradiction].
      destruct name as [|c0 n']; [discriminate Hid|].
      cbn [name_start] in Hid.
      destruct (start_split c0 Hid) as [S1 [S2 [S3 [S4 [S5 _]]]]].
      unfold kw_free in Hbs. cbn [forallb] in Hbs.
      apply andb_true_iff in Hbs. destruct Hbs as [HT Hbs].
      apply andb_true_iff in Hbs. destruct Hbs as [HF _].
      apply negb_true_iff in HT. apply negb_true_iff in HF.
      cbn [follow_ok] in Hfol.
      apply var_token.
      * repeat split; assumption.
      * intros w Hin. rewrite bool_keywords_eq in Hin. cbn [In] in Hin.
        destruct Hin as [<-|[<-|[]]]; assumption.
      * destruct rest as [|c rest']; apply cands_empty; intros w Hin;
          rewrite bool_keywords_eq in Hin.
        -- apply Hfol. exact Hin.
        -- assert (Hsep : sep_facts c = true).
           { destruct Hhead as [Hs|Hs]; [apply space_sep in Hs|apply op_first_sep in Hs]; apply Hs. }
           apply sep_not_keyword; [exact Hsep|discriminate|exact Hin].
      * exact Hv.
      * unfold kw_follow. destruct rest as [|c rest']; [exact I|].
        apply cands_empty. exact Hfol.
    + (* operator *)
      apply op_token; [exact Ht|].
      unfold kw_follow. destruct rest as [|c rest']; [exact I|].
      assert (Hc : (c =? 47)%N = false /\ (c =? 61)%N = false).
      { destruct Hhead as [Hs|Hs]; [apply space_sep in Hs; tauto|apply val_first_slash; exact Hs]. }
      destruct Hc as [H47 H61]. apply op_follow_ok; assumption.
Qed.

(* ------------------------------------------------------------------ scanner correctness *)
Theorem scan_spelled : forall lay toks,
  alternating toks -> well_formed vars toks -> layout_ok lay -> boundaries_ok vars lay toks ->
  convert_string fo vars (spell lay toks) = Ok (map (ptok_of vars) toks).
Proof.
  intros lay toks Ha Hw Hl Hb. apply reaches_convert.
  apply (spelled_run toks lay false [] Ha Hw Hl Hb). reflexivity.
Qed.

(* when every defined name is an identifier, every layout has good boundaries *)
Lemma vars_ident_follow : forall name c,
  vars_ident fo vars -> name <> [] -> is_ident_char c = false ->
  forall w, In w (map fst vars) -> startswith (name ++ [c]) w = false.
Proof.
  intros name c Hvi Hn Hc w Hw. destruct (startswith (name ++ [c]) w) eqn:Hs; [|reflexivity].
  exfalso. destruct (startswith_snoc_in name w c Hs Hn) as [a [m [-> Hin]]].
  apply in_map_iff in Hw. destruct Hw as [[k x] [Hk Hkx]]. cbn [fst] in Hk. subst k.
  unfold vars_ident in Hvi. rewrite Forall_forall in Hvi. specialize (Hvi _ Hkx). cbn [fst ident] in Hvi.
  apply andb_true_iff in Hvi. destruct Hvi as [_ Hm]. rewrite forallb_forall in Hm.
  specialize (Hm c Hin). congruence.
Qed.

Theorem boundaries_of_ident : forall toks lay op,
  vars_ident fo vars -> alt_from op toks -> well_formed vars toks -> strict toks -> layout_ok lay ->
  boundaries_ok vars lay toks.
Proof.
  induction toks as [|t ts IH]; intros lay op Hvi Ha Hw Hst Hl; [exact I|].
  cbn [alt_from] in Ha. destruct Ha as [Hop Ha].
  inversion Hw as [|x l Ht Hw']; subst x l.
  inversion Hst as [|x l Hs Hst']; subst x l.
  cbn [boundaries_ok]. split; [|apply (IH (tl lay) (negb op)); auto using layout_tl].
  pose proof (spell_head ts (tl lay) (negb op) Ha Hw' (layout_tl lay Hl)) as Hhead.
  destruct t as [ds|ds|body|b|name|oc sym]; cbn [follow_ok]; try exact I.
  cbn [is_sop] in Hop. subst op. cbn [negb] in Hhead.
  cbn [tok_strict] in Hs. destruct Hs as [Hid Hbs].
  assert (Hpre : forall w, In w [s_TRUE; s_FALSE] -> startswith name w = false).
  { unfold bool_safe in Hbs. rewrite forallb_forall in Hbs. intros w Hw0.
    specialize (Hbs w Hw0). apply andb_true_iff in Hbs. destruct Hbs as [_ Hbs].
    apply negb_true_iff in Hbs. exact Hbs. }
  destruct (spell (tl lay) ts) as [|c rest']; [exact Hpre|].
  assert (Hsep : sep_facts c = true).
  { destruct Hhead as [Hs|Hs]; [apply space_sep in Hs|apply op_first_sep in Hs]; apply Hs. }
  apply sep_split in Hsep. destruct Hsep as [_ [_ Hic]].
  apply vars_ident_follow; auto. intro He. subst name. discriminate Hid.
Qed.

Corollary boundaries_of_ident_alt : forall toks lay,
  vars_ident fo vars -> alternating toks -> well_formed vars toks -> strict toks -> layout_ok lay ->
  boundaries_ok vars lay toks.
Proof. intros toks lay. exact (boundaries_of_ident toks lay false). Qed.

(* the form asked for: identifiers as names, bool-safe, no condition on the layout at all *)
Theorem scan_spelled_ident : forall lay toks,
  vars_ident fo vars -> alternating toks -> well_formed vars toks -> strict toks -> layout_ok lay ->
  convert_string fo vars (spell lay toks) = Ok (map (ptok_of vars) toks).
Proof.
  intros lay toks Hvi Ha Hw Hst Hl. apply scan_spelled; auto.
  apply (boundaries_of_ident toks lay false); auto.
Qed.

(* ------------------------------------------------------------------ spacing independence *)
Theorem spacing_independent_tokens : forall lay1 lay2 toks,
  alternating toks -> well_formed vars toks ->
  layout_ok lay1 -> boundaries_ok vars lay1 toks ->
  layout_ok lay2 -> boundaries_ok vars lay2 toks ->
  convert_string fo vars (spell lay1 toks) = convert_string fo vars (spell lay2 toks).
Proof.
  intros lay1 lay2 toks Ha Hw Hl1 Hb1 Hl2 Hb2.
  rewrite (scan_spelled lay1 toks), (scan_spelled lay2 toks); auto.
Qed.

(* no parenthesised group among the tokens: evaluation never recurses into the tokenizer *)
Definition not_group (p : ptok) : Prop := match p with PGroup _ _ => False | _ => True end.

Lemma solve_no_group : forall (rec1 rec2 : str -> res value) (t : ptree fo),
  tree_all fo not_group t -> solve fo rec1 t = solve fo rec2 t.
Proof.
  intros rec1 rec2. induction t as [p|oc sym l IHl r IHr]; intro H; cbn [solve].
  - destruct p; cbn in H; [reflexivity|contradiction|reflexivity].
  - cbn in H. destruct H as [Hl Hr]. rewrite (IHl Hl), (IHr Hr). reflexivity.
Qed.

Lemma ptok_of_not_group : forall toks, Forall not_group (map (ptok_of vars) toks).
Proof.
  induction toks as [|t ts IH]; cbn [map]; constructor; [|exact IH].
  destruct t; cbn; auto. destruct (lookup name vars); exact I.
Qed.

(* the value of a spelled expression, whatever the layout: tree, then evaluation *)
Definition value_of_tokens (toks : list stok) : res value :=
  do tree <- build_tree fo (map (ptok_of vars) toks);
  do v <- solve fo (fun _ => Crash KOther) tree;
  Ok (normalise fo v).

Theorem tokenize_spelled : forall lay toks,
  alternating toks -> well_formed vars toks -> layout_ok lay -> boundaries_ok vars lay toks ->
  tokenize fo vars (spell lay toks) = value_of_tokens toks.
Proof.
  intros lay toks Ha Hw Hl Hb. unfold tokenize, value_of_tokens. cbn [tokenize_fuel].
  rewrite (scan_spelled lay toks Ha Hw Hl Hb). cbn [bind].
  pose proof (build_tree_all fo not_group _ (ptok_of_not_group toks)) as Ht.
  destruct (build_tree fo (map (ptok_of vars) toks)) as [tree|e|k|]; cbn [bind]; try reflexivity.
  cbn in Ht. rewrite (solve_no_group _ (fun _ => Crash KOther) tree Ht). reflexivity.
Qed.

(* with C04 (TreeProofs): when the spelled tokens are the in-order tokens of a well-bracketed tree,
   the value is that of this tree, whatever the layout *)
Theorem tokenize_spelled_tree : forall lay toks (t : ptree fo),
  alternating toks -> well_formed vars toks -> layout_ok lay -> boundaries_ok vars lay toks ->
  map (ptok_of vars) toks = flatten fo t -> wb fo all_rows t ->
  tokenize fo vars (spell lay toks) =
  (do v <- solve fo (fun _ => Crash KOther) t; Ok (normalise fo v)).
Proof.
  intros lay toks t Ha Hw Hl Hb Hfl Hwb.
  rewrite (tokenize_spelled lay toks Ha Hw Hl Hb). unfold value_of_tokens.
  rewrite Hfl, (build_tree_correct fo t Hwb). reflexivity.
Qed.

Theorem spacing_independent : forall lay1 lay2 toks,
  alternating toks -> well_formed vars toks ->
  layout_ok lay1 -> boundaries_ok vars lay1 toks ->
  layout_ok lay2 -> boundaries_ok vars lay2 toks ->
  tokenize fo vars (spell lay1 toks) = tokenize fo vars (spell lay2 toks).
Proof.
  intros lay1 lay2 toks Ha Hw Hl1 Hb1 Hl2 Hb2.
  rewrite (tokenize_spelled lay1 toks), (tokenize_spelled lay2 toks); auto.
Qed.

Theorem spacing_independent_ident : forall lay1 lay2 toks,
  vars_ident fo vars -> alternating toks -> well_formed vars toks -> strict toks ->
  layout_ok lay1 -> layout_ok lay2 ->
  tokenize fo vars (spell lay1 toks) = tokenize fo vars (spell lay2 toks).
Proof.
  intros lay1 lay2 toks Hvi Ha Hw Hst Hl1 Hl2.
  apply spacing_independent; auto; apply (boundaries_of_ident toks _ false); auto.
Qed.

End WithFloats.
