(* C12: what path START resolves its argument to (resolve_start = Start.convert_to_path), for the
   common shapes of the argument, and the generated validator of the Start class. *)
From Coq Require Import NArith ZArith List Bool Lia.
From DS Require Import Base PyStr Values Expr TabParse Tables Constants Interp.
From DS Require Import ScopeProofs MoreProofs.
Import ListNotations.

Definition dot : N := 46.

(* one component of a dotted name: not empty, no dot, no slash, no NUL *)
Definition plain_comp (c : str) : Prop :=
  c <> [] /\ char_in dot c = false /\ char_in slash c = false /\ char_in 0%N c = false.

(* ------------------------------------------------------------------ strings *)
Lemma char_in_app : forall c a b, char_in c (a ++ b) = char_in c a || char_in c b.
Proof.
  intros c a b. induction a as [|x a IH]; cbn [app char_in]; [reflexivity|]. rewrite IH, orb_assoc. reflexivity.
Qed.

Lemma char_in_cons_false : forall c x r, char_in c (x :: r) = false -> x <> c /\ char_in c r = false.
Proof.
  intros c x r H. cbn [char_in] in H. apply orb_false_iff in H. destruct H as [H1 H2].
  split; [|exact H2]. apply N.eqb_neq in H1. congruence.
Qed.

Lemma split_char_nodot : forall s, char_in dot s = false -> split_char dot s = [s].
Proof.
  induction s as [|x r IH]; intro H; [reflexivity|].
  apply char_in_cons_false in H. destruct H as [Hx Hr]. cbn [split_char].
  apply N.eqb_neq in Hx. rewrite Hx, (IH Hr). reflexivity.
Qed.

Lemma split_char_app : forall a b, char_in dot a = false -> split_char dot (a ++ dot :: b) = a :: split_char dot b.
Proof.
  induction a as [|x a IH]; intros b H; cbn [app split_char].
  - rewrite N.eqb_refl. reflexivity.
  - apply char_in_cons_false in H. destruct H as [Hx Hr]. apply N.eqb_neq in Hx. rewrite Hx, (IH b Hr). reflexivity.
Qed.

Lemma join_cons2 : forall sep x y r, join sep (x :: y :: r) = x ++ sep ++ join sep (y :: r).
Proof. reflexivity. Qed.

Lemma split_char_join : forall cs c, Forall plain_comp (c :: cs) -> split_char dot (join [dot] (c :: cs)) = c :: cs.
Proof.
  induction cs as [|c2 cs IH]; intros c H; inversion H as [|a b Hc Hcs]; subst.
  - cbn [join]. apply split_char_nodot. apply Hc.
  - rewrite join_cons2. cbn [app]. rewrite split_char_app by apply Hc. rewrite (IH c2 Hcs). reflexivity.
Qed.

Lemma has_double_cons : forall x r, x <> dot -> has_double dot (x :: r) = has_double dot r.
Proof.
  intros x r Hx. destruct r as [|y r]; [reflexivity|]. cbn [has_double].
  apply N.eqb_neq in Hx. rewrite Hx. reflexivity.
Qed.

Lemma has_double_dot_cons : forall y r, y <> dot -> has_double dot (dot :: y :: r) = has_double dot (y :: r).
Proof. intros y r Hy. cbn [has_double]. apply N.eqb_neq in Hy. rewrite Hy, andb_false_r. reflexivity. Qed.

Lemma has_double_app_nodot : forall a b, char_in dot a = false -> has_double dot (a ++ b) = has_double dot b.
Proof.
  induction a as [|x a IH]; intros b H; [reflexivity|].
  apply char_in_cons_false in H. destruct H as [Hx Hr]. cbn [app]. rewrite has_double_cons by exact Hx. apply IH. exact Hr.
Qed.

Lemma join_head : forall c cs, Forall plain_comp (c :: cs) -> exists x r, join [dot] (c :: cs) = x :: r /\ x <> dot.
Proof.
  intros c cs H. inversion H as [|a b (Hne & Hd & _) Hcs]; subst.
  destruct c as [|x c']; [contradiction|]. apply char_in_cons_false in Hd. destruct Hd as [Hx _].
  destruct cs as [|c2 cs]; [exists x, c'; split; [reflexivity|exact Hx]|].
  rewrite join_cons2. cbn [app]. eexists x, _. split; [reflexivity|exact Hx].
Qed.

Lemma has_double_join : forall cs c, Forall plain_comp (c :: cs) -> has_double dot (join [dot] (c :: cs)) = false.
Proof.
  induction cs as [|c2 cs IH]; intros c H; inversion H as [|a b Hc Hcs]; subst.
  - cbn [join]. rewrite <- (app_nil_r c). rewrite has_double_app_nodot by apply Hc. reflexivity.
  - rewrite join_cons2. rewrite has_double_app_nodot by apply Hc. cbn [app].
    destruct (join_head c2 cs Hcs) as (x & r & Hj & Hx). rewrite Hj, has_double_dot_cons by exact Hx.
    rewrite <- Hj. apply IH. exact Hcs.
Qed.

Lemma char_in_join : forall k cs c, k <> dot ->
  Forall (fun c => char_in k c = false) (c :: cs) -> char_in k (join [dot] (c :: cs)) = false.
Proof.
  intros k cs. induction cs as [|c2 cs IH]; intros c Hk H; inversion H as [|a b Hc Hcs]; subst.
  - exact Hc.
  - rewrite join_cons2, !char_in_app, Hc, (IH c2 Hk Hcs). cbn [char_in].
    apply N.eqb_neq in Hk. rewrite Hk. reflexivity.
Qed.

Lemma filter_nonempty_id : forall cs : list str, Forall (fun c => c <> []) cs ->
  filter (fun c : str => match c with [] => false | _ => true end) cs = cs.
Proof.
  induction cs as [|c cs IH]; intro H; [reflexivity|]. inversion H as [|a b Hc Hcs]; subst.
  cbn [filter]. destruct c; [contradiction|]. rewrite (IH Hcs). reflexivity.
Qed.

Lemma no_dot_component : forall cs : list str, Forall (fun c => char_in dot c = false) cs ->
  existsb (fun c => str_eqb c [dot]) cs = false.
Proof.
  induction cs as [|c cs IH]; intro H; [reflexivity|]. inversion H as [|a b Hc Hcs]; subst.
  cbn [existsb]. rewrite (IH Hcs), orb_false_r.
  destruct (str_eqb c [dot]) eqn:E; [|reflexivity]. apply str_eqb_eq in E. subst c. discriminate.
Qed.

(* ------------------------------------------------------------------ after the leading dots *)
Lemma resolve_after_go_up : forall file rel wf' cs c,
  go_up rel (removelast file) (S (length rel)) = Some (join [dot] (cs ++ [c]), wf') ->
  Forall plain_comp (cs ++ [c]) ->
  resolve_start file rel = Ok (wf' ++ cs ++ [c ++ script_extension]).
Proof.
  intros file rel wf' cs c Hg H. unfold resolve_start. rewrite Hg.
  assert (Hne : exists c0 cs0, cs ++ [c] = c0 :: cs0).
  { destruct cs as [|c0 cs0]; [exists c, []|exists c0, (cs0 ++ [c])]; reflexivity. }
  destruct Hne as (c0 & cs0 & Heq). rewrite Heq in *.
  fold dot. rewrite (has_double_join cs0 c0 H).
  rewrite (char_in_join slash cs0 c0) by first [discriminate | (eapply Forall_impl; [|exact H]; intros a Ha; apply Ha)].
  rewrite (char_in_join 0%N cs0 c0) by first [discriminate | (eapply Forall_impl; [|exact H]; intros a Ha; apply Ha)].
  cbn [orb]. rewrite (split_char_join cs0 c0 H).
  rewrite filter_nonempty_id by (eapply Forall_impl; [|exact H]; intros a Ha; apply Ha).
  rewrite no_dot_component by (eapply Forall_impl; [|exact H]; intros a Ha; apply Ha).
  rewrite <- Heq, rev_unit, rev_involutive. reflexivity.
Qed.

(* ------------------------------------------------------------------ leading dots *)
Definition no_leading_dot (rel : str) : Prop := match rel with 46%N :: _ => False | _ => True end.

Lemma no_leading_dot_cons : forall x r, x <> dot -> no_leading_dot (x :: r).
Proof.
  intros x r Hx. unfold no_leading_dot. destruct x as [|p]; [exact I|].
  repeat (destruct p as [p|p|]; try exact I). apply Hx. reflexivity.
Qed.

(* k leading dots climb k folders *)
Lemma go_up_dots : forall k rest base ups fuel,
  length ups = k -> (k <= fuel)%nat -> no_leading_dot rest ->
  go_up (repeat dot k ++ rest) (base ++ ups) fuel = Some (rest, base).
Proof.
  induction k as [|k IH]; intros rest base ups fuel Hl Hf Hn.
  - destruct ups; [|discriminate]. rewrite app_nil_r. cbn [repeat app]. apply go_up_no_dot. exact Hn.
  - destruct fuel as [|fuel]; [lia|].
    destruct (exists_last (l := ups)) as (ups' & u & ->); [intro E; subst ups; discriminate|].
    rewrite app_length in Hl. cbn [length] in Hl.
    cbn [repeat app]. rewrite go_up_dot.
    + rewrite app_assoc, removelast_last. apply IH; [lia|lia|exact Hn].
    + intro E. apply app_eq_nil in E. destruct E as [_ E]. apply app_eq_nil in E. destruct E as [_ E]. discriminate.
Qed.

(* ... and fail when there are more dots than folders *)
Lemma go_up_dots_root : forall k rest wf fuel, (length wf < k)%nat -> go_up (repeat dot k ++ rest) wf fuel = None.
Proof.
  induction k as [|k IH]; intros rest wf fuel Hl; [lia|].
  cbn [repeat app]. destruct wf as [|w wf]; [reflexivity|].
  destruct fuel as [|fuel]; [reflexivity|].
  rewrite go_up_dot by discriminate.
  destruct (exists_last (l := w :: wf)) as (wf' & a & E); [discriminate|].
  rewrite E, removelast_last. apply IH. rewrite E, app_length in Hl. cbn [length] in Hl. lia.
Qed.

(* ================================================================== the characterisation *)
(* a dotted name  a.b.c : descends from the folder of the importing file *)
Theorem resolve_dotted : forall dir f cs c,
  Forall plain_comp (cs ++ [c]) ->
  resolve_start (dir ++ [f]) (join [dot] (cs ++ [c])) = Ok (dir ++ cs ++ [c ++ script_extension]).
Proof.
  intros dir f cs c H. apply resolve_after_go_up; [|exact H].
  rewrite removelast_last. apply go_up_no_dot.
  assert (Hne : exists c0 cs0, cs ++ [c] = c0 :: cs0).
  { destruct cs as [|c0 cs0]; [exists c, []|exists c0, (cs0 ++ [c])]; reflexivity. }
  destruct Hne as (c0 & cs0 & Heq). rewrite Heq in *.
  destruct (join_head c0 cs0 H) as (x & r & -> & Hx). apply (no_leading_dot_cons x r Hx).
Qed.

(* a plain name: the sibling  name.txt *)
Theorem resolve_simple : forall dir f name,
  plain_comp name -> resolve_start (dir ++ [f]) name = Ok (dir ++ [name ++ script_extension]).
Proof.
  intros dir f name H. apply (resolve_dotted dir f [] name). constructor; [exact H|constructor].
Qed.

(* k leading dots climb k folders, then the dotted name descends *)
Theorem resolve_climb : forall base ups f cs c,
  Forall plain_comp (cs ++ [c]) ->
  resolve_start (base ++ ups ++ [f]) (repeat dot (length ups) ++ join [dot] (cs ++ [c]))
  = Ok (base ++ cs ++ [c ++ script_extension]).
Proof.
  intros base ups f cs c H. apply resolve_after_go_up; [|exact H].
  rewrite app_assoc, removelast_last. apply go_up_dots; [reflexivity| |].
  - rewrite app_length, repeat_length. lia.
  - assert (Hne : exists c0 cs0, cs ++ [c] = c0 :: cs0).
    { destruct cs as [|c0 cs0]; [exists c, []|exists c0, (cs0 ++ [c])]; reflexivity. }
    destruct Hne as (c0 & cs0 & Heq). rewrite Heq in *.
    destruct (join_head c0 cs0 H) as (x & r & -> & Hx). apply (no_leading_dot_cons x r Hx).
Qed.

(* more leading dots than folders above the importing file: rejected, whatever follows *)
Theorem resolve_above_root : forall file k rest,
  (length (removelast file) < k)%nat ->
  resolve_start file (repeat dot k ++ rest) = Err EUnexpectedToken.
Proof.
  intros file k rest H. unfold resolve_start. fold dot. rewrite go_up_dots_root by exact H. reflexivity.
Qed.

(* a double dot after the leading ones: rejected *)
Lemma has_double_mid : forall pre post, has_double dot (pre ++ dot :: dot :: post) = true.
Proof.
  induction pre as [|x pre IH]; intro post; [reflexivity|].
  cbn [app]. specialize (IH post). destruct (pre ++ dot :: dot :: post) as [|y r]; [discriminate|].
  cbn [has_double]. cbn [has_double] in IH. rewrite IH. apply orb_true_r.
Qed.

Theorem resolve_double_dot : forall file x pre post,
  x <> dot -> resolve_start file (x :: pre ++ dot :: dot :: post) = Err EUnexpectedToken.
Proof.
  intros file x pre post Hx. eapply resolve_trailing_or_double_dot.
  - apply go_up_no_dot. exact (no_leading_dot_cons x (pre ++ dot :: dot :: post) Hx).
  - apply (has_double_mid (x :: pre) post).
Qed.

(* the same after k leading dots, whether or not there are k folders to climb *)
Theorem resolve_double_dot_after_climb : forall file k x pre post,
  x <> dot -> resolve_start file (repeat dot k ++ x :: pre ++ dot :: dot :: post) = Err EUnexpectedToken.
Proof.
  intros file k x pre post Hx.
  destruct (Nat.lt_ge_cases (length (removelast file)) k) as [Hlt|Hge].
  - apply resolve_above_root. exact Hlt.
  - eapply resolve_trailing_or_double_dot; [|apply (has_double_mid (x :: pre) post)].
    rewrite <- (firstn_skipn (length (removelast file) - k) (removelast file)).
    apply go_up_dots.
    + rewrite skipn_length. lia.
    + rewrite app_length, repeat_length. lia.
    + exact (no_leading_dot_cons x (pre ++ dot :: dot :: post) Hx).
Qed.

(* ------------------------------------------------------------------ trailing dot *)
(* NOTE (statement of the task is false of the model): a trailing dot is NOT an error of
   resolve_start -- the empty last component is dropped, as pathlib does.  It is the validator of
   the Start class that rejects it, before run_compile is reached. *)
Example trailing_dot_resolves :
  resolve_start [[100]; [102]]%N [97; 46]%N = Ok [[100]; [97; 46; 116; 120; 116]]%N.
Proof. vm_compute. reflexivity. Qed.

Lemma resolve_trailing_dot : forall dir f name,
  plain_comp name -> resolve_start (dir ++ [f]) (name ++ [dot]) = Ok (dir ++ [name ++ script_extension]).
Proof.
  intros dir f name (Hne & Hd & Hs & Hz). unfold resolve_start. rewrite removelast_last.
  destruct name as [|x name']; [contradiction|].
  assert (Hx : x <> dot) by (apply char_in_cons_false in Hd; apply Hd).
  rewrite go_up_no_dot by (exact (no_leading_dot_cons x (name' ++ [dot]) Hx)).
  fold dot. set (name := x :: name') in *.
  rewrite has_double_app_nodot by exact Hd. cbn [has_double].
  rewrite !char_in_app, Hs, Hz. cbn [char_in orb N.eqb Pos.eqb].
  rewrite split_char_app by exact Hd. cbn [split_char filter].
  subst name. cbn [filter rev app existsb]. rewrite orb_false_r.
  destruct (str_eqb (x :: name') [dot]) eqn:E; [|reflexivity].
  apply str_eqb_eq in E. injection E as E _. contradiction.
Qed.

(* ------------------------------------------------------------------ the generated validator *)
Lemma find_command_In : forall pal cmd cb n c, find_command pal cmd cb = Some (n, c) -> In (n, c) pal.
Proof.
  induction pal as [|[n0 c0] r IH]; intros cmd cb n c H; [discriminate|]. cbn [find_command] in H.
  destruct (is_this_command c0 cmd cb); [injection H as <- <-; left; reflexivity|right; eapply IH; exact H].
Qed.

Definition start_cls : simple_cls :=
  mkSimple [s_START; s_STARTENV; s_STARTCODE] Required true false ATStr false []
           (mkValidator [(BEndsWith SContent [dot], false)] true) PVNone (mkFormatter [] SContent) RKStart.

(* there is exactly one class of the generated palette that runs RKStart, and it is this one *)
Lemma palette_start_class : forall cname sc, In (cname, Simple sc) palette -> s_run sc = RKStart -> sc = start_cls.
Proof.
  intros cname sc Hin Hr.
  assert (H : In (Simple sc) (filter is_start_class (map snd palette))).
  { apply filter_In. split; [apply (in_map snd) in Hin; exact Hin|]. cbn [is_start_class]. rewrite Hr. reflexivity. }
  vm_compute in H. destruct H as [H|[]]. injection H as <-. reflexivity.
Qed.

Lemma endswith_dot_app : forall s, endswith [dot] (s ++ [dot]) = true.
Proof. intro s. unfold endswith. rewrite rev_unit. cbn [rev app startswith]. reflexivity. Qed.

(* an argument that ends with a dot is refused by the validator of the Start class *)
Theorem start_validator_rejects_trailing_dot : forall cname sc s,
  In (cname, Simple sc) palette -> s_run sc = RKStart ->
  eval_validator (s_params sc) (s_verify_arg sc) (AStr (s ++ [dot])) = Ok false.
Proof.
  intros cname sc s Hin Hr. rewrite (palette_start_class cname sc Hin Hr).
  unfold eval_validator. cbn [start_cls s_params s_verify_arg v_rules v_default eval_validator_rules eval_bexpr eval_sexpr bind].
  rewrite endswith_dot_app. reflexivity.
Qed.

(* ... and accepts every other text (the validator has this rule only) *)
Theorem start_validator_accepts_other : forall cname sc s,
  In (cname, Simple sc) palette -> s_run sc = RKStart -> endswith [dot] s = false ->
  eval_validator (s_params sc) (s_verify_arg sc) (AStr s) = Ok true.
Proof.
  intros cname sc s Hin Hr He. rewrite (palette_start_class cname sc Hin Hr).
  unfold eval_validator. cbn [start_cls s_params s_verify_arg v_rules v_default eval_validator_rules eval_bexpr eval_sexpr bind].
  rewrite He. reflexivity.
Qed.

(* through the pipeline: verify_each raises InvalidArguments on the offending argument *)
Theorem start_trailing_dot_rejected : forall (fo : FloatOps) cx cur cname sc s num orig rest st0,
  In (cname, Simple sc) palette -> s_run sc = RKStart ->
  verify_each fo cx cur (s_params sc) (s_verify_arg sc) (mkLine (AStr (s ++ [dot])) num orig :: rest) st0 =
  (mkSt (s_g st0) (s_env st0) (Some orig),
   IErr EInvalidArguments (Some (here cx cur (Some orig)))).
Proof.
  intros fo cx cur cname sc s num orig rest st0 Hin Hr. cbn [verify_each l_orig l_content].
  rewrite (start_validator_rejects_trailing_dot cname sc s Hin Hr). reflexivity.
Qed.
