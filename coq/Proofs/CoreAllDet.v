(* CoreAllDet -- the success judgement of Spec/CoreAll.v is DETERMINISTIC (a partial function of
   its inputs), it is DISJOINT from the failure judgement of Spec/CoreAllErr.v (for programs whose
   VAR names are identifiers), and the failure judgement is deterministic too. *)
From Coq Require Import NArith ZArith List Bool Lia.
From DS Require Import Base PyStr Values Expr TabParse IdentSpec CoreLang CoreFunc CoreErr CoreAll CoreAllErr.
Import ListNotations.

Ltac inv H := inversion H; subst; clear H.

(* ================================================================== names *)
(* every function of the table has a body whose VAR names are identifiers *)
Definition tab_names_ok (F : utable) : Prop :=
  Forall (fun yd : str * udef => unames_ok_list (d_body (snd yd))) F.
(* every file of the program has VAR names that are identifiers *)
Definition prog_names_ok (prog : program) : Prop :=
  forall m stmts, lookup m prog = Some stmts -> unames_ok_list stmts.
(* the arms of a chain *)
Definition arms_names_ok (arms : list (str * list ustmt)) (els : option (list ustmt)) : Prop :=
  every (fun cb : str * list ustmt => let (_, b) := cb in every unames_ok b) arms /\
  match els with Some b => every unames_ok b | None => True end.

Lemma tab_names_lookup : forall F x df, tab_names_ok F -> lookup x F = Some df -> unames_ok_list (d_body df).
Proof.
  unfold tab_names_ok. induction F as [|[y w] r IH]; simpl; intros x df HF HL.
  - discriminate.
  - inversion HF as [|? ? Hw Hr]; subst. destruct (str_eqb x y).
    + inversion HL; subst. exact Hw.
    + eapply IH; eauto.
Qed.

Lemma tab_names_lookup_every : forall F x df, tab_names_ok F -> lookup x F = Some df -> every unames_ok (d_body df).
Proof. exact tab_names_lookup. Qed.

Lemma tab_names_set_def : forall x d F, unames_ok_list (d_body d) -> tab_names_ok F -> tab_names_ok (set_def x d F).
Proof.
  unfold tab_names_ok. induction F as [|[y w] r IH]; simpl; intros Hd HF.
  - constructor; auto.
  - inversion HF as [|? ? Hw Hr]; subst. destruct (str_eqb x y); constructor; auto.
Qed.

Lemma tab_names_overlay : forall F1 F, tab_names_ok F1 -> tab_names_ok F -> tab_names_ok (overlay_defs F1 F).
Proof.
  unfold overlay_defs. induction F1 as [|[y w] r IH]; simpl; intros F H1 HF.
  - exact HF.
  - inversion H1 as [|? ? Hw Hr]; subst. apply IH; auto. apply tab_names_set_def; auto.
Qed.

Section Det.
Variable fo : FloatOps.
Variable sys : store fo.
Variable prog : program.
Variable inc : bool.
Variable sup : bool.

Notation exec := (CoreAll.exec fo sys prog inc sup).
Notation exec_list := (CoreAll.exec_list fo sys prog inc sup).
Notation exec_arms := (CoreAll.exec_arms fo sys prog inc sup).
Notation exec_repeat := (CoreAll.exec_repeat fo sys prog inc sup).
Notation exec_while := (CoreAll.exec_while fo sys prog inc sup).
Notation eval := (CoreLang.eval fo sys).
Notation eval_err := (CoreErr.eval_err fo sys).
Notation run_args := (CoreFunc.run_args fo sys).

(* ================================================================== basic functionality facts *)
Lemma eval_fun : forall f vs e v1 v2, eval f vs e v1 -> eval f vs e v2 -> v1 = v2.
Proof. unfold CoreLang.eval. intros f vs e v1 v2 H1 H2. rewrite H1 in H2. now inversion H2. Qed.

Lemma eval_not_err : forall f vs e v er, eval f vs e v -> eval_err f vs e er -> False.
Proof. unfold CoreLang.eval, CoreErr.eval_err. intros f vs e v er H1 H2. rewrite H1 in H2. discriminate. Qed.

Lemma run_args_fun : forall f vs args l1 l2, run_args f vs args l1 -> run_args f vs args l2 -> l1 = l2.
Proof.
  unfold CoreFunc.run_args. intros f vs [|a r] l1 l2 H1 H2.
  - congruence.
  - destruct H1 as (v1 & E1 & ->). destruct H2 as (v2 & E2 & ->).
    now rewrite (eval_fun _ _ _ _ _ E1 E2).
Qed.

Lemma goes_on_stops : forall sg, goes_on sg -> stops sg -> False.
Proof. unfold goes_on, stops. intros sg [H|H] [H'|H']; congruence. Qed.

(* identify the results of premises that are functional *)
Ltac same_evals :=
  repeat match goal with
  | H1 : eval ?f ?vs ?e ?v1, H2 : eval ?f ?vs ?e ?v2 |- _ =>
      let E := fresh "E" in
      pose proof (eval_fun _ _ _ _ _ H1 H2) as E; clear H2; try subst v2
  | H1 : run_args ?f ?vs ?a ?v1, H2 : run_args ?f ?vs ?a ?v2 |- _ =>
      let E := fresh "E" in
      pose proof (run_args_fun _ _ _ _ _ H1 H2) as E; clear H2; try subst v2
  | H1 : ?a = Some ?x, H2 : ?a = Some ?y |- _ =>
      rewrite H1 in H2; inversion H2; subst; clear H2
  end.

Ltac absurd_case :=
  solve [ congruence | lia
        | exfalso; eauto using goes_on_stops
        | match goal with H : ?x <> ?x |- _ => now elim H end ].

(* ================================================================== 1. determinism of success *)
Definition D_stmt d pile cf n F f vs s (sg1 : fsig) (F1 : utable) (f1 : option bool) (vs1 : store fo)
           (o1 : list uline) (e1 : list event) : Prop :=
  forall sg2 F2 f2 vs2 o2 e2, exec d pile cf n F f vs s sg2 F2 f2 vs2 o2 e2 ->
    sg1 = sg2 /\ F1 = F2 /\ f1 = f2 /\ vs1 = vs2 /\ o1 = o2 /\ e1 = e2.
Definition D_list d pile cf n F f vs p (sg1 : fsig) (F1 : utable) (f1 : option bool) (vs1 : store fo)
           (o1 : list uline) (e1 : list event) : Prop :=
  forall sg2 F2 f2 vs2 o2 e2, exec_list d pile cf n F f vs p sg2 F2 f2 vs2 o2 e2 ->
    sg1 = sg2 /\ F1 = F2 /\ f1 = f2 /\ vs1 = vs2 /\ o1 = o2 /\ e1 = e2.
Definition D_arms d pile cf first n F b vs arms els (sg1 : fsig) (t1 : bool) (vs1 : store fo)
           (o1 : list uline) (e1 : list event) : Prop :=
  forall sg2 t2 vs2 o2 e2, exec_arms d pile cf first n F b vs arms els sg2 t2 vs2 o2 e2 ->
    sg1 = sg2 /\ t1 = t2 /\ vs1 = vs2 /\ o1 = o2 /\ e1 = e2.
Definition D_repeat d pile cf n F f c e body k vs (sg1 : fsig) (vs1 : store fo)
           (o1 : list uline) (e1 : list event) : Prop :=
  forall sg2 vs2 o2 e2, exec_repeat d pile cf n F f c e body k vs sg2 vs2 o2 e2 ->
    sg1 = sg2 /\ vs1 = vs2 /\ o1 = o2 /\ e1 = e2.
Definition D_while d pile cf n F c e body k vs (sg1 : fsig) (vs1 : store fo)
           (o1 : list uline) (e1 : list event) : Prop :=
  forall sg2 vs2 o2 e2, exec_while d pile cf n F c e body k vs sg2 vs2 o2 e2 ->
    sg1 = sg2 /\ vs1 = vs2 /\ o1 = o2 /\ e1 = e2.

(* use the induction hypotheses on the premises of the second derivation *)
Ltac use_IH :=
  repeat match goal with
  | IH : forall sg2 F2 f2 vs2 o2 e2, _ -> _ = sg2 /\ _, H : _ |- _ =>
      apply IH in H; destruct H as (? & ? & ? & ? & ? & ?); subst
  | IH : forall sg2 t2 vs2 o2 e2, _ -> _ = sg2 /\ _, H : _ |- _ =>
      apply IH in H; destruct H as (? & ? & ? & ? & ?); subst
  | IH : forall sg2 vs2 o2 e2, _ -> _ = sg2 /\ _, H : _ |- _ =>
      apply IH in H; destruct H as (? & ? & ? & ?); subst
  end.

(* invert the most recent hypothesis that is a success derivation: the second derivation *)
Ltac inv_last :=
  match goal with H : ?T |- _ =>
    match T with
    | exec _ _ _ _ _ _ _ _ _ _ _ _ _ _ => inv H
    | exec_list _ _ _ _ _ _ _ _ _ _ _ _ _ _ => inv H
    | exec_arms _ _ _ _ _ _ _ _ _ _ _ _ _ _ _ => inv H
    | exec_repeat _ _ _ _ _ _ _ _ _ _ _ _ _ _ _ => inv H
    | exec_while _ _ _ _ _ _ _ _ _ _ _ _ _ _ => inv H
    end
  end.

Ltac finish := first [ absurd_case | solve [ repeat split; congruence ] ].

Theorem exec_det_all :
  (forall d pile cf n F f vs s sg1 F1 f1 vs1 o1 e1,
      exec d pile cf n F f vs s sg1 F1 f1 vs1 o1 e1 ->
      forall sg2 F2 f2 vs2 o2 e2, exec d pile cf n F f vs s sg2 F2 f2 vs2 o2 e2 ->
      sg1 = sg2 /\ F1 = F2 /\ f1 = f2 /\ vs1 = vs2 /\ o1 = o2 /\ e1 = e2) /\
  (forall d pile cf n F f vs p sg1 F1 f1 vs1 o1 e1,
      exec_list d pile cf n F f vs p sg1 F1 f1 vs1 o1 e1 ->
      forall sg2 F2 f2 vs2 o2 e2, exec_list d pile cf n F f vs p sg2 F2 f2 vs2 o2 e2 ->
      sg1 = sg2 /\ F1 = F2 /\ f1 = f2 /\ vs1 = vs2 /\ o1 = o2 /\ e1 = e2) /\
  (forall d pile cf first n F b vs arms els sg1 t1 vs1 o1 e1,
      exec_arms d pile cf first n F b vs arms els sg1 t1 vs1 o1 e1 ->
      forall sg2 t2 vs2 o2 e2, exec_arms d pile cf first n F b vs arms els sg2 t2 vs2 o2 e2 ->
      sg1 = sg2 /\ t1 = t2 /\ vs1 = vs2 /\ o1 = o2 /\ e1 = e2) /\
  (forall d pile cf n F f c e body k vs sg1 vs1 o1 e1,
      exec_repeat d pile cf n F f c e body k vs sg1 vs1 o1 e1 ->
      forall sg2 vs2 o2 e2, exec_repeat d pile cf n F f c e body k vs sg2 vs2 o2 e2 ->
      sg1 = sg2 /\ vs1 = vs2 /\ o1 = o2 /\ e1 = e2) /\
  (forall d pile cf n F c e body k vs sg1 vs1 o1 e1,
      exec_while d pile cf n F c e body k vs sg1 vs1 o1 e1 ->
      forall sg2 vs2 o2 e2, exec_while d pile cf n F c e body k vs sg2 vs2 o2 e2 ->
      sg1 = sg2 /\ vs1 = vs2 /\ o1 = o2 /\ e1 = e2).
Proof.
  change ((forall d pile cf n F f vs s sg1 F1 f1 vs1 o1 e1,
      exec d pile cf n F f vs s sg1 F1 f1 vs1 o1 e1 -> D_stmt d pile cf n F f vs s sg1 F1 f1 vs1 o1 e1) /\
  (forall d pile cf n F f vs p sg1 F1 f1 vs1 o1 e1,
      exec_list d pile cf n F f vs p sg1 F1 f1 vs1 o1 e1 -> D_list d pile cf n F f vs p sg1 F1 f1 vs1 o1 e1) /\
  (forall d pile cf first n F b vs arms els sg1 t1 vs1 o1 e1,
      exec_arms d pile cf first n F b vs arms els sg1 t1 vs1 o1 e1 ->
      D_arms d pile cf first n F b vs arms els sg1 t1 vs1 o1 e1) /\
  (forall d pile cf n F f c e body k vs sg1 vs1 o1 e1,
      exec_repeat d pile cf n F f c e body k vs sg1 vs1 o1 e1 ->
      D_repeat d pile cf n F f c e body k vs sg1 vs1 o1 e1) /\
  (forall d pile cf n F c e body k vs sg1 vs1 o1 e1,
      exec_while d pile cf n F c e body k vs sg1 vs1 o1 e1 ->
      D_while d pile cf n F c e body k vs sg1 vs1 o1 e1)).
  apply CoreAll.exec_all_mind; unfold D_stmt, D_list, D_arms, D_repeat, D_while; intros;
    inv_last.
  all: same_evals; use_IH; same_evals; finish.
Qed.

Corollary exec_det : forall d pile cf n F f vs s sg1 F1 f1 vs1 o1 e1 sg2 F2 f2 vs2 o2 e2,
  exec d pile cf n F f vs s sg1 F1 f1 vs1 o1 e1 ->
  exec d pile cf n F f vs s sg2 F2 f2 vs2 o2 e2 ->
  sg1 = sg2 /\ F1 = F2 /\ f1 = f2 /\ vs1 = vs2 /\ o1 = o2 /\ e1 = e2.
Proof. intros until e2. intros H1 H2. exact (proj1 exec_det_all _ _ _ _ _ _ _ _ _ _ _ _ _ _ H1 _ _ _ _ _ _ H2). Qed.

Corollary exec_list_det : forall d pile cf n F f vs p sg1 F1 f1 vs1 o1 e1 sg2 F2 f2 vs2 o2 e2,
  exec_list d pile cf n F f vs p sg1 F1 f1 vs1 o1 e1 ->
  exec_list d pile cf n F f vs p sg2 F2 f2 vs2 o2 e2 ->
  sg1 = sg2 /\ F1 = F2 /\ f1 = f2 /\ vs1 = vs2 /\ o1 = o2 /\ e1 = e2.
Proof. intros until e2. intros H1 H2. exact (proj1 (proj2 exec_det_all) _ _ _ _ _ _ _ _ _ _ _ _ _ _ H1 _ _ _ _ _ _ H2). Qed.

Corollary exec_arms_det : forall d pile cf first n F b vs arms els sg1 t1 vs1 o1 e1 sg2 t2 vs2 o2 e2,
  exec_arms d pile cf first n F b vs arms els sg1 t1 vs1 o1 e1 ->
  exec_arms d pile cf first n F b vs arms els sg2 t2 vs2 o2 e2 ->
  sg1 = sg2 /\ t1 = t2 /\ vs1 = vs2 /\ o1 = o2 /\ e1 = e2.
Proof. intros until e2. intros H1 H2. exact (proj1 (proj2 (proj2 exec_det_all)) _ _ _ _ _ _ _ _ _ _ _ _ _ _ _ H1 _ _ _ _ _ H2). Qed.

Corollary exec_repeat_det : forall d pile cf n F f c e body k vs sg1 vs1 o1 e1 sg2 vs2 o2 e2,
  exec_repeat d pile cf n F f c e body k vs sg1 vs1 o1 e1 ->
  exec_repeat d pile cf n F f c e body k vs sg2 vs2 o2 e2 ->
  sg1 = sg2 /\ vs1 = vs2 /\ o1 = o2 /\ e1 = e2.
Proof. intros until e2. intros H1 H2. exact (proj1 (proj2 (proj2 (proj2 exec_det_all))) _ _ _ _ _ _ _ _ _ _ _ _ _ _ _ H1 _ _ _ _ H2). Qed.

Corollary exec_while_det : forall d pile cf n F c e body k vs sg1 vs1 o1 e1 sg2 vs2 o2 e2,
  exec_while d pile cf n F c e body k vs sg1 vs1 o1 e1 ->
  exec_while d pile cf n F c e body k vs sg2 vs2 o2 e2 ->
  sg1 = sg2 /\ vs1 = vs2 /\ o1 = o2 /\ e1 = e2.
Proof. intros until e2. intros H1 H2. exact (proj2 (proj2 (proj2 (proj2 exec_det_all))) _ _ _ _ _ _ _ _ _ _ _ _ _ _ H1 _ _ _ _ H2). Qed.


(* ================================================================== 2. success and failure are disjoint *)
(* WITHOUT HYPOTHESES ON NAMES THE TWO JUDGEMENTS OVERLAP.  Rule E_Var of CoreAll.exec has no side
   condition on the variable name, so for x with identb x = false (for instance the empty name)
   and e that evaluates to v (for instance "1"), the statement UVar x e has BOTH
      exec d pile cf n F f vs (UVar x e) Normal F f (set_var x v vs) [] []          (E_Var)
      fails d pile cf n F f vs (UVar x e) EUnacceptableVarName [frame] []           (F_VarName).
   The same holds for such a VAR inside a function body of the table F or inside an imported file,
   hence the hypotheses [tab_names_ok F], [prog_names_ok prog], [unames_ok s] below.
   (See [exec_fails_overlap_without_names] at the end of this part.) *)
Hypothesis Hprog : prog_names_ok prog.

Notation fails := (CoreAllErr.fails fo sys prog inc sup).
Notation fails_list := (CoreAllErr.fails_list fo sys prog inc sup).
Notation fails_arms := (CoreAllErr.fails_arms fo sys prog inc sup).
Notation fails_repeat := (CoreAllErr.fails_repeat fo sys prog inc sup).
Notation fails_while := (CoreAllErr.fails_while fo sys prog inc sup).
Notation later_fails := (CoreAllErr.later_fails fo sys).
Notation run_args_err := (CoreAllErr.run_args_err fo sys).

(* ---- the function table keeps names ok *)
Theorem exec_preserves_names :
  (forall d pile cf n F f vs s sg F' f' vs' out ev,
      exec d pile cf n F f vs s sg F' f' vs' out ev -> tab_names_ok F -> unames_ok s -> tab_names_ok F') /\
  (forall d pile cf n F f vs p sg F' f' vs' out ev,
      exec_list d pile cf n F f vs p sg F' f' vs' out ev -> tab_names_ok F -> unames_ok_list p -> tab_names_ok F').
Proof.
  assert (H : (forall d pile cf n F f vs s sg F' f' vs' out ev,
      exec d pile cf n F f vs s sg F' f' vs' out ev -> tab_names_ok F -> unames_ok s -> tab_names_ok F') /\
  (forall d pile cf n F f vs p sg F' f' vs' out ev,
      exec_list d pile cf n F f vs p sg F' f' vs' out ev -> tab_names_ok F -> unames_ok_list p -> tab_names_ok F') /\
  (forall d pile cf first n F b vs arms els sg t vs' out ev,
      exec_arms d pile cf first n F b vs arms els sg t vs' out ev -> True) /\
  (forall d pile cf n F f c e body k vs sg vs' out ev,
      exec_repeat d pile cf n F f c e body k vs sg vs' out ev -> True) /\
  (forall d pile cf n F c e body k vs sg vs' out ev,
      exec_while d pile cf n F c e body k vs sg vs' out ev -> True)).
  { apply CoreAll.exec_all_mind; intros; auto.
    - (* FUNC *) apply tab_names_set_def; auto.
    - (* START *) destruct k; auto; apply tab_names_overlay; auto;
        match goal with IH : tab_names_ok _ -> _ -> tab_names_ok ?F1 |- tab_names_ok ?F1 => apply IH; auto end;
        eapply Hprog; eauto.
    - (* cons *) match goal with Hn : unames_ok_list (_ :: _) |- _ => destruct Hn as [Hs Hr] end. auto.
    - (* stop *) match goal with Hn : unames_ok_list (_ :: _) |- _ => destruct Hn as [Hs Hr] end. auto. }
  split; apply H.
Qed.

Lemma exec_names : forall d pile cf n F f vs s sg F' f' vs' out ev,
  exec d pile cf n F f vs s sg F' f' vs' out ev -> tab_names_ok F -> unames_ok s -> tab_names_ok F'.
Proof. exact (proj1 exec_preserves_names). Qed.

Lemma run_args_not_err : forall f vs args vals er, run_args f vs args vals -> run_args_err f vs args er -> False.
Proof.
  unfold CoreFunc.run_args, CoreAllErr.run_args_err. intros f vs [|a r] vals er H1 [H2 H3].
  - now elim H2.
  - destruct H1 as (v & E & _). eapply eval_not_err; eauto.
Qed.

Lemma later_fails_not_all : forall cf vs n rest er fr,
  later_fails cf vs n rest er fr ->
  Forall (fun cb : str * list ustmt => exists v', eval (Some true) vs (fst cb) v') rest -> False.
Proof.
  induction 1 as [n c body rest er He | n c body rest v er fr He Hl IH]; intros HF; inversion HF as [|? ? [v' Hv] Hr]; subst.
  - eapply eval_not_err; eauto.
  - auto.
Qed.

(* ---- disjointness *)
Definition X_stmt d pile cf n F f vs s (sg : fsig) (F' : utable) (f' : option bool) (vs' : store fo)
           (out : list uline) (ev : list event) : Prop :=
  tab_names_ok F -> unames_ok s -> forall er ch ev', fails d pile cf n F f vs s er ch ev' -> False.
Definition X_list d pile cf n F f vs p (sg : fsig) (F' : utable) (f' : option bool) (vs' : store fo)
           (out : list uline) (ev : list event) : Prop :=
  tab_names_ok F -> unames_ok_list p -> forall er ch ev', fails_list d pile cf n F f vs p er ch ev' -> False.
Definition X_arms d pile cf first n F b vs arms els (sg : fsig) (t : bool) (vs' : store fo)
           (out : list uline) (ev : list event) : Prop :=
  tab_names_ok F -> arms_names_ok arms els ->
  forall er ch ev', fails_arms d pile cf first n F b vs arms els er ch ev' -> False.
Definition X_repeat d pile cf n F f c e body k vs (sg : fsig) (vs' : store fo)
           (out : list uline) (ev : list event) : Prop :=
  tab_names_ok F -> unames_ok_list body ->
  forall er ch ev', fails_repeat d pile cf n F f c e body k vs er ch ev' -> False.
Definition X_while d pile cf n F c e body k vs (sg : fsig) (vs' : store fo)
           (out : list uline) (ev : list event) : Prop :=
  tab_names_ok F -> unames_ok_list body ->
  forall er ch ev', fails_while d pile cf n F c e body k vs er ch ev' -> False.

Ltac inv_last_fails :=
  match goal with H : ?T |- _ =>
    match T with
    | fails _ _ _ _ _ _ _ _ _ _ _ => inv H
    | fails_list _ _ _ _ _ _ _ _ _ _ _ => inv H
    | fails_arms _ _ _ _ _ _ _ _ _ _ _ _ _ => inv H
    | fails_repeat _ _ _ _ _ _ _ _ _ _ _ _ _ _ => inv H
    | fails_while _ _ _ _ _ _ _ _ _ _ _ _ _ => inv H
    end
  end.

Ltac names_split :=
  unfold arms_names_ok, unames_ok_list in *;
  repeat match goal with
  | H : unames_ok _ |- _ => progress simpl in H
  | H : every _ (_ :: _) |- _ => simpl in H; destruct H as [? ?]
  | H : _ /\ _ |- _ => destruct H as [? ?]
  end.

(* two success derivations from the same inputs: same results *)
Ltac use_det :=
  repeat match goal with
  | H1 : exec_list ?d ?p ?cf ?n ?F ?f ?vs ?b _ _ _ _ _ _, H2 : exec_list ?d ?p ?cf ?n ?F ?f ?vs ?b _ _ _ _ _ _ |- _ =>
      destruct (exec_list_det _ _ _ _ _ _ _ _ _ _ _ _ _ _ _ _ _ _ _ _ H1 H2) as (? & ? & ? & ? & ? & ?); clear H2; subst
  | H1 : exec ?d ?p ?cf ?n ?F ?f ?vs ?b _ _ _ _ _ _, H2 : exec ?d ?p ?cf ?n ?F ?f ?vs ?b _ _ _ _ _ _ |- _ =>
      destruct (exec_det _ _ _ _ _ _ _ _ _ _ _ _ _ _ _ _ _ _ _ _ H1 H2) as (? & ? & ? & ? & ? & ?); clear H2; subst
  end;
  repeat match goal with H : ?a = ?a -> _ |- _ => specialize (H eq_refl) end.

Ltac contra :=
  solve [ absurd_case
        | match goal with H1 : ?sg = Normal \/ ?sg = Returned, H2 : ?sg = Broke \/ ?sg = Continued |- _ =>
            destruct H1, H2; congruence end
        | exfalso; eauto using eval_not_err, run_args_not_err, later_fails_not_all, goes_on_stops
        | match goal with IH : tab_names_ok _ -> _ -> forall er ch ev', _ -> False |- _ =>
            solve [ eapply IH; simpl; eauto using tab_names_lookup_every, exec_names ] end ].

Theorem exec_fails_disjoint_all :
  (forall d pile cf n F f vs s sg F' f' vs' out ev,
      exec d pile cf n F f vs s sg F' f' vs' out ev -> tab_names_ok F -> unames_ok s ->
      forall er ch ev', ~ fails d pile cf n F f vs s er ch ev') /\
  (forall d pile cf n F f vs p sg F' f' vs' out ev,
      exec_list d pile cf n F f vs p sg F' f' vs' out ev -> tab_names_ok F -> unames_ok_list p ->
      forall er ch ev', ~ fails_list d pile cf n F f vs p er ch ev') /\
  (forall d pile cf first n F b vs arms els sg t vs' out ev,
      exec_arms d pile cf first n F b vs arms els sg t vs' out ev -> tab_names_ok F -> arms_names_ok arms els ->
      forall er ch ev', ~ fails_arms d pile cf first n F b vs arms els er ch ev') /\
  (forall d pile cf n F f c e body k vs sg vs' out ev,
      exec_repeat d pile cf n F f c e body k vs sg vs' out ev -> tab_names_ok F -> unames_ok_list body ->
      forall er ch ev', ~ fails_repeat d pile cf n F f c e body k vs er ch ev') /\
  (forall d pile cf n F c e body k vs sg vs' out ev,
      exec_while d pile cf n F c e body k vs sg vs' out ev -> tab_names_ok F -> unames_ok_list body ->
      forall er ch ev', ~ fails_while d pile cf n F c e body k vs er ch ev').
Proof.
  pose proof Hprog as Hp. unfold prog_names_ok in Hp.
  change ((forall d pile cf n F f vs s sg F' f' vs' out ev,
      exec d pile cf n F f vs s sg F' f' vs' out ev -> X_stmt d pile cf n F f vs s sg F' f' vs' out ev) /\
  (forall d pile cf n F f vs p sg F' f' vs' out ev,
      exec_list d pile cf n F f vs p sg F' f' vs' out ev -> X_list d pile cf n F f vs p sg F' f' vs' out ev) /\
  (forall d pile cf first n F b vs arms els sg t vs' out ev,
      exec_arms d pile cf first n F b vs arms els sg t vs' out ev ->
      X_arms d pile cf first n F b vs arms els sg t vs' out ev) /\
  (forall d pile cf n F f c e body k vs sg vs' out ev,
      exec_repeat d pile cf n F f c e body k vs sg vs' out ev ->
      X_repeat d pile cf n F f c e body k vs sg vs' out ev) /\
  (forall d pile cf n F c e body k vs sg vs' out ev,
      exec_while d pile cf n F c e body k vs sg vs' out ev ->
      X_while d pile cf n F c e body k vs sg vs' out ev)).
  apply CoreAll.exec_all_mind; unfold X_stmt, X_list, X_arms, X_repeat, X_while; intros;
    inv_last_fails.
  all: names_split; same_evals; use_det; contra.
Qed.

Corollary exec_fails_disjoint : forall d pile cf n F f vs s sg F' f' vs' out ev er ch ev',
  tab_names_ok F -> unames_ok s ->
  exec d pile cf n F f vs s sg F' f' vs' out ev -> fails d pile cf n F f vs s er ch ev' -> False.
Proof. intros until ev'. intros HF Hn He. exact (proj1 exec_fails_disjoint_all _ _ _ _ _ _ _ _ _ _ _ _ _ _ He HF Hn er ch ev'). Qed.

Corollary exec_list_fails_disjoint : forall d pile cf n F f vs p sg F' f' vs' out ev er ch ev',
  tab_names_ok F -> unames_ok_list p ->
  exec_list d pile cf n F f vs p sg F' f' vs' out ev -> fails_list d pile cf n F f vs p er ch ev' -> False.
Proof. intros until ev'. intros HF Hn He. exact (proj1 (proj2 exec_fails_disjoint_all) _ _ _ _ _ _ _ _ _ _ _ _ _ _ He HF Hn er ch ev'). Qed.

(* the overlap announced above, for ANY name that is not an identifier and ANY expression that
   evaluates: both judgements hold of VAR x e *)
Lemma exec_fails_overlap_without_names : forall d pile cf n F f vs x e v,
  identb x = false -> eval f vs e v ->
  exec d pile cf n F f vs (UVar x e) Normal F f (set_var fo x v vs) [] [] /\
  fails d pile cf n F f vs (UVar x e) EUnacceptableVarName [mkSF cf (kw_VAR ++ sp :: x ++ sp :: e) n true] [].
Proof. intros. split; [apply CoreAll.E_Var | eapply CoreAllErr.F_VarName]; eauto. Qed.

(* ================================================================== 3. determinism of failure *)
Lemma eval_err_fun : forall f vs e er1 er2, eval_err f vs e er1 -> eval_err f vs e er2 -> er1 = er2.
Proof. unfold CoreErr.eval_err. intros f vs e er1 er2 H1 H2. rewrite H1 in H2. now inversion H2. Qed.

Lemma run_args_err_fun : forall f vs args er1 er2, run_args_err f vs args er1 -> run_args_err f vs args er2 -> er1 = er2.
Proof. unfold CoreAllErr.run_args_err. intros f vs args er1 er2 [_ H1] [_ H2]. eapply eval_err_fun; eauto. Qed.

Lemma later_fails_fun : forall cf vs n rest er1 fr1,
  later_fails cf vs n rest er1 fr1 -> forall er2 fr2, later_fails cf vs n rest er2 fr2 -> er1 = er2 /\ fr1 = fr2.
Proof.
  induction 1 as [n c body rest er He | n c body rest v er fr He Hl IH]; intros er2 fr2 H2; inv H2.
  - split; [eapply eval_err_fun; eauto | f_equal].
  - exfalso; eapply eval_not_err; eauto.
  - exfalso; eapply eval_not_err; eauto.
  - auto.
Qed.

Definition FD_stmt d pile cf n F f vs s (er1 : errcls) (ch1 : list sframe) (ev1 : list event) : Prop :=
  tab_names_ok F -> unames_ok s ->
  forall er2 ch2 ev2, fails d pile cf n F f vs s er2 ch2 ev2 -> er1 = er2 /\ ch1 = ch2 /\ ev1 = ev2.
Definition FD_list d pile cf n F f vs p (er1 : errcls) (ch1 : list sframe) (ev1 : list event) : Prop :=
  tab_names_ok F -> unames_ok_list p ->
  forall er2 ch2 ev2, fails_list d pile cf n F f vs p er2 ch2 ev2 -> er1 = er2 /\ ch1 = ch2 /\ ev1 = ev2.
Definition FD_arms d pile cf first n F b vs arms els (er1 : errcls) (ch1 : list sframe) (ev1 : list event) : Prop :=
  tab_names_ok F -> arms_names_ok arms els ->
  forall er2 ch2 ev2, fails_arms d pile cf first n F b vs arms els er2 ch2 ev2 -> er1 = er2 /\ ch1 = ch2 /\ ev1 = ev2.
Definition FD_repeat d pile cf n F f c e body k vs (er1 : errcls) (ch1 : list sframe) (ev1 : list event) : Prop :=
  tab_names_ok F -> unames_ok_list body ->
  forall er2 ch2 ev2, fails_repeat d pile cf n F f c e body k vs er2 ch2 ev2 -> er1 = er2 /\ ch1 = ch2 /\ ev1 = ev2.
Definition FD_while d pile cf n F c e body k vs (er1 : errcls) (ch1 : list sframe) (ev1 : list event) : Prop :=
  tab_names_ok F -> unames_ok_list body ->
  forall er2 ch2 ev2, fails_while d pile cf n F c e body k vs er2 ch2 ev2 -> er1 = er2 /\ ch1 = ch2 /\ ev1 = ev2.

Ltac same_errs :=
  repeat match goal with
  | H1 : eval_err ?f ?vs ?e ?v1, H2 : eval_err ?f ?vs ?e ?v2 |- _ =>
      let E := fresh "E" in
      pose proof (eval_err_fun _ _ _ _ _ H1 H2) as E; clear H2; try subst v2
  | H1 : run_args_err ?f ?vs ?a ?v1, H2 : run_args_err ?f ?vs ?a ?v2 |- _ =>
      let E := fresh "E" in
      pose proof (run_args_err_fun _ _ _ _ _ H1 H2) as E; clear H2; try subst v2
  | H1 : later_fails ?cf ?vs ?n ?r _ _, H2 : later_fails ?cf ?vs ?n ?r _ _ |- _ =>
      destruct (later_fails_fun _ _ _ _ _ _ H1 _ _ H2) as [? ?]; clear H2; subst
  end.

(* the same thing both succeeds and fails *)
Ltac clash :=
  match goal with
  | He : exec_list ?d ?p ?cf ?n ?F ?f ?vs ?b _ _ _ _ _ _, Hf : fails_list ?d ?p ?cf ?n ?F ?f ?vs ?b _ _ _ |- _ =>
      exfalso; eapply exec_list_fails_disjoint; [ | | exact He | exact Hf ];
      solve [ simpl; eauto using tab_names_lookup, tab_names_lookup_every, exec_names ]
  | He : exec ?d ?p ?cf ?n ?F ?f ?vs ?b _ _ _ _ _ _, Hf : fails ?d ?p ?cf ?n ?F ?f ?vs ?b _ _ _ |- _ =>
      exfalso; eapply exec_fails_disjoint; [ | | exact He | exact Hf ];
      solve [ simpl; eauto using tab_names_lookup, tab_names_lookup_every, exec_names ]
  end.

Ltac use_FIH :=
  repeat match goal with
  | IH : tab_names_ok _ -> _ -> forall er2 ch2 ev2, _ -> _ = er2 /\ _, H : _ |- _ =>
      let E := fresh "E" in
      pose proof (IH ltac:(solve [eauto using exec_names])
                     ltac:(solve [simpl; eauto using tab_names_lookup_every]) _ _ _ H) as E;
      destruct E as (? & ? & ?); subst; clear H
  end.

Theorem fails_det_all :
  (forall d pile cf n F f vs s er1 ch1 ev1,
      fails d pile cf n F f vs s er1 ch1 ev1 -> tab_names_ok F -> unames_ok s ->
      forall er2 ch2 ev2, fails d pile cf n F f vs s er2 ch2 ev2 -> er1 = er2 /\ ch1 = ch2 /\ ev1 = ev2) /\
  (forall d pile cf n F f vs p er1 ch1 ev1,
      fails_list d pile cf n F f vs p er1 ch1 ev1 -> tab_names_ok F -> unames_ok_list p ->
      forall er2 ch2 ev2, fails_list d pile cf n F f vs p er2 ch2 ev2 -> er1 = er2 /\ ch1 = ch2 /\ ev1 = ev2) /\
  (forall d pile cf first n F b vs arms els er1 ch1 ev1,
      fails_arms d pile cf first n F b vs arms els er1 ch1 ev1 -> tab_names_ok F -> arms_names_ok arms els ->
      forall er2 ch2 ev2, fails_arms d pile cf first n F b vs arms els er2 ch2 ev2 ->
      er1 = er2 /\ ch1 = ch2 /\ ev1 = ev2) /\
  (forall d pile cf n F f c e body k vs er1 ch1 ev1,
      fails_repeat d pile cf n F f c e body k vs er1 ch1 ev1 -> tab_names_ok F -> unames_ok_list body ->
      forall er2 ch2 ev2, fails_repeat d pile cf n F f c e body k vs er2 ch2 ev2 ->
      er1 = er2 /\ ch1 = ch2 /\ ev1 = ev2) /\
  (forall d pile cf n F c e body k vs er1 ch1 ev1,
      fails_while d pile cf n F c e body k vs er1 ch1 ev1 -> tab_names_ok F -> unames_ok_list body ->
      forall er2 ch2 ev2, fails_while d pile cf n F c e body k vs er2 ch2 ev2 ->
      er1 = er2 /\ ch1 = ch2 /\ ev1 = ev2).
Proof.
  pose proof Hprog as Hp. unfold prog_names_ok in Hp.
  change ((forall d pile cf n F f vs s er1 ch1 ev1,
      fails d pile cf n F f vs s er1 ch1 ev1 -> FD_stmt d pile cf n F f vs s er1 ch1 ev1) /\
  (forall d pile cf n F f vs p er1 ch1 ev1,
      fails_list d pile cf n F f vs p er1 ch1 ev1 -> FD_list d pile cf n F f vs p er1 ch1 ev1) /\
  (forall d pile cf first n F b vs arms els er1 ch1 ev1,
      fails_arms d pile cf first n F b vs arms els er1 ch1 ev1 ->
      FD_arms d pile cf first n F b vs arms els er1 ch1 ev1) /\
  (forall d pile cf n F f c e body k vs er1 ch1 ev1,
      fails_repeat d pile cf n F f c e body k vs er1 ch1 ev1 ->
      FD_repeat d pile cf n F f c e body k vs er1 ch1 ev1) /\
  (forall d pile cf n F c e body k vs er1 ch1 ev1,
      fails_while d pile cf n F c e body k vs er1 ch1 ev1 ->
      FD_while d pile cf n F c e body k vs er1 ch1 ev1)).
  apply CoreAllErr.fails_all_mind; unfold FD_stmt, FD_list, FD_arms, FD_repeat, FD_while; intros;
    inv_last_fails.
  all: names_split; same_evals; same_errs; use_det; same_errs; try clash; use_FIH;
    try first [ absurd_case
              | exfalso; solve [ eauto using eval_not_err, run_args_not_err, goes_on_stops ]
              | match goal with H1 : ?sg = Normal \/ ?sg = Returned, H2 : ?sg = Broke \/ ?sg = Continued |- _ =>
                  destruct H1, H2; congruence end
              | solve [ repeat split; congruence ] ].
Qed.

Corollary fails_det : forall d pile cf n F f vs s er1 ch1 ev1 er2 ch2 ev2,
  tab_names_ok F -> unames_ok s ->
  fails d pile cf n F f vs s er1 ch1 ev1 -> fails d pile cf n F f vs s er2 ch2 ev2 ->
  er1 = er2 /\ ch1 = ch2 /\ ev1 = ev2.
Proof. intros until ev2. intros HF Hn H1 H2. exact (proj1 fails_det_all _ _ _ _ _ _ _ _ _ _ _ H1 HF Hn _ _ _ H2). Qed.

Corollary fails_list_det : forall d pile cf n F f vs p er1 ch1 ev1 er2 ch2 ev2,
  tab_names_ok F -> unames_ok_list p ->
  fails_list d pile cf n F f vs p er1 ch1 ev1 -> fails_list d pile cf n F f vs p er2 ch2 ev2 ->
  er1 = er2 /\ ch1 = ch2 /\ ev1 = ev2.
Proof. intros until ev2. intros HF Hn H1 H2. exact (proj1 (proj2 fails_det_all) _ _ _ _ _ _ _ _ _ _ _ H1 HF Hn _ _ _ H2). Qed.

End Det.

Print Assumptions exec_det_all.
Print Assumptions exec_list_det.
Print Assumptions exec_preserves_names.
Print Assumptions exec_fails_disjoint_all.
Print Assumptions exec_list_fails_disjoint.
Print Assumptions exec_fails_overlap_without_names.
Print Assumptions fails_det_all.
Print Assumptions fails_list_det.

(* the statements as seen from outside the section *)
Check exec_det_all.
Check exec_list_det.
Check exec_preserves_names.
Check exec_fails_disjoint_all.
Check exec_list_fails_disjoint.
Check fails_det_all.
Check fails_list_det.
