(* C01 (whole script): the SimpleCommand pipeline on one inline argument / no argument, for an
   abstract class given by its attributes; the run_compile kinds a flat Ducky line can reach. *)
From Coq Require Import NArith ZArith List Bool Lia.
From DS Require Import Base PyStr Values Expr TabParse Interp Tables Constants.
From DS Require Import PipelineProofs Spelling ScanSpelled FlatScript FlatStrings.
Import ListNotations.

Arguments IOk {A}. Arguments IErr {A}. Arguments ICrash {A}. Arguments IUnmod {A}.
Arguments s_g {fo}. Arguments s_env {fo}. Arguments s_line2 {fo}. Arguments mkSt {fo}.
Arguments e_sys {fo}. Arguments e_user {fo}. Arguments e_temp {fo}. Arguments e_funcs {fo}. Arguments mkEnv {fo}.

(* ------------------------------------------------------------------ the tokenizer on a digit string *)
Lemma tokenize_digits : forall fo vars ds, is_digits ds = true ->
  tokenize fo vars ds = Ok (VInt (Z.of_N (dec_value ds 0))).
Proof.
  intros fo vars ds Hd.
  pose proof (tokenize_spelled fo vars [[]; []] [SInt ds]) as H.
  cbn [spell spell_tok hd tl app] in H. rewrite app_nil_r in H. rewrite H.
  - reflexivity.
  - split; [reflexivity|reflexivity].
  - constructor; [exact Hd|constructor].
  - repeat constructor.
  - split; exact I.
Qed.

Definition plural_quiet (pv : pvalidator) : bool :=
  match pv with
  | PVNone => true
  | PVWarnIfLen op k _ => negb (cmp_eval op 1 k)
  | PVRaiseIfLen op k => negb (cmp_eval op 1 k)
  end.

Section Pipe.
Variable fo : FloatOps.
Variable child : runner fo.
Variable cx : ctx.

Definition flip_ok (sc : simple_cls) : Prop :=
  s_flipper_only sc = false \/ flipper_commands (c_opts cx) = true.

Lemma no_dollar_false : forall cmd, no_dollar cmd ->
  (match upper cmd with 36%N :: _ => true | _ => false end) = false.
Proof.
  intros cmd Hnd. unfold no_dollar in Hnd.
  destruct (upper cmd) as [|c r]; [reflexivity|].
  destruct c as [|p]; [reflexivity|].
  repeat (destruct p as [p|p|]; try reflexivity). contradiction.
Qed.

Lemma check_flipper_ok : forall cur sc s, flip_ok sc ->
  check_flipper fo cx cur (s_flipper_only sc) s = (s, IOk tt).
Proof.
  intros cur sc s Hflip. unfold check_flipper. destruct Hflip as [-> | ->]; [reflexivity|].
  rewrite andb_false_r. reflexivity.
Qed.

Lemma bind_ok_eq : forall A B (m : M fo A) (f : A -> M fo B) s s' a r,
  m s = (s', IOk a) -> f a s' = r -> bindM fo m f s = r.
Proof. intros A B m f s0 s' a r H1 H2. unfold bindM. rewrite H1. exact H2. Qed.

(* ------------------------------------------------------------------ one run_compile *)
Lemma mc_default : forall cur cname tg sc name a s,
  s_run sc = RKDefault ->
  multi_comp fo child cx cur cname tg sc name [a] (mkCret [] SNormal) s =
  (mkSt (s_g s) (s_env s) (Some (match a with None => cur | Some l => l_orig l end)),
   IOk (mkCret [mkO tg (name_line name a)] SNormal)).
Proof.
  intros cur cname tg sc name a s Hrun. cbn [multi_comp]. unfold run_compile. rewrite Hrun.
  reflexivity.
Qed.

Lemma mc_enter_none : forall cur cname tg sc name s,
  s_run sc = RKEnter ->
  multi_comp fo child cx cur cname tg sc name [None] (mkCret [] SNormal) s =
  (mkSt (s_g s) (s_env s) (Some cur), IOk (mkCret [mkO tg (name_line name None)] SNormal)).
Proof.
  intros cur cname tg sc name s Hrun. cbn [multi_comp]. unfold run_compile. rewrite Hrun.
  reflexivity.
Qed.

Lemma mc_rem : forall cur cname tg sc name a s,
  s_run sc = RKRem ->
  multi_comp fo child cx cur cname tg sc name [a] (mkCret [] SNormal) s =
  (mkSt (s_g s) (s_env s) (Some (match a with None => cur | Some l => l_orig l end)),
   IOk (mkCret (if include_comments (c_opts cx) then [mkO tg (name_line name a)] else []) SNormal)).
Proof.
  intros cur cname tg sc name a s Hrun. cbn [multi_comp]. unfold run_compile. rewrite Hrun.
  destruct (include_comments (c_opts cx)); reflexivity.
Qed.

Lemma mc_default_delay : forall cur cname tg sc name z n s,
  s_run sc = RKDefaultDelay ->
  has_key default_delay_var (e_sys (s_env s)) = true ->
  multi_comp fo child cx cur cname tg sc name [Some (mkLine (AInt z) n cur)] (mkCret [] SNormal) s =
  (mkSt (s_g s)
        (mkEnv (upd default_delay_var (VInt z) (e_sys (s_env s))) (e_user (s_env s))
               (e_temp (s_env s)) (e_funcs (s_env s)))
        (Some cur),
   IOk (mkCret [mkO tg (name_line name (Some (mkLine (AInt z) n cur)))] SNormal)).
Proof.
  intros cur cname tg sc name z n s Hrun Hk. cbn [multi_comp]. unfold run_compile. rewrite Hrun.
  unfold bindM, set_line2, get_env, set_env. cbn [s_env s_g s_line2 l_content l_orig].
  rewrite Hk. reflexivity.
Qed.

#[local] Arguments eval_validator : simpl never.
#[local] Arguments eval_formatter : simpl never.
#[local] Arguments strip : simpl never.
#[local] Arguments upper : simpl never.
#[local] Arguments multi_comp : simpl never.
#[local] Arguments tokenize : simpl never.
#[local] Arguments all_vars : simpl never.

(* ------------------------------------------------------------------ the pipeline before run_compile *)
(* a text argument, not tokenized *)
Lemma str_pipeline : forall cur cname tg sc cmd n raw s a a',
  s_tokenize_args sc = false -> s_arg_type sc = ATStr -> s_verify_args sc = PVNone -> flip_ok sc ->
  no_dollar cmd -> s_arg_req sc <> NotAllowed ->
  raw <> [] -> a = (if s_strip_args sc then strip raw else raw) ->
  eval_validator (s_params sc) (s_verify_arg sc) (AStr a) = Ok true ->
  eval_formatter (s_params sc) (s_format_arg sc) (AStr a) = Ok (AStr a') ->
  simple_compile fo child cx cur cname tg sc cmd n (Some raw) None s =
  multi_comp fo child cx cur cname tg sc cmd [Some (mkLine (AStr a') n cur)] (mkCret [] SNormal)
             (mkSt (s_g s) (s_env s) None).
Proof.
  intros cur cname tg sc cmd n raw s a a' Htok Hat Hvas Hflip Hnd Hreq Hraw Ha Hval Hfmt.
  unfold simple_compile.
  unfold bindM at 1. rewrite (check_flipper_ok cur sc s Hflip).
  rewrite (no_dollar_false cmd Hnd), Htok. cbn [orb].
  unfold listify_args. destruct raw as [|r0 rr]; [contradiction Hraw; reflexivity|].
  rewrite Hvas, Hat.
  destruct (s_strip_args sc); destruct (s_arg_req sc); try (contradiction Hreq; reflexivity); subst a;
    cbn; rewrite Hval, Hfmt; reflexivity.
Qed.

(* no argument *)
Lemma bare_pipeline : forall cur cname tg sc cmd n s,
  s_tokenize_args sc = false -> s_verify_args sc = PVNone -> flip_ok sc ->
  no_dollar cmd -> s_arg_req sc <> Required ->
  simple_compile fo child cx cur cname tg sc cmd n None None s =
  multi_comp fo child cx cur cname tg sc cmd [None] (mkCret [] SNormal)
             (mkSt (s_g s) (s_env s) None).
Proof.
  intros cur cname tg sc cmd n s Htok Hvas Hflip Hnd Hreq.
  unfold simple_compile.
  unfold bindM at 1. rewrite (check_flipper_ok cur sc s Hflip).
  rewrite (no_dollar_false cmd Hnd), Htok. cbn [orb].
  unfold listify_args. rewrite Hvas.
  destruct (s_strip_args sc); destruct (s_arg_req sc); try (contradiction Hreq; reflexivity);
    cbn; reflexivity.
Qed.

(* an integer argument: tokenized, then typed *)
Lemma int_pipeline : forall cur cname tg sc cmd n raw s z,
  s_tokenize_args sc = true -> s_arg_type sc = ATInt -> s_strip_args sc = true ->
  plural_quiet (s_verify_args sc) = true -> flip_ok sc ->
  no_dollar cmd -> s_arg_req sc <> NotAllowed -> raw <> [] ->
  tokenize fo (all_vars fo (s_env s)) (strip raw) = Ok (VInt z) ->
  eval_validator (s_params sc) (s_verify_arg sc) (AInt z) = Ok true ->
  eval_formatter (s_params sc) (s_format_arg sc) (AInt z) = Ok (AInt z) ->
  simple_compile fo child cx cur cname tg sc cmd n (Some raw) None s =
  multi_comp fo child cx cur cname tg sc cmd [Some (mkLine (AInt z) n cur)] (mkCret [] SNormal)
             (mkSt (s_g s) (s_env s) None).
Proof.
  intros cur cname tg sc cmd n raw s z Htok Hat Hstrip Hpl Hflip Hnd Hreq Hraw Htz Hval Hfmt.
  unfold simple_compile.
  unfold bindM at 1. rewrite (check_flipper_ok cur sc s Hflip).
  rewrite (no_dollar_false cmd Hnd), Htok, Hstrip, Hat. cbn [orb].
  unfold listify_args. destruct raw as [|r0 rr]; [contradiction Hraw; reflexivity|].
  assert (Hvp : verify_plural fo cx cur (s_verify_args sc) 1 = ret fo tt).
  { unfold verify_plural. destruct (s_verify_args sc) as [|op k msg|op k];
      cbn [plural_quiet] in Hpl; [reflexivity| |];
      apply negb_true_iff in Hpl; rewrite Hpl; reflexivity. }
  destruct (s_arg_req sc); try (contradiction Hreq; reflexivity).
  all: eapply bind_ok_eq; [reflexivity|]; cbv beta zeta.
  all: eapply bind_ok_eq;
    [ eapply bind_ok_eq;
      [ cbn [map evaluate_args strip_line l_content]; eapply bind_ok_eq; [reflexivity|]; cbv beta;
        eapply bind_ok_eq;
        [ unfold tokenizeM; eapply bind_ok_eq; [reflexivity|]; cbv beta;
          cbn [s_env content_text l_content]; rewrite Htz; reflexivity
        | cbv beta; reflexivity ]
      | cbv beta; reflexivity ]
    | cbv beta; cbn; rewrite Hvp; cbn; rewrite Hval, Hfmt; reflexivity ].
Qed.

End Pipe.
