(* C04d: witnesses.
   1. the composition on one expression: (1+2)*3 printed with two layouts, as the argument of VAR;
   2. two PROGRAMS that differ only in the layout of their expressions,
         A:  VAR x (1+2)*3          B:  VAR x  ( 1 + 2 ) *3
             IF x>5                     IF x > 5
                 STRING big                 STRING big
             $STRING x-1                $STRING  x - 1
      related by [progrel lay_eq]; A's derivation (built by hand) gives B's through the theorem
      [layout_independent_programs_events]: same output lines STRING big / STRING 8. *)
From Coq Require Import String Ascii NArith ZArith List Bool Arith Lia.
From DS Require Import Base PyStr Values Tables Constants Expr ExprAst Spelling ExprLang ExprPrint ExprCorollaries ExprExamples.
From DS Require Import TabParse Interp IdentSpec ChainLoopExamples ImportGraph CoreLang CoreWf CoreRefine CoreFunc.
From DS Require Import CoreAll CoreAllLines CoreAllBase CoreAllRefine CoreAllTop CoreAllExample CoreAllErase.
From DS Require Import ExprSpecCompose LayoutCongruence.
Import ListNotations.
Open Scope string_scope.
Open Scope list_scope.

Definition e9 : expr := times (plus i1 i2) i3.                         (* (1+2)*3 *)
Definition x_ : str := S_ "x".
Definition i5 : expr := ELit (SInt [53%N]).
Definition cond_e : expr := EBin OCCond sym_gt (EVar x_) i5.            (* x>5 *)
Definition last_e : expr := minus (EVar x_) i1.                        (* x-1 *)

Definition sp1 : str := [32%N].
Definition lay_a : layout := [].
Definition lay_b : layout := [sp1; sp1; sp1; sp1; sp1; sp1].

Lemma lay_b_ok : layout_ok lay_b.
Proof. repeat constructor. Qed.
Lemma lay_a_ok : layout_ok lay_a.
Proof. constructor. Qed.

(* the printed texts *)
Lemma printed_texts :
  print lay_a e9 = S_ "(1+2)*3" /\ print lay_b e9 = S_ " ( 1 + 2 ) *3" /\
  print lay_a cond_e = S_ "x>5" /\ print lay_b cond_e = S_ " x > 5 " /\
  print lay_a last_e = S_ "x-1" /\ print lay_b last_e = S_ " x - 1 ".
Proof. vm_compute. repeat split. Qed.

Section Examples.
Variable fo : FloatOps.

(* ------------------------------------------------------------------ 1. one expression *)
(* from ANY store whose names are identifiers, with either layout, VAR y <(1+2)*3> assigns 9 *)
Lemma var_e9 : forall sys prog inc sup d pile cf n F f vs y lay,
  vars_ident fo (visible fo sys f vs) -> layout_ok lay ->
  CoreAll.exec fo sys prog inc sup d pile cf n F f vs (UVar y (print lay e9)) Normal F f (set_var fo y (VInt 9) vs) [] [].
Proof.
  intros sys prog inc sup d pile cf n F f vs y lay Hvi Hlay.
  apply (var_printed fo sys prog inc sup d pile cf n F f vs y lay e9); try assumption.
  - cbn. repeat split; try reflexivity; vm_compute; tauto.
  - vm_compute. lia.
  - exists (VInt 9). split; [|repeat split].
    exact (int_adequacy fo (visible fo sys f vs) e9 eq_refl).
Qed.

(* ------------------------------------------------------------------ 2. two programs *)
Definition body_big : list ustmt := [UEmit (S_ "STRING") (S_ "big")].
Definition stmts_of (lay : layout) : list ustmt :=
  [ UVar x_ (print lay e9);
    UIf [(print lay cond_e, body_big)] None;
    UEmitEval (S_ "STRING") (print lay last_e) ].
Definition prog_a : program := [(n_main, stmts_of lay_a)].
Definition prog_b : program := [(n_main, stmts_of lay_b)].

Lemma progs_differ : prog_a <> prog_b.
Proof. intro H. vm_compute in H. discriminate H. Qed.

Lemma sexpr_e9 : forall D, sexpr_ok fo D e9.
Proof. intro D. cbn. repeat split; try reflexivity; vm_compute; tauto. Qed.
Lemma sexpr_cond : sexpr_ok fo [x_] cond_e.
Proof. cbn. repeat split; try reflexivity; vm_compute; tauto. Qed.
Lemma sexpr_last : sexpr_ok fo [x_] last_e.
Proof. cbn. repeat split; try reflexivity; vm_compute; tauto. Qed.

Lemma lay_eq_ab : forall D e, sexpr_ok fo D e -> depth e <= 100 -> lay_eq fo D (print lay_a e) (print lay_b e).
Proof.
  intros D e Hok Hd. exists lay_a, lay_b, e. repeat split; try assumption; [exact lay_a_ok|exact lay_b_ok].
Qed.

Lemma stmts_related : lrel (lay_eq fo) [] (stmts_of lay_a) (stmts_of lay_b).
Proof.
  unfold stmts_of. constructor.
  - constructor; [reflexivity|]. apply lay_eq_ab; [apply sexpr_e9|vm_compute; lia].
  - cbn [defs app]. constructor.
    + constructor.
      * constructor; [apply lay_eq_ab; [exact sexpr_cond|vm_compute; lia]| |constructor].
        unfold body_big. constructor; [constructor|constructor].
      * constructor.
    + cbn [defs app]. constructor; [|constructor].
      constructor. apply lay_eq_ab; [exact sexpr_last|vm_compute; lia].
Qed.

Lemma progs_related : progrel (lay_eq fo) prog_a prog_b.
Proof.
  split; intros m st Hl; unfold prog_a, prog_b in *; cbn [lookup] in *; destruct (str_eqb m n_main); try discriminate;
    injection Hl as <-; eexists; (split; [reflexivity|exact stmts_related]).
Qed.

Lemma progs_differ_related : prog_a <> prog_b /\ progrel (lay_eq fo) prog_a prog_b.
Proof. exact (conj progs_differ progs_related). Qed.

Definition out_ab : list uline := [LCode (S_ "STRING big"); LCode (S_ "STRING 8")].

(* A's derivation, by hand *)
Lemma prog_a_runs : forall inc sup,
  uruns fo prog_a inc sup n_main 1 Normal [] (Some true) [(x_, VInt 9)] out_ab [].
Proof.
  intros inc sup.
  assert (H : exists F' f' vs' out ev, uruns fo prog_a inc sup n_main 1 Normal F' f' vs' out ev /\
            F' = [] /\ f' = Some true /\ vs' = [(x_, VInt 9)] /\ out = out_ab /\ ev = []).
  { do 5 eexists. split.
    - unfold uruns. eexists. eexists. split; [reflexivity|]. split; [|reflexivity].
      unfold stmts_of, body_big. uderive.
    - repeat split; vm_compute; reflexivity. }
  destruct H as (F' & f' & vs' & out & ev & H & -> & -> & -> & -> & ->). exact H.
Qed.

(* B's derivation, THROUGH THE THEOREM: same depth, signal, flag, variables, output lines *)
Lemma prog_b_runs : forall inc sup,
  exists F' ev', uruns fo prog_b inc sup n_main 1 Normal F' (Some true) [(x_, VInt 9)] out_ab ev' /\
                 prints_of ev' = [] /\ map shape ev' = [].
Proof.
  intros inc sup.
  destruct (layout_independent_programs_events fo inc sup prog_a prog_b n_main 1 Normal [] (Some true) [(x_, VInt 9)] out_ab []
              progs_related (prog_a_runs inc sup)) as (F' & ev' & H & _ & _ & Hp & Hs).
  exists F', ev'. split; [exact H|]. split; [rewrite <- Hp; reflexivity|rewrite <- Hs; reflexivity].
Qed.

End Examples.

(* the composition, evaluated: the tokenizer on both texts, the reference evaluator *)
Lemma e9_computed :
  tokenize fo1 [] (print lay_a e9) = Ok (VInt 9) /\ tokenize fo1 [] (print lay_b e9) = Ok (VInt 9) /\
  eval_ref fo1 [] e9 = Ok (VInt 9).
Proof. vm_compute. repeat split. Qed.
