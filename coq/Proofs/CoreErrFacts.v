(* Facts about the error judgement of Spec/CoreErr.v proved on the specification alone:
   the family of error classes, and the chain is never empty. *)
From Coq Require Import NArith ZArith List Bool Lia.
From DS Require Import Base PyStr Values Expr TabParse IdentSpec CoreLang CoreErr.
Import ListNotations.

Section Facts.
Variable fo : FloatOps.
Variable sys : store fo.

(* the documented family for the core fragment: a bad name, a bad argument (REPEAT count), the
   iteration bound, or whatever class the expression evaluator reports *)
Definition core_class (er : errcls) : Prop :=
  er = EUnacceptableVarName \/ er = EInvalidArguments \/ er = EExceededLimit \/
  exists vars e, tokenize fo vars e = Err er.

Lemma eval_err_class : forall f vs e er, eval_err fo sys f vs e er -> core_class er.
Proof. intros f vs e er H. right. right. right. exists (visible fo sys f vs), e. exact H. Qed.

Lemma later_fails_class : forall vs n rest er m, later_fails fo sys vs n rest er m -> core_class er.
Proof. intros vs n rest er m H. induction H; [eapply eval_err_class; eassumption|assumption]. Qed.

Theorem fails_class_all :
  (forall f vs n stm er a ch, fails fo sys f vs n stm er a ch -> core_class er /\ ch <> []) /\
  (forall f vs n p er a ch, fails_list fo sys f vs n p er a ch -> core_class er /\ ch <> []) /\
  (forall b vs n arms els er a ch, fails_arms fo sys b vs n arms els er a ch -> core_class er /\ ch <> []) /\
  (forall f c e body n k vs er a ch, fails_repeat fo sys f c e body n k vs er a ch -> core_class er /\ ch <> []) /\
  (forall c e body n k vs er a ch, fails_while fo sys c e body n k vs er a ch -> core_class er /\ ch <> []).
Proof.
  apply (fails_all_mind fo sys
           (fun f vs n stm er a ch => core_class er /\ ch <> [])
           (fun f vs n p er a ch => core_class er /\ ch <> [])
           (fun b vs n arms els er a ch => core_class er /\ ch <> [])
           (fun f c e body n k vs er a ch => core_class er /\ ch <> [])
           (fun c e body n k vs er a ch => core_class er /\ ch <> []));
    intros;
    try (split; [eapply eval_err_class; eassumption|discriminate]);
    try assumption;
    try (split; [|discriminate]).
  - left. reflexivity.
  - match goal with H : core_class _ /\ _ |- _ => exact (proj1 H) end.
  - eapply later_fails_class; eassumption.
  - match goal with H : core_class _ /\ _ |- _ => exact (proj1 H) end.
  - right. left. reflexivity.
  - right. left. reflexivity.
  - match goal with H : core_class _ /\ _ |- _ => exact (proj1 H) end.
  - right. right. left. reflexivity.
  - match goal with H : core_class _ /\ _ |- _ => exact (proj1 H) end.
Qed.

End Facts.
