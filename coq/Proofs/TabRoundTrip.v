(* C03 / T5: the parser inverts the rendering of a forest, for every indent unit. *)
From Coq Require Import NArith ZArith List Bool Lia.
From DS Require Import Base PyStr TabParse BlockTree TabProofs.
Import ListNotations.

(* ================================================================== induction on nodes *)

Fixpoint node_ind2 (P : node -> Prop)
  (H : forall c kids, Forall P kids -> P (Stmt c kids)) (nd : node) {struct nd} : P nd :=
  match nd with
  | Stmt c kids =>
      H c kids ((fix go (l : list node) : Forall P l :=
                   match l with
                   | [] => Forall_nil P
                   | k :: r => Forall_cons k (node_ind2 P H k) (go r)
                   end) kids)
  end.

(* ================================================================== unfolding lemmas *)

Lemma expected_go_eq : forall l m,
  (fix go (l : list node) (m : Z) {struct l} : list item :=
     match l with
     | [] => []
     | k :: r => expected_node k m ++ go r (m + Z.of_nat (node_size k))%Z
     end) l m = expected_forest l m.
Proof.
  intros l m. reflexivity.
Qed.

Lemma expected_node_eq : forall c kids n,
  expected_node (Stmt c kids) n =
  Ln c n :: match kids with [] => [] | _ => [Blk (expected_forest kids (n + 1)%Z)] end.
Proof.
  intros c kids n. destruct kids as [|k r]; [reflexivity|].
  rewrite <- expected_go_eq. reflexivity.
Qed.

Lemma node_size_eq : forall c kids, node_size (Stmt c kids) = S (forest_size kids).
Proof. reflexivity. Qed.

Lemma forest_size_cons : forall nd f, forest_size (nd :: f) = node_size nd + forest_size f.
Proof. reflexivity. Qed.

Lemma render_cons : forall u c kids f,
  render u (Stmt c kids :: f) = (c :: map (app u) (render u kids)) ++ render u f.
Proof. reflexivity. Qed.

Lemma render_length : forall u f, length (render u f) = forest_size f.
Proof.
  intro u.
  assert (Hn : forall nd, length (render_node u nd) = node_size nd).
  { apply node_ind2. intros c kids IH. cbn [render_node node_size length]. f_equal.
    rewrite map_length. induction IH as [|k r Hk Hr IHr]; [reflexivity|].
    cbn [flat_map map]. rewrite app_length. rewrite Hk.
    change (list_sum (node_size k :: map node_size r)) with (node_size k + list_sum (map node_size r)).
    f_equal. exact IHr. }
  induction f as [|nd f IH]; [reflexivity|].
  unfold render. cbn [flat_map]. rewrite app_length. rewrite Hn. fold (render u f). rewrite IH. reflexivity.
Qed.

(* ================================================================== numbering *)

Lemma number_from_app : forall a b n,
  number_from n (a ++ b) = number_from n a ++ number_from (n + Z.of_nat (length a))%Z b.
Proof.
  induction a as [|x a IH]; intros b n.
  - cbn [app number_from length]. replace (n + Z.of_nat 0)%Z with n by lia. reflexivity.
  - cbn [app number_from length]. rewrite IH. f_equal. f_equal. f_equal. lia.
Qed.

Lemma number_from_length : forall l n, length (number_from n l) = length l.
Proof. induction l as [|x l IH]; intro n; cbn [number_from length]; [reflexivity|]. rewrite IH. reflexivity. Qed.

(* ================================================================== rendered lines are code lines *)

Lemma wf_content_nonblank : forall c, wf_content c -> is_blank c = false.
Proof.
  intros c [Hc _]. destruct c as [|x c]; [contradiction|].
  unfold is_blank. cbn [lstrip]. rewrite Hc. reflexivity.
Qed.

Lemma render_nonblank : forall u, forallb isspace_c u = true ->
  forall f, wf_forest f -> forall l, In l (render u f) -> is_blank l = false.
Proof.
  intros u Hu.
  assert (Hn : forall nd, wf_node nd -> forall l, In l (render_node u nd) -> is_blank l = false).
  { apply (node_ind2 (fun nd => wf_node nd -> forall l, In l (render_node u nd) -> is_blank l = false)).
    intros c kids IH Hwf l Hin. inversion Hwf as [c' kids' Hc Hk]. subst c' kids'.
    cbn [render_node] in Hin. destruct Hin as [<-|Hin]; [apply wf_content_nonblank; exact Hc|].
    apply in_map_iff in Hin. destruct Hin as [l' [<- Hin]].
    rewrite is_blank_ws_app by exact Hu.
    apply in_flat_map in Hin. destruct Hin as [k [Hkin Hin]].
    rewrite Forall_forall in IH. rewrite Forall_forall in Hk.
    apply (IH k Hkin (Hk k Hkin) l' Hin). }
  intros f Hwf l Hin. unfold render in Hin. apply in_flat_map in Hin.
  destruct Hin as [k [Hkin Hin]]. unfold wf_forest in Hwf. rewrite Forall_forall in Hwf.
  apply (Hn k (Hwf k Hkin) l Hin).
Qed.

(* ================================================================== has_tab on rendered lines *)

Section Unit.
Variable u : str.
Hypothesis Hu : wf_unit u.

Lemma unit_ws : forallb isspace_c u = true.
Proof. exact (proj2 Hu). Qed.

Lemma unit_not_triple : forall l, startswith triple_quote (u ++ l) = false.
Proof.
  intro l. destruct Hu as [H1 H2]. destruct u as [|x u']; [contradiction|].
  cbn [app]. apply ws_first_not_triple.
  destruct H1 as [->| ->]; [apply sp_isspace|apply tb_isspace].
Qed.

Definition tab_here (tab : option str) : Prop := tab = None \/ tab = Some u.

Lemma has_tab_stmt : forall c tab n, wf_content c -> tab_here tab -> has_tab c tab n = TOk NoTab.
Proof.
  intros c tab n [Hc _] Htab. destruct c as [|y c]; [contradiction|].
  assert (Hd : ((y =? sp)%N || (y =? tb)%N) = false).
  { apply orb_false_iff. split; apply N.eqb_neq; intros ->.
    - rewrite sp_isspace in Hc. discriminate.
    - rewrite tb_isspace in Hc. discriminate. }
  unfold has_tab. destruct Htab as [->| ->].
  - rewrite Hd. reflexivity.
  - assert (Hs : startswith u (y :: c) = false).
    { destruct Hu as [H1 H2]. destruct u as [|x u']; [contradiction|].
      cbn [startswith]. cbn [forallb] in H2. apply andb_true_iff in H2. destruct H2 as [Hx _].
      destruct (N.eqb_spec x y) as [->|Hne]; [|reflexivity].
      rewrite Hx in Hc. discriminate. }
    rewrite Hs. rewrite Hc. rewrite Hd. reflexivity.
Qed.

Lemma has_tab_indented : forall l n, has_tab (u ++ l) (Some u) n = TOk IsTab.
Proof. intros l n. unfold has_tab. rewrite startswith_app_same. reflexivity. Qed.

Lemma has_tab_first_indented : forall c n, wf_content c ->
  has_tab (u ++ c) None n = TOk (NewTab u).
Proof.
  intros c n [Hc _]. unfold has_tab.
  rewrite discover_ws_app; [|apply unit_ws|destruct c; [contradiction|exact Hc]].
  destruct Hu as [H1 H2]. destruct u as [|x u']; [contradiction|]. cbn [app].
  assert (Hor : ((x =? sp)%N || (x =? tb)%N) = true).
  { destruct H1 as [->| ->]; reflexivity. }
  rewrite Hor. reflexivity.
Qed.

(* ================================================================== the loop on rendered text *)

Section Loop.
Variable rec : list preline -> option str -> tabres (list item).

(* one indented line is moved into the pending block, minus one unit *)
Lemma pd_loop_indented_line : forall l m rest tab newc ret,
  is_blank l = false ->
  (tab = Some u \/ (tab = None /\ wf_content l)) ->
  pd_loop rec ((u ++ l, m) :: rest) tab newc ret 0%Z false =
  pd_loop rec rest (Some u) ((l, m) :: newc) ret 0%Z false.
Proof.
  intros l m rest tab newc ret Hl Htab. cbn [pd_loop].
  rewrite is_blank_ws_app by apply unit_ws. rewrite Hl.
  rewrite unit_not_triple. cbn [andb].
  change (negb (0 =? 0)%Z) with false. cbv iota.
  destruct Htab as [->|[-> Hc]].
  - rewrite has_tab_indented. rewrite removeprefix_app_same. reflexivity.
  - rewrite has_tab_first_indented by exact Hc. rewrite removeprefix_app_same. reflexivity.
Qed.

Lemma pd_loop_indented : forall ls m rest newc ret,
  (forall l, In l ls -> is_blank l = false) ->
  pd_loop rec (number_from m (map (app u) ls) ++ rest) (Some u) newc ret 0%Z false =
  pd_loop rec rest (Some u) (rev (number_from m ls) ++ newc) ret 0%Z false.
Proof.
  induction ls as [|l ls IH]; intros m rest newc ret Hnb; [reflexivity|].
  cbn [map number_from app].
  rewrite pd_loop_indented_line; [|apply Hnb; left; reflexivity|left; reflexivity].
  rewrite IH by (intros l' Hl'; apply Hnb; right; exact Hl').
  cbn [rev]. rewrite <- app_assoc. reflexivity.
Qed.

(* all lines of the children of a statement are moved into the pending block *)
Lemma pd_loop_kids : forall kids m rest tab ret,
  wf_forest kids -> tab_here tab -> kids <> [] ->
  pd_loop rec (number_from m (map (app u) (render u kids)) ++ rest) tab [] ret 0%Z false =
  pd_loop rec rest (Some u) (rev (number_from m (render u kids))) ret 0%Z false.
Proof.
  intros kids m rest tab ret Hwf Htab Hne.
  assert (Hnb : forall l, In l (render u kids) -> is_blank l = false).
  { apply render_nonblank; [apply unit_ws|exact Hwf]. }
  destruct kids as [|[c gk] r]; [contradiction|].
  rewrite render_cons in *. cbn [app map number_from].
  inversion Hwf as [|k0 r0 Hk Hr]. subst k0 r0.
  inversion Hk as [c' gk' Hc Hgk]. subst c' gk'.
  rewrite pd_loop_indented_line.
  - rewrite pd_loop_indented by (intros l Hl; apply Hnb; right; exact Hl).
    cbn [rev]. reflexivity.
  - apply Hnb. left. reflexivity.
  - destruct Htab as [->| ->]; [right; split; [reflexivity|exact Hc]|left; reflexivity].
Qed.

Variable bound : nat.
Hypothesis Hrec : forall kids m,
  wf_forest kids -> forest_size kids < bound ->
  rec (number_from m (render u kids)) (Some u) = TOk (expected_forest kids m).

Definition flush (pend : forest) (m : Z) (ret : list item) : list item :=
  match pend with
  | [] => ret
  | _ => Blk (expected_forest pend m) :: ret
  end.

Lemma flush_eq : forall (A : Type) (K : list item -> A) (E : taberr -> A) pend m tab ret newc,
  newc = rev (number_from m (render u pend)) ->
  wf_forest pend ->
  (pend <> [] -> tab = Some u /\ forest_size pend < bound) ->
  match newc with
  | [] => K ret
  | _ :: _ => match rec (rev newc) tab with
              | TOk b => K (Blk b :: ret)
              | TErr e => E e
              end
  end = K (flush pend m ret).
Proof.
  intros A K E pend m tab ret newc Hn Hwf Hp.
  destruct pend as [|k p].
  - subst newc. reflexivity.
  - destruct Hp as [-> Hsz]; [discriminate|].
    assert (Hlen : length newc = forest_size (k :: p)).
    { subst newc. rewrite rev_length. rewrite number_from_length. apply render_length. }
    destruct newc as [|x l].
    + rewrite forest_size_cons in Hlen. destruct k as [c gk]. rewrite node_size_eq in Hlen.
      cbn [length] in Hlen. lia.
    + rewrite Hn. rewrite rev_involutive. rewrite Hrec by assumption. reflexivity.
Qed.

Lemma pd_loop_forest : forall f n tab pend m ret first,
  wf_forest f -> wf_forest pend ->
  tab_here tab ->
  (pend <> [] -> tab = Some u /\ forest_size pend < bound) ->
  forest_size f <= bound ->
  pd_loop rec (number_from n (render u f)) tab (rev (number_from m (render u pend))) ret 0%Z first =
  TOk (rev (flush pend m ret) ++ expected_forest f n).
Proof.
  induction f as [|[c kids] r IH]; intros n tab pend m ret first Hwf Hwfp Htab Hp Hsz.
  - cbn [render flat_map number_from pd_loop].
    change (negb (0 =? 0)%Z) with false. cbv iota.
    refine (eq_trans (flush_eq _ (fun x => TOk (rev x)) TErr pend m tab ret _ eq_refl Hwfp Hp) _).
    cbn [expected_forest]. rewrite app_nil_r. reflexivity.
  - inversion Hwf as [|k0 r0 Hk Hr]. subst k0 r0.
    inversion Hk as [c' kids' Hc Hkids]. subst c' kids'.
    rewrite render_cons. cbn [app number_from pd_loop].
    rewrite (wf_content_nonblank c Hc). rewrite (proj2 Hc). cbn [andb].
    change (negb (0 =? 0)%Z) with false. cbv iota.
    rewrite (has_tab_stmt c tab n Hc Htab).
    rewrite number_from_app. rewrite map_length. rewrite render_length.
    refine (eq_trans (flush_eq _ (fun x => pd_loop rec _ tab [] (Ln c n :: x) 0%Z false) TErr
                        pend m tab ret _ eq_refl Hwfp Hp) _).
    cbv beta.
    rewrite forest_size_cons in Hsz. rewrite node_size_eq in Hsz.
    cbn [expected_forest]. rewrite expected_node_eq. rewrite node_size_eq.
    replace (n + Z.of_nat (S (forest_size kids)))%Z with (n + 1 + Z.of_nat (forest_size kids))%Z by lia.
    destruct kids as [|k ks].
    + cbn [render flat_map map number_from app].
      change (@nil preline) with (rev (number_from 0%Z (render u []))) at 1.
      rewrite IH.
      * cbn [flush rev app]. rewrite <- app_assoc. reflexivity.
      * exact Hr.
      * constructor.
      * exact Htab.
      * intro Hne. contradiction.
      * lia.
    + rewrite pd_loop_kids; [|exact Hkids|exact Htab|discriminate].
      rewrite IH.
      * cbn [flush rev app]. rewrite <- !app_assoc. reflexivity.
      * exact Hr.
      * exact Hkids.
      * right. reflexivity.
      * intros _. split; [reflexivity|lia].
      * lia.
Qed.
End Loop.

Lemma parse_doc_render : forall fuel f n tab,
  wf_forest f -> tab_here tab -> forest_size f < fuel ->
  parse_doc fuel (number_from n (render u f)) tab = TOk (expected_forest f n).
Proof.
  induction fuel as [|fuel IH]; intros f n tab Hwf Htab Hsz; [lia|].
  cbn [parse_doc].
  change (@nil preline) with (rev (number_from 0%Z (render u []))) at 1.
  rewrite pd_loop_forest with (bound := fuel).
  - reflexivity.
  - intros kids m Hk Hks. apply IH; [exact Hk|right; reflexivity|exact Hks].
  - exact Hwf.
  - constructor.
  - exact Htab.
  - intro Hne. contradiction.
  - lia.
Qed.
End Unit.

Theorem parse_render_round_trip : forall u f,
  wf_unit u -> wf_forest f ->
  parse_document (convert_to (render u f)) = TOk (fst (expected f 1%Z)).
Proof.
  intros u f Hu Hwf. unfold parse_document, convert_to, expected. cbn [fst].
  apply parse_doc_render.
  - exact Hu.
  - exact Hwf.
  - left. reflexivity.
  - rewrite number_from_length. rewrite render_length. lia.
Qed.

(* ================================================================== the two renderings agree *)

Lemma flat_map_cons : forall (A B : Type) (g : A -> list B) x l, flat_map g (x :: l) = g x ++ flat_map g l.
Proof. reflexivity. Qed.

Lemma render_node_at_eq : forall u nd pre,
  render_node_at u pre nd = map (app pre) (render_node u nd).
Proof.
  intro u.
  apply (node_ind2 (fun nd => forall pre, render_node_at u pre nd = map (app pre) (render_node u nd))).
  intros c kids IH pre. cbn [render_node_at render_node map]. f_equal.
  rewrite map_map.
  induction IH as [|k r Hk Hr IHr]; [reflexivity|].
  rewrite !flat_map_cons. rewrite map_app. rewrite IHr. f_equal.
  rewrite Hk. apply map_ext. intro l. rewrite app_assoc. reflexivity.
Qed.

(* [render] prefixes a statement at nesting level k with k copies of the unit *)
Theorem render_at_eq : forall u f, render_at u [] f = render u f.
Proof.
  intros u f. unfold render_at, render.
  induction f as [|nd f IH]; [reflexivity|].
  rewrite !flat_map_cons. rewrite IH. f_equal.
  rewrite render_node_at_eq. rewrite <- (map_id (render_node u nd)) at 2.
  apply map_ext. intro l. reflexivity.
Qed.

(* the result does not depend on the indent unit *)
Corollary parse_render_unit_independent : forall u1 u2 f,
  wf_unit u1 -> wf_unit u2 -> wf_forest f ->
  parse_document (convert_to (render u1 f)) = parse_document (convert_to (render u2 f)).
Proof.
  intros u1 u2 f H1 H2 Hf.
  rewrite (parse_render_round_trip u1 f H1 Hf). rewrite (parse_render_round_trip u2 f H2 Hf). reflexivity.
Qed.

(* a sufficient condition for [wf_content]: first character not whitespace, no double quote at all *)
Lemma wf_content_no34 : forall x c,
  isspace_c x = false -> char_in 34%N (x :: c) = false -> wf_content (x :: c).
Proof. intros x c Hx Hq. split; [exact Hx|apply no34_not_triple; exact Hq]. Qed.
