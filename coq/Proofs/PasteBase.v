(* C12c, part 1: the data of the "paste" simulation.
   - [clean]: no START-family line anywhere in a block tree;
   - [Ral]: two association lists with the same keys in the same order and related values;
   - [kext]: the key list only grows at the end (dict semantics of upd);
   - [upd_all_self_ext]: merging a dict that extends [l1] back into [l1] gives that dict;
   - [tf]: the distinct warning texts in order of first appearance, insensitive to traces. *)
From Coq Require Import NArith ZArith List Bool Lia.
From DS Require Import Base PyStr Values Expr TabParse Tables Constants Interp ScopeProofs.
Import ListNotations.

(* ------------------------------------------------------------------ clean code *)
Definition clean_line (c : str) : Prop :=
  forall cmd more cb cname cl, split_ws1 c = cmd :: more ->
    find_command palette cmd cb = Some (cname, cl) -> is_start_class cl = false.

Fixpoint clean_item (i : item) : Prop :=
  match i with
  | Ln c _ => clean_line c
  | Blk b => (fix go (l : list item) : Prop :=
                match l with [] => True | x :: r => clean_item x /\ go r end) b
  end.

Definition clean (l : list item) : Prop := Forall clean_item l.

Lemma clean_blk : forall b, clean_item (Blk b) <-> clean b.
Proof.
  intro b. cbn [clean_item]. unfold clean. induction b as [|x r IH].
  - split; [constructor|intros _; exact I].
  - split.
    + intros [Hx Hr]. constructor; [exact Hx|apply IH; exact Hr].
    + intro H. inversion H as [|a l Hx Hr]; subst. split; [exact Hx|apply IH; exact Hr].
Qed.

Lemma clean_nil : clean [].
Proof. constructor. Qed.

Lemma clean_cons_ln : forall c n r, clean (Ln c n :: r) -> clean_line c /\ clean r.
Proof. intros c n r H. inversion H; subst. split; assumption. Qed.

Lemma clean_cons_blk : forall b r, clean (Blk b :: r) -> clean b /\ clean r.
Proof. intros b r H. inversion H as [|a l Hb Hr]; subst. split; [apply clean_blk; exact Hb|exact Hr]. Qed.

Lemma clean_app : forall a b, clean a -> clean b -> clean (a ++ b).
Proof. intros a b Ha Hb. apply Forall_app. split; assumption. Qed.

(* ------------------------------------------------------------------ related association lists *)
Section Assoc2.
Context {A B : Type} (R : A -> B -> Prop).

Definition Ral (la : list (str * A)) (lb : list (str * B)) : Prop :=
  Forall2 (fun a b => fst a = fst b /\ R (snd a) (snd b)) la lb.

Lemma Ral_nil : Ral [] [].
Proof. constructor. Qed.

Lemma Ral_keys : forall la lb, Ral la lb -> map fst la = map fst lb.
Proof.
  intros la lb H. induction H as [|a b la lb [Hk _] _ IH]; cbn [map]; [reflexivity|].
  rewrite Hk, IH. reflexivity.
Qed.

Lemma Ral_lookup : forall k la lb, Ral la lb ->
  match lookup k la, lookup k lb with
  | Some a, Some b => R a b
  | None, None => True
  | _, _ => False
  end.
Proof.
  intros k la lb H. induction H as [|[ka a] [kb b] la lb [Hk Hr] _ IH]; cbn [lookup]; [exact I|].
  cbn [fst snd] in Hk, Hr. subst kb. destruct (str_eqb k ka); [exact Hr|exact IH].
Qed.

Lemma Ral_upd : forall k a b la lb, Ral la lb -> R a b -> Ral (upd k a la) (upd k b lb).
Proof.
  intros k a b la lb H Hr. induction H as [|[ka a'] [kb b'] la lb [Hk Hr'] Hrest IH]; cbn [upd].
  - constructor; [split; [reflexivity|exact Hr]|constructor].
  - cbn [fst snd] in Hk, Hr'. subst kb. destruct (str_eqb k ka).
    + constructor; [split; [reflexivity|exact Hr]|exact Hrest].
    + constructor; [split; [reflexivity|exact Hr']|exact IH].
Qed.

Lemma Ral_upd_all : forall sa sb, Ral sa sb -> forall da db, Ral da db -> Ral (upd_all sa da) (upd_all sb db).
Proof.
  unfold upd_all. intros sa sb H. induction H as [|[ka a] [kb b] sa sb [Hk Hr] _ IH]; intros da db Hd; cbn [fold_left].
  - exact Hd.
  - cbn [fst snd] in *. subst kb. apply IH. apply Ral_upd; assumption.
Qed.

End Assoc2.

(* ------------------------------------------------------------------ key extension *)
Section Keys.
Context {A : Type}.
Implicit Types (l src dst : list (str * A)).

Definition kext l l' : Prop := exists x, map fst l' = map fst l ++ x.

Lemma kext_refl : forall l, kext l l.
Proof. intro l. exists []. rewrite app_nil_r. reflexivity. Qed.

Lemma kext_trans : forall a b c, kext a b -> kext b c -> kext a c.
Proof. intros a b c [x Hx] [y Hy]. exists (x ++ y). rewrite Hy, Hx, app_assoc. reflexivity. Qed.

Lemma kext_upd : forall k v l, kext l (upd k v l).
Proof.
  intros k v l. unfold kext. rewrite keys_upd.
  destruct (has_key k l); [exists []; rewrite app_nil_r|exists [k]]; reflexivity.
Qed.

Lemma kext_upd_all : forall src dst, kext dst (upd_all src dst).
Proof.
  unfold upd_all. induction src as [|[k v] src IH]; intro dst; cbn [fold_left fst snd].
  - apply kext_refl.
  - eapply kext_trans; [apply kext_upd|apply IH].
Qed.

Lemma kext_incl : forall l l' k, kext l l' -> In k (map fst l) -> In k (map fst l').
Proof. intros l l' k [x Hx] Hin. rewrite Hx. apply in_or_app. left. exact Hin. Qed.

Lemma has_key_cons : forall k k' v l, has_key k ((k', v) :: l) = str_eqb k k' || has_key k l.
Proof. intros. unfold has_key. cbn [lookup]. destruct (str_eqb k k'); reflexivity. Qed.

Lemma has_key_upd_all : forall k src dst, has_key k (upd_all src dst) = has_key k src || has_key k dst.
Proof.
  unfold upd_all. intros k src. induction src as [|[k' v] src IH]; intro dst; cbn [fold_left fst snd].
  - reflexivity.
  - rewrite IH, has_key_upd, has_key_cons. destruct (str_eqb k k'), (has_key k src); reflexivity.
Qed.

Lemma keys_incl_upd_all_nil : forall src k, In k (map fst src) -> In k (map fst (upd_all src [])).
Proof.
  intros src k H. apply has_key_In. rewrite has_key_upd_all. apply has_key_In in H. rewrite H. reflexivity.
Qed.

Lemma keys_restrict_kept : forall (self other : list (str * A)),
  (forall k, In k (map fst self) -> In k (map fst other)) ->
  map fst (restrict_from self other) = map fst self.
Proof.
  intros self other H. apply keys_restrict_from_all. intros k Hk.
  apply has_key_In. apply H. apply has_key_In. exact Hk.
Qed.

(* ---- merging back *)
Lemma upd_notin : forall k v l, ~ In k (map fst l) -> upd k v l = l ++ [(k, v)].
Proof.
  intros k v l. induction l as [|[k' v'] r IH]; intro Hn; cbn [upd app]; [reflexivity|].
  cbn [map fst In] in Hn. destruct (str_eqb k k') eqn:E.
  - apply str_eqb_eq in E. subst. exfalso. apply Hn. left. reflexivity.
  - rewrite IH; [reflexivity|]. intro Hin. apply Hn. right. exact Hin.
Qed.

Lemma upd_all_append_fresh : forall l2 pre, nodup_keys (pre ++ l2) -> upd_all l2 pre = pre ++ l2.
Proof.
  unfold upd_all. induction l2 as [|[k v] r IH]; intros pre Hnd; cbn [fold_left fst snd].
  - rewrite app_nil_r. reflexivity.
  - assert (Hk : ~ In k (map fst pre)).
    { unfold nodup_keys in Hnd. rewrite map_app in Hnd. cbn [map fst] in Hnd.
      apply NoDup_remove_2 in Hnd. intro Hin. apply Hnd. apply in_or_app. left. exact Hin. }
    rewrite (upd_notin k v pre Hk).
    assert (E : pre ++ (k, v) :: r = (pre ++ [(k, v)]) ++ r) by (rewrite <- app_assoc; reflexivity).
    rewrite E. apply IH. rewrite <- E. exact Hnd.
Qed.

Lemma upd_all_nil_nodup : forall l, nodup_keys l -> upd_all l [] = l.
Proof. intros l H. apply (upd_all_append_fresh l []). exact H. Qed.

Lemma upd_all_head_notin : forall src k v dst, ~ In k (map fst src) ->
  upd_all src ((k, v) :: dst) = (k, v) :: upd_all src dst.
Proof.
  unfold upd_all. induction src as [|[k' v'] src IH]; intros k v dst Hn; cbn [fold_left fst snd]; [reflexivity|].
  cbn [map fst In] in Hn. cbn [upd].
  destruct (str_eqb k' k) eqn:E.
  - apply str_eqb_eq in E. subst. exfalso. apply Hn. left. reflexivity.
  - apply IH. intro Hin. apply Hn. right. exact Hin.
Qed.

Lemma upd_all_self_ext : forall l1 l2 x, nodup_keys l2 -> map fst l2 = map fst l1 ++ x -> upd_all l2 l1 = l2.
Proof.
  induction l1 as [|[k1 v1] l1 IH]; intros l2 x Hnd Hk.
  - apply upd_all_nil_nodup. exact Hnd.
  - destruct l2 as [|[k2 v2] l2]; [discriminate|].
    cbn [map fst app] in Hk. injection Hk as Hk1 Hk. subst k2.
    unfold nodup_keys in Hnd. cbn [map fst] in Hnd. inversion Hnd as [|a b Hn Hnd']; subst.
    change (upd_all ((k1, v2) :: l2) ((k1, v1) :: l1)) with (upd_all l2 (upd k1 v2 ((k1, v1) :: l1))).
    cbn [upd]. rewrite str_eqb_refl.
    rewrite upd_all_head_notin by exact Hn. f_equal. eapply IH; [exact Hnd'|exact Hk].
Qed.

End Keys.

(* ------------------------------------------------------------------ warning texts *)
Fixpoint tf (ws : list warning) : list str :=
  match ws with
  | [] => []
  | w :: r => if str_in (w_text w) (map w_text r) then tf r else tf r ++ [w_text w]
  end.

Lemma str_in_In : forall x l, str_in x l = true <-> In x l.
Proof.
  intros x l. induction l as [|y r IH]; cbn [str_in In].
  - split; [discriminate|intros []].
  - rewrite orb_true_iff, IH, str_eqb_eq. split; intros [H|H]; auto.
Qed.

Lemma str_in_app : forall x a b, str_in x (a ++ b) = str_in x a || str_in x b.
Proof.
  intros x a b. induction a as [|y r IH]; cbn [app str_in]; [reflexivity|].
  rewrite IH, orb_assoc. reflexivity.
Qed.

Lemma tf_in : forall t ws, str_in t (tf ws) = str_in t (map w_text ws).
Proof.
  intros t ws. induction ws as [|w r IH]; cbn [tf map str_in]; [reflexivity|].
  destruct (str_in (w_text w) (map w_text r)) eqn:E.
  - rewrite IH. destruct (str_eqb t (w_text w)) eqn:Et; [|reflexivity].
    apply str_eqb_eq in Et. subst t. rewrite E. reflexivity.
  - rewrite str_in_app, IH. cbn [str_in]. rewrite orb_false_r, orb_comm. reflexivity.
Qed.

Lemma tf_add_warning : forall w g,
  tf (g_warnings (add_warning w g)) =
  if str_in (w_text w) (tf (g_warnings g)) then tf (g_warnings g) else tf (g_warnings g) ++ [w_text w].
Proof.
  intros w g. rewrite tf_in. unfold add_warning.
  destruct (existsb (warning_eqb w) (g_warnings g)) eqn:E.
  - apply existsb_exists in E. destruct E as (w' & Hin & Heq).
    unfold warning_eqb in Heq. apply andb_true_iff in Heq. destruct Heq as [Ht _].
    apply str_eqb_eq in Ht.
    assert (Hi : str_in (w_text w) (map w_text (g_warnings g)) = true).
    { apply str_in_In. rewrite Ht. apply in_map. exact Hin. }
    rewrite Hi. reflexivity.
  - cbn [g_warnings tf]. reflexivity.
Qed.

(* same text, any two traces: the text sequences stay equal *)
Lemma tf_add_warning_rel : forall t tr1 tr2 g1 g2,
  tf (g_warnings g1) = tf (g_warnings g2) ->
  tf (g_warnings (add_warning (mkWarn t tr1) g1)) = tf (g_warnings (add_warning (mkWarn t tr2) g2)).
Proof. intros t tr1 tr2 g1 g2 H. rewrite !tf_add_warning. cbn [w_text]. rewrite H. reflexivity. Qed.
