(* C01 (whole script): concrete witnesses.  The hypotheses of the flat-script theorems are satisfiable;
   the model, evaluated on the spelled text, gives the canonical lines; and the places where the
   informal "exactly the same lines" is false (DELAY 007, ALT esc). *)
From Coq Require Import String Ascii NArith ZArith List Bool Lia.
From DS Require Import Base PyStr Values Expr TabParse Interp Tables Constants.
From DS Require Import DuckyGrammar LineGrammar GrammarProofs Spelling FlatScript FlatStrings FlatProofs FlatWhole.
Import ListNotations.

Arguments IOk {A}.
Arguments out {fo}.

(* a dummy float instance: no float ever occurs in a flat script *)
Definition dfo : FloatOps :=
  Build_FloatOps unit (fun _ => Some tt) (fun _ _ _ => tt) (fun _ _ => tt) (fun _ _ => tt)
    (fun _ _ => tt) (fun _ _ => tt) (fun _ _ => tt) (fun _ _ => tt) (fun _ _ => PowOk tt)
    (fun _ => true) (fun _ => 0%Z) (fun _ _ => true) (fun _ _ => false) (fun _ => true) (fun _ => []).

Definition compiled_out {fo} (r : glob * ires (compiled fo)) : option (list oline) :=
  match r with (_, IOk c) => Some (out c) | _ => None end.

Definition b1 : str := [32%N].
Definition b3 : str := [32; 9; 32]%N.

Definition example_script : script :=
  Eval vm_compute in
  [ (mkSp (lit "Ctrl") b3 b1, VMod SCtrl (lit "CTRL") (lit "esc"));
    (mkSp (lit "aLt") b1 [], VMod SAlt (lit "ALT") (lit "esc"));
    (mkSp (lit "alt") b1 [], VMod SAlt (lit "ALT") (lit "x"));
    (mkSp (lit "delay") b1 b3, VDelay SDelay (lit "DELAY") (lit "007"));
    (mkSp (lit "String") b3 b1, VString (lit "STRING") (lit "Hello  world  "));
    (mkSp (lit "rem") b1 b1, VRem (lit "a  comment"));
    (mkSp (lit "REM") b1 b1, VRem []);
    (mkSp (lit "Enter") b1 b3, VKey (lit "ENTER"));
    (mkSp (lit "tab") b1 [], VKey (lit "TAB"));
    (mkSp (lit "Default_Delay") b1 [], VDelay SDefaultDelay (lit "DEFAULT_DELAY") (lit "0100"));
    (mkSp (lit "gui") b1 [], VMod SGui (lit "GUI") (lit "r"));
    (mkSp (lit "shift") b1 [], VModBare SShift (lit "SHIFT"));
    (mkSp (lit "Ctrl-Alt") b1 [], VMod SFlipMod (lit "CTRL-ALT") (lit "t"));
    (mkSp (lit "altchar") b1 b1, VMod SAltChar (lit "ALTCHAR") (lit "0130"));
    (mkSp (lit "AltString") b1 b1, VFlipText (lit "ALTSTRING") (lit "some text")) ].

(* comments are off in the default options: the REM lines vanish *)
Definition example_expected : list str :=
  Eval vm_compute in
  map lit [ "CTRL esc"; "ALT ESC"; "ALT x"; "DELAY 7"; "STRING Hello  world  "; "ENTER"; "TAB";
            "DEFAULT_DELAY 100"; "GUI r"; "SHIFT"; "CTRL-ALT t"; "ALTCHAR 0130";
            "ALTSTRING some text" ]%string.

Lemma example_ok : script_ok example_script /\ script_flip_ok default_options (lines_of example_script).
Proof.
  split.
  - unfold script_ok, example_script.
    repeat (apply Forall_cons;
      [ cbn [vline_ok spelling_ok snd fst]; repeat split;
        first [ apply GrammarProofs.str_in_In; vm_compute; reflexivity | discriminate | vm_compute; reflexivity ] |]).
    apply Forall_nil.
  - left. reflexivity.
Qed.

(* the model itself, run on the spelled text *)
Lemma example_output :
  option_map (map o_text) (compiled_out (compile_items dfo default_options (fun _ => None) None (flat_items 1 example_script)))
  = Some example_expected.
Proof. vm_compute. reflexivity. Qed.

(* the same through the theorem *)
Lemma example_canon : canon_script false (lines_of example_script) = example_expected.
Proof. vm_compute. reflexivity. Qed.

(* with comments enabled the REM lines are kept, trimmed *)
Lemma example_canon_comments :
  canon_script true (lines_of example_script) =
  map lit [ "CTRL esc"; "ALT ESC"; "ALT x"; "DELAY 7"; "STRING Hello  world  "; "REM a  comment"; "REM";
            "ENTER"; "TAB"; "DEFAULT_DELAY 100"; "GUI r"; "SHIFT"; "CTRL-ALT t"; "ALTCHAR 0130";
            "ALTSTRING some text" ]%string.
Proof. vm_compute. reflexivity. Qed.
