(* C10 (RUN frames): every function record of the environment comes from a FUNC line of the
   program or of a file it imports, and carries that line's file; hence a RUN frame of a trace is
   followed by a line of the body of such a FUNC line, in the file where the function was DEFINED
   ("resolves relative to the defining file").  Closes the gap left by TraceShape.cc_run. *)
From Coq Require Import NArith ZArith List Bool Lia.
From DS Require Import Base PyStr Values Expr TabParse Tables Constants Interp StackLift TraceShape FuncLift.
Import ListNotations.

(* the kinds of lines, by the palette class that claims them (with the block [cb] that follows) *)
Definition func_line (c : str) (cb : option (list item)) : Prop :=
  exists cmd more cname bc,
    split_ws1 c = cmd :: more /\ find_command palette cmd cb = Some (cname, Block bc) /\ b_kind bc = BKFunc.
Definition start_line (c : str) (cb : option (list item)) : Prop :=
  exists cmd more cname sc,
    split_ws1 c = cmd :: more /\ find_command palette cmd cb = Some (cname, Simple sc) /\ s_run sc = RKStart.
Definition run_line (c : str) (cb : option (list item)) : Prop :=
  exists cmd more cname sc,
    split_ws1 c = cmd :: more /\ find_command palette cmd cb = Some (cname, Simple sc) /\ s_run sc = RKRun.

Section Prov.
Variable fs : fsys.               (* the file system *)
Variable file0 : option path.     (* the main file *)
Variable prog : list item.        (* the main program *)

(* the (file, commands) pairs a stack can run: the main program, the block that follows a line of
   a source, and the parsed text of a file that a START line of a source (which has a file) names *)
Inductive source : option path -> list item -> Prop :=
| src_main : source file0 prog
| src_block : forall f cmds cur cb,
    source f cmds -> In (cur, cb) (line_blocks cmds) -> source f (block_of cb)
| src_start : forall f cmds c n cb rel target text code,
    source (Some f) cmds -> In ((c, n), cb) (line_blocks cmds) -> start_line c cb ->
    resolve_start f rel = Ok target -> fs target = Some text -> prepare_text text = TOk code ->
    source (Some target) code.

(* all sources have a file, or none has *)
Lemma source_none : forall f cmds, source f cmds -> f = None -> file0 = None.
Proof.
  intros f cmds H. induction H as [|f cmds cur cb H IH Hin|f cmds c n cb rel target text code H IH Hin Hs Hr Hfs Hp];
    intro E; [exact E|exact (IH E)|discriminate].
Qed.

Lemma source_some : forall f cmds, source f cmds -> f <> None -> file0 <> None.
Proof.
  intros f cmds H. induction H as [|f cmds cur cb H IH Hin|f cmds c n cb rel target text code H IH Hin Hs Hr Hfs Hp];
    intro E; [exact E|exact (IH E)|apply IH; discriminate].
Qed.

Lemma source_uniform : forall f1 c1 f2 c2, source f1 c1 -> source f2 c2 -> f1 = None -> f2 = None.
Proof.
  intros f1 c1 f2 c2 H1 H2 E. destruct f2 as [p|]; [|reflexivity].
  exfalso. apply (source_some _ _ H2); [discriminate|]. exact (source_none _ _ H1 E).
Qed.

(* provenance of a function record: code = the block that follows a FUNC line of a source,
   file = the file of that source *)
Definition func_src (f : func) : Prop :=
  exists dfile dcmds dc dn dcb,
    source dfile dcmds /\ In ((dc, dn), dcb) (line_blocks dcmds) /\ func_line dc dcb /\
    fn_code f = block_of dcb /\ fn_file f = dfile.

(* how the line [c], followed by the block [cb], can start a child stack (file, code): as
   TraceShape.child_call, but
   - RUN runs the block that follows a FUNC line of a source, IN THE FILE OF THAT SOURCE;
   - START runs the file that its importing file's directory and the argument resolve to *)
Inductive child_call_s (cx : ctx) (c : str) (cb : option (list item)) : option path -> list item -> Prop :=
| ccs_block : forall cmd more cname bc,
    split_ws1 c = cmd :: more -> find_command palette cmd cb = Some (cname, Block bc) ->
    child_call_s cx c cb (c_file cx) (block_of cb)
| ccs_run : forall cmd more cname sc dfile dcmds dc dn dcb,
    split_ws1 c = cmd :: more -> find_command palette cmd cb = Some (cname, Simple sc) ->
    s_run sc = RKRun ->
    source dfile dcmds -> In ((dc, dn), dcb) (line_blocks dcmds) -> func_line dc dcb ->
    child_call_s cx c cb dfile (block_of dcb)
| ccs_start : forall cmd more cname sc file rel target text code,
    split_ws1 c = cmd :: more -> find_command palette cmd cb = Some (cname, Simple sc) ->
    s_run sc = RKStart ->
    c_file cx = Some file -> resolve_start file rel = Ok target ->
    c_fs cx target = Some text -> prepare_text text = TOk code ->
    child_call_s cx c cb (Some target) code.

Definition line_call_s (cx : ctx) (cmds : list item) (cur : preline) (file : option path) (code : list item) : Prop :=
  exists cb, In (cur, cb) (line_blocks cmds) /\ child_call_s cx (fst cur) cb file code.

(* it is a strengthening *)
Lemma child_call_s_weaken : forall cx c cb file code, child_call_s cx c cb file code -> child_call cx c cb file code.
Proof.
  intros cx c cb file code H.
  destruct H as [cmd more cname bc Hs Hf|cmd more cname sc dfile dcmds dc dn dcb Hs Hf Hk Hsrc Hin Hfl
                |cmd more cname sc file rel target text code Hs Hf Hk Hcf Hr Hfs Hp].
  - eapply cc_block; eassumption.
  - eapply cc_run; eassumption.
  - eapply cc_start; eassumption.
Qed.

Lemma line_call_s_weaken : forall cx cmds cur file code, line_call_s cx cmds cur file code -> line_call cx cmds cur file code.
Proof. intros cx cmds cur file code (cb & Hin & H). exists cb. split; [exact Hin|apply child_call_s_weaken; exact H]. Qed.

(* the RUN case, inverted: what a RUN line starts *)
Lemma child_call_s_run_inv : forall cx c cb file code, child_call_s cx c cb file code -> run_line c cb ->
  exists dcmds dc dn dcb,
    source file dcmds /\ In ((dc, dn), dcb) (line_blocks dcmds) /\ func_line dc dcb /\ code = block_of dcb.
Proof.
  intros cx c cb file code H (cmd & more & cname & sc & Hs & Hf & Hk).
  destruct H as [cmd' more' cname' bc' Hs' Hf'|cmd' more' cname' sc' dfile dcmds dc dn dcb Hs' Hf' Hk' Hsrc Hin Hfl
                |cmd' more' cname' sc' file rel target text code Hs' Hf' Hk' Hcf Hr Hfs Hp].
  - rewrite Hs in Hs'. injection Hs' as <- <-. rewrite Hf in Hf'. discriminate.
  - exists dcmds, dc, dn, dcb. repeat split; assumption.
  - rewrite Hs in Hs'. injection Hs' as <- <-. rewrite Hf in Hf'. injection Hf' as <- <-.
    rewrite Hk in Hk'. discriminate.
Qed.

Lemma child_call_s_start_inv : forall cx c cb file code, child_call_s cx c cb file code -> start_line c cb ->
  exists importer rel target text,
    c_file cx = Some importer /\ resolve_start importer rel = Ok target /\ file = Some target /\
    c_fs cx target = Some text /\ prepare_text text = TOk code.
Proof.
  intros cx c cb file code H (cmd & more & cname & sc & Hs & Hf & Hk).
  destruct H as [cmd' more' cname' bc' Hs' Hf'|cmd' more' cname' sc' dfile dcmds dc dn dcb Hs' Hf' Hk' Hsrc Hin Hfl
                |cmd' more' cname' sc' file rel target text code Hs' Hf' Hk' Hcf Hr Hfs Hp].
  - rewrite Hs in Hs'. injection Hs' as <- <-. rewrite Hf in Hf'. discriminate.
  - rewrite Hs in Hs'. injection Hs' as <- <-. rewrite Hf in Hf'. injection Hf' as <- <-.
    rewrite Hk in Hk'. discriminate.
  - exists file, rel, target, text. repeat split; assumption.
Qed.

(* the stacks the interpreter runs: the file system is the one of the compilation and the commands
   are a source of the stack's file *)
Definition cx_ok (cx : ctx) (cmds : list item) : Prop := c_fs cx = fs /\ source (c_file cx) cmds.

Lemma line_call_s_cx_ok : forall cx cmds cur l2 file code,
  cx_ok cx cmds -> line_call_s cx cmds cur file code ->
  cx_ok (mkCtx (c_opts cx) (c_fs cx) (here cx cur l2) file) code.
Proof.
  intros cx cmds cur l2 file code [Hfs Hsrc] (cb & Hin & H). split; [exact Hfs|]. cbn [c_file].
  destruct H as [cmd more cname bc Hs Hf|cmd more cname sc dfile dcmds dc dn dcb Hs Hf Hk Hsrc' Hin' Hfl
                |cmd more cname sc file rel target text code Hs Hf Hk Hcf Hr Hfs' Hp].
  - eapply src_block; eassumption.
  - eapply src_block; eassumption.
  - destruct cur as [c n]. cbn [fst] in *. rewrite Hcf in Hsrc. rewrite Hfs in Hfs'.
    eapply src_start; try eassumption. exists cmd, more, cname, sc. repeat split; assumption.
Qed.

Section Trace.
Variable fo : FloatOps.

Definition funcs_from_program (e : env fo) : Prop := funcs_ok fo func_src e.

Lemma funcs_from_program_initial : funcs_from_program (initial_env fo).
Proof. intros name f []. Qed.

(* ------------------------------------------------------------------ where an error comes from *)
Definition origin_s (child : runner fo) (cx : ctx) (Call : option path -> list item -> Prop)
           (cur : preline) (t : option (list frame)) : Prop :=
  t = None \/
  (exists l2, t = Some (here cx cur l2)) \/
  (exists l2 file g e code g' err,
     Call file code /\ funcs_from_program e /\
     child (mkCtx (c_opts cx) (c_fs cx) (here cx cur l2) file) g e code = (g', IErr _ err t)).

(* a runner for the stacks above that keeps the provenance invariant *)
Definition prov_runner (r : runner fo) : Prop :=
  forall cx g e code g' cr e',
    cx_ok cx code -> funcs_from_program e -> r cx g e code = (g', IOk _ (cr, e')) -> funcs_from_program e'.

Lemma cmds_calls_s : forall cx cmds, cx_ok cx cmds ->
  cmds_calls func_src cx (line_call_s cx cmds) cmds.
Proof.
  intros cx cmds [Hfs Hsrc] c n cb Hin cmd more cname cl Hs Hf. destruct cl as [sc|bc].
  - split; intro Hk.
    + intros f (dfile & dcmds & dc & dn & dcb & Hsrc' & Hin' & Hfl & Hcode & Hfile).
      exists cb. split; [exact Hin|]. cbn [fst]. rewrite Hcode.
      replace (match fn_file f with Some p => Some p | None => c_file cx end) with dfile.
      * eapply ccs_run; eassumption.
      * rewrite Hfile. destruct dfile as [p|]; [reflexivity|].
        symmetry. exact (source_uniform _ _ _ _ Hsrc' Hsrc eq_refl).
    + intros file rel target text code Hcf Hr Hfs' Hp. exists cb. split; [exact Hin|]. eapply ccs_start; eassumption.
  - split.
    + unfold call_block. exists cb. split; [exact Hin|]. eapply ccs_block; eassumption.
    + intros Hk args. exists (c_file cx), cmds, c, n, cb. repeat split; try assumption.
      exists cmd, more, cname, bc. repeat split; assumption.
Qed.

(* one stack, any runner above it that keeps the invariant: the invariant is kept, and an error is
   (a) without a stack, (b) raised here, or (c) handed up from a stack started by a line of this
   one as a block / a RUN of a FUNC body in its defining file / a START *)
Theorem run_with_origin_s : forall child cx g e cmds g' r,
  prov_runner child -> cx_ok cx cmds -> funcs_from_program e ->
  run_with fo child cx g e cmds = (g', r) ->
  match r with
  | IOk _ (_, e') => funcs_from_program e'
  | IErr _ _ t => exists cur, In cur (top_lines cmds) /\ origin_s child cx (line_call_s cx cmds cur) cur t
  | _ => True
  end.
Proof.
  intros child cx g e cmds g' r Hc Hcx He E.
  eapply (sat_run_with fo func_src child cx (fun cur => origin_s child cx (line_call_s cx cmds cur) cur)) in E.
  - exact E.
  - intros cur l2. right. left. exists l2. reflexivity.
  - intros cur. left. reflexivity.
  - intros cur l2 file g0 e0 code g0' r0 HC He0 Ec. destruct r0 as [[cr e']|err t|k|]; cbn [child_sat]; try exact I.
    + eapply Hc; [|exact He0|exact Ec]. eapply line_call_s_cx_ok; eassumption.
    + right. right. exists l2, file, g0, e0, code, g0', err. repeat split; assumption.
  - apply cmds_calls_s. exact Hcx.
  - exact He.
Qed.

Theorem run_with_error_origin_s : forall child cx g e cmds g' err t,
  prov_runner child -> cx_ok cx cmds -> funcs_from_program e ->
  run_with fo child cx g e cmds = (g', IErr _ err t) ->
  exists cur, In cur (top_lines cmds) /\ origin_s child cx (line_call_s cx cmds cur) cur t.
Proof.
  intros child cx g e cmds g' err t Hc Hcx He E.
  exact (run_with_origin_s child cx g e cmds g' _ Hc Hcx He E).
Qed.

Theorem run_with_prov_runner : forall child, prov_runner child -> prov_runner (run_with fo child).
Proof.
  intros child Hc cx g e code g' cr e' Hcx He E.
  exact (run_with_origin_s child cx g e code g' _ Hc Hcx He E).
Qed.

Lemma no_child_prov_runner : prov_runner (no_child fo).
Proof. intros cx g e code g' cr e' _ _ E. discriminate. Qed.

(* the invariant is kept by the whole interpreter *)
Theorem run_prov_runner : forall d, prov_runner (run fo d).
Proof.
  induction d as [|d IH]; cbn [run]; apply run_with_prov_runner; [apply no_child_prov_runner|exact IH].
Qed.

Theorem run_keeps_provenance : forall d cx g e cmds g' cr e',
  cx_ok cx cmds -> funcs_from_program e ->
  run fo d cx g e cmds = (g', IOk _ (cr, e')) -> funcs_from_program e'.
Proof. intros d cx g e cmds g' cr e'. apply run_prov_runner. Qed.

(* ------------------------------------------------------------------ the whole chain, by depth *)
Inductive raised_by_s : nat -> ctx -> list item -> option (list frame) -> Prop :=
| rbs_none : forall d cx cmds, raised_by_s d cx cmds None
| rbs_self : forall d cx cmds cur l2,
    In cur (top_lines cmds) -> raised_by_s d cx cmds (Some (here cx cur l2))
| rbs_child : forall d cx cmds cur l2 file code t,
    In cur (top_lines cmds) ->
    line_call_s cx cmds cur file code ->
    raised_by_s d (mkCtx (c_opts cx) (c_fs cx) (here cx cur l2) file) code t ->
    raised_by_s (S d) cx cmds t.

Theorem run_raised_by_s : forall d cx g e cmds g' err t,
  cx_ok cx cmds -> funcs_from_program e ->
  run fo d cx g e cmds = (g', IErr _ err t) -> raised_by_s d cx cmds t.
Proof.
  induction d as [|d IH]; intros cx g e cmds g' err t Hcx He E; cbn [run] in E.
  - apply (run_with_origin_s _ cx g e cmds g' _ no_child_prov_runner Hcx He) in E.
    destruct E as (cur & Hin & [->|[(l2 & ->)|(l2 & file & g1 & e1 & code & g1' & err' & HC & He1 & E)]]).
    + apply rbs_none.
    + apply rbs_self. exact Hin.
    + discriminate.
  - apply (run_with_origin_s _ cx g e cmds g' _ (run_prov_runner d) Hcx He) in E.
    destruct E as (cur & Hin & [->|[(l2 & ->)|(l2 & file & g1 & e1 & code & g1' & err' & HC & He1 & E)]]).
    + apply rbs_none.
    + apply rbs_self. exact Hin.
    + eapply rbs_child; [exact Hin|exact HC|]. eapply IH; [|exact He1|exact E].
      eapply line_call_s_cx_ok; eassumption.
Qed.

Inductive stack_chain_s : ctx -> list item -> list frame -> Prop :=
| scs_one : forall cx cmds cur l2,
    In cur (top_lines cmds) -> stack_chain_s cx cmds [mkFrame (c_file cx) cur l2]
| scs_cons : forall cx cmds cur l2 file code rest,
    In cur (top_lines cmds) ->
    line_call_s cx cmds cur file code ->
    stack_chain_s (mkCtx (c_opts cx) (c_fs cx) (here cx cur l2) file) code rest ->
    stack_chain_s cx cmds (mkFrame (c_file cx) cur l2 :: rest).

Lemma stack_chain_s_weaken : forall cx cmds suffix, stack_chain_s cx cmds suffix -> stack_chain cx cmds suffix.
Proof.
  intros cx cmds suffix H. induction H as [cx cmds cur l2 Hin|cx cmds cur l2 file code rest Hin HC Hch IH].
  - apply sc_one. exact Hin.
  - eapply sc_cons; [exact Hin|apply line_call_s_weaken; exact HC|exact IH].
Qed.

Theorem raised_by_s_chain : forall d cx cmds fr,
  raised_by_s d cx cmds (Some fr) ->
  exists suffix, fr = c_pile cx ++ suffix /\ stack_chain_s cx cmds suffix /\ (length suffix <= S d)%nat.
Proof.
  intros d cx cmds fr H. remember (Some fr) as t eqn:Et. revert fr Et.
  induction H as [d cx cmds|d cx cmds cur l2 Hin|d cx cmds cur l2 file code t Hin HC Hrb IH];
    intros fr Et.
  - discriminate.
  - injection Et as <-. exists [mkFrame (c_file cx) cur l2]. split; [reflexivity|].
    split; [apply scs_one; exact Hin|cbn; lia].
  - destruct (IH fr Et) as (suffix & Hfr & Hch & Hlen). cbn [c_pile] in Hfr.
    exists (mkFrame (c_file cx) cur l2 :: suffix). split.
    + rewrite Hfr. unfold here. rewrite <- app_assoc. reflexivity.
    + split; [eapply scs_cons; eassumption|cbn [length]; lia].
Qed.

Lemma stack_chain_s_head : forall cx cmds suffix, stack_chain_s cx cmds suffix ->
  exists cur l2 rest, suffix = mkFrame (c_file cx) cur l2 :: rest /\ In cur (top_lines cmds).
Proof.
  intros cx cmds suffix H. destruct H as [cx cmds cur l2 Hin|cx cmds cur l2 file code rest Hin HC Hch].
  - exists cur, l2, []. split; [reflexivity|exact Hin].
  - exists cur, l2, rest. split; [reflexivity|exact Hin].
Qed.

(* two consecutive entries, with the strong RUN and START cases *)
Lemma stack_chain_s_step : forall cx cmds fr1 fr2 rest, stack_chain_s cx cmds (fr1 :: fr2 :: rest) ->
  exists cb file code,
    fr_file fr1 = c_file cx /\ In (fr_line fr1, cb) (line_blocks cmds) /\
    child_call_s cx (fst (fr_line fr1)) cb file code /\
    fr_file fr2 = file /\ In (fr_line fr2) (top_lines code) /\
    stack_chain_s (mkCtx (c_opts cx) (c_fs cx) (c_pile cx ++ [fr1]) file) code (fr2 :: rest).
Proof.
  intros cx cmds fr1 fr2 rest H. inversion H as [|cx0 cmds0 cur l2 file code rest0 Hin HC Hch]; subst.
  destruct HC as (cb & Hcb & Hcall). exists cb, file, code. cbn [fr_file fr_line].
  destruct (stack_chain_s_head _ _ _ Hch) as (cur2 & l2' & rest2 & Heq & Hin2). cbn [c_file] in Heq.
  injection Heq as -> ->. cbn [fr_file fr_line]. repeat split; try assumption.
Qed.

(* a step by cases on the kind of the first entry's line (with the block [cb] that follows it):
   - a block command: the next entry is a line of that block, in the same file;
   - RUN: the next entry is a line of the body of a FUNC line [dc] of some source, and carries the
     file of THAT source (where the function was defined) -- not the file of the RUN line;
   - START: the next entry is a line of the imported file, whose path is the argument resolved
     relative to the importing file *)
Theorem stack_chain_s_step_cases : forall cx cmds fr1 fr2 rest, stack_chain_s cx cmds (fr1 :: fr2 :: rest) ->
  exists cb,
    fr_file fr1 = c_file cx /\ In (fr_line fr1, cb) (line_blocks cmds) /\
    ((exists cmd more cname bc, split_ws1 (fst (fr_line fr1)) = cmd :: more /\
                                find_command palette cmd cb = Some (cname, Block bc)) ->
       fr_file fr2 = fr_file fr1 /\ In (fr_line fr2) (top_lines (block_of cb))) /\
    (run_line (fst (fr_line fr1)) cb ->
       exists dcmds dc dn dcb,
         source (fr_file fr2) dcmds /\ In ((dc, dn), dcb) (line_blocks dcmds) /\ func_line dc dcb /\
         In (fr_line fr2) (top_lines (block_of dcb))) /\
    (start_line (fst (fr_line fr1)) cb ->
       exists importer rel target text code,
         fr_file fr1 = Some importer /\ resolve_start importer rel = Ok target /\ fr_file fr2 = Some target /\
         c_fs cx target = Some text /\ prepare_text text = TOk code /\ In (fr_line fr2) (top_lines code)).
Proof.
  intros cx cmds fr1 fr2 rest H.
  destruct (stack_chain_s_step _ _ _ _ _ H) as (cb & file & code & Hf1 & Hcb & Hcall & Hf2 & Hin2 & _).
  exists cb. split; [exact Hf1|]. split; [exact Hcb|]. split; [|split].
  - intros (cmd & more & cname & bc & Hs & Hf).
    destruct (child_call_block_inv _ _ _ _ _ _ _ _ _ (child_call_s_weaken _ _ _ _ _ Hcall) Hs Hf) as [-> ->].
    split; [rewrite Hf2, Hf1; reflexivity|exact Hin2].
  - intro Hrun. destruct (child_call_s_run_inv _ _ _ _ _ Hcall Hrun) as (dcmds & dc & dn & dcb & H1 & H2 & H3 & ->).
    exists dcmds, dc, dn, dcb. rewrite Hf2. repeat split; assumption.
  - intro Hst. destruct (child_call_s_start_inv _ _ _ _ _ Hcall Hst) as (imp & rel & target & text & H1 & H2 & -> & H4 & H5).
    exists imp, rel, target, text, code. rewrite Hf1, Hf2. repeat split; assumption.
Qed.

Theorem run_trace_chain_s : forall d cx g e cmds g' err fr,
  cx_ok cx cmds -> funcs_from_program e ->
  run fo d cx g e cmds = (g', IErr _ err (Some fr)) ->
  exists suffix, fr = c_pile cx ++ suffix /\ stack_chain_s cx cmds suffix /\ (length suffix <= S d)%nat.
Proof.
  intros d cx g e cmds g' err fr Hcx He E. apply run_raised_by_s in E; [|exact Hcx|exact He].
  apply raised_by_s_chain. exact E.
Qed.

End Trace.
End Prov.

(* ------------------------------------------------------------------ Compiler.compile *)
Section Compile.
Variable fo : FloatOps.

Theorem compile_items_trace_s : forall o fs file cmds g err fr,
  compile_items fo o fs file cmds = (g, IErr _ err (Some fr)) ->
  stack_chain_s fs file cmds (mkCtx o fs [] file) cmds fr /\ (length fr <= S (run_depth o))%nat.
Proof.
  intros o fs file cmds g err fr E. unfold compile_items in E.
  destruct (run _ _ _ _ _ _) as [g0 [[cr e]|er t|k|]] eqn:Er; try discriminate.
  injection E as <- <- ->.
  apply (run_trace_chain_s fs file cmds fo) in Er.
  - cbn [c_pile app] in Er. destruct Er as (suffix & -> & Hch & Hlen). split; assumption.
  - split; [reflexivity|apply src_main].
  - apply funcs_from_program_initial.
Qed.

Theorem compile_items_funcs : forall o fs file cmds g c,
  compile_items fo o fs file cmds = (g, IOk _ c) -> funcs_from_program fs file cmds fo (final_env fo c).
Proof.
  intros o fs file cmds g c E. unfold compile_items in E.
  destruct (run _ _ _ _ _ _) as [g0 [[cr e]|er t|k|]] eqn:Er; try discriminate.
  injection E as _ <-. cbn [final_env].
  eapply (run_keeps_provenance fs file cmds fo); [| |exact Er].
  - split; [reflexivity|apply src_main].
  - apply funcs_from_program_initial.
Qed.

End Compile.

(* a witness (evaluated on the model with a dummy FloatOps): /a/main.txt imports /a/s/lib.txt, which
   defines f with a faulty body; main then runs f.  The entry after the RUN line of main carries
   lib.txt -- the defining file -- and is the faulty line of the body *)
From DS Require Import C07Examples.
Definition p_main : path := [[97]%N; [109;97;105;110;46;116;120;116]%N].              (* /a/main.txt *)
Definition p_lib : path := [[97]%N; [115]%N; [108;105;98;46;116;120;116]%N].          (* /a/s/lib.txt *)
Definition t_main : str := [83;84;65;82;84;32;115;46;108;105;98;10;82;85;78;32;102]%N. (* START s.lib / RUN f *)
Definition t_lib : str := [70;85;78;67;32;102;10;9;82;85;78;32;110;111;116;104;101;114;101]%N. (* FUNC f / <tab>RUN nothere *)
Definition fs_example : fsys := fun p => if path_eqb p p_lib then Some t_lib else None.
Definition trace_files (r : glob * ires (compiled fo0)) :=
  match snd r with IErr _ e (Some t) => Some (e, map (fun fr => (fr_file fr, fr_line fr)) t) | _ => None end.

Example run_frame_in_defining_file :
  trace_files (compile_text fo0 o0 fs_example (Some p_main) t_main) =
  Some (EVarNonExistent,
        [(Some p_main, ([82;85;78;32;102]%N, 2%Z));                                   (* RUN f, line 2 of main *)
         (Some p_lib, ([82;85;78;32;110;111;116;104;101;114;101]%N, 2%Z))]).          (* RUN nothere, line 2 of lib *)
Proof. vm_compute. reflexivity. Qed.
