(* C13 (graphs): what the traversal [gvisit] computes, as graph theory -- no interpreter here.
     - fuel: [gtraverse] never runs out of fuel;
     - acyclic part (rank function): completes, with the pre-order unfolding as output;
     - a chain reported with an error is a simple path of the graph from the entry, and its last
       link is the offending import;
     - completion implies that no cycle is reachable; with every file present and a limit above
       the number of files the converse holds: IOk iff no reachable cycle, else ECircular. *)
From Coq Require Import NArith ZArith List Bool Lia.
From DS Require Import Base PyStr Expr TabParse Constants Interp.
From DS Require Import ScopeProofs ImportGraph.
Import ListNotations.

Lemma str_in_iff : forall x l, str_in x l = true <-> In x l.
Proof.
  intros x l. induction l as [|y r IH]; cbn [str_in In].
  - split; [discriminate|intros []].
  - rewrite orb_true_iff, IH, str_eqb_eq. split; intros [H|H]; auto.
Qed.

Lemma str_in_false_iff : forall x l, str_in x l = false <-> ~ In x l.
Proof.
  intros x l. rewrite <- str_in_iff. destruct (str_in x l); split; intro H; try reflexivity; try discriminate.
  exfalso. apply H. reflexivity.
Qed.

Lemma flat_map_ext_in : forall (A B : Type) (f h : A -> list B) l,
  (forall a, In a l -> f a = h a) -> flat_map f l = flat_map h l.
Proof.
  intros A B f h l H. induction l as [|a r IH]; [reflexivity|]. cbn [flat_map].
  rewrite (H a) by (left; reflexivity). rewrite IH by (intros b Hb; apply H; right; exact Hb). reflexivity.
Qed.

Definition err_chain (r : gres) : option (list link) :=
  match r with GCircular c | GMissing c | GOverflow c => Some c | _ => None end.

Lemma live_snoc : forall links n k v m, live (links ++ [mkLink n k v m]) m = live links n ++ [m].
Proof. intros. unfold live. rewrite map_app. cbn [map lk_file]. rewrite <- app_assoc. reflexivity. Qed.

Lemma live_files_chain : forall links n k v m, map lk_file (links ++ [mkLink n k v m]) = live links n.
Proof. intros. unfold live. rewrite map_app. reflexivity. Qed.

Section Theory.
Variable L : Z.
Variable g : graph.

(* ================================================================== reachability *)
Lemma reach_trans : forall a b c, reach g a b -> reach g b c -> reach g a c.
Proof.
  intros a b c H1 H2. induction H1 as [n|n m x He _ IH]; [exact H2|].
  eapply reach_step; [exact He|apply IH; exact H2].
Qed.

Lemma reach_trans_edge : forall a n m, reach g a n -> edge g n m -> reach g a m.
Proof.
  intros a n m Hr He. eapply reach_trans; [exact Hr|]. eapply reach_step; [exact He|apply reach_refl].
Qed.

(* ================================================================== fuel *)
Lemma gedges_no_fuel : forall visit links n,
  (forall links' m, length links' = S (length links) -> (Z.of_nat (length links) + 1 < L)%Z -> visit links' m <> GFuel) ->
  forall imps k acc, gedges L g visit links n imps k acc <> GFuel.
Proof.
  intros visit links n Hv. induction imps as [|[v m] r IH]; intros k acc; cbn [gedges]; [discriminate|].
  destruct (lookup m g); [|discriminate].
  destruct (str_in m (live links n)); [discriminate|].
  destruct (L <=? Z.of_nat (length links) + 1)%Z eqn:Hlim; [discriminate|].
  destruct (visit (links ++ [mkLink n k v m]) m) eqn:Ev; try discriminate; [apply IH|].
  exfalso. apply (Hv (links ++ [mkLink n k v m]) m); [rewrite app_length; cbn [length]; lia|apply Z.leb_gt in Hlim; lia|exact Ev].
Qed.

Lemma gvisit_no_fuel : forall fuel links n,
  (L <= Z.of_nat (length links) + Z.of_nat fuel)%Z -> (1 <= fuel)%nat -> gvisit L g fuel links n <> GFuel.
Proof.
  induction fuel as [|f IH]; intros links n HL Hf; [lia|]. cbn [gvisit].
  destruct (lookup n g); [|discriminate]. apply gedges_no_fuel.
  intros links' m Hlen Hlt. apply IH; rewrite ?Hlen; lia.
Qed.

Theorem gtraverse_no_fuel : forall entry, gtraverse L g entry <> GFuel.
Proof. intro entry. unfold gtraverse. apply gvisit_no_fuel; cbn [length]; lia. Qed.

(* ================================================================== the import lines of a file that all complete *)
Lemma gedges_all_ok : forall visit links n (outf : name -> list name) imps k acc,
  (forall v m, In (v, m) imps ->
     lookup m g <> None /\ str_in m (live links n) = false /\ (L <=? Z.of_nat (length links) + 1)%Z = false /\
     forall k', visit (links ++ [mkLink n k' v m]) m = GOk (outf m)) ->
  gedges L g visit links n imps k acc =
  GOk (acc ++ flat_map (fun e => match fst e with VEnv => [] | _ => outf (snd e) end) imps).
Proof.
  intros visit links n outf. induction imps as [|[v m] r IH]; intros k acc H; cbn [gedges flat_map].
  - rewrite app_nil_r. reflexivity.
  - destruct (H v m (or_introl eq_refl)) as (Hl & Hc & Hlim & Hv).
    destruct (lookup m g); [|contradiction Hl; reflexivity]. rewrite Hc, Hlim, Hv.
    rewrite IH by (intros v' m' Hin; apply H; right; exact Hin).
    cbn [fst snd]. rewrite <- app_assoc. reflexivity.
Qed.

(* inversion of a completed list of import lines *)
Lemma gedges_ok_inv : forall visit links n imps k acc out,
  gedges L g visit links n imps k acc = GOk out ->
  forall v m, In (v, m) imps ->
    lookup m g <> None /\ str_in m (live links n) = false /\ (Z.of_nat (length links) + 1 < L)%Z /\
    exists k' o, visit (links ++ [mkLink n k' v m]) m = GOk o.
Proof.
  intros visit links n. induction imps as [|[v0 m0] r IH]; intros k acc out H v m Hin; [destruct Hin|].
  cbn [gedges] in H.
  destruct (lookup m0 g) eqn:Hl; [|discriminate].
  destruct (str_in m0 (live links n)) eqn:Hc; [discriminate|].
  destruct (L <=? Z.of_nat (length links) + 1)%Z eqn:Hlim; [discriminate|].
  destruct (visit (links ++ [mkLink n k v0 m0]) m0) as [o| | | |] eqn:Ev; try discriminate.
  destruct Hin as [Heq|Hin].
  - injection Heq as <- <-. split; [rewrite Hl; discriminate|]. split; [exact Hc|]. split; [apply Z.leb_gt in Hlim; lia|].
    exists k, o. exact Ev.
  - eapply IH; eassumption.
Qed.

(* ================================================================== acyclic graphs *)
Section Acyclic.
Variable entry : name.
Variable rank : name -> nat.
Hypothesis Hrank : forall n m, reach g entry n -> edge g n m -> lookup m g <> None /\ (rank m < rank n)%nat.

Lemma preorder_stable : forall f1 f2 n, reach g entry n -> (rank n <= f1)%nat -> (rank n <= f2)%nat ->
  preorder f1 g n = preorder f2 g n.
Proof.
  assert (Hzero : forall n imps, reach g entry n -> lookup n g = Some imps -> rank n = O -> imps = []).
  { intros n imps Hr Hl Hz. destruct imps as [|[v m] r]; [reflexivity|].
    destruct (Hrank n m Hr) as [_ Hlt]; [exists ((v, m) :: r), v; split; [exact Hl|left; reflexivity]|lia]. }
  induction f1 as [|f1 IH]; intros f2 n Hr H1 H2.
  - destruct f2 as [|f2]; [reflexivity|]. cbn [preorder]. destruct (lookup n g) as [imps|] eqn:Hl; [|reflexivity].
    rewrite (Hzero n imps Hr Hl) by lia. reflexivity.
  - destruct f2 as [|f2]; cbn [preorder]; destruct (lookup n g) as [imps|] eqn:Hl; try reflexivity.
    + rewrite (Hzero n imps Hr Hl) by lia. reflexivity.
    + apply (f_equal (cons n)). apply flat_map_ext_in. intros [v m] Hin. cbn [fst snd]. destruct v; try reflexivity.
      * assert (He : edge g n m) by (exists imps, VStart; split; assumption).
        destruct (Hrank n m Hr He) as [_ Hlt]. apply IH; [eapply reach_trans_edge; eassumption|lia|lia].
      * assert (He : edge g n m) by (exists imps, VCode; split; assumption).
        destruct (Hrank n m Hr He) as [_ Hlt]. apply IH; [eapply reach_trans_edge; eassumption|lia|lia].
Qed.

Lemma gvisit_acyclic : forall fuel links n,
  reach g entry n -> lookup n g <> None ->
  (forall x, In x (map lk_file links) -> (rank n < rank x)%nat) ->
  (Z.of_nat (length links) + Z.of_nat (rank n) < L)%Z -> (rank n < fuel)%nat ->
  gvisit L g fuel links n = GOk (preorder (rank n) g n).
Proof.
  induction fuel as [|f IH]; intros links n Hr Hl Hlive HL Hf; [lia|].
  cbn [gvisit]. destruct (lookup n g) as [imps|] eqn:Hln; [|contradiction Hl; reflexivity].
  rewrite (gedges_all_ok (gvisit L g f) links n (fun m => preorder (rank m) g m)).
  - cbn [app]. destruct (rank n) as [|r] eqn:Hrn.
    + cbn [preorder]. destruct imps as [|[v m] rest]; [reflexivity|].
      destruct (Hrank n m Hr) as [_ Hlt]; [exists ((v, m) :: rest), v; split; [exact Hln|left; reflexivity]|lia].
    + cbn [preorder]. rewrite Hln. apply (f_equal (fun x => GOk (n :: x))). apply flat_map_ext_in. intros [v m] Hin. cbn [fst snd].
      assert (He : edge g n m) by (exists imps, v; split; assumption).
      destruct (Hrank n m Hr He) as [_ Hlt].
      destruct v; try reflexivity; apply preorder_stable; try lia; eapply reach_trans_edge; eassumption.
  - intros v m Hin.
    assert (He : edge g n m) by (exists imps, v; split; assumption).
    destruct (Hrank n m Hr He) as [Hlm Hlt].
    split; [exact Hlm|]. split; [|split].
    + apply str_in_false_iff. unfold live. intro Hin2. apply in_app_or in Hin2. destruct Hin2 as [Hin2|[Heq|[]]].
      * specialize (Hlive m Hin2). lia.
      * subst m. lia.
    + apply Z.leb_gt. lia.
    + intro k'. apply IH.
      * eapply reach_trans_edge; eassumption.
      * exact Hlm.
      * intros x Hx. rewrite live_files_chain in Hx. unfold live in Hx. apply in_app_or in Hx.
        destruct Hx as [Hx|[<-|[]]]; [specialize (Hlive x Hx); lia|exact Hlt].
      * rewrite app_length. cbn [length]. lia.
      * lia.
Qed.

Theorem acyclic_traverse : lookup entry g <> None -> (Z.of_nat (rank entry) < L)%Z ->
  gtraverse L g entry = GOk (preorder (rank entry) g entry).
Proof.
  intros Hl HL. unfold gtraverse. apply gvisit_acyclic.
  - apply reach_refl.
  - exact Hl.
  - intros x [].
  - cbn [length]. lia.
  - lia.
Qed.
End Acyclic.

(* ================================================================== the chain of an error *)
(* what the last link [l] of the chain [ch] of an error says *)
Definition last_cond (r : gres) (l : link) (ch : list link) : Prop :=
  match r with
  | GCircular _ => In (lk_target l) (map lk_file ch)
  | GMissing _ => lookup (lk_target l) g = None
  | GOverflow _ => (L <= Z.of_nat (length ch))%Z /\ lookup (lk_target l) g <> None /\ ~ In (lk_target l) (map lk_file ch)
  | _ => True
  end.

Definition chain_spec (links : list link) (n : name) (r : gres) : Prop :=
  forall ch, err_chain r = Some ch ->
    exists pre l, ch = links ++ pre ++ [l] /\ is_chain g n (pre ++ [l]) /\ NoDup (map lk_file ch) /\ last_cond r l ch.

Lemma nth_error_snoc_here : forall (A : Type) (pre : list A) x r, nth_error (pre ++ x :: r) (length pre) = Some x.
Proof. intros A pre x r. induction pre as [|y pre IH]; [reflexivity|exact IH]. Qed.

Lemma gedges_chain : forall visit links n allimps,
  lookup n g = Some allimps -> NoDup (live links n) ->
  (forall links' m, NoDup (live links' m) -> lookup m g <> None -> chain_spec links' m (visit links' m)) ->
  forall imps pre0 k acc,
    allimps = pre0 ++ imps -> k = (2 + Z.of_nat (length pre0))%Z ->
    chain_spec links n (gedges L g visit links n imps k acc).
Proof.
  intros visit links n allimps Hln Hnd Hv. induction imps as [|[v m] r IH]; intros pre0 k acc Hall Hk ch Hch.
  - discriminate.
  - cbn [gedges] in Hch |- *.
    assert (Hedge : is_chain g n [mkLink n k v m]).
    { cbn [is_chain lk_file lk_num lk_var lk_target]. split; [reflexivity|]. split; [|exact I].
      exists allimps. split; [exact Hln|]. split; [lia|].
      replace (Z.to_nat (k - 2)) with (length pre0) by lia. rewrite Hall. apply nth_error_snoc_here. }
    destruct (lookup m g) as [mimps|] eqn:Hlm.
    2:{ injection Hch as <-. exists [], (mkLink n k v m). cbn [app]. split; [reflexivity|]. split; [exact Hedge|].
        split; [rewrite live_files_chain; exact Hnd|]. exact Hlm. }
    destruct (str_in m (live links n)) eqn:Hc.
    { injection Hch as <-. exists [], (mkLink n k v m). cbn [app]. split; [reflexivity|]. split; [exact Hedge|].
      split; [rewrite live_files_chain; exact Hnd|]. cbn [last_cond lk_target]. rewrite live_files_chain.
      apply str_in_iff. exact Hc. }
    destruct (L <=? Z.of_nat (length links) + 1)%Z eqn:Hlim.
    { injection Hch as <-. exists [], (mkLink n k v m). cbn [app]. split; [reflexivity|]. split; [exact Hedge|].
      split; [rewrite live_files_chain; exact Hnd|]. cbn [last_cond lk_target]. rewrite live_files_chain.
      split; [rewrite app_length; cbn [length]; apply Z.leb_le in Hlim; lia|].
      split; [rewrite Hlm; discriminate|apply str_in_false_iff; exact Hc]. }
    assert (Hnd' : NoDup (live (links ++ [mkLink n k v m]) m)).
    { rewrite live_snoc. apply NoDup_snoc; [exact Hnd|apply str_in_false_iff; exact Hc]. }
    assert (Hsub := Hv (links ++ [mkLink n k v m]) m Hnd').
    rewrite Hlm in Hsub. specialize (Hsub ltac:(discriminate)).
    destruct (visit (links ++ [mkLink n k v m]) m) as [o|c|c|c|] eqn:Ev.
    + apply (IH (pre0 ++ [(v, m)]) (k + 1)%Z _); [rewrite <- app_assoc; exact Hall|rewrite app_length; cbn [length]; lia|exact Hch].
    + injection Hch as <-. destruct (Hsub c eq_refl) as (pre & l & Heq & Hic & Hnd2 & Hlast).
      exists (mkLink n k v m :: pre), l. split; [rewrite Heq, <- app_assoc; reflexivity|].
      split; [|split; [exact Hnd2|exact Hlast]].
      cbn [app is_chain lk_file lk_target]. split; [reflexivity|]. split; [apply Hedge|exact Hic].
    + injection Hch as <-. destruct (Hsub c eq_refl) as (pre & l & Heq & Hic & Hnd2 & Hlast).
      exists (mkLink n k v m :: pre), l. split; [rewrite Heq, <- app_assoc; reflexivity|].
      split; [|split; [exact Hnd2|exact Hlast]].
      cbn [app is_chain lk_file lk_target]. split; [reflexivity|]. split; [apply Hedge|exact Hic].
    + injection Hch as <-. destruct (Hsub c eq_refl) as (pre & l & Heq & Hic & Hnd2 & Hlast).
      exists (mkLink n k v m :: pre), l. split; [rewrite Heq, <- app_assoc; reflexivity|].
      split; [|split; [exact Hnd2|exact Hlast]].
      cbn [app is_chain lk_file lk_target]. split; [reflexivity|]. split; [apply Hedge|exact Hic].
    + discriminate.
Qed.

Lemma gvisit_chain : forall fuel links n,
  NoDup (live links n) -> lookup n g <> None -> chain_spec links n (gvisit L g fuel links n).
Proof.
  induction fuel as [|f IH]; intros links n Hnd Hl; [intros ch Hch; discriminate|].
  cbn [gvisit]. destruct (lookup n g) as [imps|] eqn:Hln; [|contradiction Hl; reflexivity].
  refine (gedges_chain (gvisit L g f) links n imps Hln Hnd _ imps [] 2%Z [n] eq_refl eq_refl).
  intros links' m Hnd' Hlm. apply IH; assumption.
Qed.

(* ---- chains are paths of the graph *)
Lemma is_chain_edge_reach : forall ch n a l b, ch = a ++ l :: b -> is_chain g n ch ->
  reach g n (lk_file l) /\ edge g (lk_file l) (lk_target l) /\ is_chain g (lk_target l) b.
Proof.
  intros ch n a. revert ch n. induction a as [|x a IH]; intros ch n l b Heq Hc; subst ch; cbn [app is_chain] in Hc.
  - destruct Hc as (Hf & (imps & Hl & _ & Hnth) & Hrest). split; [rewrite Hf; apply reach_refl|].
    split; [|exact Hrest]. rewrite Hf. exists imps, (lk_var l). split; [exact Hl|]. eapply nth_error_In. exact Hnth.
  - destruct Hc as (Hf & (imps & Hl & _ & Hnth) & Hrest).
    destruct (IH (a ++ l :: b) (lk_target x) l b eq_refl Hrest) as (H1 & H2 & H3).
    split; [|split; assumption].
    eapply reach_step; [|exact H1]. exists imps, (lk_var x). split; [exact Hl|]. eapply nth_error_In. exact Hnth.
Qed.

(* the end of a chain reaches ... : from the target of any link one reaches the file of any later link *)
Lemma is_chain_reach_later : forall b n l, is_chain g n b -> In l b -> reach g n (lk_file l).
Proof.
  intros b n l Hc Hin. apply in_split in Hin. destruct Hin as (a & c & Heq).
  destruct (is_chain_edge_reach b n a l c Heq Hc) as (H & _). exact H.
Qed.

Lemma is_chain_files_exist : forall ch n l, is_chain g n ch -> In l ch -> lookup (lk_file l) g <> None.
Proof.
  intros ch n l Hc Hin. apply in_split in Hin. destruct Hin as (a & c & Heq).
  destruct (is_chain_edge_reach ch n a l c Heq Hc) as (_ & (imps & v & Hl & _) & _). rewrite Hl. discriminate.
Qed.

Lemma reach_edge_plus : forall a b c, reach g a b -> edge g b c -> reach_plus g a c.
Proof.
  intros a b c Hr He. inversion Hr as [x|x m y Hxm Hmy]; subst.
  - exists c. split; [exact He|apply reach_refl].
  - exists m. split; [exact Hxm|]. eapply reach_trans; [exact Hmy|]. eapply reach_step; [exact He|apply reach_refl].
Qed.

Lemma chain_last_edge : forall pre n l, is_chain g n (pre ++ [l]) ->
  reach g n (lk_file l) /\ edge g (lk_file l) (lk_target l).
Proof.
  intros pre n l Hc. destruct (is_chain_edge_reach (pre ++ [l]) n pre l [] eq_refl Hc) as (H1 & H2 & _).
  split; assumption.
Qed.

Lemma chain_reach_last : forall pre n l l0, is_chain g n (pre ++ [l]) -> In l0 (pre ++ [l]) ->
  reach g (lk_file l0) (lk_file l).
Proof.
  induction pre as [|x pre IH]; intros n l l0 Hc Hin.
  - destruct Hin as [<-|[]]. apply reach_refl.
  - cbn [app is_chain] in Hc. destruct Hc as (Hf & (imps & Hl & _ & Hnth) & Hrest).
    destruct Hin as [<-|Hin].
    + eapply reach_step.
      * rewrite Hf. exists imps, (lk_var x). split; [exact Hl|]. eapply nth_error_In. exact Hnth.
      * apply (chain_last_edge pre (lk_target x) l Hrest).
    + eapply IH; eassumption.
Qed.

(* a chain from [n] whose last link points back into the chain shows a reachable cycle *)
Lemma chain_back_edge_cycle : forall n pre l,
  is_chain g n (pre ++ [l]) -> In (lk_target l) (map lk_file (pre ++ [l])) -> cycle_reachable g n.
Proof.
  intros n pre l Hc Hin. apply in_map_iff in Hin. destruct Hin as (l0 & Hf & Hin0).
  destruct (chain_last_edge pre n l Hc) as (Hrl & Hel).
  exists (lk_file l0). split.
  - apply (is_chain_reach_later (pre ++ [l]) n l0 Hc Hin0).
  - rewrite <- Hf in Hel. eapply reach_edge_plus; [|exact Hel].
    eapply chain_reach_last; eassumption.
Qed.

(* ================================================================== completion *)
Lemma edge_imports : forall n m imps, edge g n m -> lookup n g = Some imps -> exists v, In (v, m) imps.
Proof. intros n m imps (imps' & v & Hl & Hin) Hl2. rewrite Hl in Hl2. injection Hl2 as <-. exists v. exact Hin. Qed.

Lemma gvisit_ok_edges : forall fuel links n out, gvisit L g fuel links n = GOk out ->
  exists f imps, fuel = S f /\ lookup n g = Some imps /\
    forall v m, In (v, m) imps ->
      lookup m g <> None /\ ~ In m (live links n) /\ (Z.of_nat (length links) + 1 < L)%Z /\
      exists k' o, gvisit L g f (links ++ [mkLink n k' v m]) m = GOk o.
Proof.
  intros [|f] links n out H; [discriminate|]. cbn [gvisit] in H.
  destruct (lookup n g) as [imps|] eqn:Hl; [|discriminate].
  exists f, imps. split; [reflexivity|]. split; [reflexivity|]. intros v m Hin.
  destruct (gedges_ok_inv _ _ _ _ _ _ _ H v m Hin) as (H1 & H2 & H3 & H4).
  split; [exact H1|]. split; [apply str_in_false_iff; exact H2|]. split; assumption.
Qed.

(* a traversal that completed never came back to a live file *)
Lemma gvisit_ok_no_return : forall fuel links n out, gvisit L g fuel links n = GOk out ->
  forall x, reach_plus g n x -> ~ In x (live links n).
Proof.
  induction fuel as [|f IH]; intros links n out H x (m & He & Hr); [discriminate|].
  destruct (gvisit_ok_edges _ _ _ _ H) as (f' & imps & Hf & Hl & Hall). injection Hf as <-.
  destruct (edge_imports n m imps He Hl) as [v Hin].
  destruct (Hall v m Hin) as (_ & Hnl & _ & k' & o & Hsub).
  inversion Hr as [y|y m' z Hym Hmz]; subst.
  - exact Hnl.
  - intro Hx. apply (IH _ _ _ Hsub x); [exists m'; split; assumption|].
    rewrite live_snoc. apply in_or_app. left. exact Hx.
Qed.

Lemma gvisit_ok_reach : forall n x, reach g n x -> forall fuel links out, gvisit L g fuel links n = GOk out ->
  exists fuel' links' out', gvisit L g fuel' links' x = GOk out'.
Proof.
  intros n x Hr. induction Hr as [n|n m x He _ IH]; intros fuel links out H.
  - exists fuel, links, out. exact H.
  - destruct (gvisit_ok_edges _ _ _ _ H) as (f & imps & _ & Hl & Hall).
    destruct (edge_imports n m imps He Hl) as [v Hin].
    destruct (Hall v m Hin) as (_ & _ & _ & k' & o & Hsub). eapply IH. exact Hsub.
Qed.

Theorem ok_no_cycle : forall fuel links n out, gvisit L g fuel links n = GOk out -> ~ cycle_reachable g n.
Proof.
  intros fuel links n out H (x & Hr & Hp).
  destruct (gvisit_ok_reach n x Hr _ _ _ H) as (fuel' & links' & out' & H').
  apply (gvisit_ok_no_return _ _ _ _ H' x Hp). unfold live. apply in_or_app. right. left. reflexivity.
Qed.

Theorem ok_closed : forall fuel links n out, gvisit L g fuel links n = GOk out -> closed_from g n.
Proof.
  intros fuel links n out H y m Hr He.
  destruct (gvisit_ok_reach n y Hr _ _ _ H) as (fuel' & links' & out' & H').
  destruct (gvisit_ok_edges _ _ _ _ H') as (f & imps & _ & Hl & Hall).
  destruct (edge_imports y m imps He Hl) as [v Hin]. apply (Hall v m Hin).
Qed.

(* ================================================================== the verdict *)
(* no hypothesis: the traversal returns one of four verdicts, and an error comes with a simple path
   of the graph from the entry whose last link is the offending import *)
Theorem traverse_total : forall entry, lookup entry g <> None ->
  (exists out, gtraverse L g entry = GOk out /\ ~ cycle_reachable g entry /\ closed_from g entry) \/
  (exists pre l, is_chain g entry (pre ++ [l]) /\ NoDup (map lk_file (pre ++ [l])) /\
     ((gtraverse L g entry = GCircular (pre ++ [l]) /\ In (lk_target l) (map lk_file (pre ++ [l]))) \/
      (gtraverse L g entry = GMissing (pre ++ [l]) /\ lookup (lk_target l) g = None) \/
      (gtraverse L g entry = GOverflow (pre ++ [l]) /\ (L <= Z.of_nat (length (pre ++ [l])))%Z /\
       lookup (lk_target l) g <> None /\ ~ In (lk_target l) (map lk_file (pre ++ [l]))))).
Proof.
  intros entry Hl.
  assert (Hnd : NoDup (live [] entry)) by (cbn; constructor; [intros []|constructor]).
  pose proof (gvisit_chain (S (Z.to_nat L)) [] entry Hnd Hl) as Hspec. fold (gtraverse L g entry) in Hspec.
  pose proof (gtraverse_no_fuel entry) as Hnf.
  destruct (gtraverse L g entry) as [out|ch|ch|ch|] eqn:Ht; [| | | |contradiction Hnf; reflexivity].
  - left. exists out. split; [reflexivity|]. unfold gtraverse in Ht.
    split; [eapply ok_no_cycle; exact Ht|eapply ok_closed; exact Ht].
  - right. destruct (Hspec ch eq_refl) as (pre & l & -> & Hc & Hn & Hlast). cbn [app] in *.
    exists pre, l. split; [exact Hc|]. split; [exact Hn|]. left. split; [reflexivity|exact Hlast].
  - right. destruct (Hspec ch eq_refl) as (pre & l & -> & Hc & Hn & Hlast). cbn [app] in *.
    exists pre, l. split; [exact Hc|]. split; [exact Hn|]. right. left. split; [reflexivity|exact Hlast].
  - right. destruct (Hspec ch eq_refl) as (pre & l & -> & Hc & Hn & Hlast). cbn [app] in *.
    exists pre, l. split; [exact Hc|]. split; [exact Hn|]. right. right. split; [reflexivity|exact Hlast].
Qed.

(* every file present, limit above the number of files: completes iff no cycle is reachable,
   otherwise the verdict is Circular (never Missing, never Overflow) *)
Theorem traverse_decide : forall entry, lookup entry g <> None -> closed_from g entry ->
  (Z.of_nat (length g) < L)%Z ->
  (exists out, gtraverse L g entry = GOk out /\ ~ cycle_reachable g entry) \/
  (exists pre l, gtraverse L g entry = GCircular (pre ++ [l]) /\ cycle_reachable g entry /\
     is_chain g entry (pre ++ [l]) /\ NoDup (map lk_file (pre ++ [l])) /\
     In (lk_target l) (map lk_file (pre ++ [l]))).
Proof.
  intros entry Hl Hcl HL.
  destruct (traverse_total entry Hl) as [(out & Ht & Hnc & _)|(pre & l & Hc & Hnd & [[Ht Hin]|[[Ht Hm]|(Ht & Hlen & _)]])].
  - left. exists out. split; assumption.
  - right. exists pre, l. split; [exact Ht|]. split; [eapply chain_back_edge_cycle; eassumption|].
    split; [exact Hc|]. split; assumption.
  - exfalso. destruct (chain_last_edge pre entry l Hc) as (Hr & He). exact (Hcl _ _ Hr He Hm).
  - exfalso.
    assert (Hincl : incl (map lk_file (pre ++ [l])) (map fst g)).
    { intros x Hx. apply in_map_iff in Hx. destruct Hx as (l0 & <- & Hin0).
      pose proof (is_chain_files_exist _ _ _ Hc Hin0) as Hex.
      destruct (in_dec (list_eq_dec N.eq_dec) (lk_file l0) (map fst g)) as [Hi|Hni]; [exact Hi|].
      apply lookup_None_notin in Hni. contradiction. }
    pose proof (NoDup_incl_length Hnd Hincl) as Hle. rewrite !map_length in Hle. lia.
Qed.

Corollary traverse_ok_iff : forall entry, lookup entry g <> None -> closed_from g entry ->
  (Z.of_nat (length g) < L)%Z ->
  ((exists out, gtraverse L g entry = GOk out) <-> ~ cycle_reachable g entry).
Proof.
  intros entry Hl Hcl HL. split.
  - intros (out & Ht). unfold gtraverse in Ht. eapply ok_no_cycle. exact Ht.
  - intro Hnc. destruct (traverse_decide entry Hl Hcl HL) as [(out & Ht & _)|(pre & l & _ & Hc & _)].
    + exists out. exact Ht.
    + contradiction.
Qed.

(* ================================================================== cycles through first imports *)
Definition first_link (x : name) : link :=
  match lookup x g with
  | Some ((v, m) :: _) => mkLink x 2%Z v m
  | _ => mkLink x 2%Z VStart x
  end.

Definition first_import (x : name) : option name :=
  match lookup x g with Some ((_, m) :: _) => Some m | _ => None end.

(* each element with its successor; the successor of the last one is [t] *)
Fixpoint pairs (p : list name) (t : name) : list (name * name) :=
  match p with [] => [] | x :: r => (x, hd t r) :: pairs r t end.

Definition first_path (p : list name) (t : name) : Prop :=
  Forall (fun xy => first_import (fst xy) = Some (snd xy)) (pairs p t).

(* x0 -> x1 -> ... -> xk following first imports, all distinct and not live, the first import of xk
   is a live file or one of the xi: rejected at xk, with exactly that chain *)
Lemma lasso : forall p' x links fuel t,
  first_path (x :: p') t -> lookup t g <> None ->
  NoDup (map lk_file links ++ x :: p') -> In t (map lk_file links ++ x :: p') ->
  (Z.of_nat (length links + length (x :: p')) <= L)%Z -> (length (x :: p') <= fuel)%nat ->
  gvisit L g fuel links x = GCircular (links ++ map first_link (x :: p')).
Proof.
  induction p' as [|y p'' IH]; intros x links fuel t Hfp Hlt Hnd Hin HL Hf.
  - destruct fuel as [|f]; [cbn [length] in Hf; lia|]. cbn [gvisit].
    inversion Hfp as [|a b Hx _]; subst. cbn [fst snd hd] in Hx. unfold first_import in Hx.
    cbn [map]. unfold first_link.
    destruct (lookup x g) as [[|[v m] rest]|] eqn:Hlx; try discriminate. injection Hx as ->.
    cbn [gedges]. destruct (lookup t g); [|contradiction Hlt; reflexivity].
    assert (Hc : str_in t (live links x) = true) by (apply str_in_iff; exact Hin).
    rewrite Hc. reflexivity.
  - destruct fuel as [|f]; [cbn [length] in Hf; lia|]. cbn [gvisit].
    inversion Hfp as [|a b Hx Hrest]; subst. cbn [fst snd hd] in Hx. unfold first_import in Hx.
    assert (Hly : lookup y g <> None).
    { inversion Hrest as [|a b Hy _]; subst. cbn [fst] in Hy. unfold first_import in Hy.
      destruct (lookup y g); [discriminate|discriminate]. }
    cbn [map]. unfold first_link at 1.
    destruct (lookup x g) as [[|[v m] rest]|] eqn:Hlx; try discriminate. injection Hx as ->.
    cbn [gedges]. destruct (lookup y g) as [yimps|] eqn:Hlyy; [|contradiction Hly; reflexivity].
    assert (Hc : str_in y (live links x) = false).
    { apply str_in_false_iff. unfold live. intro Hi.
      replace (map lk_file links ++ x :: y :: p'') with ((map lk_file links ++ [x]) ++ y :: p'') in Hnd
        by (rewrite <- app_assoc; reflexivity).
      apply NoDup_remove_2 in Hnd. apply Hnd. apply in_or_app. left. exact Hi. }
    rewrite Hc.
    assert (Hlim : (L <=? Z.of_nat (length links) + 1)%Z = false).
    { apply Z.leb_gt. cbn [length] in HL. lia. }
    rewrite Hlim.
    rewrite (IH y (links ++ [mkLink x 2 v y]) f t).
    + rewrite <- app_assoc. reflexivity.
    + exact Hrest.
    + exact Hlt.
    + rewrite live_files_chain. unfold live. rewrite <- app_assoc. exact Hnd.
    + rewrite live_files_chain. unfold live. rewrite <- app_assoc. exact Hin.
    + rewrite app_length. cbn [length] in *. lia.
    + cbn [length] in *. lia.
Qed.

Theorem first_import_cycle : forall x p' t,
  first_path (x :: p') t -> NoDup (x :: p') -> In t (x :: p') ->
  (Z.of_nat (length (x :: p')) <= L)%Z ->
  gtraverse L g x = GCircular (map first_link (x :: p')).
Proof.
  intros x p' t Hfp Hnd Hin HL. unfold gtraverse.
  rewrite (lasso p' x [] (S (Z.to_nat L)) t); try assumption.
  - reflexivity.
  - (* t is one of the files of the path: it has imports *)
    unfold first_path in Hfp. rewrite Forall_forall in Hfp.
    assert (Hall : forall p t0 z, In z p -> exists w, In (z, w) (pairs p t0)).
    { induction p as [|a r IHp]; intros t0 z Hz; [destruct Hz|]. destruct Hz as [<-|Hz].
      - exists (hd t0 r). left. reflexivity.
      - destruct (IHp t0 z Hz) as [w Hw]. exists w. right. exact Hw. }
    destruct (Hall (x :: p') t t Hin) as [w Hw]. specialize (Hfp _ Hw). cbn [fst] in Hfp.
    unfold first_import in Hfp. destruct (lookup t g); discriminate.
  - lia.
Qed.

End Theory.
