(* C04d -- EXPRESSION LAYER o REFERENCE SEMANTICS.  The unified specification (Spec/CoreAll.v)
   evaluates an expression TEXT e with [eval fo sys f vs e v] := tokenize fo (visible fo sys f vs) e = Ok v.
   Proofs/ExprPrint.v ([tokenize_print], C04c) says what the tokenizer returns on the printed text
   of an abstract expression.  Here the two are composed:
     eval_of_printed      eval ... (print lay e) v  <->  eval_ref (visible ...) e = Ok v
   and read on statements: VAR, one arm of an IF chain, IF without ELSE.
   (The program-level independence of layout is in Proofs/LayoutCongruence.v.) *)
From Coq Require Import NArith ZArith List Bool Arith Lia.
From DS Require Import Base PyStr Values Tables Expr ExprAst Spelling ExprLang ExprPrint ExprCorollaries.
From DS Require Import TabParse CoreLang CoreFunc CoreAll ScopeProofs.
Import ListNotations.

(* ================================================================== names of a store *)
Section Names.
Variable fo : FloatOps.
Notation store := (store fo).

Lemma vars_ident_set_var : forall x v (l : store),
  ident x = true -> vars_ident fo l -> vars_ident fo (set_var fo x v l).
Proof.
  intros x v l Hx H. induction H as [|[y w] r Hy Hr IH]; cbn [set_var].
  - constructor; [exact Hx|constructor].
  - destruct (str_eqb x y); [constructor; [exact Hx|exact Hr]|constructor; [exact Hy|exact IH]].
Qed.

Lemma vars_ident_overlay : forall top bottom : store,
  vars_ident fo top -> vars_ident fo bottom -> vars_ident fo (overlay fo top bottom).
Proof.
  intros top. unfold overlay. induction top as [|[y w] r IH]; intros bottom Ht Hb; [exact Hb|].
  cbn [fold_left fst snd]. inversion Ht as [|? ? Hy Hr]; subst. apply IH; [exact Hr|].
  apply vars_ident_set_var; assumption.
Qed.

Lemma flag_var_ident : forall f, vars_ident fo (flag_var fo f).
Proof. intros [b|]; [constructor; [reflexivity|constructor]|constructor]. Qed.

(* every name an expression can see is an identifier as soon as those of the store and of the
   system variables are: the flag is $IF_SUCCESS *)
Lemma visible_ident : forall sys f vs,
  vars_ident fo sys -> vars_ident fo vs -> vars_ident fo (visible fo sys f vs).
Proof.
  intros sys f vs Hs Hv. unfold visible. apply vars_ident_overlay; [exact Hv|].
  apply vars_ident_overlay; [apply flag_var_ident|]. apply vars_ident_overlay; [exact Hs|constructor].
Qed.

Lemma initial_sys_ident : vars_ident fo (initial_sys fo).
Proof. constructor; [reflexivity|constructor]. Qed.

Lemma in_keys_set_var : forall x y v (l : store),
  In y (map fst (set_var fo x v l)) <-> y = x \/ In y (map fst l).
Proof.
  intros x y v l. induction l as [|[z w] r IH]; cbn [set_var map fst In].
  - split; [intros [H|[]]; left; symmetry; exact H|intros [H|[]]; left; symmetry; exact H].
  - destruct (str_eqb x z) eqn:E; cbn [map fst In].
    + apply str_eqb_eq in E. subst z. split.
      * intros [H|H]; [left; symmetry; exact H|right; right; exact H].
      * intros [H|[H|H]]; [left; symmetry; exact H|left; exact H|right; exact H].
    + rewrite IH. split.
      * intros [H|[H|H]]; [right; left; exact H|left; exact H|right; right; exact H].
      * intros [H|[H|H]]; [right; left; exact H|left; exact H|right; right; exact H].
Qed.

Lemma in_keys_overlay : forall (top bottom : store) y,
  In y (map fst (overlay fo top bottom)) <-> In y (map fst top) \/ In y (map fst bottom).
Proof.
  intros top. unfold overlay. induction top as [|[z w] r IH]; intros bottom y; cbn [fold_left map fst snd In].
  - split; [intro H; right; exact H|intros [[]|H]; exact H].
  - rewrite IH, in_keys_set_var. split.
    + intros [H|[H|H]]; [left; right; exact H|left; left; symmetry; exact H|right; exact H].
    + intros [[H|H]|H]; [right; left; symmetry; exact H|left; exact H|right; right; exact H].
Qed.

(* a variable of the store is defined for expressions *)
Lemma visible_defined : forall sys f vs x,
  In x (map fst vs) -> lookup x (visible fo sys f vs) <> None.
Proof.
  intros sys f vs x Hin Hn. apply lookup_None_notin in Hn. apply Hn.
  unfold visible. apply in_keys_overlay. left. exact Hin.
Qed.

Lemma visible_defined_iff : forall sys f vs x,
  lookup x (visible fo sys f vs) <> None <->
  In x (map fst vs) \/ In x (map fst (flag_var fo f)) \/ In x (map fst sys).
Proof.
  intros sys f vs x. unfold visible. split.
  - intro H. destruct (in_dec (list_eq_dec N.eq_dec) x (map fst (overlay fo vs (overlay fo (flag_var fo f) (overlay fo sys [])))))
      as [Hin|Hn]; [|apply lookup_None_notin in Hn; contradiction].
    apply in_keys_overlay in Hin. destruct Hin as [Hin|Hin]; [left; exact Hin|].
    apply in_keys_overlay in Hin. destruct Hin as [Hin|Hin]; [right; left; exact Hin|].
    apply in_keys_overlay in Hin. destruct Hin as [Hin|[]]. right; right; exact Hin.
  - intros H Hn. apply lookup_None_notin in Hn. apply Hn.
    apply in_keys_overlay. destruct H as [H|[H|H]]; [left; exact H|right|right].
    + apply in_keys_overlay. left. exact H.
    + apply in_keys_overlay. right. apply in_keys_overlay. left. exact H.
Qed.

End Names.

(* ================================================================== a. eval of a printed expression *)
Section Compose.
Variable fo : FloatOps.
Variable sys : store fo.
Notation visible := (visible fo sys).
Notation eval := (eval fo sys).

(* THE COMPOSITION.  Hypotheses = those of C04c [tokenize_print] at the visible variables:
     vars_ident   every visible name is an identifier (optional leading "$", then letters / digits /
                  underscores, not starting with a digit);
     layout_ok    the runs of the layout are whitespace;
     expr_ok      literals are literals, operators are among the 14 symbols, and every EVar x has
                  x an identifier that starts like a name, has neither TRUE nor FALSE as a prefix,
                  is not a prefix of TRUE / FALSE (bool_safe), and IS DEFINED in the visible store;
     depth <= 100 the parentheses (explicit and inserted) nest at most 100 deep. *)
Theorem eval_of_printed : forall f vs lay e v,
  vars_ident fo (visible f vs) -> layout_ok lay -> expr_ok fo (visible f vs) e -> depth e <= 100 ->
  (eval f vs (print lay e) v <-> eval_ref fo (visible f vs) e = Ok v).
Proof.
  intros f vs lay e v Hvi Hlay Hok Hd. unfold CoreLang.eval.
  rewrite (tokenize_print fo (visible f vs) Hvi lay e Hlay Hok Hd). reflexivity.
Qed.

(* the same with the hypothesis on names split: system variables and user variables *)
Corollary eval_of_printed_user : forall f vs lay e v,
  vars_ident fo sys -> vars_ident fo vs -> layout_ok lay -> expr_ok fo (visible f vs) e -> depth e <= 100 ->
  (eval f vs (print lay e) v <-> eval_ref fo (visible f vs) e = Ok v).
Proof.
  intros f vs lay e v Hs Hv. apply eval_of_printed. apply visible_ident; assumption.
Qed.

(* the value of a printed expression is unique and does not depend on the layout *)
Corollary eval_printed_layout : forall f vs lay1 lay2 e v,
  vars_ident fo (visible f vs) -> layout_ok lay1 -> layout_ok lay2 -> expr_ok fo (visible f vs) e -> depth e <= 100 ->
  (eval f vs (print lay1 e) v <-> eval f vs (print lay2 e) v).
Proof.
  intros f vs lay1 lay2 e v Hvi H1 H2 Hok Hd.
  rewrite (eval_of_printed f vs lay1 e v Hvi H1 Hok Hd), (eval_of_printed f vs lay2 e v Hvi H2 Hok Hd). reflexivity.
Qed.

(* ... nor on a redundant pair of parentheses (stored values are normalised) *)
Corollary eval_printed_paren : forall f vs lay lay' e e' v,
  vars_ident fo (visible f vs) -> vars_normal fo (visible f vs) -> layout_ok lay -> layout_ok lay' ->
  expr_ok fo (visible f vs) e -> add_paren e e' -> depth e <= 100 -> depth e' <= 100 ->
  (eval f vs (print lay e) v <-> eval f vs (print lay' e') v).
Proof.
  intros f vs lay lay' e e' v Hvi Hn H1 H2 Hok Hap Hd Hd'. unfold CoreLang.eval.
  rewrite (paren_independent_text fo (visible f vs) lay lay' e e' Hvi Hn H1 H2 Hok Hap Hd Hd'). reflexivity.
Qed.

(* ================================================================== b. statements *)
Variable prog : program.
Variable inc sup : bool.
Notation exec := (CoreAll.exec fo sys prog inc sup).
Notation exec_list := (CoreAll.exec_list fo sys prog inc sup).
Notation exec_arms := (CoreAll.exec_arms fo sys prog inc sup).

(* VAR x <printed e> assigns the reference value of e -- and has no other derivation *)
Theorem var_printed : forall d pile cf n F f vs x lay e sg F' f' vs' out ev,
  vars_ident fo (visible f vs) -> layout_ok lay -> expr_ok fo (visible f vs) e -> depth e <= 100 ->
  (exec d pile cf n F f vs (UVar x (print lay e)) sg F' f' vs' out ev <->
   exists v, eval_ref fo (visible f vs) e = Ok v /\
             sg = Normal /\ F' = F /\ f' = f /\ vs' = set_var fo x v vs /\ out = [] /\ ev = []).
Proof.
  intros d pile cf n F f vs x lay e sg F' f' vs' out ev Hvi Hlay Hok Hd. split.
  - intro H. inversion H; subst.
    match goal with He : CoreLang.eval _ _ ?f0 ?vs0 _ ?v0 |- _ =>
      exists v0; split; [apply (eval_of_printed f0 vs0 lay e v0 Hvi Hlay Hok Hd); exact He|repeat split] end.
  - intros (v & Hv & -> & -> & -> & -> & -> & ->). apply E_Var.
    apply (eval_of_printed f vs lay e v Hvi Hlay Hok Hd). exact Hv.
Qed.

(* $NAME <printed e> emits NAME followed by the string form of the reference value *)
Theorem emit_eval_printed : forall d pile cf n F f vs name lay e sg F' f' vs' out ev,
  vars_ident fo (visible f vs) -> layout_ok lay -> expr_ok fo (visible f vs) e -> depth e <= 100 ->
  (exec d pile cf n F f vs (UEmitEval name (print lay e)) sg F' f' vs' out ev <->
   exists v t, eval_ref fo (visible f vs) e = Ok v /\ py_str fo v = Some t /\
             sg = Normal /\ F' = F /\ f' = f /\ vs' = vs /\ out = [LCode (name ++ sp :: t)] /\ ev = []).
Proof.
  intros d pile cf n F f vs name lay e sg F' f' vs' out ev Hvi Hlay Hok Hd. split.
  - intro H. inversion H; subst.
    match goal with He : CoreLang.eval _ _ ?f0 ?vs0 _ ?v0, Hp : py_str _ ?v0 = Some ?t0 |- _ =>
      exists v0, t0; split; [apply (eval_of_printed f0 vs0 lay e v0 Hvi Hlay Hok Hd); exact He|repeat split; exact Hp] end.
  - intros (v & t & Hv & Ht & -> & -> & -> & -> & -> & ->). eapply E_EmitEval; [|exact Ht].
    apply (eval_of_printed f vs lay e v Hvi Hlay Hok Hd). exact Hv.
Qed.

(* ONE ARM of an IF chain whose condition is a printed expression: the arm is taken iff the
   reference value of the condition is truthy; otherwise the chain goes on with the next arm *)
Theorem arm_printed : forall d pile cf first n F b vs lay c body rest els sg taken vs' out ev v,
  vars_ident fo (visible (Some b) vs) -> layout_ok lay -> expr_ok fo (visible (Some b) vs) c -> depth c <= 100 ->
  eval_ref fo (visible (Some b) vs) c = Ok v ->
  (exec_arms d pile cf first n F b vs ((print lay c, body) :: rest) els sg taken vs' out ev <->
   if truthy fo v
   then exists d' F1 f1 vs1, d = S d' /\ taken = true /\ vs' = copy_back fo vs vs1 /\
          exec_list d' (pile ++ [mkSF cf (if_head first (print lay c)) n false]) cf (n + 1) F None vs body sg F1 f1 vs1 out ev /\
          (sg = Normal -> Forall (fun cb : str * list ustmt => exists v', eval (Some true) (copy_back fo vs vs1) (fst cb) v') rest)
   else exec_arms d pile cf false (n + 1 + sum_sizes usize body) F false vs rest els sg taken vs' out ev).
Proof.
  intros d pile cf first n F b vs lay c body rest els sg taken vs' out ev v Hvi Hlay Hok Hd Hv.
  assert (Hev : forall w, eval (Some b) vs (print lay c) w -> w = v).
  { intros w Hw. apply (eval_of_printed (Some b) vs lay c w Hvi Hlay Hok Hd) in Hw. congruence. }
  assert (Hve : eval (Some b) vs (print lay c) v)
    by (apply (eval_of_printed (Some b) vs lay c v Hvi Hlay Hok Hd); exact Hv).
  split.
  - intro H. inversion H; subst.
    + match goal with Hc : CoreLang.eval _ _ _ _ _ ?w, Ht : truthy fo ?w = true |- _ =>
        rewrite (Hev w Hc) in Ht; rewrite Ht end.
      do 4 eexists. split; [reflexivity|]. split; [reflexivity|]. split; [reflexivity|]. split; eassumption.
    + match goal with Hc : CoreLang.eval _ _ _ _ _ ?w, Ht : truthy fo ?w = false |- _ =>
        rewrite (Hev w Hc) in Ht; rewrite Ht end.
      assumption.
  - destruct (truthy fo v) eqn:Ht.
    + intros (d' & F1 & f1 & vs1 & -> & -> & -> & Hb & Hr). eapply A_Take; eassumption.
    + intro Hr. eapply A_Skip; eassumption.
Qed.

(* IF <printed c> / body, no ELIF, no ELSE *)
Theorem if_printed : forall d pile cf n F f vs lay c body sg F' f' vs' out ev v,
  let b := match f with Some b => b | None => false end in
  vars_ident fo (visible (Some b) vs) -> layout_ok lay -> expr_ok fo (visible (Some b) vs) c -> depth c <= 100 ->
  eval_ref fo (visible (Some b) vs) c = Ok v ->
  (exec d pile cf n F f vs (UIf [(print lay c, body)] None) sg F' f' vs' out ev <->
   if truthy fo v
   then exists d' F1 f1 vs1, d = S d' /\ F' = F /\ f' = Some true /\ vs' = copy_back fo vs vs1 /\
          exec_list d' (pile ++ [mkSF cf (if_head true (print lay c)) n false]) cf (n + 1) F None vs body sg F1 f1 vs1 out ev
   else sg = Normal /\ F' = F /\ f' = Some false /\ vs' = vs /\ out = [] /\ ev = []).
Proof.
  intros d pile cf n F f vs lay c body sg F' f' vs' out ev v b Hvi Hlay Hok Hd Hv. split.
  - intro H. inversion H; subst.
    match goal with Ha : exec_arms _ _ _ _ _ _ _ _ _ _ _ _ _ _ _ |- _ =>
      apply (arm_printed _ _ _ _ _ _ _ _ _ _ _ _ _ _ _ _ _ _ _ Hvi Hlay Hok Hd Hv) in Ha end.
    destruct (truthy fo v).
    + match goal with Ha : exists _, _ |- _ => destruct Ha as (d' & F1 & f1 & vs1 & -> & -> & -> & Hb & _) end.
      exists d', F1, f1, vs1. repeat split. exact Hb.
    + match goal with Ha : exec_arms _ _ _ _ _ _ _ _ _ _ _ _ _ _ _ |- _ => inversion Ha; subst end.
      repeat split.
  - intro H. destruct (truthy fo v) eqn:Ht.
    + destruct H as (d' & F1 & f1 & vs1 & -> & -> & -> & -> & Hb). apply E_If. fold b.
      apply (arm_printed _ _ _ _ _ _ _ _ _ _ _ _ _ _ _ _ _ _ _ Hvi Hlay Hok Hd Hv). rewrite Ht.
      exists d', F1, f1, vs1. repeat split; [exact Hb|]. intros _. constructor.
    + destruct H as (-> & -> & -> & -> & -> & ->). apply E_If. fold b.
      apply (arm_printed _ _ _ _ _ _ _ _ _ _ _ _ _ _ _ _ _ _ _ Hvi Hlay Hok Hd Hv). rewrite Ht. apply A_None.
Qed.

End Compose.
