(* C07 (continued): FUNC stores the definition (the latest one wins, definitions made in a block die
   with it), RETURN at the top level ends the program silently, a RUN line in a stack. *)
From Coq Require Import NArith ZArith List Bool Lia.
From DS Require Import Base PyStr Values Expr TabParse Tables Constants Interp.
From DS Require Import ScopeProofs PipelineProofs StackLift PrintsMono CrashFree UnknownWarn RunProofs.
Import ListNotations.

Arguments IOk {A}. Arguments IErr {A}. Arguments ICrash {A}. Arguments IUnmod {A}.
Arguments s_g {fo}. Arguments s_env {fo}. Arguments s_line2 {fo}. Arguments mkSt {fo}.

(* ------------------------------------------------------------------ (e) FUNC *)
Definition is_func_class (bc : block_cls) : Prop :=
  b_kind bc = BKFunc /\ b_flipper_only bc = false /\ b_arg_req bc = Required /\ b_strip_arg bc = true.

(* the parameter names of a definition: the text after the name, split at commas, each trimmed *)
Definition func_params (var_string : option str) : list str :=
  match var_string with
  | None => []
  | Some vs => match vs with [] => [] | _ => map strip (split_char comma vs) end
  end.

Definition names_ok (fname : str) (params : list str) : bool :=
  is_var fname false && forallb (fun v => is_var v false) params.

Section Func.
Variable fo : FloatOps.
Notation env := (env fo).
Variable child : runner fo.
Variable cx : ctx.
Variable cur : preline.

Definition define (fname : str) (f : func) (e : env) : env :=
  mkEnv fo (e_sys fo e) (e_user fo e) (e_temp fo e) (upd fname f (e_funcs fo e)).

(* FUNC name p1,...,pk with a block: the record (parameters, block, file of the defining stack)
   is stored under the name; nothing is emitted, nothing else changes *)
Lemma func_defines : forall bc cname cmd num (a : str) code_block fname var_string s,
  is_func_class bc -> a <> [] ->
  break_arg (strip a) = (fname, var_string) ->
  names_ok fname (func_params var_string) = true ->
  block_compile fo child cx cur bc cname cmd num (Some a) code_block s =
  (mkSt (s_g s)
        (define fname (mkFunc (func_params var_string) (block_of code_block) (c_file cx)) (s_env s))
        (s_line2 s),
   IOk RNone).
Proof.
  intros bc cname cmd num a code_block fname var_string s (Hk & Hf & Hr & Hs) Ha Hb Hn.
  unfold block_compile, check_flipper. rewrite Hf, Hr, Hk, Hs. cbn [andb].
  destruct a as [|a0 ar]; [contradiction|].
  unfold bindM at 1. unfold ret at 1. unfold bindM at 1. unfold ret at 1.
  cbn [option_map]. rewrite Hb.
  unfold names_ok, func_params in Hn.
  change (match var_string with
          | Some vs => match vs with [] => [] | _ :: _ => map strip (split_char comma vs) end
          | None => []
          end) with (func_params var_string).
  unfold func_params. rewrite Hn. reflexivity.
Qed.

Lemma func_bad_name : forall bc cname cmd num (a : str) code_block fname var_string s,
  is_func_class bc -> a <> [] ->
  break_arg (strip a) = (fname, var_string) ->
  names_ok fname (func_params var_string) = false ->
  block_compile fo child cx cur bc cname cmd num (Some a) code_block s =
  (s, IErr EUnacceptableVarName (Some (here cx cur (s_line2 s)))).
Proof.
  intros bc cname cmd num a code_block fname var_string s (Hk & Hf & Hr & Hs) Ha Hb Hn.
  unfold block_compile, check_flipper. rewrite Hf, Hr, Hk, Hs. cbn [andb].
  destruct a as [|a0 ar]; [contradiction|].
  unfold bindM at 1. unfold ret at 1. unfold bindM at 1. unfold ret at 1.
  cbn [option_map]. rewrite Hb.
  unfold names_ok, func_params in Hn. rewrite Hn. reflexivity.
Qed.

(* FUNC without a name *)
Lemma func_needs_name : forall bc cname cmd num argument code_block s,
  is_func_class bc -> (argument = None \/ argument = Some []) ->
  block_compile fo child cx cur bc cname cmd num argument code_block s =
  (s, IErr EInvalidArguments (Some (here cx cur (s_line2 s)))).
Proof.
  intros bc cname cmd num argument code_block s (Hk & Hf & Hr & Hs) Ha.
  unfold block_compile, check_flipper. rewrite Hf, Hr. cbn [andb].
  destruct Ha as [-> | ->]; reflexivity.
Qed.

(* the latest definition is the visible one *)
Lemma define_lookup_same : forall fname f (e : env),
  lookup fname (e_funcs fo (define fname f e)) = Some f.
Proof. intros. cbn [define e_funcs]. apply lookup_upd_same. Qed.

Lemma define_lookup_other : forall fname g f (e : env), g <> fname ->
  lookup g (e_funcs fo (define fname f e)) = lookup g (e_funcs fo e).
Proof. intros fname g f e Hne. cbn [define e_funcs]. apply lookup_upd_other. apply str_eqb_neq. exact Hne. Qed.

Theorem latest_definition : forall fname f1 f2 (e : env),
  lookup fname (e_funcs fo (define fname f2 (define fname f1 e))) = Some f2 /\
  define fname f2 (define fname f1 e) = define fname f2 e.
Proof.
  intros fname f1 f2 e. split; [apply define_lookup_same|].
  unfold define. cbn [e_sys e_user e_temp e_funcs]. rewrite upd_upd. reflexivity.
Qed.

(* redefinition keeps the invariant and the variables *)
Lemma define_frame : forall fname f (e : env),
  e_sys fo (define fname f e) = e_sys fo e /\ e_user fo (define fname f e) = e_user fo e /\
  e_temp fo (define fname f e) = e_temp fo e.
Proof. intros. repeat split. Qed.

(* a definition made inside a block (IF / REPEAT / WHILE body, another function's body) is not
   visible after the block: whatever the child does, a non-parallel child leaves the functions of
   the parent as they were *)
Theorem definition_dies_with_block : forall code file setup pre s s' r,
  run_child_with fo child cx cur code file false setup pre s = (s', r) ->
  e_funcs fo (s_env s') = e_funcs fo (s_env s).
Proof.
  intros code file setup pre s s' r H.
  destruct r as [x|e t|k|].
  - eapply child_preserves_parent_funcs. exact H.
  - destruct (run_child_with_fail_env fo child cx cur code file false setup pre s s' _ H) as [He _];
      [intros x Hx; discriminate|]. rewrite He. reflexivity.
  - destruct (run_child_with_fail_env fo child cx cur code file false setup pre s s' _ H) as [He _];
      [intros x Hx; discriminate|]. rewrite He. reflexivity.
  - destruct (run_child_with_fail_env fo child cx cur code file false setup pre s s' _ H) as [He _];
      [intros x Hx; discriminate|]. rewrite He. reflexivity.
Qed.

(* in particular a function defined inside a function body is local to that call *)
Corollary call_keeps_caller_funcs : forall f vals s,
  e_funcs fo (s_env (fst (call_result fo child cx cur f vals s))) = e_funcs fo (s_env s).
Proof.
  intros f vals s. unfold call_result. destruct (stack_full cx); [reflexivity|].
  destruct (child _ _ _ _) as [g' [[cr cenv2]|e t|k|]]; reflexivity.
Qed.

End Func.

(* the palette class that claims FUNC / FUNCTION (with a non-empty block) *)
Definition s_FUNC : str := [70;85;78;67]%N.
Definition s_FUNCTION : str := [70;85;78;67;84;73;79;78]%N.

Definition func_class_okb (k : str) : bool :=
  match find_command palette k (Some [Ln [] 0%Z]) with
  | Some (_, Block bc) =>
      match b_kind bc, b_flipper_only bc, b_arg_req bc, b_strip_arg bc with
      | BKFunc, false, Required, true => true
      | _, _, _, _ => false
      end
  | _ => false
  end.

Lemma palette_func_class : func_class_okb s_FUNC && func_class_okb s_FUNCTION = true.
Proof. vm_compute. reflexivity. Qed.

Lemma is_this_command_block' : forall c cmd x r y r',
  is_this_command c cmd (Some (x :: r)) = is_this_command c cmd (Some (y :: r')).
Proof. intros [sc|bc] cmd x r y r'; reflexivity. Qed.

Lemma find_command_block' : forall pal cmd x r y r',
  find_command pal cmd (Some (x :: r)) = find_command pal cmd (Some (y :: r')).
Proof.
  induction pal as [|[n c] pal IH]; intros cmd x r y r'; [reflexivity|].
  cbn [find_command]. rewrite (is_this_command_block' c cmd x r y r').
  destruct (is_this_command c cmd (Some (y :: r'))); [reflexivity|apply IH].
Qed.

Lemma find_func : forall cmd k x r, (k = s_FUNC \/ k = s_FUNCTION) -> upper cmd = k -> starts_dollar cmd = false ->
  exists cname bc, find_command palette cmd (Some (x :: r)) = Some (cname, Block bc) /\ is_func_class bc.
Proof.
  intros cmd k x r Hk Hu Hd.
  pose proof palette_func_class as H. apply andb_true_iff in H. destruct H as [H1 H2].
  assert (H : func_class_okb k = true) by (destruct Hk as [-> | ->]; assumption).
  assert (Hup : upper k = k) by (destruct Hk as [-> | ->]; reflexivity).
  assert (Hnd : starts_dollar k = false) by (destruct Hk as [-> | ->]; reflexivity).
  unfold func_class_okb in H.
  rewrite (find_command_block' palette k (Ln [] 0%Z) [] x r) in H.
  rewrite <- (find_command_upper palette cmd k (Some (x :: r)) Hu Hup Hd Hnd) in H.
  destruct (find_command palette cmd (Some (x :: r))) as [[cname [sc|bc]]|]; try discriminate.
  exists cname, bc. split; [reflexivity|]. unfold is_func_class.
  destruct (b_kind bc); try discriminate. destruct (b_flipper_only bc); try discriminate.
  destruct (b_arg_req bc); try discriminate. destruct (b_strip_arg bc); try discriminate. repeat split.
Qed.

(* ------------------------------------------------------------------ (f) RETURN and the loop signals as lines *)
Definition signal_kind (rk : runkind) : option signal :=
  match rk with RKReturn => Some SReturn | RKBreak => Some SBreak | RKContinue => Some SContinue | _ => None end.

Definition plural_silent0 (pv : pvalidator) : bool :=
  match pv with
  | PVNone => true
  | PVWarnIfLen op k _ => negb (cmp_eval op 0%Z k)
  | PVRaiseIfLen op k => negb (cmp_eval op 0%Z k)
  end.

Definition signal_class (sc : simple_cls) (sg : signal) : Prop :=
  signal_kind (s_run sc) = Some sg /\ s_flipper_only sc = false /\ s_arg_req sc <> Required /\
  plural_silent0 (s_verify_args sc) = true.

Section Signals.
Variable fo : FloatOps.
Variable child : runner fo.
Variable cx : ctx.

(* RETURN / BREAKLOOP / CONTINUELOOP written alone: nothing is emitted, the signal is raised *)
Lemma signal_line_compile : forall cur cname tg sc cmd n sg s,
  signal_class sc sg -> no_dollar cmd ->
  simple_compile fo child cx cur cname tg sc cmd n None None s =
  (mkSt (s_g s) (s_env s) (Some cur), IOk (mkCret [] sg)).
Proof.
  intros cur cname tg sc cmd n sg s (Hk & Hf & Hr & Hp) Hnd.
  unfold simple_compile, check_flipper. rewrite Hf. cbn [andb].
  unfold no_dollar in Hnd.
  assert (Hd : (match upper cmd with 36%N :: _ => true | _ => false end) = false).
  { destruct (upper cmd) as [|c r]; [reflexivity|].
    destruct c as [|p]; [reflexivity|].
    repeat (destruct p as [p|p|]; try reflexivity). contradiction. }
  rewrite Hd. cbn [orb]. unfold listify_args.
  assert (Hrun : forall name s0, run_compile fo child cx cur cname sc name None s0 = (s0, IOk (RComp (mkCret [] sg)))).
  { intros name s0. unfold run_compile. destruct (s_run sc); try discriminate; injection Hk as <-; reflexivity. }
  destruct (s_tokenize_args sc); destruct (s_strip_args sc); destruct (s_arg_req sc); try contradiction;
    destruct (s_verify_args sc) as [|op k msg|op k]; cbn [plural_silent0] in Hp;
    try (apply negb_true_iff in Hp);
    cbn -[run_compile here]; try rewrite Hp; cbn -[run_compile here].
  all: unfold bindM; rewrite Hrun; reflexivity.
Qed.

End Signals.

Definition s_RETURN : str := [82;69;84;85;82;78]%N.
Definition s_RET : str := [82;69;84]%N.

Definition signal_class_okb (k : str) (sg : signal) : bool :=
  match find_command palette k None with
  | Some (_, Simple sc) =>
      match signal_kind (s_run sc), sg with
      | Some SReturn, SReturn | Some SBreak, SBreak | Some SContinue, SContinue => true
      | _, _ => false
      end
      && negb (s_flipper_only sc) && match s_arg_req sc with Required => false | _ => true end
      && plural_silent0 (s_verify_args sc)
  | _ => false
  end.

Lemma palette_return_class : signal_class_okb s_RETURN SReturn && signal_class_okb s_RET SReturn = true.
Proof. vm_compute. reflexivity. Qed.

Lemma find_signal : forall cmd k sg, signal_class_okb k sg = true -> upper k = k -> starts_dollar k = false ->
  upper cmd = k -> starts_dollar cmd = false ->
  exists cname sc, find_command palette cmd None = Some (cname, Simple sc) /\ signal_class sc sg.
Proof.
  intros cmd k sg H Hup Hnd Hu Hd. unfold signal_class_okb in H.
  rewrite <- (find_command_upper palette cmd k None Hu Hup Hd Hnd) in H.
  destruct (find_command palette cmd None) as [[cname [sc|bc]]|]; try discriminate.
  exists cname, sc. split; [reflexivity|].
  apply andb_true_iff in H. destruct H as [H Hp].
  apply andb_true_iff in H. destruct H as [H Hr].
  apply andb_true_iff in H. destruct H as [Hk Hf]. apply negb_true_iff in Hf.
  unfold signal_class. repeat split; try assumption.
  - destruct (signal_kind (s_run sc)) as [[]|]; destruct sg; try discriminate; reflexivity.
  - intro Hreq. rewrite Hreq in Hr. discriminate.
Qed.

Section ReturnLine.
Variable fo : FloatOps.
Variable child : runner fo.
Variable cx : ctx.

Definition return_word (cmd : str) : Prop :=
  (upper cmd = s_RETURN \/ upper cmd = s_RET) /\ starts_dollar cmd = false.

Lemma exec_line_return : forall c cmd n s,
  split_ws1 c = [cmd] -> return_word cmd ->
  exec_line fo child cx c n None s = (mkSt (s_g s) (s_env s) (Some (c, n)), IOk (mkCret [] SReturn)).
Proof.
  intros c cmd n s Hs (Hu & Hd).
  pose proof palette_return_class as Hp. apply andb_true_iff in Hp. destruct Hp as [H1 H2].
  assert (Hf : exists cname sc, find_command palette cmd None = Some (cname, Simple sc) /\ signal_class sc SReturn).
  { destruct Hu as [Hu|Hu].
    - apply (find_signal cmd s_RETURN SReturn H1 eq_refl eq_refl Hu Hd).
    - apply (find_signal cmd s_RET SReturn H2 eq_refl eq_refl Hu Hd). }
  destruct Hf as (cname & sc & Hf & Hc).
  unfold exec_line. rewrite Hs, Hf.
  assert (Hst : is_start_class (Simple sc) = false).
  { destruct Hc as (Hk & _). cbn [is_start_class]. destruct (s_run sc); try reflexivity; discriminate. }
  rewrite Hst. cbn [andb].
  apply signal_line_compile; [exact Hc|].
  apply starts_dollar_no_dollar. destruct Hu as [-> | ->]; reflexivity.
Qed.

(* a RETURN line that is reached ends the stack: the output so far, signal SReturn, and the
   commands after it are never looked at *)
Lemma exec_cmds_return : forall c cmd n post acc s,
  is_blank c = false -> split_ws1 c = [cmd] -> return_word cmd -> block_after post = None ->
  exec_cmds fo child cx (Ln c n :: post) acc s =
  (mkSt (s_g s) (s_env s) (Some (c, n)), IOk (mkCret acc SReturn)).
Proof.
  intros c cmd n post acc s Hb Hs Hw Hp.
  cbn [exec_cmds]. rewrite Hb. unfold block_after in Hp. rewrite Hp.
  unfold bindM at 1. unfold set_line2 at 1. unfold bindM at 1.
  rewrite (exec_line_return c cmd n _ Hs Hw). cbn [cr_sig cr_data Interp.s_g Interp.s_env].
  rewrite app_nil_r. reflexivity.
Qed.

Theorem return_top_level : forall pre c cmd n post acc s s1 acc1,
  is_blank c = false -> split_ws1 c = [cmd] -> return_word cmd -> block_after post = None ->
  exec_cmds fo child cx pre acc s = (s1, IOk (mkCret acc1 SNormal)) ->
  exec_cmds fo child cx (pre ++ Ln c n :: post) acc s =
  (mkSt (s_g s1) (s_env s1) (Some (c, n)), IOk (mkCret acc1 SReturn)).
Proof.
  intros pre c cmd n post acc s s1 acc1 Hb Hs Hw Hp Epre.
  rewrite exec_cmds_app, Epre. cbn [continue_with cr_sig cr_data].
  apply (exec_cmds_return c cmd n post acc1 s1 Hb Hs Hw Hp).
Qed.

(* the same for a whole stack run by run_with: this is what RUN's child returns when the body of
   the function reaches a RETURN *)
Theorem run_with_return : forall pre c cmd n post g e s1 acc1,
  is_blank c = false -> split_ws1 c = [cmd] -> return_word cmd -> block_after post = None ->
  exec_cmds fo child cx pre [] (mkSt g e None) = (s1, IOk (mkCret acc1 SNormal)) ->
  run_with fo child cx g e (pre ++ Ln c n :: post) = (s_g s1, IOk (mkCret acc1 SReturn, s_env s1)).
Proof.
  intros pre c cmd n post g e s1 acc1 Hb Hs Hw Hp Epre. unfold run_with.
  rewrite (return_top_level pre c cmd n post [] _ s1 acc1 Hb Hs Hw Hp Epre). reflexivity.
Qed.

End ReturnLine.

(* ------------------------------------------------------------------ Compiler.compile: RETURN in the main stack *)
Section CompileReturn.
Variable fo : FloatOps.

(* the program ends there, successfully, with the output produced so far and NO warning
   (a BREAKLOOP / CONTINUELOOP reaching the top adds "Program was exited using ...") *)
Theorem compile_items_return : forall o fs file pre c cmd n post s1 acc1,
  is_blank c = false -> split_ws1 c = [cmd] -> return_word cmd -> block_after post = None ->
  exec_cmds fo (child_of fo (run_depth o)) (mkCtx o fs [] file) pre []
            (mkSt (mkGlob [] []) (initial_env fo) None) = (s1, IOk (mkCret acc1 SNormal)) ->
  compile_items fo o fs file (pre ++ Ln c n :: post) =
  (s_g s1, IOk (mkCompiled fo acc1 (rev (g_warnings (s_g s1))) (s_env s1) (rev (g_prints (s_g s1))))).
Proof.
  intros o fs file pre c cmd n post s1 acc1 Hb Hs Hw Hp Epre.
  unfold compile_items. rewrite run_child_of.
  rewrite (run_with_return fo _ _ pre c cmd n post _ _ s1 acc1 Hb Hs Hw Hp Epre).
  reflexivity.
Qed.

Lemma return_no_warning : s_sig_warning SReturn = None /\ s_sig_warning SNormal = None /\
  s_sig_warning SBreak <> None /\ s_sig_warning SContinue <> None.
Proof. repeat split; discriminate. Qed.

End CompileReturn.

(* ------------------------------------------------------------------ a RUN line in a stack *)
(* classes whose pipeline hands the (trimmed) inline argument to run_compile unchanged *)
Definition direct_class (sc : simple_cls) : Prop :=
  s_tokenize_args sc = false /\ s_flipper_only sc = false /\ s_verify_arg sc = mkValidator [] true /\
  s_verify_args sc = PVNone /\ s_format_arg sc = mkFormatter [] SContent /\
  s_arg_type sc <> ATInt /\ s_arg_req sc <> NotAllowed /\ s_strip_args sc = true.

Definition as_cret (tg : tag) (c : rc) : cret :=
  match c with
  | RNone => mkCret [] SNormal
  | RLines ls => mkCret (map (mkO tg) ls) SNormal
  | RComp cr => mkCret (cr_data cr) (cr_sig cr)
  end.

Section RunLine.
Variable fo : FloatOps.
Variable child : runner fo.
Variable cx : ctx.

Lemma direct_one_arg : forall cur cname tg sc cmd n (a : str) s,
  direct_class sc -> no_dollar cmd -> a <> [] ->
  simple_compile fo child cx cur cname tg sc cmd n (Some a) None s =
  match run_compile fo child cx cur cname sc cmd (Some (mkLine (AStr (strip a)) n cur))
                    (mkSt (s_g s) (s_env s) (Some cur)) with
  | (s', IOk c) => (s', IOk (as_cret tg c))
  | (s', IErr e t) => (s', IErr e t)
  | (s', ICrash k) => (s', ICrash k)
  | (s', IUnmod) => (s', IUnmod)
  end.
Proof.
  intros cur cname tg sc cmd n a s (Htok & Hflip & Hva & Hvas & Hfa & Hat & Hreq & Hstrip) Hnd Ha.
  unfold simple_compile, check_flipper. rewrite Hflip. cbn [andb].
  unfold no_dollar in Hnd.
  assert (Hd : (match upper cmd with 36%N :: _ => true | _ => false end) = false).
  { destruct (upper cmd) as [|c r]; [reflexivity|].
    destruct c as [|p]; [reflexivity|].
    repeat (destruct p as [p|p|]; try reflexivity). contradiction. }
  rewrite Hd, Htok, Hstrip. cbn [orb].
  unfold listify_args. destruct a as [|a0 ar]; [contradiction|].
  rewrite Hva, Hvas, Hfa.
  destruct (s_arg_type sc); try contradiction; destruct (s_arg_req sc); try contradiction;
    cbn -[run_compile here strip]; unfold bindM;
    destruct (run_compile _ _ _ _ _ _ _ _ _) as [s' [[|ls|cr]|e t|k|]]; reflexivity.
Qed.

End RunLine.

Definition s_RUN : str := [82;85;78]%N.

Definition direct_classb (sc : simple_cls) : bool :=
  negb (s_tokenize_args sc) && negb (s_flipper_only sc)
  && match s_verify_arg sc with mkValidator [] true => true | _ => false end
  && match s_verify_args sc with PVNone => true | _ => false end
  && match s_format_arg sc with mkFormatter [] SContent => true | _ => false end
  && match s_arg_type sc with ATInt => false | _ => true end
  && match s_arg_req sc with NotAllowed => false | _ => true end
  && s_strip_args sc.

Lemma direct_classb_sound : forall sc, direct_classb sc = true -> direct_class sc.
Proof.
  intros sc H. unfold direct_classb in H.
  repeat (apply andb_true_iff in H; destruct H as [H ?]).
  unfold direct_class.
  destruct (s_tokenize_args sc); [discriminate|].
  destruct (s_flipper_only sc); [discriminate|].
  destruct (s_verify_arg sc) as [[|? ?] [|]]; try discriminate.
  destruct (s_verify_args sc); try discriminate.
  destruct (s_format_arg sc) as [[|? ?] []]; try discriminate.
  destruct (s_arg_type sc); try discriminate;
  destruct (s_arg_req sc); try discriminate;
  destruct (s_strip_args sc); try discriminate; repeat split; discriminate.
Qed.

Definition run_class_okb : bool :=
  match find_command palette s_RUN None with
  | Some (_, Simple sc) => direct_classb sc && match s_run sc with RKRun => true | _ => false end
  | _ => false
  end.

Lemma palette_run_class : run_class_okb = true.
Proof. vm_compute. reflexivity. Qed.

Ltac rew_conv H :=
  match type of H with
  | ?l = _ =>
      match goal with
      | |- context [run_compile ?a ?b ?c ?d ?e ?f ?g ?h ?i] => change (run_compile a b c d e f g h i) with l
      end
  end; rewrite H.

Section RunInStack.
Variable fo : FloatOps.
Variable child : runner fo.
Variable cx : ctx.

Lemma find_run : forall cmd, upper cmd = s_RUN -> starts_dollar cmd = false ->
  exists cname sc, find_command palette cmd None = Some (cname, Simple sc) /\ direct_class sc /\ s_run sc = RKRun.
Proof.
  intros cmd Hu Hd. pose proof palette_run_class as H. unfold run_class_okb in H.
  rewrite <- (find_command_upper palette cmd s_RUN None Hu eq_refl Hd eq_refl) in H.
  destruct (find_command palette cmd None) as [[cname [sc|bc]]|]; try discriminate.
  apply andb_true_iff in H. destruct H as [H1 H2].
  exists cname, sc. split; [reflexivity|]. split; [apply direct_classb_sound; exact H1|].
  destruct (s_run sc); try discriminate. reflexivity.
Qed.

(* RUN f a1,...,ak as a line of a stack, in any casing of the word RUN: when f is defined with k
   parameters and its body ends normally or by RETURN, the body's output is spliced into the
   output at this place and the stack goes on with the next command *)
Theorem run_line_splices : forall c cmd (a : str) more n rest acc s fname var_string vals f g' cr cenv2,
  is_blank c = false -> split_ws1 c = cmd :: a :: more -> upper cmd = s_RUN -> starts_dollar cmd = false ->
  a <> [] -> block_after rest = None ->
  break_arg (strip a) = (fname, var_string) ->
  arg_values fo (s_env s) var_string = Ok vals ->
  lookup fname (e_funcs fo (s_env s)) = Some f ->
  length (fn_args f) = length vals ->
  stack_full cx = false ->
  child (callee_ctx cx (c, n) f (Some (c, n))) (s_g s) (callee_env fo f vals (s_env s)) (fn_code f)
    = (g', IOk (cr, cenv2)) ->
  cr_sig cr = SNormal \/ cr_sig cr = SReturn ->
  exec_cmds fo child cx (Ln c n :: rest) acc s =
  exec_cmds fo child cx rest (acc ++ cr_data cr)
            (mkSt g' (update_from_env fo (s_env s) cenv2) (Some (c, n))).
Proof.
  intros c cmd a more n rest acc s fname var_string vals f g' cr cenv2
         Hb Hs Hu Hd Ha Hp Hbr Hav Hl Hn Hsf Hc Hsig.
  destruct (find_run cmd Hu Hd) as (cname & sc & Hf & Hdc & Hr).
  cbn [exec_cmds]. rewrite Hb. unfold block_after in Hp. rewrite Hp.
  unfold bindM at 1. unfold set_line2 at 1. unfold bindM at 1.
  unfold exec_line. rewrite Hs, Hf.
  assert (Hst : is_start_class (Simple sc) = false) by (cbn [is_start_class]; rewrite Hr; reflexivity).
  rewrite Hst. cbn [andb]. cbv beta iota zeta.
  rewrite (direct_one_arg fo child cx (c, n) cname (ByCommand cname) sc cmd n a _ Hdc
             (starts_dollar_no_dollar cmd ltac:(rewrite Hu; reflexivity)) Ha).
  cbn [Interp.s_g Interp.s_env].
  pose proof (run_absorbs_return fo child cx (c, n) cname sc cmd (AStr (strip a)) n (c, n) fname var_string
             (mkSt (s_g s) (s_env s) (Some (c, n))) vals f g' cr cenv2 Hr Hbr Hav Hl Hn Hsf Hc Hsig) as E.
  rew_conv E.
  cbn [as_cret cr_sig cr_data]. reflexivity.
Qed.

(* ... and when BREAKLOOP / CONTINUELOOP escapes the body, or f is undefined, or k is wrong, the
   stack stops with the error *)
Theorem run_line_undefined : forall c cmd (a : str) more n rest acc s fname var_string vals,
  is_blank c = false -> split_ws1 c = cmd :: a :: more -> upper cmd = s_RUN -> starts_dollar cmd = false ->
  a <> [] -> block_after rest = None ->
  break_arg (strip a) = (fname, var_string) ->
  arg_values fo (s_env s) var_string = Ok vals ->
  lookup fname (e_funcs fo (s_env s)) = None ->
  exec_cmds fo child cx (Ln c n :: rest) acc s =
  (mkSt (s_g s) (s_env s) (Some (c, n)), IErr EVarNonExistent (Some (here cx (c, n) (Some (c, n))))).
Proof.
  intros c cmd a more n rest acc s fname var_string vals Hb Hs Hu Hd Ha Hp Hbr Hav Hl.
  destruct (find_run cmd Hu Hd) as (cname & sc & Hf & Hdc & Hr).
  cbn [exec_cmds]. rewrite Hb. unfold block_after in Hp. rewrite Hp.
  unfold bindM at 1. unfold set_line2 at 1. unfold bindM at 1.
  unfold exec_line. rewrite Hs, Hf.
  assert (Hst : is_start_class (Simple sc) = false) by (cbn [is_start_class]; rewrite Hr; reflexivity).
  rewrite Hst. cbn [andb]. cbv beta iota zeta.
  rewrite (direct_one_arg fo child cx (c, n) cname (ByCommand cname) sc cmd n a _ Hdc
             (starts_dollar_no_dollar cmd ltac:(rewrite Hu; reflexivity)) Ha).
  cbn [Interp.s_g Interp.s_env].
  pose proof (run_undefined fo child cx (c, n) cname sc cmd (AStr (strip a)) n (c, n) fname var_string
             (mkSt (s_g s) (s_env s) (Some (c, n))) vals Hr Hbr Hav Hl) as E.
  rew_conv E.
  reflexivity.
Qed.

Theorem run_line_arity : forall c cmd (a : str) more n rest acc s fname var_string vals f,
  is_blank c = false -> split_ws1 c = cmd :: a :: more -> upper cmd = s_RUN -> starts_dollar cmd = false ->
  a <> [] -> block_after rest = None ->
  break_arg (strip a) = (fname, var_string) ->
  arg_values fo (s_env s) var_string = Ok vals ->
  lookup fname (e_funcs fo (s_env s)) = Some f ->
  length (fn_args f) <> length vals ->
  exec_cmds fo child cx (Ln c n :: rest) acc s =
  (mkSt (s_g s) (s_env s) (Some (c, n)), IErr EInvalidArguments (Some (here cx (c, n) (Some (c, n))))).
Proof.
  intros c cmd a more n rest acc s fname var_string vals f Hb Hs Hu Hd Ha Hp Hbr Hav Hl Hn.
  destruct (find_run cmd Hu Hd) as (cname & sc & Hf & Hdc & Hr).
  cbn [exec_cmds]. rewrite Hb. unfold block_after in Hp. rewrite Hp.
  unfold bindM at 1. unfold set_line2 at 1. unfold bindM at 1.
  unfold exec_line. rewrite Hs, Hf.
  assert (Hst : is_start_class (Simple sc) = false) by (cbn [is_start_class]; rewrite Hr; reflexivity).
  rewrite Hst. cbn [andb]. cbv beta iota zeta.
  rewrite (direct_one_arg fo child cx (c, n) cname (ByCommand cname) sc cmd n a _ Hdc
             (starts_dollar_no_dollar cmd ltac:(rewrite Hu; reflexivity)) Ha).
  cbn [Interp.s_g Interp.s_env].
  pose proof (run_arity fo child cx (c, n) cname sc cmd (AStr (strip a)) n (c, n) fname var_string
             (mkSt (s_g s) (s_env s) (Some (c, n))) vals f Hr Hbr Hav Hl Hn) as E.
  rew_conv E.
  reflexivity.
Qed.

Theorem run_line_escape : forall c cmd (a : str) more n rest acc s fname var_string vals f g' cr cenv2,
  is_blank c = false -> split_ws1 c = cmd :: a :: more -> upper cmd = s_RUN -> starts_dollar cmd = false ->
  a <> [] -> block_after rest = None ->
  break_arg (strip a) = (fname, var_string) ->
  arg_values fo (s_env s) var_string = Ok vals ->
  lookup fname (e_funcs fo (s_env s)) = Some f ->
  length (fn_args f) = length vals ->
  stack_full cx = false ->
  child (callee_ctx cx (c, n) f (Some (c, n))) (s_g s) (callee_env fo f vals (s_env s)) (fn_code f)
    = (g', IOk (cr, cenv2)) ->
  cr_sig cr = SBreak \/ cr_sig cr = SContinue ->
  exists s', exec_cmds fo child cx (Ln c n :: rest) acc s =
             (s', IErr EStackReturnType (Some (here cx (c, n) (Some (c, n))))).
Proof.
  intros c cmd a more n rest acc s fname var_string vals f g' cr cenv2
         Hb Hs Hu Hd Ha Hp Hbr Hav Hl Hn Hsf Hc Hsig.
  destruct (find_run cmd Hu Hd) as (cname & sc & Hf & Hdc & Hr).
  cbn [exec_cmds]. rewrite Hb. unfold block_after in Hp. rewrite Hp.
  unfold bindM at 1. unfold set_line2 at 1. unfold bindM at 1.
  unfold exec_line. rewrite Hs, Hf.
  assert (Hst : is_start_class (Simple sc) = false) by (cbn [is_start_class]; rewrite Hr; reflexivity).
  rewrite Hst. cbn [andb]. cbv beta iota zeta.
  rewrite (direct_one_arg fo child cx (c, n) cname (ByCommand cname) sc cmd n a _ Hdc
             (starts_dollar_no_dollar cmd ltac:(rewrite Hu; reflexivity)) Ha).
  cbn [Interp.s_g Interp.s_env].
  pose proof (run_binds fo child cx (c, n) cname sc cmd (AStr (strip a)) n (c, n) fname var_string
             (mkSt (s_g s) (s_env s) (Some (c, n))) vals f g' cr cenv2 Hr Hbr Hav Hl Hn Hsf Hc) as E.
  rew_conv E.
  eexists. destruct Hsig as [-> | ->]; reflexivity.
Qed.

End RunInStack.
