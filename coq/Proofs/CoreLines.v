(* One lemma per line form of a CoreLang program: what Stack.run (exec_cmds) does with the line
   written by CoreLang.stmt_items.  Strings and dispatch only; the semantics is in CoreRefine.v. *)
From Coq Require Import NArith ZArith List Bool Lia.
From DS Require Import Base PyStr Values Expr TabParse Tables Constants Interp IdentSpec IdentProofs.
From DS Require Import ScopeProofs LimitProofs ChainProofs LoopUnroll LoopBlock.
From DS Require Import PipelineProofs GroupProofs DollarForm NameChecks CoreLang CoreWf.
Import ListNotations.

Arguments IOk {A}. Arguments IErr {A}. Arguments ICrash {A}. Arguments IUnmod {A}.
Arguments s_g {fo}. Arguments s_env {fo}. Arguments s_line2 {fo}. Arguments mkSt {fo}.

(* ================================================================== strings *)
Lemma lstrip_fix_head : forall s, s <> [] -> lstrip s = s -> exists c t, s = c :: t /\ isspace_c c = false.
Proof.
  intros [|c t] Hne H; [contradiction|]. exists c, t. split; [reflexivity|].
  cbn [lstrip] in H. destruct (isspace_c c) eqn:E; [|reflexivity].
  exfalso. assert (Hl : forall u, length (lstrip u) <= length u).
  { induction u as [|x u IH]; cbn [lstrip]; [lia|]. destruct (isspace_c x); cbn [length]; lia. }
  pose proof (Hl t) as Hlt. rewrite H in Hlt. cbn [length] in Hlt. lia.
Qed.

Lemma lstrip_head_app : forall c t u, isspace_c c = false -> lstrip ((c :: t) ++ u) = (c :: t) ++ u.
Proof. intros c t u H. cbn [app lstrip]. rewrite H. reflexivity. Qed.

Lemma rstrip_app : forall a b, b <> [] -> rstrip b = b -> rstrip (a ++ b) = a ++ b.
Proof.
  intros a b Hne H. unfold rstrip in *.
  assert (Hr : lstrip (rev b) = rev b).
  { rewrite <- (rev_involutive (lstrip (rev b))). rewrite H. reflexivity. }
  assert (Hrne : rev b <> []).
  { intro E. apply Hne. rewrite <- (rev_involutive b), E. reflexivity. }
  destruct (lstrip_fix_head (rev b) Hrne Hr) as (c & t & Hb & Hc).
  rewrite rev_app_distr, Hb, (lstrip_head_app c t (rev a) Hc), <- Hb, <- rev_app_distr.
  apply rev_involutive.
Qed.

Lemma expr_ok_strip : forall e, expr_ok e -> strip e = e.
Proof. intros e (_ & Hl & Hr). unfold strip. rewrite Hl. exact Hr. Qed.

Lemma expr_ok_blank : forall e, expr_ok e -> is_blank e = false.
Proof. intros e (Hne & Hl & _). unfold is_blank. rewrite Hl. destruct e; [contradiction|reflexivity]. Qed.

Lemma nonempty_lstrip_blank : forall e, e <> [] -> lstrip e = e -> is_blank e = false.
Proof. intros e Hne Hl. unfold is_blank. rewrite Hl. destruct e; [contradiction|reflexivity]. Qed.

(* identifiers: no blank, no comma, start with a non-blank *)
Lemma sweep_ident :
  forallb (fun c => implb (ident_char c) (negb (isspace_c c) && negb (c =? comma_c)%N)) (nrange 128) = true.
Proof. vm_compute. reflexivity. Qed.

Lemma ident_char_plain : forall c, ident_char c = true -> isspace_c c = false /\ (c =? comma_c)%N = false.
Proof.
  intros c H. pose proof sweep_ident as Hs. rewrite forallb_forall in Hs.
  specialize (Hs c (nrange_in 128 c (ident_char_ascii c H))). rewrite H in Hs. cbn [implb] in Hs.
  apply andb_true_iff in Hs. destruct Hs as [H1 H2].
  apply negb_true_iff in H1. apply negb_true_iff in H2. split; assumption.
Qed.

Lemma identb_chars : forall x, identb x = true -> x <> [] /\ forallb ident_char x = true.
Proof.
  intros [|c r] H; [discriminate|]. split; [discriminate|].
  cbn [identb] in H. apply andb_true_iff in H. destruct H as [Hc Hr].
  cbn [forallb]. rewrite Hr, andb_true_r.
  unfold ident_start in Hc. unfold ident_char.
  apply orb_true_iff in Hc. destruct Hc as [Hc|Hc]; rewrite Hc; [reflexivity|].
  rewrite orb_true_r. reflexivity.
Qed.

Lemma ident_no_ws : forall x, identb x = true -> ChainProofs.no_ws x.
Proof.
  intros x H. destruct (identb_chars x H) as [_ Hc]. unfold ChainProofs.no_ws.
  rewrite forallb_forall in *. intros c Hin. destruct (ident_char_plain c (Hc c Hin)) as [H1 _].
  rewrite H1. reflexivity.
Qed.

Lemma ident_head : forall x, identb x = true -> exists c t, x = c :: t /\ isspace_c c = false.
Proof.
  intros x H. destruct (identb_chars x H) as [Hne Hc]. destruct x as [|c t]; [contradiction|].
  exists c, t. split; [reflexivity|]. cbn [forallb] in Hc. apply andb_true_iff in Hc.
  exact (proj1 (ident_char_plain c (proj1 Hc))).
Qed.

Lemma split_char1_ident : forall x e, forallb ident_char x = true ->
  split_char1 comma_c (x ++ comma_c :: e) = (x, Some e).
Proof.
  induction x as [|c x IH]; intros e H.
  - reflexivity.
  - cbn [forallb] in H. apply andb_true_iff in H. destruct H as [Hc Hx].
    cbn [app split_char1]. rewrite (proj2 (ident_char_plain c Hc)), (IH e Hx). reflexivity.
Qed.

Lemma split_char1_none : forall c e, char_in c e = false -> split_char1 c e = (e, None).
Proof.
  induction e as [|x e IH]; intro H; [reflexivity|].
  cbn [char_in] in H. apply orb_false_iff in H. destruct H as [H1 H2].
  cbn [split_char1]. rewrite N.eqb_sym, H1, (IH H2). reflexivity.
Qed.

(* the argument of a loop line *)
Lemma loop_arg_facts : forall c e, CoreWf.counter_ok c -> loop_expr_ok c e ->
  is_blank (loop_arg c e) = false /\ strip (loop_arg c e) = loop_arg c e /\
  split_loop_arg (loop_arg c e) = (c, e) /\ LoopBlock.counter_ok c.
Proof.
  intros c e Hc [He Hcomma]. destruct c as [x|]; cbn [loop_arg CoreWf.counter_ok] in *.
  - destruct (ident_head x Hc) as (c0 & t & -> & Hc0).
    destruct He as (Hne & Hl & Hr).
    assert (Hls : lstrip ((c0 :: t) ++ comma_c :: e) = (c0 :: t) ++ comma_c :: e) by (apply lstrip_head_app; exact Hc0).
    split; [|split; [|split]].
    + unfold is_blank. rewrite Hls. reflexivity.
    + unfold strip. rewrite Hls.
      change ((c0 :: t) ++ comma_c :: e) with ((c0 :: t) ++ [comma_c] ++ e). rewrite app_assoc.
      apply rstrip_app; assumption.
    + unfold split_loop_arg. unfold comma. fold comma_c.
      rewrite (split_char1_ident (c0 :: t) e (proj2 (identb_chars _ Hc))). reflexivity.
    + unfold LoopBlock.counter_ok. rewrite is_var_spec_lemma. exact Hc.
  - split; [|split; [|split]].
    + apply expr_ok_blank. exact He.
    + apply expr_ok_strip. exact He.
    + unfold split_loop_arg. unfold comma. fold comma_c. rewrite (split_char1_none _ _ Hcomma). reflexivity.
    + exact I.
Qed.

(* words *)
Lemma word_okb_facts : forall w, word_okb w = true ->
  w <> [] /\ ChainProofs.no_ws w /\ upper w = w /\ PipelineProofs.starts_dollar w = false.
Proof.
  intros w H. unfold word_okb in H.
  apply andb_true_iff in H. destruct H as [H Hd]. apply andb_true_iff in H. destruct H as [Hw Hu].
  apply negb_true_iff in Hd. apply PipelineProofs.str_eqb_eq in Hu.
  destruct w as [|c r]; [discriminate|]. repeat split; try assumption. discriminate.
Qed.

Lemma word_arg_split : forall w a, w <> [] -> ChainProofs.no_ws w -> a <> [] -> lstrip a = a ->
  split_ws1 (w ++ sp :: a) = [w; a].
Proof.
  intros w a Hne Hws Ha Hl. unfold sp.
  rewrite (kw_split w a Hne Hws (nonempty_lstrip_blank a Ha Hl)), Hl. reflexivity.
Qed.

(* ================================================================== one simple line in Stack.run *)
Definition head_ok (rest : list item) : Prop := match rest with Blk _ :: _ => False | _ => True end.

Section Lines.
Variable fo : FloatOps.
Variable child : runner fo.
Variable cx : ctx.

Notation exec_cmds := (exec_cmds fo child cx).
Notation clear_line2 := (clear_line2 fo).

Definition go_on (rest : list item) (acc : list oline) (cr : cret) : M fo cret :=
  match cr_sig cr with
  | SNormal => exec_cmds rest (acc ++ cr_data cr)
  | sg => ret fo (mkCret (acc ++ cr_data cr) sg)
  end.

Lemma go_on_after_branch : forall rest acc cr, after_branch fo child cx rest acc cr = go_on rest acc cr.
Proof. reflexivity. Qed.

Lemma simple_line_step : forall c n rest acc s,
  is_blank c = false -> head_ok rest ->
  exec_cmds (Ln c n :: rest) acc s =
  bindM fo (exec_line fo child cx c n None) (go_on rest acc) (clear_line2 s).
Proof.
  intros c n rest acc s Hb Hh. cbn [Interp.exec_cmds]. rewrite Hb.
  assert (Hcb : match rest with Blk b :: _ => Some b | _ => None end = None).
  { destruct rest as [|[c' n'|b] r]; try reflexivity. contradiction. }
  rewrite Hcb. unfold bindM at 1. unfold set_line2 at 1. fold (clear_line2 s).
  unfold bindM. destruct (exec_line fo child cx c n None (clear_line2 s)) as [s1 [cr| | |]]; try reflexivity.
Qed.

(* the state after a simple line: only line_2 moved *)
Definition at_line (cur : preline) (s : st fo) : st fo := mkSt (s_g s) (s_env s) (Some cur).

(* ---- NAME text *)
Lemma emit_line : forall name text n rest acc s,
  emit_ok name text -> head_ok rest ->
  exists cname,
  exec_cmds (Ln (name ++ sp :: text) n :: rest) acc s =
  exec_cmds rest (acc ++ [mkO (ByCommand cname) (name ++ sp :: text)]) (at_line (name ++ sp :: text, n) s).
Proof.
  intros name text n rest acc s (Hname & Hne & Hl & Hstrip) Hh.
  unfold emit_name_ok in Hname. apply andb_true_iff in Hname. destruct Hname as [Hw Hcls].
  destruct (word_okb_facts name Hw) as (Hwne & Hws & Hup & Hnd).
  destruct (find_command palette name None) as [[cname [sc|bc]]|] eqn:Ef; try discriminate.
  apply andb_true_iff in Hcls. destruct Hcls as [Hplain Htakes].
  apply is_plainb_sound in Hplain.
  assert (Hreq : s_arg_req sc <> NotAllowed).
  { unfold takes_args in Htakes. intro Hr. rewrite Hr in Htakes. discriminate. }
  assert (Hrun : s_run sc <> RKStart).
  { destruct Hplain as (_ & _ & _ & _ & _ & Hrun & _). rewrite Hrun. discriminate. }
  exists cname.
  assert (Hsp : split_ws1 (name ++ sp :: text) = [name; text]) by (apply word_arg_split; assumption).
  rewrite simple_line_step; [|apply is_blank_split; rewrite Hsp; discriminate|exact Hh].
  unfold bindM.
  rewrite (exec_line_simple fo child cx _ n None name [text] cname sc _ Hsp Ef Hrun).
  cbv iota.
  pose proof (plain_inline_passthrough fo child cx (name ++ sp :: text, n) cname (ByCommand cname) sc name n text
             (clear_line2 s) Hplain) as HH.
  unfold str in HH |- *. rewrite HH; clear HH.
  - unfold go_on. cbn [cr_sig cr_data]. rewrite Hup.
    destruct (s_strip_args sc) eqn:Es; [|reflexivity].
    assert (Ht : strip text = text).
    { unfold strip. rewrite Hl. apply Hstrip. unfold emit_strips. rewrite Ef. exact Es. }
    unfold str in Ht. rewrite Ht. reflexivity.
  - apply starts_dollar_no_dollar. rewrite Hup. exact Hnd.
  - exact Hne.
  - exact Hreq.
Qed.

(* ---- $NAME e *)
Lemma emit_eval_line : forall name e n rest acc s v t,
  eval_name_ok name = true -> expr_ok e -> head_ok rest ->
  tokenize fo (all_vars fo (s_env s)) e = Ok v -> py_str fo v = Some t ->
  exists cname,
  exec_cmds (Ln (dollar_c :: name ++ sp :: e) n :: rest) acc s =
  exec_cmds rest (acc ++ [mkO (ByCommand cname) (name ++ sp :: t)]) (at_line (dollar_c :: name ++ sp :: e, n) s).
Proof.
  intros name e n rest acc s v t Hname He Hh Hv Ht.
  unfold eval_name_ok in Hname. apply andb_true_iff in Hname. destruct Hname as [Hw Hcls].
  destruct (word_okb_facts name Hw) as (Hwne & Hws & Hup & Hnd).
  destruct (find_command palette (dollar_c :: name) None) as [[cname [sc|bc]]|] eqn:Ef; try discriminate.
  apply andb_true_iff in Hcls. destruct Hcls as [Hplain Htakes].
  apply is_plainb_sound in Hplain.
  assert (Hreq : s_arg_req sc <> NotAllowed).
  { unfold takes_args in Htakes. intro Hr. rewrite Hr in Htakes. discriminate. }
  assert (Hrun : s_run sc <> RKStart).
  { destruct Hplain as (_ & _ & _ & _ & _ & Hrun & _). rewrite Hrun. discriminate. }
  exists cname.
  destruct He as (Hene & Hel & Her).
  assert (Hsp : split_ws1 ((dollar_c :: name) ++ sp :: e) = [dollar_c :: name; e]).
  { apply word_arg_split; try assumption; try discriminate. }
  change (dollar_c :: name ++ sp :: e) with ((dollar_c :: name) ++ sp :: e).
  rewrite simple_line_step; [|apply is_blank_split; rewrite Hsp; discriminate|exact Hh].
  unfold bindM.
  rewrite (exec_line_simple fo child cx _ n None (dollar_c :: name) [e] cname sc _ Hsp Ef Hrun).
  cbv iota.
  pose proof (dollar_form fo child cx ((dollar_c :: name) ++ sp :: e, n) cname (ByCommand cname) sc name n e
             (clear_line2 s) v t Hplain Hreq Hene) as HH.
  unfold str, dollar, dollar_c in HH |- *. rewrite HH; clear HH.
  - unfold go_on. cbn [cr_sig cr_data]. rewrite Hup. reflexivity.
  - assert (Hn : norm sc e = e).
    { unfold norm. destruct (s_strip_args sc); [|reflexivity]. unfold strip. rewrite Hel. exact Her. }
    rewrite Hn. exact Hv.
  - exact Ht.
Qed.

(* ---- VAR x e *)
Lemma var_dispatch :
  exists cname sc, find_command palette kw_VAR None = Some (cname, Simple sc) /\
    s_run sc = RKVar /\ s_flipper_only sc = false /\ s_tokenize_args sc = false /\ s_strip_args sc = true /\
    s_arg_type sc = ATDescr /\ s_arg_req sc = Required /\
    s_verify_arg sc = mkValidator [(BSplitLen (SStrip SContent) CNe 2%Z, false)] true /\
    s_verify_args sc = PVNone /\ s_format_arg sc = mkFormatter [] SContent.
Proof. eexists. eexists. split; [vm_compute; reflexivity|]. repeat split. Qed.

Lemma var_line : forall x e n rest acc s v,
  identb x = true -> expr_ok e -> head_ok rest ->
  tokenize fo (all_vars fo (s_env s)) e = Ok v ->
  exec_cmds (Ln (kw_VAR ++ sp :: x ++ sp :: e) n :: rest) acc s =
  exec_cmds rest (acc ++ []) (at_line (kw_VAR ++ sp :: x ++ sp :: e, n) (store_user fo x v s)).
Proof.
  intros x e n rest acc s v Hx He Hh Hv.
  destruct var_dispatch as (cname & sc & Ef & Hrun & Hflip & Htok & Hstrip & Hat & Hreq & Hva & Hvas & Hfa).
  destruct (ident_head x Hx) as (c0 & t & -> & Hc0).
  pose proof (ident_no_ws _ Hx) as Hxws.
  destruct He as (Hene & Hel & Her).
  set (a := (c0 :: t) ++ sp :: e).
  assert (Hal : lstrip a = a) by (apply lstrip_head_app; exact Hc0).
  assert (Hane : a <> []) by discriminate.
  assert (Hsp : split_ws1 (kw_VAR ++ sp :: a) = [kw_VAR; a]).
  { apply word_arg_split; try assumption; [discriminate|vm_compute; reflexivity]. }
  assert (Hstr : strip a = a).
  { unfold strip. rewrite Hal. unfold a.
    change ((c0 :: t) ++ sp :: e) with ((c0 :: t) ++ [sp] ++ e). rewrite app_assoc.
    apply rstrip_app; assumption. }
  assert (Hsp2 : split_ws1 a = [c0 :: t; e]).
  { unfold a. apply word_arg_split; try assumption. discriminate. }
  assert (Hr : s_run sc <> RKStart) by (rewrite Hrun; discriminate).
  rewrite simple_line_step; [|apply is_blank_split; rewrite Hsp; discriminate|exact Hh].
  unfold bindM at 1.
  rewrite (exec_line_simple fo child cx _ n None kw_VAR [a] cname sc _ Hsp Ef Hr).
  cbv iota.
  set (cur := (kw_VAR ++ sp :: a, n)).
  unfold simple_compile, check_flipper. rewrite Hflip. cbn [andb].
  change (upper kw_VAR) with kw_VAR. unfold kw_VAR. cbv iota. cbn [tl].
  rewrite Htok, Hstrip, Hat, Hreq, Hva, Hvas, Hfa. cbn [orb].
  unfold listify_args. unfold a at 1. cbn [app]. fold a.
  unfold bindM, ret. cbn [map strip_line l_content l_num l_orig]. rewrite Hstr.
  cbn [length Z.of_nat check_types verify_plural verify_each format_each].
  unfold bindM, ret, set_line2, lift, eval_validator, eval_formatter.
  cbn [l_content l_num l_orig s_g s_env s_line2 v_rules v_default f_rules f_default eval_validator_rules eval_bexpr eval_sexpr].
  cbv beta iota.
  unfold bindM, ret, set_line2, lift, eval_validator, eval_formatter.
  cbn [length Z.of_nat check_types verify_plural verify_each format_each l_content l_num l_orig s_g s_env s_line2 v_rules v_default f_rules f_default eval_validator_rules eval_bexpr eval_sexpr].
  unfold eval_validator, eval_formatter.
  cbn [v_rules v_default f_rules f_default eval_validator_rules eval_bexpr eval_sexpr].
  rewrite Hstr, Hsp2. cbn [length Z.of_nat cmp_eval Pos.of_succ_nat Pos.succ Z.eqb Pos.eqb negb bind].
  unfold bindM, ret, set_line2, lift.
  cbn [multi_comp map l_orig s_g s_env s_line2].
  unfold bindM, ret, set_line2.
  cbn [Values.bind]. cbv beta iota.
  cbn [map multi_comp s_g s_env s_line2 clear_line2].
  unfold bindM at 1. unfold set_line2 at 1. cbn [l_orig s_g s_env s_line2].
  unfold bindM at 1.
  match goal with |- context [run_compile fo child cx ?cur0 cname sc ?nm (Some ?l) ?s0] =>
    rewrite (var_accept fo child cx cur0 cname sc nm l (c0 :: t) e s0 v Hrun Hsp2 Hv Hx) end.
  cbn [multi_comp]. unfold ret, go_on. cbn [cr_sig cr_data]. reflexivity.
Qed.
(* ---- BREAKLOOP / CONTINUELOOP *)
Lemma signal_line : forall kw sg n rest acc s,
  (kw = kw_BREAKLOOP /\ sg = SBreak) \/ (kw = kw_CONTINUELOOP /\ sg = SContinue) ->
  head_ok rest ->
  exec_cmds (Ln kw n :: rest) acc s = (at_line (kw, n) s, IOk (mkCret (acc ++ []) sg)).
Proof.
  intros kw sg n rest acc s Hk Hh.
  assert (Hsp : split_ws1 kw = [kw]).
  { destruct Hk as [[-> _]|[-> _]]; apply split_ws1_word; try discriminate; vm_compute; reflexivity. }
  rewrite simple_line_step; [|apply is_blank_split; rewrite Hsp; discriminate|exact Hh].
  unfold bindM at 1. unfold exec_line. rewrite Hsp.
  destruct s as [g e l2].
  destruct Hk as [[-> ->]|[-> ->]]; reflexivity.
Qed.

End Lines.
