(* C19 / C15 over the CLI world: a concrete world and a four-invocation history, evaluated
   (non-vacuity of Properties/C19b.v, C15c.v), and the counterexample showing why the config-meaning
   theorems need [configs_in_existing_dirs]. *)
From Coq Require Import String Ascii NArith ZArith List Bool Lia.
From DS Require Import Base PyStr Values TabParse Interp Options Constants Cli CliWorld.
From DS Require Import DuckyGrammar FlatExamples CliWorldSpec.
Import ListNotations.
Open Scope string_scope.

(* finite file systems / config tables *)
Definition fs_of (l : list (path * str)) : fsys :=
  fun q => option_map snd (find (fun e => path_eqb q (fst e)) l).
Definition cfg_of (l : list (path * yaml_opts)) : path -> option yaml_opts :=
  fun q => option_map snd (find (fun e => path_eqb q (fst e)) l).
Definition pth (l : list string) : path := map lit l.
Definition nl : str := [10%N].

(* the paths of the example *)
Definition d_proj : path := pth ["proj"].
Definition d_a : path := pth ["proj";"a"].
Definition d_b : path := pth ["proj";"b"].
Definition d_new : path := pth ["proj";"my-proj"].
Definition p_a_main : path := pth ["proj";"a";"main.txt"].
Definition p_a_out : path := pth ["proj";"a";"out.txt"].
Definition p_b_bad : path := pth ["proj";"b";"bad.txt"].
Definition p_b_out : path := pth ["proj";"b";"out.txt"].
Definition p_new_main : path := pth ["proj";"my-proj";"main.txt"].
Definition p_new_out : path := pth ["proj";"my-proj";"out.txt"].
Definition old_text : str := lit "OLD".
Definition a_text : str := join nl [lit "STRING hi"; lit "REM note"; lit "DELAY 100"].
Definition partial_comments : yaml_opts := mkYaml None (Some true) None None None.
Definition global_no_flipper : yaml_opts := mkYaml None None (Some false) None None.

(* two projects under proj/:  a  (partial config: only include_comments: true)  and  b  (no config,
   a source that does not compile, a stale output);  a global config with flipper_commands: false *)
Definition ex_world : cworld :=
  mkCW (fs_of [ (p_a_main, a_text);
                (p_b_bad, lit "DELAY $nope");
                (p_b_out, old_text) ])
       (cfg_of [ (d_a, partial_comments) ])
       (Some global_no_flipper)
       [d_a; d_b; d_proj].

Definition ex_ops : list cli_op :=
  [ OpCompile (p_a_main) (p_a_out) None None;
    OpCompile (p_b_bad) (p_b_out) None None;
    OpNew (d_proj) (lit " My Proj ");
    OpCompile (p_new_main) (p_new_out) (Some 50%Z) (Some true) ].

Definition ex_final : cworld := fst (cli_run dfo ex_world ex_ops).

Example ex_wf : configs_in_existing_dirs ex_world.
Proof.
  intros d y H. unfold ex_world in H. cbn [w_cfg] in H. unfold cfg_of in H. cbn [find fst] in H.
  destruct (path_eqb d (d_a)) eqn:E; [|discriminate].
  unfold dir_exists, ex_world. cbn [w_dirs existsb]. rewrite E. reflexivity.
Qed.

Example ex_reports :
  snd (cli_run dfo ex_world ex_ops) = [RSuccess 0; RError EExpectedToken 0; RNewCreated; RSuccess 0].
Proof. vm_compute. reflexivity. Qed.

(* project a ran under ITS config (comments kept), not the global one *)
Example ex_out_a :
  w_files ex_final (p_a_out) = Some (a_text).
Proof. vm_compute. reflexivity. Qed.

(* the failed compile left the stale output alone *)
Example ex_out_b : w_files ex_world p_b_out = Some old_text /\ w_files ex_final p_b_out = Some old_text.
Proof. split; vm_compute; reflexivity. Qed.

Example ex_out_new : w_files ex_final (p_new_out) = Some hello_world.
Proof. vm_compute. reflexivity. Qed.

Example ex_new_main : w_files ex_final (p_new_main) = Some hello_world.
Proof. vm_compute. reflexivity. Qed.

(* the sources are as they were *)
Example ex_sources :
  w_files ex_final (p_a_main) = w_files ex_world (p_a_main) /\
  w_files ex_final (p_b_bad) = w_files ex_world (p_b_bad).
Proof. split; vm_compute; reflexivity. Qed.

(* the config files: a's is now written in full and means the same; b still has none; the new
   project's denotes the defaults; the global one is full and still says flipper_commands: false *)
Example ex_cfg_a :
  w_cfg ex_final (d_a) = Some (mkYaml (Some 20%Z) (Some true) (Some true) (Some false) (Some true)) /\
  meaning_cfg (w_cfg ex_final (d_a)) = meaning_cfg (w_cfg ex_world (d_a)).
Proof. split; vm_compute; reflexivity. Qed.

Example ex_cfg_b : w_cfg ex_final (d_b) = None.
Proof. vm_compute. reflexivity. Qed.

Example ex_cfg_new : meaning_cfg (w_cfg ex_final (d_new)) = Some default_options.
Proof. vm_compute. reflexivity. Qed.

Example ex_global :
  w_global ex_final = Some (mkYaml (Some 20%Z) (Some false) (Some false) (Some false) (Some true)) /\
  global_meaning (w_global ex_final) = global_meaning (w_global ex_world).
Proof. split; vm_compute; reflexivity. Qed.

Example ex_dirs : w_dirs ex_final = d_new :: w_dirs ex_world.
Proof. vm_compute. reflexivity. Qed.

(* a second `new` of the same name is refused and changes nothing but (nothing: the global is full) *)
Example ex_new_again :
  snd (cli_step dfo ex_final (OpNew (d_proj) (lit "my proj"))) = RNewRefused /\
  snd (cli_step dfo ex_final (OpNew (d_proj) (lit "my_proj"))) = RNewRefused /\   (* '_' is not allowed *)
  snd (cli_step dfo ex_final (OpNew (d_proj) (lit "a"))) = RNewRefused.
Proof. repeat split; vm_compute; reflexivity. Qed.

(* the flags of the 4th invocation (--stack-limit 50 --comments true) are ignored: the project config
   is used, and it replaces ALL the options *)
Example ex_flags_ignored :
  effective_options (fst (cli_run dfo ex_world (firstn 3 ex_ops))) p_new_main (Some 50%Z) (Some true)
  = default_options.
Proof. vm_compute. reflexivity. Qed.

(* the pathlib edge case: a blank NAME normalises to "" and DIR / "" is DIR itself -- refused when DIR
   exists, and otherwise the project is created AT DIR *)
Example ex_blank_name :
  snd (cli_step dfo ex_final (OpNew (d_proj) (lit "  "))) = RNewRefused /\
  (let (w', r) := cli_step dfo ex_final (OpNew (pth ["fresh"]) (lit "  ")) in
   r = RNewCreated /\ w_files w' (pth ["fresh";"main.txt"]) = Some hello_world /\
   w_dirs w' = pth ["fresh"] :: w_dirs ex_final).
Proof. split; vm_compute; repeat split; reflexivity. Qed.

(* ------------------------------------------------------------------ the counterexample *)
(* WITHOUT [configs_in_existing_dirs] the "meaning of an existing config is unchanged" statement is
   FALSE of the model: a config.yaml recorded for a directory that does not exist (no entry in
   w_dirs) is overwritten by `new`, because cli/new.py only tests the directory. *)
Definition d_ghost : path := pth ["proj";"ghost"].
Definition d_ghost_name : str := lit "ghost".

Definition ghost_world : cworld :=
  mkCW (fun _ => None) (cfg_of [ (d_ghost, partial_comments) ]) None [].

Example ghost_not_wf : ~ configs_in_existing_dirs ghost_world.
Proof.
  intro H. specialize (H d_ghost partial_comments).
  vm_compute in H. specialize (H eq_refl). discriminate.
Qed.

Example ghost_counterexample :
  let w' := fst (cli_step dfo ghost_world (OpNew d_proj d_ghost_name)) in
  w_cfg ghost_world d_ghost = Some partial_comments /\
  option_map include_comments (meaning_cfg (w_cfg ghost_world d_ghost)) = Some true /\
  option_map include_comments (meaning_cfg (w_cfg w' d_ghost)) = Some false.
Proof. repeat split; vm_compute; reflexivity. Qed.

Example ghost_both :
  ~ configs_in_existing_dirs ghost_world /\
  let w' := fst (cli_step dfo ghost_world (OpNew d_proj d_ghost_name)) in
  w_cfg ghost_world d_ghost = Some partial_comments /\
  option_map include_comments (meaning_cfg (w_cfg ghost_world d_ghost)) = Some true /\
  option_map include_comments (meaning_cfg (w_cfg w' d_ghost)) = Some false.
Proof. split; [exact ghost_not_wf|exact ghost_counterexample]. Qed.
