From Coq Require Import NArith ZArith List Bool Lia.
From DS Require Import Base PyStr Values Expr TabParse Interp Tables Constants.
Import ListNotations.

Arguments IOk {A}. Arguments IErr {A}. Arguments ICrash {A}. Arguments IUnmod {A}.
Arguments s_g {fo}. Arguments s_env {fo}. Arguments s_line2 {fo}. Arguments mkSt {fo}.

Section Pipe.
Variable fo : FloatOps.
Variable child : runner fo.
Variable cx : ctx.

(* a simple command class with the base-class hooks only (no validator, formatter, plural check) *)
Definition plain_class (sc : simple_cls) : Prop :=
  s_tokenize_args sc = false /\ s_flipper_only sc = false /\ s_verify_arg sc = mkValidator [] true /\
  s_verify_args sc = PVNone /\ s_format_arg sc = mkFormatter [] SContent /\ s_run sc = RKDefault /\
  s_arg_type sc = ATStr.

Definition no_dollar (cmd : str) : Prop := match upper cmd with 36%N :: _ => False | _ => True end.

(* C16 / C01: one inline argument, no block: the line is emitted as the upper-cased word followed by
   the (trimmed, if the class strips) argument *)
Lemma plain_inline_passthrough : forall cur cname tg sc cmd n a s,
  plain_class sc -> no_dollar cmd -> a <> [] -> s_arg_req sc <> NotAllowed ->
  simple_compile fo child cx cur cname tg sc cmd n (Some a) None s =
  (mkSt (s_g s) (s_env s) (Some cur),
   IOk (mkCret [mkO tg (upper cmd ++ [32%N] ++ (if s_strip_args sc then strip a else a))] SNormal)).
Proof.
  intros cur cname tg sc cmd n a s (Htok & Hflip & Hva & Hvas & Hfa & Hrun & Hat) Hnd Ha Hreq.
  unfold simple_compile, check_flipper. rewrite Hflip. cbn [andb].
  unfold no_dollar in Hnd.
  assert (Hd : (match upper cmd with 36%N :: _ => true | _ => false end) = false).
  { destruct (upper cmd) as [|c r]; [reflexivity|].
    destruct c as [|p]; [reflexivity|].
    repeat (destruct p as [p|p|]; try reflexivity). contradiction. }
  rewrite Hd, Htok. cbn [orb].
  unfold listify_args. destruct a as [|a0 ar]; [contradiction|].
  rewrite Hva, Hvas, Hfa, Hat.
  destruct (s_strip_args sc); destruct (s_arg_req sc); try contradiction;
    cbn; unfold run_compile; rewrite Hrun; reflexivity.
Qed.

(* C01: a key that takes no argument, written alone *)
Lemma plain_noarg_passthrough : forall cur cname tg sc cmd n s,
  plain_class sc -> no_dollar cmd -> s_arg_req sc <> Required ->
  simple_compile fo child cx cur cname tg sc cmd n None None s =
  (mkSt (s_g s) (s_env s) (Some cur), IOk (mkCret [mkO tg (upper cmd)] SNormal)).
Proof.
  intros cur cname tg sc cmd n s (Htok & Hflip & Hva & Hvas & Hfa & Hrun & Hat) Hnd Hreq.
  unfold simple_compile, check_flipper. rewrite Hflip. cbn [andb].
  unfold no_dollar in Hnd.
  assert (Hd : (match upper cmd with 36%N :: _ => true | _ => false end) = false).
  { destruct (upper cmd) as [|c r]; [reflexivity|].
    destruct c as [|p]; [reflexivity|].
    repeat (destruct p as [p|p|]; try reflexivity). contradiction. }
  rewrite Hd, Htok. cbn [orb].
  unfold listify_args. rewrite Hva, Hvas, Hfa, Hat.
  destruct (s_strip_args sc); destruct (s_arg_req sc); try contradiction;
    cbn; unfold run_compile; rewrite Hrun; reflexivity.
Qed.

(* a NOTALLOWED command given an argument is a compile error (C02: "keys that take no argument have none") *)
Lemma notallowed_rejects_argument : forall cur cname tg sc cmd n a s,
  s_tokenize_args sc = false -> s_flipper_only sc = false -> no_dollar cmd -> a <> [] ->
  s_arg_req sc = NotAllowed ->
  exists s', simple_compile fo child cx cur cname tg sc cmd n (Some a) None s = (s', IErr EInvalidArguments (Some (here cx cur (s_line2 s)))).
Proof.
  intros cur cname tg sc cmd n a s Htok Hflip Hnd Ha Hreq.
  unfold simple_compile, check_flipper. rewrite Hflip. cbn [andb].
  unfold no_dollar in Hnd.
  assert (Hd : (match upper cmd with 36%N :: _ => true | _ => false end) = false).
  { destruct (upper cmd) as [|c r]; [reflexivity|].
    destruct c as [|p]; [reflexivity|].
    repeat (destruct p as [p|p|]; try reflexivity). contradiction. }
  rewrite Hd, Htok, Hreq. cbn [orb].
  unfold listify_args. destruct a as [|a0 ar]; [contradiction|].
  destruct (s_strip_args sc); cbn; eexists; reflexivity.
Qed.

End Pipe.

(* the generic fall-back used for unknown command words is a plain class *)
Lemma generic_simple_plain : plain_class generic_simple.
Proof. repeat split. Qed.

(* every palette class with these attributes passes its line through: the list is computed from
   the generated palette, so a change of any attribute of these classes shows up here *)
Definition is_plainb (sc : simple_cls) : bool :=
  negb (s_tokenize_args sc) && negb (s_flipper_only sc)
  && match s_verify_arg sc with mkValidator [] true => true | _ => false end
  && match s_verify_args sc with PVNone => true | _ => false end
  && match s_format_arg sc with mkFormatter [] SContent => true | _ => false end
  && match s_run sc with RKDefault => true | _ => false end
  && match s_arg_type sc with ATStr => true | _ => false end.

Lemma is_plainb_sound : forall sc, is_plainb sc = true -> plain_class sc.
Proof.
  intros sc H. unfold is_plainb in H.
  repeat (apply andb_true_iff in H; destruct H as [H ?]).
  unfold plain_class.
  destruct (s_tokenize_args sc); [discriminate|].
  destruct (s_flipper_only sc); [discriminate|].
  destruct (s_verify_arg sc) as [[|? ?] [|]]; try discriminate.
  destruct (s_verify_args sc); try discriminate.
  destruct (s_format_arg sc) as [[|? ?] []]; try discriminate.
  destruct (s_run sc); try discriminate.
  destruct (s_arg_type sc); try discriminate.
  repeat split.
Qed.

Definition plain_names : list str :=
  flat_map (fun nc => match snd nc with
                      | Simple sc => if is_plainb sc then s_names sc else []
                      | Block _ => [] end) palette.


(* ------------------------------------------------------------------ dispatch depends on the word only through upper *)
Definition starts_dollar (cmd : str) : bool := match cmd with 36%N :: _ => true | _ => false end.

Lemma is_this_command_upper : forall c cmd k cb,
  upper cmd = k -> upper k = k -> starts_dollar cmd = false -> starts_dollar k = false ->
  is_this_command c cmd cb = is_this_command c k cb.
Proof.
  intros c cmd k cb Hu Hk Hd1 Hd2. unfold is_this_command. rewrite Hu, Hk.
  destruct c as [sc|bc]; [reflexivity|].
  unfold starts_dollar in Hd1, Hd2.
  destruct cmd as [|c0 r0]; destruct k as [|k0 kr]; try reflexivity.
  - destruct k0 as [|p]; [reflexivity|]. repeat (destruct p as [p|p|]; try reflexivity). discriminate.
  - destruct c0 as [|p]; [reflexivity|]. repeat (destruct p as [p|p|]; try reflexivity). discriminate.
  - assert (E1 : match c0 :: r0 with 36%N :: _ => str_in (tl (k0 :: kr)) (b_names bc) | _ => false end = false).
    { destruct c0 as [|p]; [reflexivity|]. repeat (destruct p as [p|p|]; try reflexivity). discriminate. }
    assert (E2 : match k0 :: kr with 36%N :: _ => str_in (tl (k0 :: kr)) (b_names bc) | _ => false end = false).
    { destruct k0 as [|p]; [reflexivity|]. repeat (destruct p as [p|p|]; try reflexivity). discriminate. }
    rewrite E1, E2. reflexivity.
Qed.

Lemma find_command_upper : forall pal cmd k cb,
  upper cmd = k -> upper k = k -> starts_dollar cmd = false -> starts_dollar k = false ->
  find_command pal cmd cb = find_command pal k cb.
Proof.
  induction pal as [|[n c] r IH]; intros cmd k cb Hu Hk Hd1 Hd2; [reflexivity|].
  cbn [find_command]. rewrite (is_this_command_upper c cmd k cb Hu Hk Hd1 Hd2).
  destruct (is_this_command c k cb); [reflexivity|]. apply IH; assumption.
Qed.

(* ------------------------------------------------------------------ C01: the pinned no-argument keys *)
(* hand-pinned from the Ducky 1.0 key set (not generated): *)
Definition pinned_noarg_keys : list str := [
  [77;69;78;85]; (* MENU *)
  [68;79;87;78;65;82;82;79;87]; [68;79;87;78]; [76;69;70;84;65;82;82;79;87]; [76;69;70;84];
  [82;73;71;72;84;65;82;82;79;87]; [82;73;71;72;84]; [85;80;65;82;82;79;87]; [85;80];
  [66;82;69;65;75]; [80;65;85;83;69]; [67;65;80;83;76;79;67;75]; [68;69;76;69;84;69]; [69;78;68];
  [69;83;67]; [69;83;67;65;80;69]; [72;79;77;69]; [73;78;83;69;82;84]; [78;85;77;76;79;67;75];
  [80;65;71;69;85;80]; [80;65;71;69;68;79;87;78]; [80;82;73;78;84;83;67;82;69;69;78];
  [83;67;82;79;76;76;76;79;67;75]; [83;80;65;67;69]; [84;65;66]; [70;78]
]%N.

Definition noarg_class_ok (k : str) : bool :=
  match find_command palette k None with
  | Some (_, Simple sc) => is_plainb sc && match s_arg_req sc with NotAllowed => true | _ => false end
  | _ => false
  end.

Lemma pinned_noarg_ok :
  forallb (fun k => noarg_class_ok k && str_eqb (upper k) k && negb (starts_dollar k)) pinned_noarg_keys = true.
Proof. vm_compute. reflexivity. Qed.

Lemma starts_dollar_no_dollar : forall cmd, starts_dollar (upper cmd) = false -> no_dollar cmd.
Proof.
  intros cmd H. unfold no_dollar, starts_dollar in *.
  destruct (upper cmd) as [|c r]; [exact I|].
  destruct c as [|p]; [exact I|]. repeat (destruct p as [p|p|]; try exact I). discriminate.
Qed.

Lemma str_eqb_eq : forall a b, str_eqb a b = true -> a = b.
Proof.
  induction a as [|x a IH]; destruct b as [|y b]; cbn [str_eqb]; intro H; try discriminate; [reflexivity|].
  apply andb_true_iff in H. destruct H as [H1 H2]. apply N.eqb_eq in H1. subst y. f_equal. apply IH. exact H2.
Qed.

Section NoArg.
Variable fo : FloatOps.
Variable child : runner fo.
Variable cx : ctx.

(* any spelling of a no-argument key, alone on its line, in any casing: dispatched to a class of the
   generated palette whose pipeline emits exactly the upper-cased key, whatever the state *)
Lemma noarg_key_line : forall k cmd, In k pinned_noarg_keys -> upper cmd = k -> starts_dollar cmd = false ->
  exists cname sc,
    find_command palette cmd None = Some (cname, Simple sc) /\
    forall cur tg n s,
      simple_compile fo child cx cur cname tg sc cmd n None None s =
      (mkSt (s_g s) (s_env s) (Some cur), IOk (mkCret [mkO tg k] SNormal)).
Proof.
  intros k cmd Hin Hu Hd.
  pose proof pinned_noarg_ok as Hall. rewrite forallb_forall in Hall. specialize (Hall k Hin).
  apply andb_true_iff in Hall. destruct Hall as [Hall Hnd].
  apply andb_true_iff in Hall. destruct Hall as [Hcls Hup].
  apply str_eqb_eq in Hup. apply negb_true_iff in Hnd.
  unfold noarg_class_ok in Hcls.
  rewrite <- (find_command_upper palette cmd k None Hu Hup Hd Hnd) in Hcls.
  destruct (find_command palette cmd None) as [[cname [sc|bc]]|]; try discriminate.
  apply andb_true_iff in Hcls. destruct Hcls as [Hplain Hreq].
  exists cname, sc. split; [reflexivity|].
  intros cur tg n s.
  rewrite (plain_noarg_passthrough fo child cx cur cname tg sc cmd n s).
  - rewrite Hu. reflexivity.
  - apply is_plainb_sound. exact Hplain.
  - apply starts_dollar_no_dollar. rewrite Hu. exact Hnd.
  - destruct (s_arg_req sc); discriminate.
Qed.
End NoArg.

(* STRING / STRINGLN keep their text exactly (no stripping), in any casing of the command word *)
Definition s_STRING : str := [83;84;82;73;78;71]%N.
Definition s_STRINGLN : str := [83;84;82;73;78;71;76;78]%N.

Definition string_class_ok (k : str) : bool :=
  match find_command palette k None with
  | Some (_, Simple sc) => is_plainb sc && negb (s_strip_args sc) && match s_arg_req sc with NotAllowed => false | _ => true end
  | _ => false
  end.

Lemma string_classes_ok : string_class_ok s_STRING && string_class_ok s_STRINGLN = true.
Proof. vm_compute. reflexivity. Qed.

Section StringLine.
Variable fo : FloatOps.
Variable child : runner fo.
Variable cx : ctx.

Lemma string_line : forall k cmd a, (k = s_STRING \/ k = s_STRINGLN) -> upper cmd = k -> starts_dollar cmd = false -> a <> [] ->
  exists cname sc,
    find_command palette cmd None = Some (cname, Simple sc) /\
    forall cur tg n s,
      simple_compile fo child cx cur cname tg sc cmd n (Some a) None s =
      (mkSt (s_g s) (s_env s) (Some cur), IOk (mkCret [mkO tg (k ++ [32%N] ++ a)] SNormal)).
Proof.
  intros k cmd a Hk Hu Hd Ha.
  pose proof string_classes_ok as Hall. apply andb_true_iff in Hall. destruct Hall as [H1 H2].
  assert (Hcls : string_class_ok k = true) by (destruct Hk as [-> | ->]; assumption).
  assert (Hup : upper k = k) by (destruct Hk as [-> | ->]; reflexivity).
  assert (Hnd : starts_dollar k = false) by (destruct Hk as [-> | ->]; reflexivity).
  unfold string_class_ok in Hcls.
  rewrite <- (find_command_upper palette cmd k None Hu Hup Hd Hnd) in Hcls.
  destruct (find_command palette cmd None) as [[cname [sc|bc]]|]; try discriminate.
  apply andb_true_iff in Hcls. destruct Hcls as [Hcls Hreq].
  apply andb_true_iff in Hcls. destruct Hcls as [Hplain Hstrip].
  apply negb_true_iff in Hstrip.
  exists cname, sc. split; [reflexivity|].
  intros cur tg n s.
  rewrite (plain_inline_passthrough fo child cx cur cname tg sc cmd n a s).
  - rewrite Hu, Hstrip. reflexivity.
  - apply is_plainb_sound. exact Hplain.
  - apply starts_dollar_no_dollar. rewrite Hu. exact Hnd.
  - exact Ha.
  - destruct (s_arg_req sc); discriminate.
Qed.
End StringLine.
