(* C19 over the CLI world: `new NAME DIR` -- when it refuses, what it never touches, and that the
   project it creates compiles to the hello-world line. *)
From Coq Require Import NArith ZArith List Bool Lia.
From DS Require Import Base PyStr Values TabParse Interp Options Constants Cli CliWorld.
From DS Require Import DuckyGrammar LineGrammar GrammarProofs Spelling FlatScript FlatStrings FlatProofs FlatWhole.
From DS Require Import SmallProofs MoreProofs CliWorldSpec CliWorldProofs CliWorldHistory.
Import ListNotations.

(* ------------------------------------------------------------------ the hello-world script *)
(* "STRING Hello, World!" as a flat script (Spec/FlatScript.v): one STRING line *)
Definition hello_script : script :=
  [(mkSp [83;84;82;73;78;71]%N [32%N] [],
    VString [83;84;82;73;78;71]%N [72;101;108;108;111;44;32;87;111;114;108;100;33]%N)].

Lemma hello_prepare : prepare_text hello_world = TOk (flat_items 1 hello_script).
Proof. vm_compute. reflexivity. Qed.

Lemma hello_script_ok : script_ok hello_script.
Proof.
  unfold script_ok, hello_script. apply Forall_cons; [|apply Forall_nil].
  cbn [vline_ok spelling_ok snd fst]. repeat split;
    first [ apply GrammarProofs.str_in_In; vm_compute; reflexivity | discriminate | vm_compute; reflexivity ].
Qed.

Lemma hello_script_flip_ok : forall o, script_flip_ok o (lines_of hello_script).
Proof. intro o. right. apply Forall_cons; [reflexivity|apply Forall_nil]. Qed.

(* the hello-world text compiles to itself: under EVERY options record, file system, file name and
   float implementation; no warning, no print *)
Theorem hello_compile : forall (fo : FloatOps) o fs file,
  exists c : compiled fo,
    compile_text fo o fs file hello_world = (mkGlob [] [], IOk c) /\
    joined_output c = hello_world /\ warnings c = [] /\ prints c = [].
Proof.
  intros fo o fs file. unfold compile_text. rewrite hello_prepare.
  rewrite (flat_script_compile fo o fs file hello_script 1 hello_script_ok (hello_script_flip_ok o)).
  eexists. split; [reflexivity|]. split; [|split; reflexivity].
  unfold joined_output. cbn [out]. destruct (include_comments o); vm_compute; reflexivity.
Qed.

Section New.
Variable fo : FloatOps.

(* ------------------------------------------------------------------ 3a: cli_step on a `new` *)
Theorem cli_step_new : forall w dir name, cli_step fo w (OpNew dir name) = new_outcome w dir name.
Proof.
  intros w dir name. unfold cli_step, new_outcome, new_accepts, only_global. rewrite load_global_spec.
  match goal with |- context [dir_exists ?w1 ?p] =>
    change (dir_exists w1 p) with (dir_exists w (new_project_dir dir name)) end.
  destruct (isascii_s name); cbn [negb andb]; [|reflexivity].
  destruct (forallb valid_project_char (normalise_name name)); cbn [negb andb]; [|reflexivity].
  destruct (dir_exists w (new_project_dir dir name)); reflexivity.
Qed.

Theorem new_refuses_bad_name : forall w dir name,
  isascii_s name = true -> forallb valid_project_char (normalise_name name) = false ->
  cli_step fo w (OpNew dir name) = (only_global w, RNewRefused).
Proof.
  intros w dir name Ha Hv. rewrite cli_step_new. unfold new_outcome, new_accepts. rewrite Ha, Hv. reflexivity.
Qed.

Theorem new_refuses_existing_dir : forall w dir name,
  isascii_s name = true -> dir_exists w (new_project_dir dir name) = true ->
  cli_step fo w (OpNew dir name) = (only_global w, RNewRefused).
Proof.
  intros w dir name Ha Hd. rewrite cli_step_new. unfold new_outcome, new_accepts. rewrite Ha, Hd.
  rewrite andb_false_r. reflexivity.
Qed.

Theorem new_created_iff : forall w dir name w' r,
  cli_step fo w (OpNew dir name) = (w', r) ->
  (r = RNewCreated <->
   isascii_s name = true /\ forallb valid_project_char (normalise_name name) = true /\
   dir_exists w (new_project_dir dir name) = false).
Proof.
  intros w dir name w' r H. rewrite cli_step_new in H. unfold new_outcome, new_accepts in H.
  destruct (isascii_s name); destruct (forallb valid_project_char (normalise_name name));
    destruct (dir_exists w (new_project_dir dir name)); cbn [negb andb] in H; injection H as <- <-;
    split; try discriminate; try (intros [? [? ?]]; discriminate); auto.
Qed.

(* anything but "created": only the global config was normalised *)
Theorem new_not_created : forall w dir name w' r,
  cli_step fo w (OpNew dir name) = (w', r) -> r <> RNewCreated ->
  w' = only_global w /\ w_files w' = w_files w /\ w_cfg w' = w_cfg w /\ w_dirs w' = w_dirs w.
Proof.
  intros w dir name w' r H Hr. rewrite cli_step_new in H. unfold new_outcome in H.
  destruct (new_accepts w dir name); injection H as <- <-; [contradiction|].
  unfold only_global. rewrite load_global_spec. repeat split.
Qed.

Lemma in_dirs_exists : forall w d, In d (w_dirs w) -> dir_exists w d = true.
Proof.
  intros w d H. unfold dir_exists. apply orb_true_iff. left. apply existsb_exists.
  exists d. split; [exact H|apply path_eqb_refl].
Qed.

(* an existing project is never touched by `new` of the same name *)
Theorem new_existing_project_untouched : forall w dir name w' r,
  In (new_project_dir dir name) (w_dirs w) ->
  cli_step fo w (OpNew dir name) = (w', r) ->
  r <> RNewCreated /\ w_files w' = w_files w /\ w_cfg w' = w_cfg w /\ w_dirs w' = w_dirs w.
Proof.
  intros w dir name w' r Hin H.
  assert (Hr : r <> RNewCreated).
  { intro E. apply (new_created_iff _ _ _ _ _ H) in E. destruct E as [_ [_ E]].
    rewrite (in_dirs_exists _ _ Hin) in E. discriminate. }
  split; [exact Hr|]. destruct (new_not_created _ _ _ _ _ H Hr) as [_ X]. exact X.
Qed.

(* whatever `new` does, the config and the files directly inside an EXISTING directory stay *)
Theorem new_keeps_existing_dirs : forall w dir name w' r d,
  dir_exists w d = true ->
  cli_step fo w (OpNew dir name) = (w', r) ->
  w_cfg w' d = w_cfg w d /\ forall x, w_files w' (d ++ [x]) = w_files w (d ++ [x]).
Proof.
  intros w dir name w' r d Hd H. rewrite cli_step_new in H. unfold new_outcome in H.
  destruct (new_accepts w dir name) eqn:Ha; injection H as <- <-.
  - unfold new_accepts in Ha. apply andb_true_iff in Ha. destruct Ha as [_ Ha].
    assert (Hne : d <> new_project_dir dir name).
    { intro E. subst d. rewrite Hd in Ha. discriminate. }
    unfold new_world. cbn [w_cfg w_files]. split.
    + apply set_cfg_other. exact Hne.
    + intro x. apply write_other. rewrite new_main_file_snoc. intro E.
      apply app_inj_tail in E. destruct E as [E _]. contradiction.
  - unfold only_global. rewrite load_global_spec. split; reflexivity.
Qed.

(* ------------------------------------------------------------------ 3b: new, then compile *)
Lemma new_world_effective_options : forall w dir name limit comments,
  effective_options (new_world w dir name) (new_main_file dir name) limit comments =
  if use_project_config (global_meaning (w_global w)) then default_options
  else flag_options (global_meaning (w_global w)) limit comments.
Proof.
  intros w dir name limit comments. unfold effective_options, new_world. cbn [w_global w_cfg].
  rewrite parent_new_main_file, set_cfg_same, global_meaning_full.
  unfold calculate_options. rewrite options_yaml_round_trip.
  cbn [flag_options use_project_config]. destruct (use_project_config (global_meaning (w_global w))); reflexivity.
Qed.

Theorem new_then_compile : forall w dir name w1 output limit comments,
  cli_step fo w (OpNew dir name) = (w1, RNewCreated) ->
  exists w2,
    cli_step fo w1 (OpCompile (new_main_file dir name) output limit comments) = (w2, RSuccess 0) /\
    w_files w2 output = Some hello_world /\
    (forall q, path_eqb q output = false -> w_files w2 q = w_files w1 q) /\
    (* the options it ran with *)
    effective_options w1 (new_main_file dir name) limit comments =
      (if use_project_config (global_meaning (w_global w)) then default_options
       else flag_options (global_meaning (w_global w)) limit comments).
Proof.
  intros w dir name w1 output limit comments H.
  rewrite cli_step_new in H. unfold new_outcome in H.
  destruct (new_accepts w dir name); [|destruct (isascii_s name); discriminate].
  injection H as <-.
  assert (Hf : w_files (new_world w dir name) (new_main_file dir name) = Some hello_world)
    by (unfold new_world; cbn [w_files]; apply write_same).
  destruct (cli_step fo (new_world w dir name) (OpCompile (new_main_file dir name) output limit comments))
    as [w2 r2] eqn:E2.
  pose proof (compile_all_or_nothing fo _ _ _ _ _ _ _ _ Hf E2) as Hc.
  destruct (hello_compile fo (effective_options (new_world w dir name) (new_main_file dir name) limit comments)
              (w_files (new_world w dir name)) (Some (new_main_file dir name))) as [c [Ec [Ej [Ew _]]]].
  rewrite Ec in Hc. destruct Hc as [Hr [Ho Hq]]. rewrite Ew in Hr. cbn [length] in Hr. rewrite Ej in Ho.
  exists w2. subst r2. split; [reflexivity|]. split; [exact Ho|]. split; [exact Hq|].
  apply new_world_effective_options.
Qed.

(* when the global config allows project configs (e.g. it is absent), the new project compiles under
   the default options *)
Corollary new_then_compile_default_options : forall w dir name w1 limit comments,
  cli_step fo w (OpNew dir name) = (w1, RNewCreated) ->
  use_project_config (global_meaning (w_global w)) = true ->
  effective_options w1 (new_main_file dir name) limit comments = default_options.
Proof.
  intros w dir name w1 limit comments H Hu.
  destruct (new_then_compile w dir name w1 (new_main_file dir name) limit comments H) as [w2 [_ [_ [_ E]]]].
  rewrite E, Hu. reflexivity.
Qed.

(* the same inside any history: ... ; new NAME ; (operations not writing main.txt) ; compile main.txt *)
Theorem history_new_then_compile : forall pre dir name mid output limit comments post w,
  nth_error (snd (cli_run fo w (pre ++ OpNew dir name :: mid ++
                                 OpCompile (new_main_file dir name) output limit comments :: post)))
            (length pre) = Some RNewCreated ->
  ~ In (new_main_file dir name) (touched_paths mid) ->
  nth_error (snd (cli_run fo w (pre ++ OpNew dir name :: mid ++
                                 OpCompile (new_main_file dir name) output limit comments :: post)))
            (length pre + 1 + length mid) = Some (RSuccess 0).
Proof.
  intros pre dir name mid output limit comments post w Hnew Hmid.
  rewrite history_nth_report in Hnew. injection Hnew as Hnew.
  set (w0 := fst (cli_run fo w pre)) in *.
  pose proof (step_eq fo w0 (OpNew dir name)) as He. rewrite Hnew in He.
  set (w1 := fst (cli_step fo w0 (OpNew dir name))) in *.
  replace (pre ++ OpNew dir name :: mid ++ OpCompile (new_main_file dir name) output limit comments :: post)
    with ((pre ++ OpNew dir name :: mid) ++ OpCompile (new_main_file dir name) output limit comments :: post)
    by (rewrite <- app_assoc; reflexivity).
  replace (length pre + 1 + length mid)%nat with (length (pre ++ OpNew dir name :: mid))
    by (rewrite app_length; cbn [length]; lia).
  rewrite history_nth_report. f_equal.
  rewrite cli_run_app. cbn [fst]. rewrite cli_run_cons. cbn [fst]. fold w0. fold w1.
  set (wm := fst (cli_run fo w1 mid)).
  (* main.txt still holds the hello-world text, and its project config still denotes the defaults *)
  assert (Hf : w_files wm (new_main_file dir name) = Some hello_world).
  { unfold wm. rewrite cli_history_frame; [|exact Hmid].
    rewrite cli_step_new in He. unfold new_outcome in He.
    destruct (new_accepts w0 dir name); [|destruct (isascii_s name); discriminate].
    injection He as <-. unfold new_world. cbn [w_files]. apply write_same. }
  destruct (cli_step fo wm (OpCompile (new_main_file dir name) output limit comments)) as [w2 r2] eqn:E2.
  pose proof (compile_all_or_nothing fo _ _ _ _ _ _ _ _ Hf E2) as Hc.
  destruct (hello_compile fo (effective_options wm (new_main_file dir name) limit comments)
              (w_files wm) (Some (new_main_file dir name))) as [c [Ec [_ [Ew _]]]].
  rewrite Ec in Hc. destruct Hc as [Hr _]. rewrite Ew in Hr. cbn [snd]. exact Hr.
Qed.

End New.
