(* CoreAllDepthTop -- the exactness of the depth index (Proofs/CoreAllDepth.v) TRANSFERRED TO THE
   INTERPRETER through the two refinement theorems, and UNBOUNDED RECURSION:
     [limit_ok] / [limit_overflow] / [limit_iff]
         a program of minimal depth d0 compiles under the stack limit L iff d0 < L; for L <= d0
         Compiler.compile returns the located error StackOverflow;
     [calls_again_no_success]
         a statement list every path of which reaches a RUN of a function of a set S, all the
         definitions of which do the same, has NO success derivation at any depth;
     [ring_overflow] / [rec_self_*] / [rec_mutual_*]
         FUNC f / RUN f ; RUN f (and the two-function ring): at every room a StackOverflow failure
         derivation, whose chain has exactly room + 1 frames; for every stack limit the interpreter
         returns StackOverflow with a trace of exactly limit frames. *)
From Coq Require Import NArith ZArith List Bool Lia.
From DS Require Import Base PyStr Values Expr TabParse Tables Constants Interp IdentSpec World SmallProofs.
From DS Require Import ScopeProofs ImportGraph GraphText CoreLang CoreWf CoreRefine CoreFunc CoreErr.
From DS Require Import CoreAll CoreAllLines CoreAllBase CoreAllRefine CoreAllTop CoreAllKeys.
From DS Require Import CoreAllErr CoreAllErrLines CoreAllErrRefine CoreAllErrFacts CoreAllDet CoreAllTotal CoreAllConverse.
From DS Require Import CoreAllDepth.
Import ListNotations.

Arguments IOk {A}. Arguments IErr {A}. Arguments ICrash {A}. Arguments IUnmod {A}.

(* ================================================================== 1. the limit is exact *)
Section Transfer.
Variable fo : FloatOps.
Variable dir : path.
Variable prog : program.
Variable fs : fsys.
Hypothesis Hprog : prog_ok dir prog fs.
Hypothesis Hmiss : prog_closed dir prog fs.

Lemma names_of_prog : prog_names_ok prog.
Proof. intros m stmts H. destruct (Hprog m stmts H) as (Hwf & _). exact (unames_ok_list_of_uwf stmts Hwf). Qed.

Lemma uruns_mono_le : forall inc sup entry d d' sg F' f' vs' out ev,
  d <= d' -> uruns fo prog inc sup entry d sg F' f' vs' out ev -> uruns fo prog inc sup entry d' sg F' f' vs' out ev.
Proof.
  intros inc sup entry d d' sg F' f' vs' out ev Hle (stmts & ev0 & Hlk & H & E).
  exists stmts, ev0. split; [exact Hlk|]. split; [|exact E].
  exact (exec_list_mono_le fo _ prog inc sup d d' _ _ _ _ _ _ _ _ _ _ _ _ _ Hle H).
Qed.

(* below the minimal depth of the entry file: the StackOverflow failure *)
Theorem ufails_below_min_depth : forall inc sup entry d0 sg F' f' vs' out ev,
  min_depth (fun d => uruns fo prog inc sup entry d sg F' f' vs' out ev) d0 ->
  forall d, d < d0 -> exists ch ev', ufails fo prog inc sup entry d EStackOverflow ch ev'.
Proof.
  intros inc sup entry d0 sg F' f' vs' out ev [(stmts & ev0 & Hlk & H0 & E) Hlt] d Hd.
  assert (Hnil : tab_names_ok []) by constructor.
  destruct (exec_list_or_overflow fo (initial_sys fo) prog inc sup names_of_prog d0 d _ _ _ _ _ _ _ _ _ _ _ _ _
              H0 Hnil (names_of_prog entry stmts Hlk) ltac:(lia)) as [H|(ch & ev' & H)].
  - exfalso. apply (Hlt d Hd). exists stmts, ev0. split; [exact Hlk|]. split; [exact H|exact E].
  - exists ch, ev', stmts. split; [exact Hlk|exact H].
Qed.

(* WITHIN THE LIMIT: Compiler.compile returns the success of the derivation *)
Theorem limit_ok : forall o entry stmts d0 sg F' f' vs' out ev,
  (1 <= stack_limit o)%Z -> lookup entry prog = Some stmts ->
  min_depth (fun d => uruns fo prog (include_comments o) (supress_command_not_exist o) entry d sg F' f' vs' out ev) d0 ->
  (Z.of_nat d0 < stack_limit o)%Z ->
  observes fo dir (compile_items fo o fs (Some (file_of dir entry)) (uitems_of stmts)) (@UOk fo sg F' f' vs' out ev).
Proof.
  intros o entry stmts d0 sg F' f' vs' out ev Hlim Hlk [H0 _] Hd.
  apply (compile_is_spec_result fo dir prog fs Hprog Hmiss o entry stmts _ Hlim Hlk).
  cbn [spec_result_is]. apply (uruns_mono_le _ _ _ d0); [unfold room_of_limit; lia|exact H0].
Qed.

(* AT OR BEYOND THE LIMIT: the located compile error StackOverflow *)
Theorem limit_overflow : forall o entry stmts d0 sg F' f' vs' out ev,
  (1 <= stack_limit o)%Z -> lookup entry prog = Some stmts ->
  min_depth (fun d => uruns fo prog (include_comments o) (supress_command_not_exist o) entry d sg F' f' vs' out ev) d0 ->
  (stack_limit o <= Z.of_nat d0)%Z ->
  exists ch ev', ch <> [] /\
    ufails fo prog (include_comments o) (supress_command_not_exist o) entry (room_of_limit (stack_limit o)) EStackOverflow ch ev' /\
    compile_items fo o fs (Some (file_of dir entry)) (uitems_of stmts) =
    (CoreAllBase.apply_evs dir ev' (mkGlob [] []), IErr EStackOverflow (Some (map (CoreAllBase.conc_frame dir) ch))).
Proof.
  intros o entry stmts d0 sg F' f' vs' out ev Hlim Hlk Hmin Hd.
  destruct (ufails_below_min_depth _ _ _ _ _ _ _ _ _ _ Hmin (room_of_limit (stack_limit o)) ltac:(unfold room_of_limit; lia))
    as (ch & ev' & Hf).
  exists ch, ev'. split; [|split; [exact Hf|]].
  - destruct Hf as (st & L & D).
    destruct (ufails_class_all fo (initial_sys fo) prog (include_comments o) (supress_command_not_exist o)) as (_ & Hl & _).
    exact (proj2 (Hl _ _ _ _ _ _ _ _ _ _ _ D)).
  - exact (compile_is_spec_result fo dir prog fs Hprog Hmiss o entry stmts (@UFail fo EStackOverflow ch ev') Hlim Hlk Hf).
Qed.

(* ... hence: compiles iff the minimal depth is below the stack limit *)
Theorem limit_iff : forall o entry stmts d0 sg F' f' vs' out ev,
  (1 <= stack_limit o)%Z -> lookup entry prog = Some stmts ->
  min_depth (fun d => uruns fo prog (include_comments o) (supress_command_not_exist o) entry d sg F' f' vs' out ev) d0 ->
  ((exists g c, compile_items fo o fs (Some (file_of dir entry)) (uitems_of stmts) = (g, IOk c)) <->
   (Z.of_nat d0 < stack_limit o)%Z).
Proof.
  intros o entry stmts d0 sg F' f' vs' out ev Hlim Hlk Hmin. split.
  - intros (g & c & E).
    destruct (Z_lt_le_dec (Z.of_nat d0) (stack_limit o)) as [Hd|Hd]; [exact Hd|exfalso].
    destruct (limit_overflow o entry stmts d0 _ _ _ _ _ _ Hlim Hlk Hmin Hd) as (ch & ev' & _ & _ & E').
    rewrite E in E'. discriminate E'.
  - intro Hd. pose proof (limit_ok o entry stmts d0 _ _ _ _ _ _ Hlim Hlk Hmin Hd) as Hobs.
    cbn [observes] in Hobs. destruct Hobs as (ol & Fi & _ & _ & E). rewrite E. eexists. eexists. reflexivity.
Qed.

End Transfer.

(* ================================================================== 2. unbounded recursion: no success *)
(* statements that end Normal, keep the function table, and need no depth *)
Definition inert (s : ustmt) : bool :=
  match s with
  | UEmit _ _ | UEmitEval _ _ | UVar _ _ | UPrint _ | UPrintEval _ | URem _ | UUnknown _ _ => true
  | _ => false
  end.

(* EVERY EXECUTION PATH of the list reaches a RUN of a function of S: after plain commands and
   definitions of functions (those named in S must have this property themselves) comes a
   RUN g with g in S, or an IF chain with an ELSE every arm of which has this property *)
Inductive calls_again (S : list str) : list ustmt -> Prop :=
| CA_here : forall g args post, In g S -> calls_again S (URun g args :: post)
| CA_skip : forall s r, inert s = true -> calls_again S r -> calls_again S (s :: r)
| CA_func : forall name ps body r,
    (In name S -> calls_again S body) -> calls_again S r -> calls_again S (UFunc name ps body :: r)
| CA_if : forall arms eb r,
    arms_call_again S arms -> calls_again S eb -> calls_again S (UIf arms (Some eb) :: r)
with arms_call_again (S : list str) : list (str * list ustmt) -> Prop :=
| CAA_nil : arms_call_again S []
| CAA_cons : forall c b rest, calls_again S b -> arms_call_again S rest -> arms_call_again S ((c, b) :: rest).

Scheme calls_again_mind := Minimality for calls_again Sort Prop
  with arms_call_again_mind := Minimality for arms_call_again Sort Prop.
Combined Scheme calls_again_both from calls_again_mind, arms_call_again_mind.

(* every definition (if any) of a function of S calls again *)
Definition rec_table (S : list str) (F : utable) : Prop :=
  forall g df, In g S -> lookup g F = Some df -> calls_again S (d_body df).

Lemma rec_table_nil : forall S, rec_table S [].
Proof. intros S g df _ H. discriminate H. Qed.

Lemma rec_table_set_def : forall S F name ps body cf n,
  rec_table S F -> (In name S -> calls_again S body) -> rec_table S (set_def name (mkDef ps body cf n) F).
Proof.
  intros S F name ps body cf n HF Hb g df Hg Hl. rewrite set_def_upd, lookup_upd in Hl.
  destruct (str_eqb g name) eqn:E.
  - injection Hl as <-. apply str_eqb_eq in E. subst g. exact (Hb Hg).
  - exact (HF g df Hg Hl).
Qed.

Section NoSuccess.
Variable fo : FloatOps.
Variable sys : store fo.
Variable prog : program.
Variable inc : bool.
Variable sup : bool.

Notation exec := (CoreAll.exec fo sys prog inc sup).
Notation exec_list := (CoreAll.exec_list fo sys prog inc sup).
Notation exec_arms := (CoreAll.exec_arms fo sys prog inc sup).

Lemma inert_exec : forall d pile cf n F f vs s sg F' f' vs' out ev,
  inert s = true -> exec d pile cf n F f vs s sg F' f' vs' out ev -> sg = Normal /\ F' = F.
Proof.
  intros d pile cf n F f vs s sg F' f' vs' out ev Hi H.
  destruct s; try discriminate Hi; inversion H; subst; split; reflexivity.
Qed.

Definition NS (d : nat) : Prop :=
  forall S p, calls_again S p -> forall F, rec_table S F ->
  forall pile cf n f vs sg F' f' vs' out ev, ~ exec_list d pile cf n F f vs p sg F' f' vs' out ev.

Lemma NS_step : forall d, (forall d', d' < d -> NS d') -> NS d.
Proof.
  intros d IHd S.
  assert (H : (forall p, calls_again S p -> forall F, rec_table S F ->
                 forall pile cf n f vs sg F' f' vs' out ev, ~ exec_list d pile cf n F f vs p sg F' f' vs' out ev) /\
              (forall arms, arms_call_again S arms -> forall eb, calls_again S eb ->
                 forall F, rec_table S F ->
                 forall pile cf first n b vs sg t vs' out ev,
                   ~ exec_arms d pile cf first n F b vs arms (Some eb) sg t vs' out ev)).
  { apply calls_again_both.
    - (* RUN g *)
      intros g args post Hg F HF pile cf n f vs sg F' f' vs' out ev H.
      assert (Hrun : exists sg1 F1 f1 vs1 o1 e1, exec d pile cf n F f vs (URun g args) sg1 F1 f1 vs1 o1 e1).
      { inversion H; subst; do 6 eexists; eassumption. }
      destruct Hrun as (sg1 & F1 & f1 & vs1 & o1 & e1 & Hrun).
      apply (run_iff fo sys prog inc sup) in Hrun.
      destruct Hrun as (d0 & -> & vals & df & sgb & Fb & fb & vsb & Hargs & Hlk & Hlen & Hbody & _).
      exact (IHd d0 ltac:(lia) S (d_body df) (HF g df Hg Hlk) F HF _ _ _ _ _ _ _ _ _ _ _ Hbody).
    - (* an inert statement *)
      intros s r Hi _ IHr F HF pile cf n f vs sg F' f' vs' out ev H.
      inversion H as [|? ? ? ? ? ? ? ? ? Fm fm vsm om em ? ? ? ? o2 e2 Hs Hr|? ? ? ? ? ? ? ? ? ? ? ? ? ? ? Hs Hne]; subst.
      + destruct (inert_exec _ _ _ _ _ _ _ _ _ _ _ _ _ _ Hi Hs) as [_ ->]. exact (IHr F HF _ _ _ _ _ _ _ _ _ _ _ Hr).
      + destruct (inert_exec _ _ _ _ _ _ _ _ _ _ _ _ _ _ Hi Hs) as [-> _]. apply Hne. reflexivity.
    - (* FUNC *)
      intros name ps body r Hb _ _ IHr F HF pile cf n f vs sg F' f' vs' out ev H.
      inversion H as [|? ? ? ? ? ? ? ? ? Fm fm vsm om em ? ? ? ? o2 e2 Hs Hr|? ? ? ? ? ? ? ? ? ? ? ? ? ? ? Hs Hne]; subst.
      + inversion Hs; subst.
        exact (IHr _ (rec_table_set_def S F name ps body cf n HF Hb) _ _ _ _ _ _ _ _ _ _ _ Hr).
      + inversion Hs; subst. apply Hne. reflexivity.
    - (* IF ... ELSE *)
      intros arms eb r _ IHa Heb _ F HF pile cf n f vs sg F' f' vs' out ev H.
      assert (Hif : exists sg1 F1 f1 vs1 o1 e1, exec d pile cf n F f vs (UIf arms (Some eb)) sg1 F1 f1 vs1 o1 e1).
      { inversion H; subst; do 6 eexists; eassumption. }
      destruct Hif as (sg1 & F1 & f1 & vs1 & o1 & e1 & Hif).
      inversion Hif; subst. eapply IHa; eauto.
    - (* no arm left: the ELSE *)
      intros eb Heb F HF pile cf first n b vs sg t vs' out ev H.
      inversion H; subst.
      match goal with HX : CoreAll.exec_list _ _ _ _ _ ?dd _ _ _ _ _ _ eb _ _ _ _ _ _ |- _ =>
        eapply (IHd dd); [lia|exact Heb|exact HF|exact HX] end.
    - (* an arm *)
      intros c b0 rest Hb _ _ IHrest eb Heb F HF pile cf first n b vs sg t vs' out ev H.
      inversion H; subst.
      + match goal with HX : CoreAll.exec_list _ _ _ _ _ ?dd _ _ _ _ _ _ b0 _ _ _ _ _ _ |- _ =>
          eapply (IHd dd); [lia|exact Hb|exact HF|exact HX] end.
      + eapply IHrest; eauto. }
  intros p Hp. exact (proj1 H p Hp).
Qed.

(* NO SUCCESS DERIVATION, at any depth *)
Theorem calls_again_no_success : forall d S p F pile cf n f vs sg F' f' vs' out ev,
  calls_again S p -> rec_table S F -> ~ exec_list d pile cf n F f vs p sg F' f' vs' out ev.
Proof.
  intros d S p F pile cf n f vs sg F' f' vs' out ev Hp HF.
  assert (H : NS d) by (induction d as [d IH] using lt_wf_ind; apply NS_step; exact IH).
  exact (H S p Hp F HF _ _ _ _ _ _ _ _ _ _ _).
Qed.

End NoSuccess.

(* ================================================================== 3. rings of calls: StackOverflow *)
(* every function of S has no parameter and a body that is one call of a function of S *)
Definition pure_ring (S : list str) (F : utable) : Prop :=
  forall g, In g S -> exists df g', lookup g F = Some df /\ d_params df = [] /\ d_body df = [URun g' []] /\ In g' S.

Section Rings.
Variable fo : FloatOps.
Variable sys : store fo.
Variable prog : program.
Variable inc : bool.
Variable sup : bool.

Notation fails := (CoreAllErr.fails fo sys prog inc sup).
Notation fails_list := (CoreAllErr.fails_list fo sys prog inc sup).

(* at every room d: StackOverflow, no event, and a chain of exactly d + 1 frames *)
Theorem ring_overflow : forall S F, pure_ring S F -> forall d g pile cf n f vs, In g S ->
  exists ch, fails d pile cf n F f vs (URun g []) EStackOverflow ch [] /\ length ch = Datatypes.S d.
Proof.
  intros S F HR. induction d as [|d IH]; intros g pile cf n f vs Hg;
    destruct (HR g Hg) as (df & g' & Hlk & Hps & Hbody & Hg').
  - eexists. split; [eapply F_RunOverflow; [reflexivity|exact Hlk|rewrite Hps; reflexivity]|reflexivity].
  - destruct (IH g' (pile ++ [mkSF cf (run_head g []) n true]) (d_file df) (d_line df + 1)%Z None
                (bind_params fo (d_params df) [] vs) Hg') as (ch & Hf & Hlen).
    eexists. split.
    + eapply F_RunBody; [reflexivity|exact Hlk|rewrite Hps; reflexivity|].
      rewrite Hbody. apply FL_Here. exact Hf.
    + cbn [length]. rewrite Hlen. reflexivity.
Qed.

End Rings.

(* ------------------------------------------------------------------ the two programs *)
(* FUNC f / RUN f ; RUN f *)
Definition rec_self (f : str) : list ustmt := [UFunc f [] [URun f []]; URun f []].
(* FUNC f / RUN g ; FUNC g / RUN f ; RUN f *)
Definition rec_mutual (f g : str) : list ustmt := [UFunc f [] [URun g []]; UFunc g [] [URun f []]; URun f []].

Lemma rec_self_calls_again : forall f, calls_again [f] (rec_self f).
Proof.
  intro f. apply CA_func; [intros _; apply CA_here; left; reflexivity|]. apply CA_here. left. reflexivity.
Qed.

Lemma rec_mutual_calls_again : forall f g, calls_again [f; g] (rec_mutual f g).
Proof.
  intros f g. apply CA_func; [intros _; apply CA_here; right; left; reflexivity|].
  apply CA_func; [intros _; apply CA_here; left; reflexivity|]. apply CA_here. left. reflexivity.
Qed.

Section RecPrograms.
Variable fo : FloatOps.
Variable sys : store fo.
Variable prog : program.
Variable inc : bool.
Variable sup : bool.

Notation exec_list := (CoreAll.exec_list fo sys prog inc sup).
Notation fails_list := (CoreAllErr.fails_list fo sys prog inc sup).

Theorem rec_self_no_success : forall f d pile cf n fl vs sg F' f' vs' out ev,
  ~ exec_list d pile cf n [] fl vs (rec_self f) sg F' f' vs' out ev.
Proof.
  intros. apply (calls_again_no_success fo sys prog inc sup d [f]); [apply rec_self_calls_again|apply rec_table_nil].
Qed.

Theorem rec_mutual_no_success : forall f g d pile cf n fl vs sg F' f' vs' out ev,
  ~ exec_list d pile cf n [] fl vs (rec_mutual f g) sg F' f' vs' out ev.
Proof.
  intros. apply (calls_again_no_success fo sys prog inc sup d [f; g]); [apply rec_mutual_calls_again|apply rec_table_nil].
Qed.

Theorem rec_self_overflow : forall f d pile cf n fl vs,
  exists ch, fails_list d pile cf n [] fl vs (rec_self f) EStackOverflow ch [] /\ length ch = S d.
Proof.
  intros f d pile cf n fl vs.
  set (F := set_def f (mkDef [] [URun f []] cf n) []).
  assert (HR : pure_ring [f] F).
  { intros g [<-|[]]. exists (mkDef [] [URun f []] cf n), f. unfold F. cbn [set_def lookup].
    rewrite str_eqb_refl. repeat split. left. reflexivity. }
  destruct (ring_overflow fo sys prog inc sup [f] F HR d f pile cf (n + usize (UFunc f [] [URun f []]))%Z fl vs
              (or_introl eq_refl)) as (ch & Hf & Hlen).
  exists ch. split; [|exact Hlen]. unfold rec_self.
  change (@nil event) with (@nil event ++ @nil event).
  eapply FL_Later; [apply E_Func|repeat split|]. apply FL_Here. exact Hf.
Qed.

Theorem rec_mutual_overflow : forall f g d pile cf n fl vs, str_eqb f g = false ->
  exists ch, fails_list d pile cf n [] fl vs (rec_mutual f g) EStackOverflow ch [] /\ length ch = S d.
Proof.
  intros f g d pile cf n fl vs Hne.
  set (n2 := (n + usize (UFunc f [] [URun g []]))%Z).
  set (F := set_def g (mkDef [] [URun f []] cf n2) (set_def f (mkDef [] [URun g []] cf n) [])).
  assert (Hgf : str_eqb g f = false).
  { destruct (str_eqb g f) eqn:E; [|reflexivity]. apply str_eqb_eq in E. subst g. rewrite str_eqb_refl in Hne. discriminate. }
  assert (HR : pure_ring [f; g] F).
  { intros h [<-|[<-|[]]].
    - exists (mkDef [] [URun g []] cf n), g. unfold F. cbn [set_def lookup]. rewrite Hgf. cbn [lookup].
      rewrite str_eqb_refl. repeat split. right. left. reflexivity.
    - exists (mkDef [] [URun f []] cf n2), f. unfold F. cbn [set_def lookup]. rewrite Hgf. cbn [lookup].
      rewrite Hgf, str_eqb_refl. repeat split. left. reflexivity. }
  destruct (ring_overflow fo sys prog inc sup [f; g] F HR d f pile cf (n2 + usize (UFunc g [] [URun f []]))%Z fl vs
              (or_introl eq_refl)) as (ch & Hf & Hlen).
  exists ch. split; [|exact Hlen]. unfold rec_mutual.
  change (@nil event) with (@nil event ++ (@nil event ++ @nil event)).
  eapply FL_Later; [apply E_Func|repeat split|].
  eapply FL_Later; [apply E_Func|repeat split|]. apply FL_Here. exact Hf.
Qed.

End RecPrograms.

(* ================================================================== 4. ... on the interpreter *)
Section RecTransfer.
Variable fo : FloatOps.
Variable dir : path.
Variable prog : program.
Variable fs : fsys.
Hypothesis Hprog : prog_ok dir prog fs.
Hypothesis Hmiss : prog_closed dir prog fs.

(* whatever the stack limit: the error StackOverflow, a trace of exactly limit frames, never a
   success, never a crash (and the function returns: it is a Gallina function) *)
Theorem rec_self_interpreter : forall o entry f,
  (1 <= stack_limit o)%Z -> lookup entry prog = Some (rec_self f) ->
  exists ch, length ch = Z.to_nat (stack_limit o) /\
    compile_items fo o fs (Some (file_of dir entry)) (uitems_of (rec_self f)) =
    (mkGlob [] [], IErr EStackOverflow (Some (map (CoreAllBase.conc_frame dir) ch))).
Proof.
  intros o entry f Hlim Hlk.
  destruct (rec_self_overflow fo (initial_sys fo) prog (include_comments o) (supress_command_not_exist o) f
              (room_of_limit (stack_limit o)) [] entry 1%Z None []) as (ch & Hf & Hlen).
  exists ch. split; [rewrite Hlen; unfold room_of_limit; lia|].
  exact (compile_is_spec_result fo dir prog fs Hprog Hmiss o entry _ (@UFail fo EStackOverflow ch [])
           Hlim Hlk (ex_intro _ _ (conj Hlk Hf))).
Qed.

Theorem rec_mutual_interpreter : forall o entry f g,
  (1 <= stack_limit o)%Z -> str_eqb f g = false -> lookup entry prog = Some (rec_mutual f g) ->
  exists ch, length ch = Z.to_nat (stack_limit o) /\
    compile_items fo o fs (Some (file_of dir entry)) (uitems_of (rec_mutual f g)) =
    (mkGlob [] [], IErr EStackOverflow (Some (map (CoreAllBase.conc_frame dir) ch))).
Proof.
  intros o entry f g Hlim Hne Hlk.
  destruct (rec_mutual_overflow fo (initial_sys fo) prog (include_comments o) (supress_command_not_exist o) f g
              (room_of_limit (stack_limit o)) [] entry 1%Z None [] Hne) as (ch & Hf & Hlen).
  exists ch. split; [rewrite Hlen; unfold room_of_limit; lia|].
  exact (compile_is_spec_result fo dir prog fs Hprog Hmiss o entry _ (@UFail fo EStackOverflow ch [])
           Hlim Hlk (ex_intro _ _ (conj Hlk Hf))).
Qed.

(* THE GENERAL FORM: an entry file every path of which calls a function that calls again: for every
   stack limit a located compile error -- never a success, never a crash, never a hang *)
Theorem calls_again_interpreter : forall o entry stmts S,
  tame_prog fo prog -> (1 <= stack_limit o)%Z -> lookup entry prog = Some stmts -> calls_again S stmts ->
  exists g er ch, ch <> [] /\
    compile_items fo o fs (Some (file_of dir entry)) (uitems_of stmts) =
    (g, IErr er (Some (map (CoreAllBase.conc_frame dir) ch))).
Proof.
  intros o entry stmts S Ht Hlim Hlk Hca.
  destruct (compile_total fo dir prog fs Hprog Hmiss o entry stmts Ht Hlim Hlk) as (r & Hr & Hobs).
  destruct r as [sg F' f' vs' outl ev|er ch ev]; cbn [spec_result_is observes] in *.
  - exfalso. destruct Hr as (st & ev0 & L & D & _). rewrite Hlk in L. injection L as <-.
    exact (calls_again_no_success fo _ prog _ _ _ S stmts [] _ _ _ _ _ _ _ _ _ _ _ Hca (rec_table_nil S) D).
  - exists (CoreAllBase.apply_evs dir ev (mkGlob [] [])), er, ch. split; [|exact Hobs].
    destruct Hr as (st & L & D).
    destruct (ufails_class_all fo (initial_sys fo) prog (include_comments o) (supress_command_not_exist o)) as (_ & Hl & _).
    exact (proj2 (Hl _ _ _ _ _ _ _ _ _ _ _ D)).
Qed.

End RecTransfer.
