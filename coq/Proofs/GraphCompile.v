(* C13 (graphs): Compiler.compile on the entry file of an import graph -- the graph-level theorems. *)
From Coq Require Import NArith ZArith List Bool Lia.
From DS Require Import Base PyStr Values Expr TabParse Tables Constants Interp.
From DS Require Import ScopeProofs MoreProofs StartLaws ImportGraph GraphText GraphRun GraphTheory GraphRing.
Import ListNotations.

Section Compile.
Variable fo : FloatOps.

(* compile of the entry file of a graph: its text is the one the file system holds *)
Definition compile_entry (o : options) (dir : path) (g : graph) (entry : name) (imps : imports) : glob * ires (compiled fo) :=
  compile_text fo o (graph_fs dir g) (Some (file_of dir entry)) (file_text entry imps).

Lemma entry_text : forall dir g entry imps, lookup entry g = Some imps ->
  graph_fs dir g (file_of dir entry) = Some (file_text entry imps).
Proof. intros dir g entry imps H. rewrite graph_fs_file, H. reflexivity. Qed.

Definition accepted (out : list name) : compiled fo :=
  mkCompiled fo (marker_out string_cname out) [] (initial_env fo) [].

Definition verdict_of (dir : path) (r : gres) : ires (compiled fo) :=
  match r with
  | GOk out => IOk (accepted out)
  | GCircular ch => IErr ECircular (Some (frames dir ch))
  | GMissing ch => IErr EInvalidArguments (Some (frames dir ch))
  | GOverflow ch => IErr EStackOverflow (Some (frames dir ch))
  | GFuel => IUnmod
  end.

(* the output lines of an accepted graph are the marker lines  STRING <file>  in visit order *)
Lemma accepted_texts : forall l, map o_text (out fo (accepted l)) = map marker_ln l.
Proof. intro l. unfold accepted, marker_out. cbn [out]. rewrite map_map. reflexivity. Qed.

(* ================================================================== the correspondence *)
Theorem compile_graph : forall o dir g entry imps,
  graph_ok g -> lookup entry g = Some imps ->
  compile_entry o dir g entry imps = (mkGlob [] [], verdict_of dir (gtraverse (stack_limit o) g entry)).
Proof.
  intros o dir g entry imps Hg Hl. unfold compile_entry, compile_text.
  destruct (graph_ok_lookup g entry imps Hg Hl) as [Hn Hi].
  rewrite (prepare_file_text entry imps Hn Hi). unfold compile_items.
  change (mkCtx o (graph_fs dir g) [] (Some (file_of dir entry))) with (ctx_of o dir g [] entry).
  pose proof (gtraverse_no_fuel (stack_limit o) g entry) as Hnf.
  rewrite (gvisit_run fo o dir g Hg (S (Z.to_nat (stack_limit o))) (run_depth o) [] entry imps (mkGlob [] [])).
  - fold (gtraverse (stack_limit o) g entry).
    destruct (gtraverse (stack_limit o) g entry); try reflexivity.
  - unfold run_depth. cbn [length]. lia.
  - exact Hl.
  - exact Hnf.
Qed.

(* the files and lines of a trace are those of the chain *)
Lemma frames_files : forall dir ch, map fr_file (frames dir ch) = map (fun l => Some (file_of dir (lk_file l))) ch.
Proof. intros. unfold frames. rewrite map_map. reflexivity. Qed.

Lemma frames_lines : forall dir ch,
  map fr_line (frames dir ch) = map (fun l => (edge_ln (lk_var l) (lk_target l), lk_num l)) ch.
Proof. intros. unfold frames. rewrite map_map. reflexivity. Qed.

(* ================================================================== 2. acyclic graphs are accepted *)
Theorem acyclic_accepts : forall o dir g entry imps (rank : name -> nat),
  graph_ok g -> lookup entry g = Some imps ->
  (forall n m, reach g entry n -> edge g n m -> lookup m g <> None /\ (rank m < rank n)%nat) ->
  (Z.of_nat (rank entry) < stack_limit o)%Z ->
  compile_entry o dir g entry imps = (mkGlob [] [], IOk (accepted (preorder (rank entry) g entry))).
Proof.
  intros o dir g entry imps rank Hg Hl Hrank HL.
  rewrite (compile_graph o dir g entry imps Hg Hl).
  rewrite (acyclic_traverse (stack_limit o) g entry rank Hrank); [reflexivity|rewrite Hl; discriminate|exact HL].
Qed.

(* ================================================================== 3. cycles are rejected *)
(* whenever the traversal meets an import of a live file before any other error: ECircular, nothing
   is compiled after it, and the trace is the chain of imports from the entry to that import *)
Theorem cycle_rejects : forall o dir g entry imps ch,
  graph_ok g -> lookup entry g = Some imps ->
  gtraverse (stack_limit o) g entry = GCircular ch ->
  compile_entry o dir g entry imps = (mkGlob [] [], IErr ECircular (Some (frames dir ch))) /\
  exists pre l, ch = pre ++ [l] /\ is_chain g entry ch /\ NoDup (map lk_file ch) /\
                In (lk_target l) (map lk_file ch) /\
                map fr_file (frames dir ch) = map (fun l => Some (file_of dir (lk_file l))) ch.
Proof.
  intros o dir g entry imps ch Hg Hl Ht. split.
  - rewrite (compile_graph o dir g entry imps Hg Hl), Ht. reflexivity.
  - assert (Hle : lookup entry g <> None) by (rewrite Hl; discriminate).
    destruct (traverse_total (stack_limit o) g entry Hle) as [(out & Ht' & _)|(pre & l & Hc & Hnd & [[Ht' Hin]|[[Ht' _]|[Ht' _]]])];
      rewrite Ht in Ht'; try discriminate.
    injection Ht' as ->. exists pre, l. split; [reflexivity|]. split; [exact Hc|]. split; [exact Hnd|].
    split; [exact Hin|apply frames_files].
Qed.

(* a cycle reached by following first imports, entered anywhere, after any prefix *)
Theorem first_import_cycle_rejected : forall o dir g x p' t imps,
  graph_ok g -> lookup x g = Some imps ->
  first_path g (x :: p') t -> NoDup (x :: p') -> In t (x :: p') ->
  (Z.of_nat (length (x :: p')) <= stack_limit o)%Z ->
  compile_entry o dir g x imps =
  (mkGlob [] [], IErr ECircular (Some (frames dir (map (first_link g) (x :: p'))))).
Proof.
  intros o dir g x p' t imps Hg Hl Hfp Hnd Hin HL.
  rewrite (compile_graph o dir g x imps Hg Hl).
  rewrite (first_import_cycle (stack_limit o) g x p' t Hfp Hnd Hin HL). reflexivity.
Qed.

(* the ring of the files a ++ e :: b (in this cyclic order), entered at e *)
Theorem ring_rejected : forall o dir a e b,
  Forall (fun n => name_ok n = true) (a ++ e :: b) -> NoDup (a ++ e :: b) ->
  (Z.of_nat (length (a ++ e :: b)) <= stack_limit o)%Z ->
  compile_entry o dir (ring (a ++ e :: b)) e [(VStart, hd (hd e a) b)] =
  (mkGlob [] [], IErr ECircular (Some (frames dir (ring_links (e :: b ++ a) e)))).
Proof.
  intros o dir a e b Hok Hnd HL.
  rewrite (compile_graph o dir _ e _ (ring_ok _ Hok) (ring_entry_lookup a e b Hnd)).
  rewrite (ring_traverse (stack_limit o) a e b Hnd HL). reflexivity.
Qed.

Corollary self_import_rejected : forall o dir a, name_ok a = true -> (1 <= stack_limit o)%Z ->
  compile_entry o dir [(a, [(VStart, a)])] a [(VStart, a)] =
  (mkGlob [] [], IErr ECircular (Some [frame_of_link dir (mkLink a 2%Z VStart a)])).
Proof.
  intros o dir a Ha HL.
  apply (ring_rejected o dir [] a []); [constructor; [exact Ha|constructor]|constructor; [intros []|constructor]|cbn; lia].
Qed.

(* any word, any further imports, ANY stack limit (the circularity test comes before the limit test) *)
Corollary self_import_rejected_any_limit : forall o dir a v rest,
  graph_ok [(a, (v, a) :: rest)] ->
  compile_entry o dir [(a, (v, a) :: rest)] a ((v, a) :: rest) =
  (mkGlob [] [], IErr ECircular (Some [frame_of_link dir (mkLink a 2%Z v a)])).
Proof.
  intros o dir a v rest Hg. rewrite (compile_graph o dir _ a ((v, a) :: rest) Hg).
  - rewrite self_import_any_limit. reflexivity.
  - cbn [lookup]. rewrite str_eqb_refl. reflexivity.
Qed.

Corollary two_cycle_rejected : forall o dir a b, name_ok a = true -> name_ok b = true -> a <> b ->
  (2 <= stack_limit o)%Z ->
  compile_entry o dir [(a, [(VStart, b)]); (b, [(VStart, a)])] a [(VStart, b)] =
  (mkGlob [] [], IErr ECircular (Some [frame_of_link dir (mkLink a 2%Z VStart b); frame_of_link dir (mkLink b 2%Z VStart a)])) /\
  compile_entry o dir [(a, [(VStart, b)]); (b, [(VStart, a)])] b [(VStart, a)] =
  (mkGlob [] [], IErr ECircular (Some [frame_of_link dir (mkLink b 2%Z VStart a); frame_of_link dir (mkLink a 2%Z VStart b)])).
Proof.
  intros o dir a b Ha Hb Hab HL.
  assert (Hnd : NoDup [a; b]).
  { constructor; [intros [H|[]]; apply Hab; symmetry; exact H|constructor; [intros []|constructor]]. }
  assert (Hok : Forall (fun n => name_ok n = true) [a; b]) by (constructor; [exact Ha|constructor; [exact Hb|constructor]]).
  split.
  - apply (ring_rejected o dir [] a [b] Hok Hnd). cbn. lia.
  - apply (ring_rejected o dir [a] b [] Hok Hnd). cbn. lia.
Qed.

(* ================================================================== 4. the decision *)
(* no side condition on the graph: compile of the entry returns exactly one of four verdicts *)
Theorem compile_graph_total : forall o dir g entry imps,
  graph_ok g -> lookup entry g = Some imps ->
  (exists out, compile_entry o dir g entry imps = (mkGlob [] [], IOk (accepted out)) /\
               ~ cycle_reachable g entry /\ closed_from g entry) \/
  (exists pre l, is_chain g entry (pre ++ [l]) /\ NoDup (map lk_file (pre ++ [l])) /\
     ((compile_entry o dir g entry imps = (mkGlob [] [], IErr ECircular (Some (frames dir (pre ++ [l])))) /\
       In (lk_target l) (map lk_file (pre ++ [l]))) \/
      (compile_entry o dir g entry imps = (mkGlob [] [], IErr EInvalidArguments (Some (frames dir (pre ++ [l])))) /\
       lookup (lk_target l) g = None) \/
      (compile_entry o dir g entry imps = (mkGlob [] [], IErr EStackOverflow (Some (frames dir (pre ++ [l])))) /\
       (stack_limit o <= Z.of_nat (length (pre ++ [l])))%Z /\
       lookup (lk_target l) g <> None /\ ~ In (lk_target l) (map lk_file (pre ++ [l]))))).
Proof.
  intros o dir g entry imps Hg Hl. rewrite (compile_graph o dir g entry imps Hg Hl).
  assert (Hle : lookup entry g <> None) by (rewrite Hl; discriminate).
  destruct (traverse_total (stack_limit o) g entry Hle) as [(out & Ht & H1 & H2)|(pre & l & Hc & Hnd & [[Ht Hin]|[[Ht Hm]|(Ht & Hrest)]])].
  - left. exists out. rewrite Ht. split; [reflexivity|split; assumption].
  - right. exists pre, l. split; [exact Hc|]. split; [exact Hnd|]. left. rewrite Ht. split; [reflexivity|exact Hin].
  - right. exists pre, l. split; [exact Hc|]. split; [exact Hnd|]. right. left. rewrite Ht. split; [reflexivity|exact Hm].
  - right. exists pre, l. split; [exact Hc|]. split; [exact Hnd|]. right. right. rewrite Ht. split; [reflexivity|exact Hrest].
Qed.

(* every import of a reachable file names a file of the graph, limit above the number of files:
   accepted iff no cycle can be reached, otherwise ECircular with the chain *)
Theorem decide : forall o dir g entry imps,
  graph_ok g -> lookup entry g = Some imps -> closed_from g entry ->
  (Z.of_nat (length g) < stack_limit o)%Z ->
  (exists out, compile_entry o dir g entry imps = (mkGlob [] [], IOk (accepted out)) /\ ~ cycle_reachable g entry) \/
  (exists pre l, compile_entry o dir g entry imps = (mkGlob [] [], IErr ECircular (Some (frames dir (pre ++ [l])))) /\
     cycle_reachable g entry /\ is_chain g entry (pre ++ [l]) /\ NoDup (map lk_file (pre ++ [l])) /\
     In (lk_target l) (map lk_file (pre ++ [l]))).
Proof.
  intros o dir g entry imps Hg Hl Hcl HL. rewrite (compile_graph o dir g entry imps Hg Hl).
  assert (Hle : lookup entry g <> None) by (rewrite Hl; discriminate).
  destruct (traverse_decide (stack_limit o) g entry Hle Hcl HL) as [(out & Ht & Hnc)|(pre & l & Ht & Hrest)].
  - left. exists out. rewrite Ht. split; [reflexivity|exact Hnc].
  - right. exists pre, l. rewrite Ht. split; [reflexivity|exact Hrest].
Qed.

Corollary accepted_iff_no_cycle : forall o dir g entry imps,
  graph_ok g -> lookup entry g = Some imps -> closed_from g entry ->
  (Z.of_nat (length g) < stack_limit o)%Z ->
  ((exists gl c, compile_entry o dir g entry imps = (gl, IOk c)) <-> ~ cycle_reachable g entry).
Proof.
  intros o dir g entry imps Hg Hl Hcl HL.
  destruct (decide o dir g entry imps Hg Hl Hcl HL) as [(out & Hc & Hnc)|(pre & l & Hc & Hcy & _)]; rewrite Hc; split.
  - intros _. exact Hnc.
  - intros _. eexists. eexists. reflexivity.
  - intros (gl & c & H). discriminate.
  - intro H. contradiction.
Qed.

(* without any side condition: an accepted graph has no reachable cycle *)
Corollary accepted_no_cycle : forall o dir g entry imps gl c,
  graph_ok g -> lookup entry g = Some imps ->
  compile_entry o dir g entry imps = (gl, IOk c) -> ~ cycle_reachable g entry /\ closed_from g entry.
Proof.
  intros o dir g entry imps gl c Hg Hl H.
  destruct (compile_graph_total o dir g entry imps Hg Hl) as [(out & _ & H1 & H2)|(pre & l & _ & _ & [[Hc _]|[[Hc _]|[Hc _]]])];
    try (rewrite Hc in H; discriminate).
  split; assumption.
Qed.

(* ================================================================== the word does not matter *)
(* the circularity verdict of a START-family command does not depend on the word used, on the
   child runner, on the state: it is [circ cx target] *)
Theorem circular_verdict_ignores_word : forall (child1 child2 : runner fo) cx cur cname sc name1 name2 l file target text s1 s2,
  s_run sc = RKStart -> c_file cx = Some file ->
  resolve_start file (content_text (l_content l)) = Ok target -> c_fs cx target = Some text ->
  circ cx target = true ->
  run_compile fo child1 cx cur cname sc name1 (Some l) s1 = (s1, IErr ECircular (Some (here cx cur (s_line2 s1)))) /\
  run_compile fo child2 cx cur cname sc name2 (Some l) s2 = (s2, IErr ECircular (Some (here cx cur (s_line2 s2)))).
Proof.
  intros child1 child2 cx cur cname sc name1 name2 [a num orig] file target text s1 s2 Hr Hf Hres Hfs Hc.
  split; eapply start_cycle_rejected; try eassumption; rewrite circ_test_eq; exact Hc.
Qed.

(* at graph level: relabelling the imports with other words of the family changes neither the
   verdict class nor the files of the chain *)
Definition relabel (f : variant -> variant) (g : graph) : graph :=
  map (fun p => (fst p, map (fun e => (f (fst e), snd e)) (snd p))) g.

Definition relabel_link (f : variant -> variant) (l : link) : link :=
  mkLink (lk_file l) (lk_num l) (f (lk_var l)) (lk_target l).

Definition same_verdict (f : variant -> variant) (r r' : gres) : Prop :=
  match r, r' with
  | GOk _, GOk _ => True
  | GCircular c, GCircular c' | GMissing c, GMissing c' | GOverflow c, GOverflow c' => c' = map (relabel_link f) c
  | GFuel, GFuel => True
  | _, _ => False
  end.

Lemma lookup_relabel : forall f g n,
  lookup n (relabel f g) = option_map (map (fun e : variant * name => (f (fst e), snd e))) (lookup n g).
Proof.
  intros f g n. induction g as [|[n' imps] r IH]; [reflexivity|]. cbn [relabel map lookup fst snd].
  destruct (str_eqb n n'); [reflexivity|exact IH].
Qed.

Lemma gedges_relabel : forall L f g visit visit' links n,
  (forall links0 m, same_verdict f (visit links0 m) (visit' (map (relabel_link f) links0) m)) ->
  forall imps k acc acc',
    same_verdict f (gedges L g visit links n imps k acc)
      (gedges L (relabel f g) visit' (map (relabel_link f) links) n
              (map (fun e : variant * name => (f (fst e), snd e)) imps) k acc').
Proof.
  intros L f g visit visit' links n Hv. induction imps as [|[v m] r IH]; intros k acc acc'; cbn [map gedges fst snd].
  - exact I.
  - rewrite lookup_relabel.
    assert (Hlive : live (map (relabel_link f) links) n = live links n).
    { unfold live. rewrite map_map. reflexivity. }
    rewrite Hlive, map_length.
    assert (Hl' : map (relabel_link f) links ++ [mkLink n k (f v) m] = map (relabel_link f) (links ++ [mkLink n k v m])).
    { rewrite map_app. reflexivity. }
    destruct (lookup m g) as [mimps|]; cbn [option_map]; [|exact Hl'].
    destruct (str_in m (live links n)); [exact Hl'|].
    destruct (L <=? Z.of_nat (length links) + 1)%Z; [exact Hl'|].
    rewrite Hl'. specialize (Hv (links ++ [mkLink n k v m]) m).
    destruct (visit (links ++ [mkLink n k v m]) m), (visit' (map (relabel_link f) (links ++ [mkLink n k v m])) m);
      try contradiction; try exact Hv; try exact I.
    apply IH.
Qed.

Theorem verdict_ignores_words : forall L f g fuel links n,
  same_verdict f (gvisit L g fuel links n) (gvisit L (relabel f g) fuel (map (relabel_link f) links) n).
Proof.
  intros L f g. induction fuel as [|fu IH]; intros links n; [exact I|]. cbn [gvisit].
  rewrite lookup_relabel. destruct (lookup n g) as [imps|]; cbn [option_map]; [|reflexivity].
  apply gedges_relabel. exact IH.
Qed.

End Compile.
