(* CoreAllLoops -- REPEAT on the unified reference semantics (Spec/CoreAll.v), specification only:
     [iters]              the iterations k .. j-1 of a loop, run in order, each with the counter bound
                          to its index, each going on (Normal or CONTINUELOOP), outputs concatenated;
     [repeat_exact]       when the count is the constant m: a derivation of the loop IS either all the
                          iterations k .. m-1 (signal Normal), or the iterations k .. j-1 followed by an
                          iteration j < m that stops (BREAKLOOP: signal Normal; RETURN: Returned), with the
                          output of the iterations 0 .. j (the partial j-th included) kept;
     [break_in_body] ...  BREAKLOOP / CONTINUELOOP in a body keep the output made before them;
     [inner_break_outer_goes_on]  the BREAKLOOP of an inner loop ends the inner loop only;
     [counter_gone] ...   the counter after the loop. *)
From Coq Require Import NArith ZArith List Bool Lia.
From DS Require Import Base PyStr Values Expr TabParse Tables Constants Interp ScopeProofs PasteBase.
From DS Require Import CoreLang CoreRefine CoreFunc CoreAll CoreAllKeys CoreAllDet CoreAllDepth.
Import ListNotations.

Section Loops.
Variable fo : FloatOps.
Variable sys : store fo.
Variable prog : program.
Variable inc : bool.
Variable sup : bool.

Notation exec := (CoreAll.exec fo sys prog inc sup).
Notation exec_list := (CoreAll.exec_list fo sys prog inc sup).
Notation exec_repeat := (CoreAll.exec_repeat fo sys prog inc sup).
Notation eval := (CoreLang.eval fo sys).

(* one step of a REPEAT derivation *)
Lemma exec_repeat_inv : forall D pile cf n F f c e body k vs sg vs' out ev,
  exec_repeat D pile cf n F f c e body k vs sg vs' out ev ->
  (exists v m', eval f vs e v /\ count_of fo v = Some m' /\ (0 <= m' <= loop_max)%Z /\ (m' <= k)%Z /\
     sg = Normal /\ vs' = vs /\ out = [] /\ ev = []) \/
  (exists d0 v m' sgb F1 f1 vs1 o1 e1 o2 e2,
     D = S d0 /\ eval f vs e v /\ count_of fo v = Some m' /\ (0 <= m' <= loop_max)%Z /\ (k < m')%Z /\
     exec_list d0 (pile ++ [mkSF cf (repeat_head c e) n false]) cf (n + 1) F None (with_counter fo c k vs) body sgb F1 f1 vs1 o1 e1 /\
     goes_on sgb /\
     exec_repeat (S d0) pile cf n F f c e body (k + 1) (copy_back fo vs vs1) sg vs' o2 e2 /\
     out = o1 ++ o2 /\ ev = e1 ++ e2) \/
  (exists d0 v m' sgb F1 f1 vs1,
     D = S d0 /\ eval f vs e v /\ count_of fo v = Some m' /\ (0 <= m' <= loop_max)%Z /\ (k < m')%Z /\
     exec_list d0 (pile ++ [mkSF cf (repeat_head c e) n false]) cf (n + 1) F None (with_counter fo c k vs) body sgb F1 f1 vs1 out ev /\
     stops sgb /\ sg = loop_end sgb /\ vs' = copy_back fo vs vs1).
Proof.
  intros D pile cf n F f c e body k vs sg vs' out ev H. inversion H; subst.
  - left. do 2 eexists. repeat (split; [first [eassumption|reflexivity]|]). reflexivity.
  - right. left. do 11 eexists. repeat (split; [first [eassumption|reflexivity]|]). reflexivity.
  - right. right. do 7 eexists. repeat (split; [first [eassumption|reflexivity]|]). reflexivity.
Qed.

Lemma exec_repeat_stmt_inv : forall D pile cf n F f vs c e body sg F' f' vs' out ev,
  exec D pile cf n F f vs (URepeat c e body) sg F' f' vs' out ev ->
  F' = F /\ f' = f /\ exec_repeat D pile cf n F f c e body 0 vs sg vs' out ev.
Proof.
  intros D pile cf n F f vs c e body sg F' f' vs' out ev H. inversion H; subst.
  split; [reflexivity|]. split; [reflexivity|assumption].
Qed.

(* ================================================================== one loop *)
Section OneLoop.
(* the loop REPEAT [c,]e / body written at line n of file cf under the stacks pile, its bodies
   running with room d, the function table F and the flag f at the loop *)
Variable d : nat.
Variable pile : list sframe.
Variable cf : str.
Variable n : Z.
Variable F : utable.
Variable f : option bool.
Variable c : option str.
Variable e : str.
Variable body : list ustmt.

Definition loop_pile : list sframe := pile ++ [mkSF cf (repeat_head c e) n false].

(* one run of the body as iteration k from the store vs *)
Definition body_run (k : Z) (vs : store fo) (sg : fsig) (vs1 : store fo) (o : list uline) (ev : list event) : Prop :=
  exists F1 f1, exec_list d loop_pile cf (n + 1) F None (with_counter fo c k vs) body sg F1 f1 vs1 o ev.

(* iters k vs j vs' out ev: the iterations k, k+1, .., j-1 run in this order; iteration i runs the
   body on the store left by iteration i-1 with the counter bound to i, and goes on; the loop's
   store after each is copy_back; outputs and events are concatenated *)
Inductive iters : Z -> store fo -> Z -> store fo -> list uline -> list event -> Prop :=
| I_nil : forall k vs, iters k vs k vs [] []
| I_cons : forall k vs sg vs1 o1 e1 j vs' o2 e2,
    body_run k vs sg vs1 o1 e1 -> goes_on sg ->
    iters (k + 1) (copy_back fo vs vs1) j vs' o2 e2 ->
    iters k vs j vs' (o1 ++ o2) (e1 ++ e2).

Lemma body_run_meaning : forall k vs sg vs1 o ev,
  body_run k vs sg vs1 o ev <->
  exists F1 f1, exec_list d (pile ++ [mkSF cf (repeat_head c e) n false]) cf (n + 1) F None (with_counter fo c k vs) body
                          sg F1 f1 vs1 o ev.
Proof. intros. reflexivity. Qed.

Lemma iters_unfold : forall k vs j vs' out ev,
  iters k vs j vs' out ev <->
  (j = k /\ vs' = vs /\ out = [] /\ ev = []) \/
  (exists sg vs1 o1 e1 o2 e2, body_run k vs sg vs1 o1 e1 /\ goes_on sg /\
     iters (k + 1) (copy_back fo vs vs1) j vs' o2 e2 /\ out = o1 ++ o2 /\ ev = e1 ++ e2).
Proof.
  intros k vs j vs' out ev. split.
  - intro H. destruct H as [k vs|k vs sg vs1 o1 e1 j vs' o2 e2 Hb Hg Hr].
    + left. repeat split.
    + right. exists sg, vs1, o1, e1, o2, e2. repeat (split; [assumption|]). split; reflexivity.
  - intros [(-> & -> & -> & ->)|(sg & vs1 & o1 & e1 & o2 & e2 & Hb & Hg & Hr & -> & ->)].
    + apply I_nil.
    + eapply I_cons; eauto.
Qed.

Lemma iters_le : forall k vs j vs' o ev, iters k vs j vs' o ev -> (k <= j)%Z.
Proof. intros k vs j vs' o ev H. induction H as [|k vs sg vs1 o1 e1 j vs' o2 e2 _ _ _ IH]; lia. Qed.

(* exactly j - k body runs: the list of (counter value, signal) of the runs *)
Inductive iters_trace : Z -> store fo -> Z -> store fo -> list (Z * fsig) -> Prop :=
| IT_nil : forall k vs, iters_trace k vs k vs []
| IT_cons : forall k vs sg vs1 o1 e1 j vs' tr,
    body_run k vs sg vs1 o1 e1 -> goes_on sg ->
    iters_trace (k + 1) (copy_back fo vs vs1) j vs' tr ->
    iters_trace k vs j vs' ((k, sg) :: tr).

Lemma iters_has_trace : forall k vs j vs' o ev, iters k vs j vs' o ev ->
  exists tr, iters_trace k vs j vs' tr /\ map fst tr = map (fun i => (k + Z.of_nat i)%Z) (seq 0 (Z.to_nat (j - k))).
Proof.
  intros k vs j vs' o ev H. induction H as [k vs|k vs sg vs1 o1 e1 j vs' o2 e2 Hb Hg Hr (tr & Ht & Hm)].
  - exists []. split; [constructor|]. rewrite Z.sub_diag. reflexivity.
  - exists ((k, sg) :: tr). split; [econstructor; eauto|].
    pose proof (iters_le _ _ _ _ _ _ Hr) as Hle.
    replace (Z.to_nat (j - k)) with (S (Z.to_nat (j - (k + 1)))) by lia.
    cbn [seq map fst]. rewrite Z.add_0_r. f_equal. rewrite Hm, <- seq_shift, map_map.
    apply map_ext. intro i. lia.
Qed.

(* appending one iteration at the end *)
Lemma iters_snoc : forall k vs j vsj o1 e1 sg vs1 o2 e2,
  iters k vs j vsj o1 e1 -> body_run j vsj sg vs1 o2 e2 -> goes_on sg ->
  iters k vs (j + 1) (copy_back fo vsj vs1) (o1 ++ o2) (e1 ++ e2).
Proof.
  intros k vs j vsj o1 e1 sg vs1 o2 e2 H. induction H as [k vs|k vs sg0 vs0 oa ea j vsj ob eb Hb Hg Hr IH]; intros Hrun Hgo.
  - cbn [app]. rewrite <- (app_nil_r o2), <- (app_nil_r e2). eapply I_cons; [exact Hrun|exact Hgo|apply I_nil].
  - rewrite <- !app_assoc. eapply I_cons; [exact Hb|exact Hg|]. exact (IH Hrun Hgo).
Qed.

(* names: a body run, and a sequence of iterations, leave the names of the loop's store as they are *)
Lemma body_run_names : forall k vs sg vs1 o ev, body_run k vs sg vs1 o ev -> map fst (copy_back fo vs vs1) = map fst vs.
Proof.
  intros k vs sg vs1 o ev (F1 & f1 & H).
  destruct (keys_list fo sys prog inc sup _ _ _ _ _ _ _ _ _ _ _ _ _ _ H) as (_ & Hk & _).
  apply names_copy_back. exact (kext_trans _ _ _ _ (kext_with_counter fo c k vs) Hk).
Qed.

Lemma iters_names : forall k vs j vs' o ev, iters k vs j vs' o ev -> map fst vs' = map fst vs.
Proof.
  intros k vs j vs' o ev H. induction H as [|k vs sg vs1 o1 e1 j vs' o2 e2 Hb _ _ IH]; [reflexivity|].
  rewrite IH. exact (body_run_names _ _ _ _ _ _ Hb).
Qed.

(* the last iteration of a non-empty run *)
Lemma iters_last : forall k vs j vs' o ev, iters k vs j vs' o ev -> (k < j)%Z ->
  exists vsl oa ea sg vs1 ob eb,
    iters k vs (j - 1) vsl oa ea /\ body_run (j - 1) vsl sg vs1 ob eb /\ goes_on sg /\
    vs' = copy_back fo vsl vs1 /\ o = oa ++ ob /\ ev = ea ++ eb.
Proof.
  intros k vs j vs' o ev H. induction H as [k vs|k vs sg vs1 o1 e1 j vs' o2 e2 Hb Hg Hr IH]; intro Hlt; [lia|].
  pose proof (iters_le _ _ _ _ _ _ Hr) as Hle.
  destruct (Z.eq_dec (k + 1) j) as [E|E].
  - subst j. inversion Hr as [? ?|? ? ? ? ? ? ? ? ? ? Hb2 _ Hr2]; subst.
    + exists vs, [], [], sg, vs1, o1, e1. replace (k + 1 - 1)%Z with k by lia.
      split; [apply I_nil|]. split; [exact Hb|]. split; [exact Hg|]. split; [reflexivity|].
      rewrite !app_nil_r. split; reflexivity.
    + pose proof (iters_le _ _ _ _ _ _ Hr2). lia.
  - destruct (IH ltac:(lia)) as (vsl & oa & ea & sgl & vsl1 & ob & eb & Hi & Hbl & Hgl & -> & -> & ->).
    exists vsl, (o1 ++ oa), (e1 ++ ea), sgl, vsl1, ob, eb.
    split; [eapply I_cons; eauto|]. split; [exact Hbl|]. split; [exact Hgl|]. split; [reflexivity|].
    rewrite !app_assoc. split; reflexivity.
Qed.

(* ------------------------------------------------------------------ the loop with a constant count *)
Variable m : Z.
(* the count expression evaluates to m whatever the store (for instance: a literal) *)
Hypothesis Hcount : forall vs, exists v, eval f vs e v /\ count_of fo v = Some m.
Hypothesis Hm : (0 <= m <= loop_max)%Z.

Lemma count_is : forall vs v m', eval f vs e v -> count_of fo v = Some m' -> m' = m.
Proof.
  intros vs v m' Hv Hc. destruct (Hcount vs) as (v0 & Hv0 & Hc0).
  rewrite (eval_fun fo sys _ _ _ _ _ Hv Hv0) in Hc. rewrite Hc0 in Hc. injection Hc as <-. reflexivity.
Qed.

(* the two ways a loop can end *)
Definition all_iterations (k : Z) (vs : store fo) (sg : fsig) (vs' : store fo) (out : list uline) (ev : list event) : Prop :=
  sg = Normal /\ iters k vs m vs' out ev.
Definition stopped_at (k : Z) (vs : store fo) (sg : fsig) (vs' : store fo) (out : list uline) (ev : list event) : Prop :=
  exists j vsj o1 e1 sgb vs1 o2 e2,
    (k <= j < m)%Z /\ iters k vs j vsj o1 e1 /\ body_run j vsj sgb vs1 o2 e2 /\ stops sgb /\
    sg = loop_end sgb /\ vs' = copy_back fo vsj vs1 /\ out = o1 ++ o2 /\ ev = e1 ++ e2.

Lemma all_iterations_meaning : forall k vs sg vs' out ev,
  all_iterations k vs sg vs' out ev <-> (sg = Normal /\ iters k vs m vs' out ev).
Proof. intros. reflexivity. Qed.

Lemma stopped_at_meaning : forall k vs sg vs' out ev,
  stopped_at k vs sg vs' out ev <->
  exists j vsj o1 e1 sgb vs1 o2 e2,
    (k <= j < m)%Z /\ iters k vs j vsj o1 e1 /\ body_run j vsj sgb vs1 o2 e2 /\ stops sgb /\
    sg = loop_end sgb /\ vs' = copy_back fo vsj vs1 /\ out = o1 ++ o2 /\ ev = e1 ++ e2.
Proof. intros. reflexivity. Qed.

(* from the pieces to the loop *)
Lemma repeat_of_iters_gen : forall k vs j vs' out ev, iters k vs j vs' out ev -> j = m ->
  exec_repeat (S d) pile cf n F f c e body k vs Normal vs' out ev.
Proof.
  intros k vs j vs' out ev H.
  induction H as [k vs|k vs sg vs1 o1 e1 j vs' o2 e2 (F1 & f1 & Hb) Hg Hr IH]; intro Ej.
  - destruct (Hcount vs) as (v & Hv & Hc). eapply R_Done; [exact Hv|exact Hc|exact Hm|lia].
  - destruct (Hcount vs) as (v & Hv & Hc). pose proof (iters_le _ _ _ _ _ _ Hr) as Hle.
    eapply R_Iter; [exact Hv|exact Hc|exact Hm|lia|exact Hb|exact Hg|exact (IH Ej)].
Qed.

Lemma repeat_of_iters : forall k vs vs' out ev, iters k vs m vs' out ev ->
  exec_repeat (S d) pile cf n F f c e body k vs Normal vs' out ev.
Proof. intros k vs vs' out ev H. exact (repeat_of_iters_gen _ _ _ _ _ _ H eq_refl). Qed.

Lemma repeat_of_stop : forall k vs j vsj o1 e1 sgb vs1 o2 e2,
  iters k vs j vsj o1 e1 -> (j < m)%Z -> body_run j vsj sgb vs1 o2 e2 -> stops sgb ->
  exec_repeat (S d) pile cf n F f c e body k vs (loop_end sgb) (copy_back fo vsj vs1) (o1 ++ o2) (e1 ++ e2).
Proof.
  intros k vs j vsj o1 e1 sgb vs1 o2 e2 H.
  induction H as [k vs|k vs sg vs0 oa ea j vsj ob eb (F1 & f1 & Hb) Hg Hr IH]; intros Hj (F2 & f2 & Hrun) Hst.
  - destruct (Hcount vs) as (v & Hv & Hc). cbn [app].
    eapply R_Stop; [exact Hv|exact Hc|exact Hm|exact Hj|exact Hrun|exact Hst].
  - destruct (Hcount vs) as (v & Hv & Hc). pose proof (iters_le _ _ _ _ _ _ Hr) as Hle.
    rewrite <- !app_assoc.
    eapply R_Iter; [exact Hv|exact Hc|exact Hm|lia|exact Hb|exact Hg|].
    apply IH; [exact Hj|exists F2, f2; exact Hrun|exact Hst].
Qed.

(* from the loop to the pieces *)
Lemma repeat_decompose : forall t k vs sg vs' out ev, (k <= m)%Z -> Z.to_nat (m - k) = t ->
  exec_repeat (S d) pile cf n F f c e body k vs sg vs' out ev ->
  all_iterations k vs sg vs' out ev \/ stopped_at k vs sg vs' out ev.
Proof.
  induction t as [|t IH]; intros k vs sg vs' out ev Hk Ht H.
  - assert (k = m) by lia. subst k.
    destruct (exec_repeat_inv _ _ _ _ _ _ _ _ _ _ _ _ _ _ _ H)
      as [(v & m' & Hv & Hc & Hr & Hle & -> & -> & -> & ->)
         |[(d0 & v & m' & sgb & F1 & f1 & vs1 & o1 & e1 & o2 & e2 & Ed & Hv & Hc & Hr & Hlt & _)
          |(d0 & v & m' & sgb & F1 & f1 & vs1 & Ed & Hv & Hc & Hr & Hlt & _)]].
    + left. split; [reflexivity|apply I_nil].
    + pose proof (count_is _ _ _ Hv Hc). lia.
    + pose proof (count_is _ _ _ Hv Hc). lia.
  - destruct (exec_repeat_inv _ _ _ _ _ _ _ _ _ _ _ _ _ _ _ H)
      as [(v & m' & Hv & Hc & Hr & Hle & -> & -> & -> & ->)
         |[(d0 & v & m' & sgb & F1 & f1 & vs1 & o1 & e1 & o2 & e2 & Ed & Hv & Hc & Hr & Hlt & Hb & Hg & Hrest & -> & ->)
          |(d0 & v & m' & sgb & F1 & f1 & vs1 & Ed & Hv & Hc & Hr & Hlt & Hb & Hst & -> & ->)]].
    + pose proof (count_is _ _ _ Hv Hc). lia.
    + injection Ed as <-.
      assert (Hrun : body_run k vs sgb vs1 o1 e1) by (exists F1, f1; exact Hb).
      destruct (IH (k + 1)%Z _ _ _ _ _ ltac:(lia) ltac:(lia) Hrest) as [[-> Hi]|Hs].
      * left. split; [reflexivity|]. eapply I_cons; eauto.
      * right. destruct Hs as (j & vsj & oa & ea & sgs & vss & ob & eb & Hj & Hi & Hbs & Hst & -> & -> & -> & ->).
        exists j, vsj, (o1 ++ oa), (e1 ++ ea), sgs, vss, ob, eb.
        split; [lia|]. split; [eapply I_cons; eauto|]. split; [exact Hbs|]. split; [exact Hst|].
        rewrite !app_assoc. repeat split.
    + injection Ed as <-.
      right. exists k, vs, [], [], sgb, vs1, out, ev. pose proof (count_is _ _ _ Hv Hc).
      split; [lia|]. split; [apply I_nil|]. split; [exists F1, f1; exact Hb|]. split; [exact Hst|]. repeat split.
Qed.

(* REPEAT_EXACT, from iteration k on *)
Theorem repeat_exact_from : forall k vs sg vs' out ev, (k <= m)%Z ->
  (exec_repeat (S d) pile cf n F f c e body k vs sg vs' out ev <->
   all_iterations k vs sg vs' out ev \/ stopped_at k vs sg vs' out ev).
Proof.
  intros k vs sg vs' out ev Hk. split.
  - exact (repeat_decompose _ k vs sg vs' out ev Hk eq_refl).
  - intros [[-> Hi]|(j & vsj & o1 & e1 & sgb & vs1 & o2 & e2 & Hj & Hi & Hb & Hst & -> & -> & -> & ->)].
    + exact (repeat_of_iters _ _ _ _ _ Hi).
    + exact (repeat_of_stop _ _ _ _ _ _ _ _ _ _ Hi (proj2 Hj) Hb Hst).
Qed.

(* ... and for the statement REPEAT [c,]e / body itself *)
Theorem repeat_exact : forall vs sg F' f' vs' out ev,
  (exec (S d) pile cf n F f vs (URepeat c e body) sg F' f' vs' out ev <->
   F' = F /\ f' = f /\ (all_iterations 0 vs sg vs' out ev \/ stopped_at 0 vs sg vs' out ev)).
Proof.
  intros vs sg F' f' vs' out ev. split.
  - intro H. destruct (exec_repeat_stmt_inv _ _ _ _ _ _ _ _ _ _ _ _ _ _ _ _ H) as (EF & Ef & Hr).
    split; [exact EF|]. split; [exact Ef|]. apply repeat_exact_from; [lia|exact Hr].
  - intros (-> & -> & H). apply E_Repeat. apply repeat_exact_from; [lia|exact H].
Qed.

(* all iterations go on: exactly the m iterations 0 .. m-1, signal Normal *)
Theorem repeat_all_normal : forall vs vs' out ev,
  iters 0 vs m vs' out ev -> exec (S d) pile cf n F f vs (URepeat c e body) Normal F f vs' out ev.
Proof.
  intros vs vs' out ev H. apply (repeat_exact vs Normal F f vs' out ev).
  split; [reflexivity|]. split; [reflexivity|]. left. split; [reflexivity|exact H].
Qed.

(* BREAKLOOP inside iteration j: the loop ends Normal; the outputs of the iterations 0 .. j-1 and the
   partial output of iteration j are kept, in this order *)
Theorem repeat_break : forall vs j vsj o1 e1 vs1 o2 e2,
  iters 0 vs j vsj o1 e1 -> (j < m)%Z -> body_run j vsj Broke vs1 o2 e2 ->
  exec (S d) pile cf n F f vs (URepeat c e body) Normal F f (copy_back fo vsj vs1) (o1 ++ o2) (e1 ++ e2).
Proof.
  intros vs j vsj o1 e1 vs1 o2 e2 Hi Hj Hb. apply E_Repeat.
  exact (repeat_of_stop 0 vs j vsj o1 e1 Broke vs1 o2 e2 Hi Hj Hb (or_introl eq_refl)).
Qed.

(* RETURN inside iteration j: the same, but the loop itself ends Returned *)
Theorem repeat_return : forall vs j vsj o1 e1 vs1 o2 e2,
  iters 0 vs j vsj o1 e1 -> (j < m)%Z -> body_run j vsj Returned vs1 o2 e2 ->
  exec (S d) pile cf n F f vs (URepeat c e body) Returned F f (copy_back fo vsj vs1) (o1 ++ o2) (e1 ++ e2).
Proof.
  intros vs j vsj o1 e1 vs1 o2 e2 Hi Hj Hb. apply E_Repeat.
  exact (repeat_of_stop 0 vs j vsj o1 e1 Returned vs1 o2 e2 Hi Hj Hb (or_intror eq_refl)).
Qed.

(* CONTINUELOOP ends only the iteration: the next one starts (counter k + 1) from the copied-back store *)
Theorem repeat_continue : forall k vs vs1 o1 e1 sg vs' o2 e2, (k < m)%Z ->
  body_run k vs Continued vs1 o1 e1 ->
  exec_repeat (S d) pile cf n F f c e body (k + 1) (copy_back fo vs vs1) sg vs' o2 e2 ->
  exec_repeat (S d) pile cf n F f c e body k vs sg vs' (o1 ++ o2) (e1 ++ e2).
Proof.
  intros k vs vs1 o1 e1 sg vs' o2 e2 Hk (F1 & f1 & Hb) Hr. destruct (Hcount vs) as (v & Hv & Hc).
  eapply R_Iter; [exact Hv|exact Hc|exact Hm|exact Hk|exact Hb|right; reflexivity|exact Hr].
Qed.

(* uniqueness of the decomposition's signal: a loop all of whose iterations go on cannot also stop *)
Theorem repeat_signal_cases : forall vs sg vs' out ev,
  exec_repeat (S d) pile cf n F f c e body 0 vs sg vs' out ev -> sg = Normal \/ sg = Returned.
Proof.
  intros vs sg vs' out ev H. apply (repeat_exact_from 0 vs sg vs' out ev ltac:(lia)) in H.
  destruct H as [[-> _]|(j & vsj & o1 & e1 & sgb & vs1 & o2 & e2 & _ & _ & _ & [->| ->] & -> & _)];
    [left|left|right]; reflexivity.
Qed.

End OneLoop.

(* ================================================================== BREAKLOOP / CONTINUELOOP in a body *)
(* the statements before a BREAKLOOP that is reached: their output and their effects are kept; what
   follows the BREAKLOOP is not run *)
Theorem break_in_body : forall d pile cf n F f vs pre post F1 f1 vs1 o e,
  exec_list d pile cf n F f vs pre Normal F1 f1 vs1 o e ->
  exec_list d pile cf n F f vs (pre ++ UBreakLoop :: post) Broke F1 f1 vs1 o e.
Proof.
  intros d pile cf n F f vs pre post F1 f1 vs1 o e H.
  rewrite <- (app_nil_r o), <- (app_nil_r e).
  apply (exec_list_app fo sys prog inc sup pre (UBreakLoop :: post) _ _ _ _ _ _ _ _ _ _ _ _ _ _ _ _ _ _ H).
  apply L_Stop; [apply E_Break|discriminate].
Qed.

Theorem continue_in_body : forall d pile cf n F f vs pre post F1 f1 vs1 o e,
  exec_list d pile cf n F f vs pre Normal F1 f1 vs1 o e ->
  exec_list d pile cf n F f vs (pre ++ UContinueLoop :: post) Continued F1 f1 vs1 o e.
Proof.
  intros d pile cf n F f vs pre post F1 f1 vs1 o e H.
  rewrite <- (app_nil_r o), <- (app_nil_r e).
  apply (exec_list_app fo sys prog inc sup pre (UContinueLoop :: post) _ _ _ _ _ _ _ _ _ _ _ _ _ _ _ _ _ _ H).
  apply L_Stop; [apply E_Continue|discriminate].
Qed.

(* ================================================================== two nested loops *)
(* AN INNER LOOP'S BREAKLOOP DOES NOT END THE OUTER LOOP.  In the body of an outer iteration, the
   inner loop REPEAT [c2,]e2 / body2 (constant count m2) breaks in its iteration j: the inner statement
   ends NORMAL, so the statements [post] that follow it in the outer body run, from the store the
   inner loop left; the outer iteration ends with THEIR signal (and if that goes on, so does the
   outer loop: constructor I_cons of the outer [iters]). *)
Theorem inner_break_outer_goes_on :
  forall d pile cf n2 F f2 c2 e2 body2 m2 vs j vsj o1 e1 vs1 o2 ev2 post sgp Fp fp vsp op ep,
  (forall vs0, exists v, eval f2 vs0 e2 v /\ count_of fo v = Some m2) -> (0 <= m2 <= loop_max)%Z ->
  iters d pile cf n2 F c2 e2 body2 0 vs j vsj o1 e1 -> (j < m2)%Z ->
  body_run d pile cf n2 F c2 e2 body2 j vsj Broke vs1 o2 ev2 ->
  exec_list (S d) pile cf (n2 + usize (URepeat c2 e2 body2)) F f2 (copy_back fo vsj vs1) post sgp Fp fp vsp op ep ->
  exec_list (S d) pile cf n2 F f2 vs (URepeat c2 e2 body2 :: post) sgp Fp fp vsp ((o1 ++ o2) ++ op) ((e1 ++ ev2) ++ ep).
Proof.
  intros d pile cf n2 F f2 c2 e2 body2 m2 vs j vsj o1 e1 vs1 o2 ev2 post sgp Fp fp vsp op ep Hc Hm2 Hi Hj Hb Hpost.
  eapply L_Cons; [|exact Hpost].
  exact (repeat_break d pile cf n2 F f2 c2 e2 body2 m2 Hc Hm2 vs j vsj o1 e1 vs1 o2 ev2 Hi Hj Hb).
Qed.

(* ================================================================== the counter after the loop *)
(* the loop statement leaves the names of the store as they are: a counter that was no variable
   before the loop is no variable after it *)
Theorem repeat_names : forall d pile cf n F f vs c e body sg F' f' vs' out ev,
  exec d pile cf n F f vs (URepeat c e body) sg F' f' vs' out ev -> map fst vs' = map fst vs.
Proof.
  intros d pile cf n F f vs c e body sg F' f' vs' out ev H. inversion H; subst.
  destruct (keys_all fo sys prog inc sup) as (_ & _ & _ & Hr & _).
  match goal with HR : CoreAll.exec_repeat _ _ _ _ _ _ _ _ _ _ _ _ _ _ _ _ _ _ _ _ |- _ => exact (proj2 (Hr _ _ _ _ _ _ _ _ _ _ _ _ _ _ _ HR)) end.
Qed.

Theorem counter_gone : forall d pile cf n F f vs x e body sg F' f' vs' out ev,
  exec d pile cf n F f vs (URepeat (Some x) e body) sg F' f' vs' out ev ->
  has_key x vs = false -> has_key x vs' = false.
Proof.
  intros d pile cf n F f vs x e body sg F' f' vs' out ev H Hno.
  pose proof (repeat_names _ _ _ _ _ _ _ _ _ _ _ _ _ _ _ _ H) as Hn.
  destruct (has_key x vs') eqn:E; [|reflexivity].
  apply has_key_In in E. rewrite Hn in E. apply has_key_In in E. rewrite E in Hno. discriminate.
Qed.

Lemma lookup_set_var_same : forall x v (vs : store fo), lookup x (set_var fo x v vs) = Some v.
Proof. intros x v vs. rewrite set_var_upd. apply lookup_upd_same. Qed.

(* (!) a variable named like the counter existed before the loop: after a loop of m >= 1 iterations
   that all go on it holds what the LAST body run left in it ... *)
Theorem counter_after_loop : forall d pile cf n F x e body vs m vs' out ev,
  iters d pile cf n F (Some x) e body 0 vs m vs' out ev -> (0 < m)%Z -> has_key x vs = true ->
  exists vsl sg vs1 o1 e1,
    body_run d pile cf n F (Some x) e body (m - 1) vsl sg vs1 o1 e1 /\
    lookup x (with_counter fo (Some x) (m - 1) vsl) = Some (VInt (m - 1)) /\
    lookup x vs' = lookup x vs1.
Proof.
  intros d pile cf n F x e body vs m vs' out ev Hi Hm Hx.
  destruct (iters_last _ _ _ _ _ _ _ _ _ _ _ _ _ _ Hi Hm) as (vsl & oa & ea & sg & vs1 & ob & eb & Hia & Hb & _ & -> & _ & _).
  exists vsl, sg, vs1, ob, eb. split; [exact Hb|]. split; [apply lookup_set_var_same|].
  rewrite copy_back_restrict, lookup_restrict_from.
  assert (Hk : has_key x vsl = true).
  { apply has_key_In. rewrite (iters_names _ _ _ _ _ _ _ _ _ _ _ _ _ _ Hia). apply has_key_In. exact Hx. }
  rewrite Hk. reflexivity.
Qed.

(* ... so, when the body never assigns to it, the last counter value m - 1 (finding of C06e) *)
Theorem counter_overwrites_outer : forall d pile cf n F x e body vs m vs' out ev,
  iters d pile cf n F (Some x) e body 0 vs m vs' out ev -> (0 < m)%Z -> has_key x vs = true ->
  (forall k vsk sg vs1 o1 e1, body_run d pile cf n F (Some x) e body k vsk sg vs1 o1 e1 ->
     lookup x vs1 = lookup x (with_counter fo (Some x) k vsk)) ->
  lookup x vs' = Some (VInt (m - 1)).
Proof.
  intros d pile cf n F x e body vs m vs' out ev Hi Hm Hx Hkeep.
  destruct (counter_after_loop _ _ _ _ _ _ _ _ _ _ _ _ _ Hi Hm Hx) as (vsl & sg & vs1 & o1 & e1 & Hb & Hc & ->).
  rewrite (Hkeep _ _ _ _ _ _ Hb). exact Hc.
Qed.

End Loops.
