(* Non-vacuity of the hypotheses of Proofs/CoreAllConverse.v: the circular-import program and the
   recursive program of Proofs/CoreAllErrExample.v are tame (they contain no expression), so the
   totality / converse theorems apply to them: the interpreter's error HAS the failure derivation. *)
From Coq Require Import String NArith ZArith List Bool Lia.
From DS Require Import Base PyStr Values Expr TabParse Tables Constants Interp IdentSpec ScopeProofs ImportGraph.
From DS Require Import CoreLang CoreFunc CoreErr CoreAll CoreAllLines CoreAllBase CoreAllRefine CoreAllTop CoreAllExample.
From DS Require Import CoreAllErr CoreAllErrLines CoreAllErrRefine CoreAllErrFacts CoreAllErrExample CoreAllDet CoreAllTotal CoreAllConverse.
Import ListNotations.

Arguments IOk {A}. Arguments IErr {A}.

Section Ex.
Variable fo : FloatOps.

Lemma tame_two : forall stm stl, every (utame fo) stm -> every (utame fo) stl ->
  tame_prog fo [(n_main, stm); (n_lib, stl)].
Proof.
  intros stm stl Hm Hl m stmts H. cbn [lookup] in H.
  destruct (str_eqb m n_main); [injection H as <-; exact Hm|].
  destruct (str_eqb m n_lib); [injection H as <-; exact Hl|discriminate].
Qed.

Lemma b_tame : tame_prog fo b_prog.
Proof. apply tame_two; cbn; repeat split. Qed.

Lemma r_tame : tame_prog fo r_prog.
Proof. apply tame_two; cbn; repeat split; left; reflexivity. Qed.

(* the converse on the recursive program under the limit 8: from the interpreter's answer alone *)
Lemma r_converse : forall inc sup g er t,
  compile_items fo (r_opts inc sup) r_fs (Some (file_of ex_dir n_main)) (uitems_of r_main) = (g, IErr er t) ->
  er = EStackOverflow /\ t = Some (map (CoreAllBase.conc_frame ex_dir) r_chain) /\ g = mkGlob [] [].
Proof.
  intros inc sup g er t E. rewrite (r_by_theorem fo inc sup) in E. injection E as <- <- <-.
  repeat split.
Qed.

(* the specification's result for the two programs is THE failure of the derivations *)
Lemma r_spec_result : forall inc sup r,
  spec_result_is fo r_prog (r_opts inc sup) n_main r -> r = UFail EStackOverflow r_chain [].
Proof.
  intros inc sup r Hr.
  apply (spec_result_unique fo ex_dir r_prog r_fs r_prog_ok (r_opts inc sup) n_main r _ Hr).
  exact (r_derivation fo inc sup).
Qed.

Lemma b_spec_result : forall inc sup r,
  spec_result_is fo b_prog (ex_opts inc sup) n_main r -> r = UFail ECircular b_chain [EvPrint (S_ "here") 1 n_lib].
Proof.
  intros inc sup r Hr.
  apply (spec_result_unique fo ex_dir b_prog b_fs b_prog_ok (ex_opts inc sup) n_main r _ Hr).
  exact (b_derivation fo inc sup).
Qed.

Lemma spec_result_examples : forall inc sup,
  (forall r, spec_result_is fo r_prog (r_opts inc sup) n_main r -> r = UFail EStackOverflow r_chain []) /\
  (forall r, spec_result_is fo b_prog (ex_opts inc sup) n_main r ->
             r = UFail ECircular b_chain [EvPrint (S_ "here") 1 n_lib]).
Proof. intros inc sup. split; [apply r_spec_result|apply b_spec_result]. Qed.

Lemma tame_examples :
  tame_prog fo b_prog /\ prog_ok ex_dir b_prog b_fs /\ tame_prog fo r_prog /\ prog_ok ex_dir r_prog r_fs.
Proof. exact (conj b_tame (conj b_prog_ok (conj r_tame r_prog_ok))). Qed.

End Ex.
