(* The interpreter implements the UNIFIED reference semantics of Spec/CoreAll.v.

   Simulation relation RR g Fs f vs s (Proofs/CoreAllBase.v): as in CoreFuncRefine.v, but the glob g
   is no longer fixed: a derivation that raises the events ev takes a state of glob g to a state
   of glob [apply_evs ev g].  The stack context cx must agree with the spec's pile and current
   file ([cx_ok]).  Main lemma (refine_all): mutual induction on the derivation. *)
From Coq Require Import NArith ZArith List Bool Lia.
From DS Require Import Base PyStr Values Expr TabParse Tables Constants Interp IdentSpec IdentProofs.
From DS Require Import ScopeProofs LimitProofs ChainProofs LoopUnroll LoopBlock.
From DS Require Import PipelineProofs GroupProofs DollarForm NameChecks UnknownWarn RunProofs FuncProofs.
From DS Require Import ResolveSpec StartLaws StartLines ImportGraph GraphText.
From DS Require Import CoreLang CoreWf CoreLines CoreRefine CoreFunc CoreFuncLines CoreFuncRefine.
From DS Require Import CoreAll CoreAllLines CoreAllBase.
Import ListNotations.

Arguments IOk {A}. Arguments IErr {A}. Arguments ICrash {A}. Arguments IUnmod {A}.
Arguments s_g {fo}. Arguments s_env {fo}. Arguments s_line2 {fo}. Arguments mkSt {fo}.
Arguments e_sys : clear implicits. Arguments e_user : clear implicits. Arguments e_temp : clear implicits.
Arguments e_funcs : clear implicits. Arguments mkEnv : clear implicits.

Section Refine.
Variable fo : FloatOps.
Variable sys : store fo.
Hypothesis Hsys : nodup_keys sys.
Variable dir : path.
Variable prog : program.
Variable inc sup : bool.
Variable fs : fsys.

(* the file system holds the program: every file is there, its text parses to its statements'
   concrete form, and its statements are well spelled *)
Definition prog_ok : Prop :=
  forall m stmts, lookup m prog = Some stmts ->
    uwf_list stmts /\
    exists text, fs (file_of dir m) = Some text /\ prepare_text text = TOk (uitems_from 1 stmts).
Hypothesis Hprog : prog_ok.

Notation value := (value fo).
Notation env := (env fo).
Notation st := (st fo).
Notation R := (CoreRefine.R fo sys).
Notation state_of := (CoreRefine.state_of fo sys).
Notation child_of := (CoreRefine.child_of fo).
Notation RR := (CoreAllBase.RR fo sys dir).
Notation apply_evs := (CoreAllBase.apply_evs dir).
Notation conc_frame := (CoreAllBase.conc_frame dir).
Notation exec := (CoreAll.exec fo sys prog inc sup).
Notation exec_list := (CoreAll.exec_list fo sys prog inc sup).
Notation exec_arms := (CoreAll.exec_arms fo sys prog inc sup).
Notation exec_repeat := (CoreAll.exec_repeat fo sys prog inc sup).
Notation exec_while := (CoreAll.exec_while fo sys prog inc sup).

(* the stack context of the interpreter agrees with the spec's pile, current file and options *)
Definition cx_ok (pile : list sframe) (cf : str) (cx : ctx) : Prop :=
  c_pile cx = map conc_frame pile /\ c_file cx = Some (file_of dir cf) /\ c_fs cx = fs /\
  include_comments (c_opts cx) = inc /\ supress_command_not_exist (c_opts cx) = sup.

Lemma cx_ok_block : forall pile cf cx text num,
  cx_ok pile cf cx ->
  cx_ok (pile ++ [mkSF cf text num false]) cf (inner_cx cx (text, num) None (c_file cx)).
Proof.
  intros pile cf cx text num (H1 & H2 & H3 & H4 & H5). unfold cx_ok, inner_cx, here. cbn [c_pile c_file c_fs c_opts].
  rewrite map_app, H1, H2. repeat split; assumption.
Qed.

Lemma cx_ok_inline : forall pile cf cx text num file',
  cx_ok pile cf cx ->
  cx_ok (pile ++ [mkSF cf text num true]) file'
        (mkCtx (c_opts cx) (c_fs cx) (here cx (text, num) (Some (text, num))) (Some (file_of dir file'))).
Proof.
  intros pile cf cx text num file' (H1 & H2 & H3 & H4 & H5). unfold cx_ok, here. cbn [c_pile c_file c_fs c_opts].
  rewrite map_app, H1, H2. repeat split; assumption.
Qed.

(* ------------------------------------------------------------------ the statements proved by the induction *)
Definition P_exec (d0 : nat) (pile : list sframe) (cf : str) (n : Z) (Fs : utable) (f : option bool) (vs : store fo)
           (stm : ustmt) (sg : fsig) (Fs' : utable) (f' : option bool) (vs' : store fo)
           (out : list uline) (ev : list event) : Prop :=
  forall d cx rest acc s g,
    RR g Fs f vs s -> uwf stm -> fits d cx d0 -> cx_ok pile cf cx -> head_ok rest ->
    exists s' ol, RR (apply_evs ev g) Fs' f' vs' s' /\ map o_text ol = map line_text out /\
      exec_cmds fo (child_of d) cx (ustmt_items n stm ++ rest) acc s =
      continue_with fo (child_of d) cx sg rest (acc ++ ol) s'.

Definition P_list (d0 : nat) (pile : list sframe) (cf : str) (n : Z) (Fs : utable) (f : option bool) (vs : store fo)
           (p : list ustmt) (sg : fsig) (Fs' : utable) (f' : option bool) (vs' : store fo)
           (out : list uline) (ev : list event) : Prop :=
  forall d cx acc s g,
    RR g Fs f vs s -> uwf_list p -> fits d cx d0 -> cx_ok pile cf cx ->
    exists s' ol, RR (apply_evs ev g) Fs' f' vs' s' /\ map o_text ol = map line_text out /\
      exec_cmds fo (child_of d) cx (uitems_from n p) acc s = (s', IOk (mkCret (acc ++ ol) (sig_of sg))).

Definition P_arms (d0 : nat) (pile : list sframe) (cf : str) (first : bool) (n : Z) (Fs : utable) (b : bool)
           (vs : store fo) (arms : list (str * list ustmt)) (els : option (list ustmt))
           (sg : fsig) (taken : bool) (vs' : store fo) (out : list uline) (ev : list event) : Prop :=
  forall d cx rest acc s g,
    (if first then exists f, RR g Fs f vs s /\ b = flag_or_false f /\ arms <> []
     else RR g Fs (Some false) vs s /\ b = false) ->
    all_list uwf_arm arms -> uwf_else els -> fits d cx d0 -> cx_ok pile cf cx ->
    exists s' ol, RR (apply_evs ev g) Fs (Some taken) vs' s' /\ map o_text ol = map line_text out /\
      exec_cmds fo (child_of d) cx (uarms_items first n arms els ++ rest) acc s =
      continue_with fo (child_of d) cx sg rest (acc ++ ol) s'.

Definition P_repeat (d0 : nat) (pile : list sframe) (cf : str) (n : Z) (Fs : utable) (f : option bool)
           (c : option str) (e : str) (body : list ustmt) (k : Z) (vs : store fo)
           (sg : fsig) (vs' : store fo) (out : list uline) (ev : list event) : Prop :=
  forall d cx fuel a s g,
    RR g Fs f vs s -> s_line2 s = None -> CoreWf.counter_ok c -> body <> [] -> uwf_list body ->
    fits d cx d0 -> cx_ok pile cf cx ->
    (loop_max - k < Z.of_nat fuel)%Z ->
    exists s' ol, RR (apply_evs ev g) Fs f vs' s' /\ map o_text ol = map line_text out /\ s_line2 s' = None /\
      repeat_loop fo (child_of d) cx (repeat_head c e, n) fuel c e (uitems_from (n + 1) body) k (mkCret a SNormal) s =
      (s', IOk (mkCret (a ++ ol) (sig_of sg))).

Definition P_while (d0 : nat) (pile : list sframe) (cf : str) (n : Z) (Fs : utable)
           (c : option str) (e : str) (body : list ustmt) (k : Z) (vs : store fo)
           (sg : fsig) (vs' : store fo) (out : list uline) (ev : list event) : Prop :=
  forall d cx fuel a s g f,
    RR g Fs f vs s -> s_line2 s = None -> CoreWf.counter_ok c -> body <> [] -> uwf_list body ->
    fits d cx d0 -> cx_ok pile cf cx ->
    (loop_max - k < Z.of_nat fuel)%Z ->
    exists s' ol, RR (apply_evs ev g) Fs f vs' s' /\ map o_text ol = map line_text out /\ s_line2 s' = None /\
      while_loop fo (child_of d) cx (while_head c e, n) fuel c e (uitems_from (n + 1) body) k (mkCret a SNormal) s =
      (s', IOk (mkCret (a ++ ol) (sig_of sg))).

(* ------------------------------------------------------------------ simple statements *)
Lemma case_emit : forall d0 pile cf n Fs f vs name text,
  P_exec d0 pile cf n Fs f vs (UEmit name text) Normal Fs f vs [LCode (name ++ sp :: text)] [].
Proof.
  intros d0 pile cf n Fs f vs name text d cx rest acc s g HR Hwf _ _ Hh. cbn [uwf] in Hwf.
  destruct (emit_line fo (child_of d) cx name text n rest acc s Hwf Hh) as [cname Heq].
  exists (at_line fo (name ++ sp :: text, n) s), [mkO (ByCommand cname) (name ++ sp :: text)].
  split; [exact HR|]. split; [reflexivity|]. exact Heq.
Qed.

Lemma case_emit_eval : forall d0 pile cf n Fs f vs name e v t,
  eval fo sys f vs e v -> py_str fo v = Some t ->
  P_exec d0 pile cf n Fs f vs (UEmitEval name e) Normal Fs f vs [LCode (name ++ sp :: t)] [].
Proof.
  intros d0 pile cf n Fs f vs name e v t Hv Ht d cx rest acc s g HR Hwf _ _ Hh. destruct Hwf as [Hname He].
  destruct (emit_eval_line fo (child_of d) cx name e n rest acc s v t Hname He Hh
              (RR_eval fo sys dir g Fs f vs s e v HR Hv) Ht) as [cname Heq].
  exists (at_line fo (dollar_c :: name ++ sp :: e, n) s), [mkO (ByCommand cname) (name ++ sp :: t)].
  split; [exact HR|]. split; [reflexivity|]. exact Heq.
Qed.

Lemma case_var : forall d0 pile cf n Fs f vs x e v,
  eval fo sys f vs e v -> P_exec d0 pile cf n Fs f vs (UVar x e) Normal Fs f (set_var fo x v vs) [] [].
Proof.
  intros d0 pile cf n Fs f vs x e v Hv d cx rest acc s g HR Hwf _ _ Hh. destruct Hwf as [Hx He].
  exists (at_line fo (kw_VAR ++ sp :: x ++ sp :: e, n) (store_user fo x v s)), [].
  split; [exact (RR_store_user fo sys dir g Fs f vs s x v HR)|]. split; [reflexivity|].
  exact (var_line fo (child_of d) cx x e n rest acc s v Hx He Hh (RR_eval fo sys dir g Fs f vs s e v HR Hv)).
Qed.

Lemma case_break : forall d0 pile cf n Fs f vs, P_exec d0 pile cf n Fs f vs UBreakLoop Broke Fs f vs [] [].
Proof.
  intros d0 pile cf n Fs f vs d cx rest acc s g HR _ _ _ Hh.
  exists (at_line fo (kw_BREAKLOOP, n) s), []. split; [exact HR|]. split; [reflexivity|].
  apply signal_line; [left; split; reflexivity|exact Hh].
Qed.

Lemma case_continue : forall d0 pile cf n Fs f vs, P_exec d0 pile cf n Fs f vs UContinueLoop Continued Fs f vs [] [].
Proof.
  intros d0 pile cf n Fs f vs d cx rest acc s g HR _ _ _ Hh.
  exists (at_line fo (kw_CONTINUELOOP, n) s), []. split; [exact HR|]. split; [reflexivity|].
  apply signal_line; [right; split; reflexivity|exact Hh].
Qed.

Lemma case_return : forall d0 pile cf n Fs f vs, P_exec d0 pile cf n Fs f vs UReturn Returned Fs f vs [] [].
Proof.
  intros d0 pile cf n Fs f vs d cx rest acc s g HR _ _ _ Hh.
  exists (at_line fo (kw_RETURN, n) s), []. split; [exact HR|]. split; [reflexivity|].
  apply return_line. exact Hh.
Qed.

Lemma case_func : forall d0 pile cf n Fs f vs name ps body,
  P_exec d0 pile cf n Fs f vs (UFunc name ps body) Normal (set_def name (mkDef ps body cf n) Fs) f vs [] [].
Proof.
  intros d0 pile cf n Fs f vs name ps body d cx rest acc s g HR Hwf _ Hcx _.
  destruct Hwf as (Hn & Hps & Hne & Hwf). pose proof Hcx as (_ & Hfile & _).
  exists (mkSt (s_g s) (define fo name (mkFunc ps (uitems_from (n + 1)%Z body) (Some (file_of dir cf))) (s_env s)) None), [].
  split; [apply RR_define; assumption|]. split; [reflexivity|].
  rewrite app_nil_r. cbn [ustmt_items app continue_with]. fold (uitems_from (n + 1)%Z body).
  rewrite <- Hfile.
  apply func_line; [exact Hn|exact Hps|]. apply uwf_list_items_nonempty; assumption.
Qed.

(* ------------------------------------------------------------------ the new simple statements *)
Lemma case_print : forall d0 pile cf n Fs f vs text,
  P_exec d0 pile cf n Fs f vs (UPrint text) Normal Fs f vs [] [EvPrint text n cf].
Proof.
  intros d0 pile cf n Fs f vs text d cx rest acc s g HR Hwf _ Hcx Hh. cbn [uwf] in Hwf.
  pose proof Hcx as (_ & Hfile & _). pose proof HR as (F0 & (Hg & _) & _).
  exists (printed fo cx text n (print_head text, n) s), [].
  split.
  - unfold printed. rewrite Hfile, Hg. apply (RR_glob fo sys dir g). exact HR.
  - split; [reflexivity|]. exact (print_line fo (child_of d) cx text n rest acc s Hwf Hh).
Qed.

Lemma case_print_eval : forall d0 pile cf n Fs f vs e v t,
  eval fo sys f vs e v -> py_str fo v = Some t ->
  P_exec d0 pile cf n Fs f vs (UPrintEval e) Normal Fs f vs [] [EvPrint t n cf].
Proof.
  intros d0 pile cf n Fs f vs e v t Hv Ht d cx rest acc s g HR Hwf _ Hcx Hh. cbn [uwf] in Hwf.
  pose proof Hcx as (_ & Hfile & _). pose proof HR as (F0 & (Hg & _) & _).
  exists (printed fo cx t n (print_eval_head e, n) s), [].
  split.
  - unfold printed. rewrite Hfile, Hg. apply (RR_glob fo sys dir g). exact HR.
  - split; [reflexivity|].
    exact (print_eval_line fo (child_of d) cx e n rest acc s v t Hwf Hh (RR_eval fo sys dir g Fs f vs s e v HR Hv) Ht).
Qed.

Lemma case_rem : forall d0 pile cf n Fs f vs text,
  P_exec d0 pile cf n Fs f vs (URem text) Normal Fs f vs (if inc then [LRem (rem_head text)] else []) [].
Proof.
  intros d0 pile cf n Fs f vs text d cx rest acc s g HR Hwf _ Hcx Hh. cbn [uwf] in Hwf.
  pose proof Hcx as (_ & _ & _ & Hinc & _).
  exists (at_line fo (rem_head text, n) s),
         (if inc then [mkO (ByCommand rem_cname) (rem_head text)] else []).
  split; [exact HR|]. split; [destruct inc; reflexivity|].
  rewrite <- Hinc. exact (rem_line fo (child_of d) cx text n rest acc s Hwf Hh).
Qed.

Lemma case_unknown : forall d0 pile cf n Fs f vs w args,
  P_exec d0 pile cf n Fs f vs (UUnknown w args) Normal Fs f vs [LCode (upper w ++ sp :: args)]
         (if sup then [] else [EvWarn (WUnknown pile cf (unknown_head w args) n)]).
Proof.
  intros d0 pile cf n Fs f vs w args d cx rest acc s g HR Hwf _ Hcx Hh. destruct Hwf as [Hw Ha].
  pose proof Hcx as (Hpile & Hfile & _ & _ & Hsup). pose proof HR as (F0 & (Hg & _) & _).
  exists (unknown_warned fo cx (unknown_head w args) n s), [mkO ByUnknown (upper w ++ sp :: args)].
  split.
  - unfold unknown_warned. rewrite Hsup. destruct sup.
    + cbn [fold_left CoreAllBase.apply_evs]. rewrite Hg. apply (RR_glob fo sys dir g). exact HR.
    + unfold CoreAllBase.apply_evs. cbn [fold_left CoreAllBase.apply_ev CoreAllBase.conc_warning].
      unfold here. rewrite Hpile, Hfile, Hg. apply (RR_glob fo sys dir g). exact HR.
  - split; [reflexivity|]. exact (unknown_line_lemma fo (child_of d) cx w args n rest acc s Hw Ha Hh).
Qed.

(* ------------------------------------------------------------------ statement lists *)
Lemma case_nil : forall d0 pile cf n Fs f vs, P_list d0 pile cf n Fs f vs [] Normal Fs f vs [] [].
Proof.
  intros d0 pile cf n Fs f vs d cx acc s g HR _ _ _. exists s, []. split; [exact HR|]. split; [reflexivity|].
  rewrite app_nil_r. reflexivity.
Qed.

Lemma case_cons : forall d0 pile cf n Fs f vs s r F1 f1 vs1 o1 e1 sg F2 f2 vs2 o2 e2,
  P_exec d0 pile cf n Fs f vs s Normal F1 f1 vs1 o1 e1 ->
  P_list d0 pile cf (n + usize s) F1 f1 vs1 r sg F2 f2 vs2 o2 e2 ->
  P_list d0 pile cf n Fs f vs (s :: r) sg F2 f2 vs2 (o1 ++ o2) (e1 ++ e2).
Proof.
  intros d0 pile cf n Fs f vs stm r F1 f1 vs1 o1 e1 sg F2 f2 vs2 o2 e2 IH1 IH2 d cx acc s g HR [Hwf Hwfr] Hfit Hcx.
  rewrite uitems_from_cons.
  destruct (IH1 d cx (uitems_from (n + usize stm)%Z r) acc s g HR Hwf Hfit Hcx (uitems_from_head r _))
    as (s1 & ol1 & HR1 & Ho1 & E1).
  destruct (IH2 d cx (acc ++ ol1) s1 _ HR1 Hwfr Hfit Hcx) as (s2 & ol2 & HR2 & Ho2 & E2).
  exists s2, (ol1 ++ ol2). split; [rewrite CoreAllBase.apply_evs_app; exact HR2|].
  split; [rewrite !map_app, Ho1, Ho2; reflexivity|].
  rewrite E1. cbn [continue_with]. rewrite E2, app_assoc. reflexivity.
Qed.

Lemma case_stop : forall d0 pile cf n Fs f vs s r sg F1 f1 vs1 o1 e1,
  P_exec d0 pile cf n Fs f vs s sg F1 f1 vs1 o1 e1 -> sg <> Normal ->
  P_list d0 pile cf n Fs f vs (s :: r) sg F1 f1 vs1 o1 e1.
Proof.
  intros d0 pile cf n Fs f vs stm r sg F1 f1 vs1 o1 e1 IH1 Hsg d cx acc s g HR [Hwf Hwfr] Hfit Hcx.
  rewrite uitems_from_cons.
  destruct (IH1 d cx (uitems_from (n + usize stm)%Z r) acc s g HR Hwf Hfit Hcx (uitems_from_head r _))
    as (s1 & ol1 & HR1 & Ho1 & E1).
  exists s1, ol1. split; [exact HR1|]. split; [exact Ho1|]. rewrite E1.
  destruct sg; [contradiction|reflexivity|reflexivity|reflexivity].
Qed.

(* ------------------------------------------------------------------ a body run as a block *)
Lemma body_block : forall d0 d cx text num body setup pre s g Fs f vs inner sg F1 f1 vs1 out ev pile cf,
  P_list d0 (pile ++ [mkSF cf text num false]) cf (num + 1) Fs None inner body sg F1 f1 vs1 out ev ->
  RR g Fs f vs s -> s_line2 s = None -> uwf_list body -> fits d cx (S d0) -> cx_ok pile cf cx -> nodup_keys inner ->
  (forall F', setup (mkEnv fo sys vs [] F') = Ok (mkEnv fo sys inner [] F')) ->
  (forall F', pre (mkEnv fo sys inner [] F') = Ok true) ->
  exists s' ol, RR (apply_evs ev g) Fs f (copy_back fo vs vs1) s' /\ s_line2 s' = None /\
    map o_text ol = map line_text out /\
    run_child_with fo (child_of d) cx (text, num) (uitems_from (num + 1) body) (c_file cx) false setup pre s =
    (s', IOk (Some (mkCret ol (sig_of sg)))).
Proof.
  intros d0 d cx text num body setup pre s g Fs f vs inner sg F1 f1 vs1 out ev pile cf
         IH (F & HR & Ht) Hl2 Hwf Hfit Hcx Hnd Hsetup Hpre.
  destruct (fits_S d cx _ Hfit) as (d' & -> & Hlim & Hfit').
  assert (HRin : RR g Fs None inner (state_of g F None inner None)).
  { exists F. split; [apply state_of_R; exact Hnd|exact Ht]. }
  destruct (IH d' (inner_cx cx (text, num) None (c_file cx)) [] (state_of g F None inner None) g HRin Hwf
               (Hfit' (text, num) None (c_file cx)) (cx_ok_block pile cf cx text num Hcx))
    as (s2 & ol & (F2 & HR2 & _) & Ho & E).
  cbn [app] in E. rewrite <- Hl2 in E at 1.
  destruct (block_runs2 fo sys Hsys d' cx (text, num) (uitems_from (num + 1) body) (c_file cx) setup pre s g
              (apply_evs ev g) F f vs inner s2
              (mkCret ol (sig_of sg)) F2 f1 vs1 HR (proj2 (proj2 Ht)) Hlim (Hsetup F) (Hpre F) E HR2)
    as (s' & HR' & Hl2' & Hrun).
  exists s', ol. split; [exists F; split; assumption|]. split; [rewrite Hl2'; exact Hl2|]. split; [exact Ho|]. exact Hrun.
Qed.

Lemma body_block_plain : forall d0 d cx text num body s g Fs f vs sg F1 f1 vs1 out ev pile cf,
  P_list d0 (pile ++ [mkSF cf text num false]) cf (num + 1) Fs None vs body sg F1 f1 vs1 out ev ->
  RR g Fs f vs s -> s_line2 s = None -> uwf_list body -> fits d cx (S d0) -> cx_ok pile cf cx ->
  exists s' ol, RR (apply_evs ev g) Fs f (copy_back fo vs vs1) s' /\ s_line2 s' = None /\
    map o_text ol = map line_text out /\
    run_child fo (child_of d) cx (text, num) (uitems_from (num + 1) body) (c_file cx) false (fun e => Ok e) s =
    (s', IOk (mkCret ol (sig_of sg))).
Proof.
  intros d0 d cx text num body s g Fs f vs sg F1 f1 vs1 out ev pile cf IH HR Hl2 Hwf Hfit Hcx.
  destruct (body_block d0 d cx text num body (fun e => Ok e) (fun _ => Ok true) s g Fs f vs vs sg F1 f1 vs1 out ev pile cf
              IH HR Hl2 Hwf Hfit Hcx (RR_nodup fo sys dir g Fs f vs s HR) (fun _ => eq_refl) (fun _ => eq_refl))
    as (s' & ol & HR' & Hl2' & Ho & Hrun).
  exists s', ol. split; [exact HR'|]. split; [exact Hl2'|]. split; [exact Ho|].
  unfold run_child, bindM. rewrite Hrun. reflexivity.
Qed.

Lemma body_block_counter : forall d0 d cx text num body c k s g Fs f vs sg F1 f1 vs1 out ev pile cf,
  P_list d0 (pile ++ [mkSF cf text num false]) cf (num + 1) Fs None (with_counter fo c k vs) body sg F1 f1 vs1 out ev ->
  RR g Fs f vs s -> s_line2 s = None -> CoreWf.counter_ok c -> uwf_list body -> fits d cx (S d0) -> cx_ok pile cf cx ->
  exists s' ol, RR (apply_evs ev g) Fs f (copy_back fo vs vs1) s' /\ s_line2 s' = None /\
    map o_text ol = map line_text out /\
    run_child fo (child_of d) cx (text, num) (uitems_from (num + 1) body) (c_file cx) false (bind_counter fo c k) s =
    (s', IOk (mkCret ol (sig_of sg))).
Proof.
  intros d0 d cx text num body c k s g Fs f vs sg F1 f1 vs1 out ev pile cf IH HR Hl2 Hc Hwf Hfit Hcx.
  destruct (body_block d0 d cx text num body (bind_counter fo c k) (fun _ => Ok true) s g Fs f vs
              (with_counter fo c k vs) sg F1 f1 vs1 out ev pile cf
              IH HR Hl2 Hwf Hfit Hcx (nodup_with_counter fo c k vs (RR_nodup fo sys dir g Fs f vs s HR))
              (fun F' => bind_counter_entry fo sys c k vs F' Hc) (fun _ => eq_refl))
    as (s' & ol & HR' & Hl2' & Ho & Hrun).
  exists s', ol. split; [exact HR'|]. split; [exact Hl2'|]. split; [exact Ho|].
  unfold run_child, bindM. rewrite Hrun. reflexivity.
Qed.

(* ------------------------------------------------------------------ REPEAT *)
Lemma case_r_done : forall d0 pile cf n Fs f c e body k vs v m,
  eval fo sys f vs e v -> count_of fo v = Some m -> (0 <= m <= loop_max)%Z -> (m <= k)%Z ->
  P_repeat d0 pile cf n Fs f c e body k vs Normal vs [] [].
Proof.
  intros d0 pile cf n Fs f c e body k vs v m Hv Hn Hrange Hk d cx fuel a s g HR Hl2 _ _ _ _ _ _.
  exists s, []. split; [exact HR|]. split; [reflexivity|]. split; [exact Hl2|].
  pose proof (tokenize_count_ok fo cx (repeat_head c e, n) e s v m (RR_eval fo sys dir g Fs f vs s e v HR Hv) Hn Hrange) as Htc.
  assert (Hlt : (k <? m)%Z = false) by (apply Z.ltb_ge; lia).
  rewrite app_nil_r.
  destruct fuel; cbn [repeat_loop]; unfold bindM at 1; rewrite Htc, Hlt; reflexivity.
Qed.

Lemma case_r_iter : forall d0 pile cf n Fs f c e body k vs v m sg F1 f1 vs1 o1 e1 sg' vs' o2 e2,
  eval fo sys f vs e v -> count_of fo v = Some m -> (0 <= m <= loop_max)%Z -> (k < m)%Z ->
  P_list d0 (pile ++ [mkSF cf (repeat_head c e) n false]) cf (n + 1) Fs None (with_counter fo c k vs) body sg F1 f1 vs1 o1 e1 ->
  goes_on sg ->
  P_repeat (S d0) pile cf n Fs f c e body (k + 1) (copy_back fo vs vs1) sg' vs' o2 e2 ->
  P_repeat (S d0) pile cf n Fs f c e body k vs sg' vs' (o1 ++ o2) (e1 ++ e2).
Proof.
  intros d0 pile cf n Fs f c e body k vs v m sg F1 f1 vs1 o1 e1 sg' vs' o2 e2 Hv Hn Hrange Hk IHb Hsg IHr
         d cx fuel a s g HR Hl2 Hc Hne Hwf Hfit Hcx Hfuel.
  pose proof (tokenize_count_ok fo cx (repeat_head c e, n) e s v m (RR_eval fo sys dir g Fs f vs s e v HR Hv) Hn Hrange) as Htc.
  assert (Hlt : (k <? m)%Z = true) by (apply Z.ltb_lt; lia).
  destruct fuel as [|fuel']; [unfold loop_max in *; lia|].
  destruct (body_block_counter d0 d cx (repeat_head c e) n body c k s g Fs f vs sg F1 f1 vs1 o1 e1 pile cf
              IHb HR Hl2 Hc Hwf Hfit Hcx)
    as (s1 & ol1 & HR1 & Hl1 & Ho1 & Hrun).
  destruct (IHr d cx fuel' (a ++ ol1) s1 _ HR1 Hl1 Hc Hne Hwf Hfit Hcx ltac:(lia))
    as (s2 & ol2 & HR2 & Ho2 & Hl2' & Hloop).
  exists s2, (ol1 ++ ol2). split; [rewrite CoreAllBase.apply_evs_app; exact HR2|].
  split; [rewrite !map_app, Ho1, Ho2; reflexivity|].
  split; [exact Hl2'|].
  cbn [repeat_loop]. unfold bindM at 1. rewrite Htc, Hlt. unfold bindM at 1. rewrite Hrun.
  cbn [cr_sig cr_data]. rewrite (goes_on_signal sg Hsg). rewrite Hloop, app_assoc. reflexivity.
Qed.

Lemma case_r_stop : forall d0 pile cf n Fs f c e body k vs v m sg F1 f1 vs1 o1 e1,
  eval fo sys f vs e v -> count_of fo v = Some m -> (0 <= m <= loop_max)%Z -> (k < m)%Z ->
  P_list d0 (pile ++ [mkSF cf (repeat_head c e) n false]) cf (n + 1) Fs None (with_counter fo c k vs) body sg F1 f1 vs1 o1 e1 ->
  stops sg ->
  P_repeat (S d0) pile cf n Fs f c e body k vs (loop_end sg) (copy_back fo vs vs1) o1 e1.
Proof.
  intros d0 pile cf n Fs f c e body k vs v m sg F1 f1 vs1 o1 e1 Hv Hn Hrange Hk IHb Hsg
         d cx fuel a s g HR Hl2 Hc Hne Hwf Hfit Hcx Hfuel.
  pose proof (tokenize_count_ok fo cx (repeat_head c e, n) e s v m (RR_eval fo sys dir g Fs f vs s e v HR Hv) Hn Hrange) as Htc.
  assert (Hlt : (k <? m)%Z = true) by (apply Z.ltb_lt; lia).
  destruct fuel as [|fuel']; [unfold loop_max in *; lia|].
  destruct (body_block_counter d0 d cx (repeat_head c e) n body c k s g Fs f vs sg F1 f1 vs1 o1 e1 pile cf
              IHb HR Hl2 Hc Hwf Hfit Hcx)
    as (s1 & ol1 & HR1 & Hl1 & Ho1 & Hrun).
  exists s1, ol1. split; [exact HR1|]. split; [exact Ho1|]. split; [exact Hl1|].
  cbn [repeat_loop]. unfold bindM at 1. rewrite Htc, Hlt. unfold bindM at 1. rewrite Hrun.
  cbn [cr_sig cr_data]. rewrite (stops_signal sg Hsg). reflexivity.
Qed.

(* ------------------------------------------------------------------ WHILE *)
Notation while_cond := (CoreRefine.while_cond fo).

Lemma case_w_done : forall d0 pile cf n Fs c e body k vs v,
  (k <= loop_max)%Z -> eval fo sys None (with_counter fo c k vs) e v -> truthy fo v = false ->
  P_while (S d0) pile cf n Fs c e body k vs Normal (copy_back fo vs (with_counter fo c k vs)) [] [].
Proof.
  intros d0 pile cf n Fs c e body k vs v Hk Hv Ht d cx fuel a s g f (F & HR & Htab) Hl2 Hc Hne Hwf Hfit Hcx Hfuel.
  destruct fuel as [|fuel']; [lia|].
  destruct (fits_S d cx _ Hfit) as (d' & -> & Hlim & _).
  pose proof (nodup_with_counter fo c k vs (R_nodup fo sys g F f vs s HR)) as Hnd.
  destruct (block_skipped' fo sys Hsys (child_of (S d')) cx (while_head c e, n) (uitems_from (n + 1) body) (c_file cx)
              (bind_counter fo c k) (while_cond e)
              s g F f vs (with_counter fo c k vs) HR (proj2 (proj2 Htab)) Hlim (bind_counter_entry fo sys c k vs _ Hc))
    as (s' & HR' & Hl & Hrun).
  { rewrite (while_cond_eval fo sys e _ _ v Hnd Hv), Ht. reflexivity. }
  exists s', []. split; [exists F; split; assumption|]. split; [reflexivity|]. split; [rewrite Hl; exact Hl2|].
  cbn [while_loop]. rewrite (while_limit_ok k Hk). unfold bindM at 1. fold (while_cond e). rewrite Hrun.
  rewrite app_nil_r. reflexivity.
Qed.

Lemma while_body_block : forall d0 d cx n body c e k s g Fs f vs v sg F1 f1 vs1 o1 e1 pile cf,
  P_list d0 (pile ++ [mkSF cf (while_head c e) n false]) cf (n + 1) Fs None (with_counter fo c k vs) body sg F1 f1 vs1 o1 e1 ->
  eval fo sys None (with_counter fo c k vs) e v -> truthy fo v = true ->
  RR g Fs f vs s -> s_line2 s = None -> CoreWf.counter_ok c -> uwf_list body -> fits d cx (S d0) -> cx_ok pile cf cx ->
  exists s' ol, RR (apply_evs e1 g) Fs f (copy_back fo vs vs1) s' /\ s_line2 s' = None /\
    map o_text ol = map line_text o1 /\
    run_child_with fo (child_of d) cx (while_head c e, n) (uitems_from (n + 1) body) (c_file cx) false
                   (bind_counter fo c k) (while_cond e) s =
    (s', IOk (Some (mkCret ol (sig_of sg)))).
Proof.
  intros d0 d cx n body c e k s g Fs f vs v sg F1 f1 vs1 o1 e1 pile cf IHb Hv Ht HR Hl2 Hc Hwf Hfit Hcx.
  pose proof (nodup_with_counter fo c k vs (RR_nodup fo sys dir g Fs f vs s HR)) as Hnd.
  apply (body_block d0 d cx (while_head c e) n body (bind_counter fo c k) (while_cond e) s g Fs f vs
           (with_counter fo c k vs) sg F1 f1 vs1 o1 e1 pile cf IHb HR Hl2 Hwf Hfit Hcx Hnd
           (fun F' => bind_counter_entry fo sys c k vs F' Hc)).
  intro F'. rewrite (while_cond_eval fo sys e _ _ v Hnd Hv), Ht. reflexivity.
Qed.

Lemma case_w_iter : forall d0 pile cf n Fs c e body k vs v sg F1 f1 vs1 o1 e1 sg' vs' o2 e2,
  (k <= loop_max)%Z -> eval fo sys None (with_counter fo c k vs) e v -> truthy fo v = true ->
  P_list d0 (pile ++ [mkSF cf (while_head c e) n false]) cf (n + 1) Fs None (with_counter fo c k vs) body sg F1 f1 vs1 o1 e1 ->
  goes_on sg ->
  P_while (S d0) pile cf n Fs c e body (k + 1) (copy_back fo vs vs1) sg' vs' o2 e2 ->
  P_while (S d0) pile cf n Fs c e body k vs sg' vs' (o1 ++ o2) (e1 ++ e2).
Proof.
  intros d0 pile cf n Fs c e body k vs v sg F1 f1 vs1 o1 e1 sg' vs' o2 e2 Hk Hv Ht IHb Hsg IHw
         d cx fuel a s g f HR Hl2 Hc Hne Hwf Hfit Hcx Hfuel.
  destruct fuel as [|fuel']; [lia|].
  destruct (while_body_block d0 d cx n body c e k s g Fs f vs v sg F1 f1 vs1 o1 e1 pile cf IHb Hv Ht HR Hl2 Hc Hwf Hfit Hcx)
    as (s1 & ol1 & HR1 & Hl1 & Ho1 & Hrun).
  destruct (IHw d cx fuel' (a ++ ol1) s1 _ f HR1 Hl1 Hc Hne Hwf Hfit Hcx ltac:(lia))
    as (s2 & ol2 & HR2 & Ho2 & Hl2' & Hloop).
  exists s2, (ol1 ++ ol2). split; [rewrite CoreAllBase.apply_evs_app; exact HR2|].
  split; [rewrite !map_app, Ho1, Ho2; reflexivity|].
  split; [exact Hl2'|].
  cbn [while_loop]. rewrite (while_limit_ok k Hk). unfold bindM at 1. fold (while_cond e). rewrite Hrun.
  cbn [cr_sig cr_data]. rewrite (goes_on_signal sg Hsg). rewrite Hloop, app_assoc. reflexivity.
Qed.

Lemma case_w_stop : forall d0 pile cf n Fs c e body k vs v sg F1 f1 vs1 o1 e1,
  (k <= loop_max)%Z -> eval fo sys None (with_counter fo c k vs) e v -> truthy fo v = true ->
  P_list d0 (pile ++ [mkSF cf (while_head c e) n false]) cf (n + 1) Fs None (with_counter fo c k vs) body sg F1 f1 vs1 o1 e1 ->
  stops sg ->
  P_while (S d0) pile cf n Fs c e body k vs (loop_end sg) (copy_back fo vs vs1) o1 e1.
Proof.
  intros d0 pile cf n Fs c e body k vs v sg F1 f1 vs1 o1 e1 Hk Hv Ht IHb Hsg
         d cx fuel a s g f HR Hl2 Hc Hne Hwf Hfit Hcx Hfuel.
  destruct fuel as [|fuel']; [lia|].
  destruct (while_body_block d0 d cx n body c e k s g Fs f vs v sg F1 f1 vs1 o1 e1 pile cf IHb Hv Ht HR Hl2 Hc Hwf Hfit Hcx)
    as (s1 & ol1 & HR1 & Hl1 & Ho1 & Hrun).
  exists s1, ol1. split; [exact HR1|]. split; [exact Ho1|]. split; [exact Hl1|].
  cbn [while_loop]. rewrite (while_limit_ok k Hk). unfold bindM at 1. fold (while_cond e). rewrite Hrun.
  cbn [cr_sig cr_data]. rewrite (stops_signal sg Hsg). reflexivity.
Qed.

(* ------------------------------------------------------------------ the loop lines *)
Lemma case_repeat : forall d0 pile cf n Fs f vs c e body sg vs' out ev,
  P_repeat d0 pile cf n Fs f c e body 0 vs sg vs' out ev ->
  P_exec d0 pile cf n Fs f vs (URepeat c e body) sg Fs f vs' out ev.
Proof.
  intros d0 pile cf n Fs f vs c e body sg vs' out ev IH d cx rest acc s g HR Hwf Hfit Hcx Hh.
  destruct Hwf as (Hc & He & Hne & Hwf).
  destruct (loop_arg_facts c e Hc He) as (Hblank & Hstrip & Hsplit & Hcok).
  pose proof (uwf_list_items_nonempty body (n + 1)%Z Hne Hwf) as Hine.
  destruct (IH d cx loop_fuel [] (clear_line2 fo s) g
               (RR_line2 fo sys dir g Fs f vs s None HR) eq_refl Hc Hne Hwf Hfit Hcx loop_fuel_enough)
    as (s' & ol & HR' & Ho & _ & Hloop).
  exists s', ol. split; [exact HR'|]. split; [exact Ho|].
  etransitivity.
  { rewrite <- Hstrip in Hsplit.
    exact (repeat_line_lemma fo (child_of d) cx (loop_arg c e) n (uitems_from (n + 1)%Z body) rest acc s c e
             Hblank Hine Hsplit Hcok). }
  unfold bindM. unfold repeat_head in Hloop.
  match goal with |- context [repeat_loop ?a1 ?a2 ?a3 ?a4 ?a5 ?a6 ?a7 ?a8 ?a9 ?a10 ?a11] =>
    replace (repeat_loop a1 a2 a3 a4 a5 a6 a7 a8 a9 a10 a11) with (s', @IOk cret (mkCret ol (sig_of sg)))
      by (symmetry; exact Hloop) end.
  rewrite go_on_after_branch. apply go_on_continue.
Qed.

Lemma case_while : forall d0 pile cf n Fs f vs c e body sg vs' out ev,
  P_while d0 pile cf n Fs c e body 0 vs sg vs' out ev ->
  P_exec d0 pile cf n Fs f vs (UWhile c e body) sg Fs f vs' out ev.
Proof.
  intros d0 pile cf n Fs f vs c e body sg vs' out ev IH d cx rest acc s g HR Hwf Hfit Hcx Hh.
  destruct Hwf as (Hc & He & Hne & Hwf).
  destruct (loop_arg_facts c e Hc He) as (Hblank & Hstrip & Hsplit & Hcok).
  pose proof (uwf_list_items_nonempty body (n + 1)%Z Hne Hwf) as Hine.
  destruct (IH d cx loop_fuel [] (clear_line2 fo s) g f
               (RR_line2 fo sys dir g Fs f vs s None HR) eq_refl Hc Hne Hwf Hfit Hcx loop_fuel_enough)
    as (s' & ol & HR' & Ho & _ & Hloop).
  exists s', ol. split; [exact HR'|]. split; [exact Ho|].
  etransitivity.
  { rewrite <- Hstrip in Hsplit.
    exact (while_line_lemma fo (child_of d) cx (loop_arg c e) n (uitems_from (n + 1)%Z body) rest acc s c e
             Hblank Hine Hsplit). }
  unfold bindM. unfold while_head in Hloop.
  match goal with |- context [while_loop ?a1 ?a2 ?a3 ?a4 ?a5 ?a6 ?a7 ?a8 ?a9 ?a10 ?a11] =>
    replace (while_loop a1 a2 a3 a4 a5 a6 a7 a8 a9 a10 a11) with (s', @IOk cret (mkCret ol (sig_of sg)))
      by (symmetry; exact Hloop) end.
  rewrite go_on_after_branch. apply go_on_continue.
Qed.

(* ------------------------------------------------------------------ IF chains *)
Lemma later_evaluate : forall g Fs vsx s' rest n els,
  RR g Fs (Some true) vsx s' -> all_list uwf_arm rest ->
  Forall (fun cb : str * list ustmt => exists v', eval fo sys (Some true) vsx (fst cb) v') rest ->
  Forall (evaluates fo s') (uarms_of false n rest els).
Proof.
  intros g Fs vsx s' rest. induction rest as [|[c b] r IH]; intros n els HR Hwf Hev.
  - cbn. destruct els; constructor; [|constructor]. exists true. apply evals_else_arm. reflexivity.
  - destruct Hwf as [(Hc & _) Hr]. inversion Hev as [|? ? [v' Hv] Hev']; subst. cbn [uarms_of]. constructor.
    + exists (truthy fo v'). apply evals_cond_arm; [apply expr_ok_blank; exact Hc|].
      exists v'. split; [|reflexivity]. rewrite (expr_ok_strip c Hc). apply (RR_eval fo sys dir g Fs (Some true) vsx s'); assumption.
    + apply IH; assumption.
Qed.

(* the chosen arm: its block runs, then the rest of the chain is skipped *)
Lemma take_common : forall d0 d cx a1 text num body nl rest els tail acc sT g Fs vs sg F1 f1 vs1 out ev pile cf,
  a_line a1 = text -> a_num a1 = num -> a_body a1 = uitems_from (num + 1) body ->
  P_list d0 (pile ++ [mkSF cf text num false]) cf (num + 1) Fs None vs body sg F1 f1 vs1 out ev ->
  RR g Fs (Some true) vs sT -> s_line2 sT = None ->
  uwf_list body -> fits d cx (S d0) -> cx_ok pile cf cx -> all_list uwf_arm rest -> uwf_else els ->
  (sg = Normal ->
   Forall (fun cb : str * list ustmt => exists v', eval fo sys (Some true) (copy_back fo vs vs1) (fst cb) v') rest) ->
  exists s' ol, RR (apply_evs ev g) Fs (Some true) (copy_back fo vs vs1) s' /\ map o_text ol = map line_text out /\
    take_arm fo (child_of d) cx a1 (chain_items (uarms_of false nl rest els) ++ tail) acc sT =
    continue_with fo (child_of d) cx sg tail (acc ++ ol) s'.
Proof.
  intros d0 d cx a1 text num body nl rest els tail acc sT g Fs vs sg F1 f1 vs1 out ev pile cf
         Hline Hnum Hbody IHb HR Hl2 Hwfb Hfit Hcx Hwfr Hwfe Hlater.
  destruct if_family_dispatch as [bc [Hbc Hd]].
  destruct (body_block_plain d0 d cx text num body sT g Fs (Some true) vs sg F1 f1 vs1 out ev pile cf IHb HR Hl2 Hwfb Hfit Hcx)
    as (s' & ol & HR' & Hl' & Ho & Hrun).
  exists s', ol. split; [exact HR'|]. split; [exact Ho|].
  unfold take_arm, bindM. rewrite Hline, Hnum, Hbody, Hrun. rewrite go_on_after_branch, go_on_continue.
  destruct sg; try reflexivity. cbn [continue_with].
  apply (skip_later fo (child_of d) cx bc Hbc Hd).
  - apply uarms_ok; assumption.
  - apply uarms_non_if.
  - exact (RR_flag_of fo sys dir (apply_evs ev g) Fs true _ s' HR').
  - exact Hl'.
  - apply (later_evaluate (apply_evs ev g) Fs (copy_back fo vs vs1) s'); [exact HR'|exact Hwfr|]. apply Hlater. reflexivity.
Qed.

Lemma cond_evals : forall g Fs fl vs s0 k c n body v,
  RR g Fs fl vs s0 -> expr_ok c -> eval fo sys fl vs c v ->
  evals fo s0 (cond_arm k c n body) (truthy fo v).
Proof.
  intros g Fs fl vs s0 k c n body v HR Hc Hv.
  apply evals_cond_arm; [apply expr_ok_blank; exact Hc|]. exists v. split; [|reflexivity].
  rewrite (expr_ok_strip c Hc). exact (RR_eval fo sys dir g Fs fl vs s0 c v HR Hv).
Qed.

Lemma if_head_line : forall (first : bool) c n body,
  a_line (cond_arm (if first then AIf else AElif) c n body) = if_head first c.
Proof. intros [] c n body; reflexivity. Qed.

Lemma case_a_take : forall d0 pile cf first n Fs b vs c body rest els v sg F1 f1 vs1 out ev,
  eval fo sys (Some b) vs c v -> truthy fo v = true ->
  P_list d0 (pile ++ [mkSF cf (if_head first c) n false]) cf (n + 1) Fs None vs body sg F1 f1 vs1 out ev ->
  (sg = Normal ->
   Forall (fun cb : str * list ustmt => exists v', eval fo sys (Some true) (copy_back fo vs vs1) (fst cb) v') rest) ->
  P_arms (S d0) pile cf first n Fs b vs ((c, body) :: rest) els sg true (copy_back fo vs vs1) out ev.
Proof.
  intros d0 pile cf first n Fs b vs c body rest els v sg F1 f1 vs1 out ev Hv Ht IHb Hlater d cx tail acc s g Hfirst Hwfa Hwfe Hfit Hcx.
  destruct if_family_dispatch as [bc [Hbc Hd]].
  destruct Hwfa as [(Hc & Hbne & Hwfb) Hwfr].
  rewrite uarms_items_chain. cbn [uarms_of chain_items flat_map].
  fold (chain_items (uarms_of false (n + 1 + sum_sizes usize body)%Z rest els)).
  rewrite <- app_assoc.
  set (a1 := cond_arm (if first then AIf else AElif) c n (uitems_from (n + 1)%Z body)).
  set (later := uarms_of false (n + 1 + sum_sizes usize body)%Z rest els).
  assert (Hok1 : arm_ok a1).
  { apply cond_arm_ok; [destruct first; discriminate|apply expr_ok_blank; exact Hc|].
    apply uwf_list_items_nonempty; assumption. }
  assert (Hstep : exists sT, RR g Fs (Some true) vs sT /\ s_line2 sT = None /\
            exec_cmds fo (child_of d) cx (arm_items a1 ++ chain_items later ++ tail) acc s =
            take_arm fo (child_of d) cx a1 (chain_items later ++ tail) acc sT).
  { destruct first.
    - destruct Hfirst as (f0 & HR & -> & _).
      exists (with_flag fo true (clear_line2 fo s)). split; [apply (RR_with_flag fo sys dir g Fs f0); exact HR|]. split; [reflexivity|].
      apply (if_arm_true fo (child_of d) cx bc Hbc Hd a1 _ acc s Hok1 eq_refl).
      rewrite <- Ht. apply (cond_evals g Fs (Some (flag_or_false f0)) vs); [|exact Hc|exact Hv].
      apply RR_ensure_flag. exact HR.
    - destruct Hfirst as (HR & ->).
      exists (with_flag fo true (clear_line2 fo s)). split; [apply (RR_with_flag fo sys dir g Fs (Some false)); exact HR|]. split; [reflexivity|].
      unfold arm_items. cbn [app]. rewrite exec_cmds_clear by (apply arm_line_nonblank; exact Hok1).
      apply (search_take fo (child_of d) cx bc Hbc Hd [] a1 later tail acc (clear_line2 fo s)).
      + cbn [app]. constructor; [exact Hok1|]. apply uarms_ok; assumption.
      + cbn [app]. constructor; [apply non_if_elif|apply uarms_non_if].
      + exact (RR_flag_of fo sys dir g Fs false vs (clear_line2 fo s) HR).
      + exact (RR_ensure_id fo sys dir g Fs false vs (clear_line2 fo s) HR).
      + reflexivity.
      + constructor.
      + rewrite <- Ht. apply (cond_evals g Fs (Some false) vs); [exact HR|exact Hc|exact Hv]. }
  destruct Hstep as (sT & HRT & HlT & Hstep). rewrite Hstep.
  apply (take_common d0 d cx a1 (if_head first c) n body _ rest els tail acc sT g Fs vs sg F1 f1 vs1 out ev pile cf
           (if_head_line first c n _) eq_refl eq_refl IHb HRT HlT Hwfb Hfit Hcx Hwfr Hwfe Hlater).
Qed.

Lemma case_a_skip : forall d0 pile cf first n Fs b vs c body rest els v sg taken vs' out ev,
  eval fo sys (Some b) vs c v -> truthy fo v = false ->
  P_arms d0 pile cf false (n + 1 + sum_sizes usize body) Fs false vs rest els sg taken vs' out ev ->
  P_arms d0 pile cf first n Fs b vs ((c, body) :: rest) els sg taken vs' out ev.
Proof.
  intros d0 pile cf first n Fs b vs c body rest els v sg taken vs' out ev Hv Ht IH d cx tail acc s g Hfirst Hwfa Hwfe Hfit Hcx.
  destruct if_family_dispatch as [bc [Hbc Hd]].
  destruct Hwfa as [(Hc & Hbne & Hwfb) Hwfr].
  rewrite uarms_items_chain. cbn [uarms_of chain_items flat_map].
  fold (chain_items (uarms_of false (n + 1 + sum_sizes usize body)%Z rest els)).
  rewrite <- app_assoc. rewrite <- uarms_items_chain.
  set (a1 := cond_arm (if first then AIf else AElif) c n (uitems_from (n + 1)%Z body)).
  assert (Hok1 : arm_ok a1).
  { apply cond_arm_ok; [destruct first; discriminate|apply expr_ok_blank; exact Hc|].
    apply uwf_list_items_nonempty; assumption. }
  assert (Hstep : exists s1, RR g Fs (Some false) vs s1 /\
            forall T, exec_cmds fo (child_of d) cx (arm_items a1 ++ T) acc s = exec_cmds fo (child_of d) cx T acc s1).
  { destruct first.
    - destruct Hfirst as (f0 & HR & -> & _).
      exists (with_flag fo false (clear_line2 fo s)). split; [apply (RR_with_flag fo sys dir g Fs f0); exact HR|]. intro T.
      apply (if_arm_false fo (child_of d) cx bc Hbc Hd a1 T acc s Hok1 eq_refl).
      rewrite <- Ht. apply (cond_evals g Fs (Some (flag_or_false f0)) vs); [|exact Hc|exact Hv].
      apply RR_ensure_flag. exact HR.
    - destruct Hfirst as (HR & ->).
      exists (clear_line2 fo s). split; [exact HR|]. intro T.
      unfold arm_items. cbn [app]. rewrite exec_cmds_clear by (apply arm_line_nonblank; exact Hok1).
      apply (search_none fo (child_of d) cx bc Hbc Hd [a1] T acc (clear_line2 fo s)).
      + constructor; [exact Hok1|constructor].
      + constructor; [apply non_if_elif|constructor].
      + exact (RR_flag_of fo sys dir g Fs false vs (clear_line2 fo s) HR).
      + exact (RR_ensure_id fo sys dir g Fs false vs (clear_line2 fo s) HR).
      + reflexivity.
      + constructor; [|constructor]. rewrite <- Ht. apply (cond_evals g Fs (Some false) vs); [exact HR|exact Hc|exact Hv]. }
  destruct Hstep as (s1 & HR1 & Hstep). rewrite Hstep.
  apply (IH d cx tail acc s1 g (conj HR1 eq_refl) Hwfr Hwfe Hfit Hcx).
Qed.

Lemma case_a_else : forall d0 pile cf first n Fs b vs body sg F1 f1 vs1 out ev,
  P_list d0 (pile ++ [mkSF cf kw_ELSE n false]) cf (n + 1) Fs None vs body sg F1 f1 vs1 out ev ->
  P_arms (S d0) pile cf first n Fs b vs [] (Some body) sg true (copy_back fo vs vs1) out ev.
Proof.
  intros d0 pile cf first n Fs b vs body sg F1 f1 vs1 out ev IHb d cx tail acc s g Hfirst _ Hwfe Hfit Hcx.
  destruct if_family_dispatch as [bc [Hbc Hd]].
  destruct first; [destruct Hfirst as (f0 & _ & _ & Hne); contradiction|].
  destruct Hfirst as (HR & ->). destruct Hwfe as [Hbne Hwfb].
  rewrite uarms_items_chain. cbn [uarms_of].
  set (a1 := else_arm n (uitems_from (n + 1)%Z body)).
  assert (Hok1 : arm_ok a1) by (apply else_arm_ok; apply uwf_list_items_nonempty; assumption).
  assert (Hstep : exec_cmds fo (child_of d) cx (chain_items [a1] ++ tail) acc s =
                  take_arm fo (child_of d) cx a1 (chain_items (uarms_of false 0%Z [] None) ++ tail) acc
                           (with_flag fo true (clear_line2 fo s))).
  { cbn [chain_items flat_map arm_items app]. rewrite exec_cmds_clear by (apply arm_line_nonblank; exact Hok1).
    apply (search_take fo (child_of d) cx bc Hbc Hd [] a1 [] tail acc (clear_line2 fo s)).
    + constructor; [exact Hok1|constructor].
    + constructor; [apply non_if_else|constructor].
    + exact (RR_flag_of fo sys dir g Fs false vs (clear_line2 fo s) HR).
    + exact (RR_ensure_id fo sys dir g Fs false vs (clear_line2 fo s) HR).
    + reflexivity.
    + constructor.
    + apply evals_else_arm. reflexivity. }
  rewrite Hstep.
  apply (take_common d0 d cx a1 kw_ELSE n body 0%Z [] None tail acc (with_flag fo true (clear_line2 fo s))
           g Fs vs sg F1 f1 vs1 out ev pile cf eq_refl eq_refl eq_refl IHb
           (RR_with_flag fo sys dir g Fs (Some false) vs (clear_line2 fo s) true HR) eq_refl Hwfb Hfit Hcx I I).
  intros _. constructor.
Qed.

Lemma case_a_none : forall d0 pile cf first n Fs b vs, P_arms d0 pile cf first n Fs b vs [] None Normal false vs [] [].
Proof.
  intros d0 pile cf first n Fs b vs d cx tail acc s g Hfirst _ _ _ _.
  destruct first; [destruct Hfirst as (f0 & _ & _ & Hne); contradiction|].
  destruct Hfirst as (HR & _). exists s, []. split; [exact HR|]. split; [reflexivity|].
  rewrite app_nil_r. reflexivity.
Qed.

Lemma case_if : forall d0 pile cf n Fs f vs arms els sg taken vs' out ev,
  P_arms d0 pile cf true n Fs (flag_or_false f) vs arms els sg taken vs' out ev ->
  P_exec d0 pile cf n Fs f vs (UIf arms els) sg Fs (Some taken) vs' out ev.
Proof.
  intros d0 pile cf n Fs f vs arms els sg taken vs' out ev IH d cx rest acc s g HR Hwf Hfit Hcx _.
  apply uwf_if_unfold in Hwf. destruct Hwf as (Hne & Hwfa & Hwfe).
  rewrite ustmt_items_if.
  apply (IH d cx rest acc s g); [|exact Hwfa|exact Hwfe|exact Hfit|exact Hcx].
  exists f. split; [exact HR|]. split; [reflexivity|exact Hne].
Qed.

(* ------------------------------------------------------------------ RUN *)
Lemma case_run : forall d0 pile cf n Fs f vs name args vals df sg F1 f1 vs1 out ev,
  run_args fo sys f vs args vals ->
  lookup name Fs = Some df ->
  length (d_params df) = length vals ->
  P_list d0 (pile ++ [mkSF cf (run_head name args) n true]) (d_file df) (d_line df + 1) Fs None
         (CoreFunc.bind_params fo (d_params df) vals vs) (d_body df) sg F1 f1 vs1 out ev ->
  sg = Normal \/ sg = Returned ->
  P_exec (S d0) pile cf n Fs f vs (URun name args) Normal Fs f (copy_back fo vs vs1) out ev.
Proof.
  intros d0 pile cf n Fs f vs name args vals df sg F1 f1 vs1 out ev Hargs Hlk Hlen IHb Hsg
         d cx rest acc s g HR Hwf Hfit Hcx Hh.
  destruct Hwf as [Hn Ha]. pose proof HR as (F & HR0 & Htab).
  destruct (fits_S d cx _ Hfit) as (d' & -> & Hlim & Hfit').
  destruct (utab_rel_lookup dir Fs F name df Htab Hlk) as (fn & Hlf & Hfa & Hcode & Hff & Hbne & Hbwf).
  set (c := run_head name args).
  assert (Hav : arg_values fo (s_env s) (args_opt args) = Ok vals).
  { destruct args as [|a0 ar].
    - cbn in Hargs. subst vals. reflexivity.
    - destruct Hargs as (v & Hv & ->). destruct Ha as [Ha|Ha]; [discriminate|].
      unfold args_opt, arg_values. rewrite (expr_ok_blank _ Ha).
      rewrite (RR_eval fo sys dir g Fs f vs s _ v HR Hv). reflexivity. }
  pose proof HR0 as (G1 & G2 & G3 & G4 & G5 & G6).
  set (inner := CoreFunc.bind_params fo (d_params df) vals vs).
  assert (Hnd : nodup_keys inner).
  { unfold inner. rewrite bind_params_upd_all. apply nodup_keys_upd_all. exact G6. }
  assert (Hce : callee_env fo fn vals (s_env s) = mkEnv fo sys inner [] F).
  { unfold callee_env, RunProofs.bind_params. rewrite (entry_env_tab fo sys Hsys g F f vs s HR0 (proj2 (proj2 Htab))).
    cbn [e_sys e_user e_temp e_funcs]. rewrite Hfa. unfold inner. rewrite bind_params_upd_all. reflexivity. }
  assert (HRin : RR g Fs None inner (state_of g F None inner None)).
  { exists F. split; [apply state_of_R; exact Hnd|exact Htab]. }
  assert (Hctx : callee_ctx cx (c, n) fn (Some (c, n)) =
                 mkCtx (c_opts cx) (c_fs cx) (here cx (c, n) (Some (c, n))) (Some (file_of dir (d_file df)))).
  { unfold callee_ctx, callee_file. rewrite Hff. reflexivity. }
  assert (Hcx' : cx_ok (pile ++ [mkSF cf c n true]) (d_file df) (callee_ctx cx (c, n) fn (Some (c, n)))).
  { rewrite Hctx. apply cx_ok_inline. exact Hcx. }
  destruct (IHb d' (callee_ctx cx (c, n) fn (Some (c, n))) [] _ g HRin Hbwf
               (Hfit' (c, n) (Some (c, n)) (callee_file cx fn)) Hcx') as (s2 & ol & (F2 & HR2 & _) & Ho & E).
  cbn [app] in E. pose proof HR2 as (K1 & _).
  assert (Hchild : child_of (S d') (callee_ctx cx (c, n) fn (Some (c, n))) (s_g s) (callee_env fo fn vals (s_env s)) (fn_code fn)
                   = (apply_evs ev g, IOk (mkCret ol (sig_of sg), s_env s2))).
  { cbn [CoreRefine.child_of]. rewrite run_child_of. unfold run_with. rewrite Hce, Hcode, G1.
    unfold CoreRefine.state_of in E. cbn [flag_var] in E. rewrite E, K1. reflexivity. }
  exists (mkSt (apply_evs ev g) (update_from_env fo (s_env s) (s_env s2)) (Some (c, n))), ol.
  split; [exists F; split; [exact (R_update_from2 fo sys Hsys g _ _ F f vs s F2 f1 vs1 s2 _ HR0 HR2)|exact Htab]|].
  split; [exact Ho|].
  cbn [ustmt_items app continue_with]. fold c. rewrite <- G5 in Hlf.
  apply (run_line fo (child_of (S d')) cx name args n rest acc s vals fn (apply_evs ev g) (mkCret ol (sig_of sg)) (s_env s2)
           Hn Ha Hh Hav Hlf (eq_trans (f_equal (@length str) Hfa) Hlen) Hlim Hchild).
  destruct Hsg as [-> | ->]; [left|right]; reflexivity.
Qed.

(* ------------------------------------------------------------------ START / STARTCODE / STARTENV *)
Lemma stray_glob : forall sg ev g,
  sig_warned (sig_of sg) (apply_evs ev g) = apply_evs (ev ++ stray sg) g.
Proof. intros sg ev g. rewrite CoreAllBase.apply_evs_app. destruct sg; reflexivity. Qed.

Lemma not_live_circ : forall pile cf cx name,
  cx_ok pile cf cx -> ~ In name (CoreAll.live_files pile cf) -> circ cx (file_of dir name) = false.
Proof.
  intros pile cf cx name (Hpile & Hfile & _) Hlive. apply circ_false_iff. intro Hin.
  unfold StartLaws.live_files in Hin. rewrite Hpile, Hfile in Hin. apply in_app_or in Hin.
  destruct Hin as [Hin|[Heq|[]]].
  - rewrite map_map in Hin. apply in_map_iff in Hin. destruct Hin as (sf & Heq & Hsf).
    cbn [CoreAllBase.conc_frame fr_file] in Heq. injection Heq as Heq. apply file_of_inj in Heq.
    apply Hlive. right. rewrite <- Heq. apply in_map. exact Hsf.
  - injection Heq as Heq. apply file_of_inj in Heq. apply Hlive. left. exact Heq.
Qed.

Lemma case_start : forall d0 pile cf n Fs f vs k name stmts sg F1 f1 vs1 out ev,
  lookup name prog = Some stmts -> ~ In name (CoreAll.live_files pile cf) ->
  P_list d0 (pile ++ [mkSF cf (start_head k name) n true]) name 1 Fs None vs stmts sg F1 f1 vs1 out ev ->
  P_exec (S d0) pile cf n Fs f vs (UStart k name) Normal
         (match k with KCode => Fs | _ => overlay_defs F1 Fs end) f
         (match k with KCode => copy_back fo vs vs1 | _ => overlay fo vs1 vs end)
         (match k with KEnv => [] | _ => out end)
         (ev ++ stray sg).
Proof.
  intros d0 pile cf n Fs f vs k name stmts sg F1 f1 vs1 out ev Hlk Hlive IHb d cx rest acc s g HR Hwf Hfit Hcx Hh.
  cbn [uwf] in Hwf. pose proof HR as (F & HR0 & Htab).
  destruct (fits_S d cx _ Hfit) as (d' & -> & Hlim & Hfit').
  destruct (Hprog name stmts Hlk) as (Hswf & text & Hfs & Hparse).
  pose proof Hcx as (Hpile & Hfile & Hcfs & _).
  set (c := start_head k name). set (target := file_of dir name).
  set (cx' := start_ctx cx (c, n) (Some (c, n)) target).
  assert (Hcx' : cx_ok (pile ++ [mkSF cf c n true]) name cx') by (apply cx_ok_inline; exact Hcx).
  pose proof HR0 as (G1 & _ & _ & _ & _ & G6).
  assert (HRin : RR g Fs None vs (state_of g F None vs None)).
  { exists F. split; [apply state_of_R; exact G6|exact Htab]. }
  destruct (IHb d' cx' [] _ g HRin Hswf (Hfit' (c, n) (Some (c, n)) (Some target)) Hcx')
    as (s2 & ol & (F2 & HR2 & Htab2) & Ho & E).
  cbn [app] in E. pose proof HR2 as (K1 & _).
  assert (Hchild : child_of (S d') cx' (s_g s) (append_env fo (empty_env fo) (s_env s)) (uitems_from 1 stmts)
                   = (apply_evs ev g, IOk (mkCret ol (sig_of sg), s_env s2))).
  { cbn [CoreRefine.child_of]. rewrite run_child_of. unfold run_with.
    rewrite (entry_env_tab fo sys Hsys g F f vs s HR0 (proj2 (proj2 Htab))), G1.
    unfold CoreRefine.state_of in E. cbn [flag_var] in E. rewrite E, K1. reflexivity. }
  exists (mkSt (sig_warned (sig_of sg) (apply_evs ev g))
               (match k with KCode => update_from_env fo (s_env s) (s_env s2) | _ => append_env fo (s_env s) (s_env s2) end)
               (Some (c, n))),
         (match k with KEnv => [] | _ => ol end).
  split.
  - rewrite stray_glob. destruct k.
    + exists (upd_all F2 F). split; [exact (R_append fo sys Hsys g _ _ F f vs s F2 f1 vs1 s2 _ HR0 HR2)|].
      apply utab_rel_overlay; assumption.
    + exists F. split; [exact (R_update_from2 fo sys Hsys g _ _ F f vs s F2 f1 vs1 s2 _ HR0 HR2)|exact Htab].
    + exists (upd_all F2 F). split; [exact (R_append fo sys Hsys g _ _ F f vs s F2 f1 vs1 s2 _ HR0 HR2)|].
      apply utab_rel_overlay; assumption.
  - split; [destruct k; try exact Ho; reflexivity|].
    cbn [ustmt_items app continue_with]. fold c.
    apply (start_line_lemma fo (child_of (S d')) cx k name n rest acc s (file_of dir cf) target text
             (uitems_from 1 stmts) (apply_evs ev g) (mkCret ol (sig_of sg)) (s_env s2) Hwf Hh Hfile
             (resolve_name dir cf name Hwf)).
    + rewrite Hcfs. exact Hfs.
    + exact (not_live_circ pile cf cx name Hcx Hlive).
    + exact Hparse.
    + exact Hlim.
    + exact Hchild.
Qed.

(* ------------------------------------------------------------------ the induction *)
Theorem refine_all :
  (forall d0 pile cf n Fs f vs stm sg Fs' f' vs' out ev,
     exec d0 pile cf n Fs f vs stm sg Fs' f' vs' out ev -> P_exec d0 pile cf n Fs f vs stm sg Fs' f' vs' out ev) /\
  (forall d0 pile cf n Fs f vs p sg Fs' f' vs' out ev,
     exec_list d0 pile cf n Fs f vs p sg Fs' f' vs' out ev -> P_list d0 pile cf n Fs f vs p sg Fs' f' vs' out ev) /\
  (forall d0 pile cf first n Fs b vs arms els sg taken vs' out ev,
     exec_arms d0 pile cf first n Fs b vs arms els sg taken vs' out ev ->
     P_arms d0 pile cf first n Fs b vs arms els sg taken vs' out ev) /\
  (forall d0 pile cf n Fs f c e body k vs sg vs' out ev,
     exec_repeat d0 pile cf n Fs f c e body k vs sg vs' out ev -> P_repeat d0 pile cf n Fs f c e body k vs sg vs' out ev) /\
  (forall d0 pile cf n Fs c e body k vs sg vs' out ev,
     exec_while d0 pile cf n Fs c e body k vs sg vs' out ev -> P_while d0 pile cf n Fs c e body k vs sg vs' out ev).
Proof.
  apply (CoreAll.exec_all_mind fo sys prog inc sup P_exec P_list P_arms P_repeat P_while).
  - intros. apply case_emit.
  - intros. eapply case_emit_eval; eassumption.
  - intros. eapply case_var; eassumption.
  - intros. eapply case_if; eassumption.
  - intros. eapply case_repeat; eassumption.
  - intros. eapply case_while; eassumption.
  - intros. apply case_break.
  - intros. apply case_continue.
  - intros. apply case_return.
  - intros. apply case_func.
  - intros. eapply case_run; eassumption.
  - intros. apply case_print.
  - intros. eapply case_print_eval; eassumption.
  - intros. apply case_rem.
  - intros. apply case_unknown.
  - intros. eapply case_start; eassumption.
  - intros. apply case_nil.
  - intros. eapply case_cons; eassumption.
  - intros. eapply case_stop; eassumption.
  - intros. eapply case_a_take; eassumption.
  - intros. eapply case_a_skip; eassumption.
  - intros. eapply case_a_else; eassumption.
  - intros. apply case_a_none.
  - intros. eapply case_r_done; eassumption.
  - intros. eapply case_r_iter; eassumption.
  - intros. eapply case_r_stop; eassumption.
  - intros. eapply case_w_done; eassumption.
  - intros. eapply case_w_iter; eassumption.
  - intros. eapply case_w_stop; eassumption.
Qed.

(* ------------------------------------------------------------------ Stack.run of a statement list *)
Theorem refine_exec_cmds : forall d0 pile cf n Fs f vs p sg Fs' f' vs' out ev d cx acc s g,
  exec_list d0 pile cf n Fs f vs p sg Fs' f' vs' out ev ->
  uwf_list p -> fits d cx d0 -> cx_ok pile cf cx -> RR g Fs f vs s ->
  exists s' ol, RR (apply_evs ev g) Fs' f' vs' s' /\ map o_text ol = map line_text out /\
    exec_cmds fo (child_of d) cx (uitems_from n p) acc s = (s', IOk (mkCret (acc ++ ol) (sig_of sg))).
Proof.
  intros d0 pile cf n Fs f vs p sg Fs' f' vs' out ev d cx acc s g Hex Hwf Hfit Hcx HR.
  destruct refine_all as (_ & Hl & _).
  exact (Hl d0 pile cf n Fs f vs p sg Fs' f' vs' out ev Hex d cx acc s g HR Hwf Hfit Hcx).
Qed.

Theorem refine_run : forall d0 pile cf n Fs vs p sg Fs' f' vs' out ev d cx g F,
  exec_list d0 pile cf n Fs None vs p sg Fs' f' vs' out ev ->
  uwf_list p -> fits d cx d0 -> cx_ok pile cf cx -> nodup_keys vs -> utab_rel dir Fs F ->
  exists ol F', map o_text ol = map line_text out /\ utab_rel dir Fs' F' /\
    run fo d cx g (mkEnv fo sys vs [] F) (uitems_from n p) =
    (apply_evs ev g, IOk (mkCret ol (sig_of sg), mkEnv fo sys vs' (flag_var fo f') F')).
Proof.
  intros d0 pile cf n Fs vs p sg Fs' f' vs' out ev d cx g F Hex Hwf Hfit Hcx Hnd Htab.
  assert (HR : RR g Fs None vs (state_of g F None vs None)).
  { exists F. split; [apply state_of_R; exact Hnd|exact Htab]. }
  destruct (refine_exec_cmds d0 pile cf n Fs None vs p sg Fs' f' vs' out ev d cx [] _ g Hex Hwf Hfit Hcx HR)
    as (s' & ol & (F' & HR' & Htab') & Ho & E).
  exists ol, F'. split; [exact Ho|]. split; [exact Htab'|].
  rewrite run_child_of. unfold run_with. unfold CoreRefine.state_of in E. cbn [flag_var app] in E. rewrite E.
  rewrite (R_state_of fo sys _ F' f' vs' s' HR'). reflexivity.
Qed.

End Refine.
