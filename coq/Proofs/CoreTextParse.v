(* From TEXT to the reference semantics: [text_of u p] is split into the rendered lines, the
   indentation parser gives back [items_of p] (round trip of Proofs/TabRoundTrip.v), and the
   refinement theorem of Proofs/CoreRefine.v applies. *)
From Coq Require Import NArith ZArith List Bool Lia.
From DS Require Import Base PyStr Values Expr TabParse Tables Constants Interp.
From DS Require Import BlockTree TabProofs TabRoundTrip GraphText CoreLang CoreWf CoreRefine CoreText CoreTextForest.
Import ListNotations.

Arguments IOk {A}. Arguments IErr {A}. Arguments ICrash {A}. Arguments IUnmod {A}.

(* ================================================================== text -> lines *)
Definition no_nl (s : str) : Prop := char_in nl s = false.

Lemma render_no_nl : forall u, no_nl u ->
  forall f, forallb node_one_line f = true -> Forall no_nl (render u f).
Proof.
  intros u Hu.
  assert (Hn : forall nd, node_one_line nd = true -> Forall no_nl (render_node u nd)).
  { apply (node_ind2 (fun nd => node_one_line nd = true -> Forall no_nl (render_node u nd))).
    intros c kids IH H. cbn [node_one_line] in H. apply andb_true_iff in H. destruct H as [Hc Hk].
    apply negb_true_iff in Hc. cbn [render_node]. constructor; [exact Hc|].
    apply Forall_forall. intros l Hin. apply in_map_iff in Hin. destruct Hin as (l' & <- & Hin).
    unfold no_nl. rewrite char_in_app. unfold no_nl in Hu. rewrite Hu. cbn [orb].
    apply in_flat_map in Hin. destruct Hin as (k & Hkin & Hin).
    rewrite Forall_forall in IH. rewrite forallb_forall in Hk.
    pose proof (IH k Hkin (Hk k Hkin)) as Hall. rewrite Forall_forall in Hall. exact (Hall l' Hin). }
  intros f Hf. apply Forall_forall. intros l Hin. unfold render in Hin. apply in_flat_map in Hin.
  destruct Hin as (k & Hkin & Hin). rewrite forallb_forall in Hf.
  pose proof (Hn k (Hf k Hkin)) as Hall. rewrite Forall_forall in Hall. exact (Hall l Hin).
Qed.

(* splitting the text at "\n" gives the rendered lines back *)
Theorem lines_of_text_of : forall u p,
  no_nl u -> one_line_heads p = true -> forest_of p <> [] ->
  lines_of_text (text_of u p) = lines_of u p.
Proof.
  intros u p Hu Hp Hne. unfold lines_of_text, text_of.
  pose proof (render_no_nl u Hu (forest_of p) Hp) as Hall. fold (lines_of u p) in Hall.
  assert (Hlen : length (lines_of u p) <> 0).
  { unfold lines_of. rewrite render_length. destruct (forest_of p) as [|[c k] r]; [contradiction|].
    rewrite forest_size_cons, node_size_eq. lia. }
  destruct (lines_of u p) as [|l ls]; [contradiction|].
  apply split_join_lines. exact Hall.
Qed.

(* ================================================================== text -> tree *)
(* the general form: any core program whose heads are proper code lines (no condition on
   spelling), any indent unit without newline *)
Theorem prepare_text_forest : forall u p,
  wf_unit u -> no_nl u -> wf_forest (forest_of p) -> one_line_heads p = true ->
  prepare_text (text_of u p) = TOk (expected_forest (forest_of p) 1%Z).
Proof.
  intros u p Hu Hnl Hwf Hp. unfold prepare_text.
  destruct (forest_of p) as [|k r] eqn:Ef.
  - unfold text_of, lines_of. rewrite Ef. reflexivity.
  - rewrite lines_of_text_of; [|exact Hnl|exact Hp|rewrite Ef; discriminate].
    unfold lines_of. rewrite Ef.
    exact (parse_render_round_trip u (k :: r) Hu Hwf).
Qed.

(* a well-formed program: the parser returns [items_of p], numbers included *)
Theorem prepare_text_core : forall u p,
  wf_unit u -> no_nl u -> wf_list p -> one_line_heads p = true ->
  prepare_text (text_of u p) = TOk (items_of p).
Proof.
  intros u p Hu Hnl Hwf Hp.
  rewrite (prepare_text_forest u p Hu Hnl (wf_list_forest p Hwf) Hp).
  rewrite (expected_forest_items p 1%Z (wf_list_blocks_nonempty p Hwf)). reflexivity.
Qed.

Theorem compile_text_core : forall fo o fs file u p,
  wf_unit u -> no_nl u -> wf_list p -> one_line_heads p = true ->
  compile_text fo o fs file (text_of u p) = compile_items fo o fs file (items_of p).
Proof.
  intros fo o fs file u p Hu Hnl Hwf Hp. unfold compile_text.
  rewrite (prepare_text_core u p Hu Hnl Hwf Hp). reflexivity.
Qed.

(* ================================================================== THE END-TO-END THEOREM *)
Theorem text_refinement : forall fo o fs file u p sg f' vs' out,
  wf_unit u -> no_nl u ->
  wf_list p -> one_line_heads p = true -> (Z.of_nat (nesting_list p) < stack_limit o)%Z ->
  runs fo p sg f' vs' out ->
  exists ol, map o_text ol = out /\
    compile_text fo o fs file (text_of u p) =
    (mkGlob [] (stray_warnings sg),
     IOk (mkCompiled fo ol (stray_warnings sg) (mkEnv fo (initial_sys fo) vs' (flag_var fo f') []) [])).
Proof.
  intros fo o fs file u p sg f' vs' out Hu Hnl Hwf Hp Hnest Hrun.
  rewrite (compile_text_core fo o fs file u p Hu Hnl Hwf Hp).
  exact (refine_compile_items fo o fs file p sg f' vs' out Hrun Hwf Hnest).
Qed.

(* ================================================================== unit independence *)
(* from the round trip alone: ALL core programs whose heads are proper code lines -- failing
   programs, ill-spelled programs, programs with empty blocks included *)
Theorem unit_independence_forest : forall fo o fs file u1 u2 p,
  wf_unit u1 -> no_nl u1 -> wf_unit u2 -> no_nl u2 ->
  wf_forest (forest_of p) -> one_line_heads p = true ->
  prepare_text (text_of u1 p) = prepare_text (text_of u2 p) /\
  compile_text fo o fs file (text_of u1 p) = compile_text fo o fs file (text_of u2 p).
Proof.
  intros fo o fs file u1 u2 p H1 N1 H2 N2 Hwf Hp.
  assert (E : prepare_text (text_of u1 p) = prepare_text (text_of u2 p)).
  { rewrite (prepare_text_forest u1 p H1 N1 Hwf Hp), (prepare_text_forest u2 p H2 N2 Hwf Hp). reflexivity. }
  split; [exact E|]. unfold compile_text. rewrite E. reflexivity.
Qed.

Theorem unit_independence_core : forall fo o fs file u1 u2 p,
  wf_unit u1 -> no_nl u1 -> wf_unit u2 -> no_nl u2 ->
  wf_list p -> one_line_heads p = true ->
  compile_text fo o fs file (text_of u1 p) = compile_text fo o fs file (text_of u2 p).
Proof.
  intros fo o fs file u1 u2 p H1 N1 H2 N2 Hwf Hp.
  exact (proj2 (unit_independence_forest fo o fs file u1 u2 p H1 N1 H2 N2 (wf_list_forest p Hwf) Hp)).
Qed.

(* ================================================================== the side conditions are needed *)
(* (1) a unit may not contain a newline, although [wf_unit] (the hypothesis of the round trip on
       LINES) allows " \n": the text is then cut inside the indentation and the block is lost *)
Definition w_TRUE : str := [84;82;85;69]%N.
Definition w_STRING : str := [83;84;82;73;78;71]%N.
Definition w_a : str := [97]%N.
Definition prog_block : list stmt := [SIf [(w_TRUE, [SEmit w_STRING w_a])] None].

Lemma unit_newline_counterexample :
  wf_unit [32; 10]%N /\
  items_of prog_block = [Ln (kw_IF ++ 32%N :: w_TRUE) 1%Z; Blk [Ln (w_STRING ++ 32%N :: w_a) 2%Z]] /\
  prepare_text (text_of [32; 10]%N prog_block) =
  TOk [Ln (kw_IF ++ 32%N :: w_TRUE) 1%Z; Ln (w_STRING ++ 32%N :: w_a) 3%Z].
Proof. split; [split; [left; reflexivity|reflexivity]|]. split; vm_compute; reflexivity. Qed.

(* (2) a newline inside a statement (here inside the output text "a\nb") cuts the line in two *)
Definition prog_nl : list stmt := [SEmit w_STRING [97; 10; 98]%N].
Lemma head_newline_counterexample :
  one_line_heads prog_nl = false /\
  items_of prog_nl = [Ln (w_STRING ++ 32%N :: [97; 10; 98]%N) 1%Z] /\
  prepare_text (text_of [9]%N prog_nl) = TOk [Ln (w_STRING ++ 32%N :: [97]%N) 1%Z; Ln [98]%N 2%Z].
Proof. split; [|split]; vm_compute; reflexivity. Qed.

(* (3) an empty block: [items_of] writes an empty [Blk []] after the header, the parser makes no
       block at all (there is no line to put in it) *)
Definition prog_empty : list stmt := [SRepeat None [51]%N []].
Lemma empty_block_mismatch :
  items_of prog_empty = [Ln (kw_REPEAT ++ [32; 51]%N) 1%Z; Blk []] /\
  prepare_text (text_of [9]%N prog_empty) = TOk [Ln (kw_REPEAT ++ [32; 51]%N) 1%Z] /\
  ~ blocks_nonempty_list prog_empty.
Proof.
  split; [vm_compute; reflexivity|]. split; [vm_compute; reflexivity|].
  intros [[H _] _]. apply H. reflexivity.
Qed.

(* (4) the empty program: its text is "", one (blank) line, parsed to the empty tree *)
Lemma empty_program_text : forall u, text_of u [] = [] /\ prepare_text (text_of u []) = TOk (items_of []).
Proof. intro u. split; reflexivity. Qed.
