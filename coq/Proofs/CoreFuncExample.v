(* Non-vacuity of the refinement theorem of Proofs/CoreFuncRefine.v, and the findings (!) of
   Spec/CoreFunc.v on concrete programs: each program has a derivation in the reference
   semantics, is well formed, and the interpreter (Compiler.compile of the model, default
   options, vm_compute) gives the same lines, the same final variables, the same function names. *)
From Coq Require Import String Ascii NArith ZArith List Bool Lia.
From DS Require Import Base PyStr Values Expr TabParse Tables Constants Interp IdentSpec.
From DS Require Import ChainLoopExamples CoreLang CoreWf CoreRefine CoreFunc CoreFuncLines CoreFuncRefine.
Import ListNotations.
Open Scope string_scope.
Open Scope list_scope.

Arguments IOk {A}. Arguments IErr {A}.

(* ------------------------------------------------------------------ building derivations *)
Ltac ev := unfold eval; vm_compute; reflexivity.
Ltac dec := vm_compute; reflexivity.
Ltac rng := unfold loop_max; lia.
Ltac sgl := first [left; reflexivity | right; reflexivity].

Ltac derive :=
  lazymatch goal with
  | |- exec _ _ _ _ _ _ (FEmit _ _) _ _ _ _ _ => eapply E_Emit
  | |- exec _ _ _ _ _ _ (FEmitEval _ _) _ _ _ _ _ => eapply E_EmitEval; [ev|dec]
  | |- exec _ _ _ _ _ _ (FVar _ _) _ _ _ _ _ => eapply E_Var; ev
  | |- exec _ _ _ _ _ _ (FIf _ _) _ _ _ _ _ => eapply E_If; derive
  | |- exec _ _ _ _ _ _ (FRepeat _ _ _) _ _ _ _ _ => eapply E_Repeat; derive
  | |- exec _ _ _ _ _ _ (FWhile _ _ _) _ _ _ _ _ => eapply E_While; derive
  | |- exec _ _ _ _ _ _ FBreakLoop _ _ _ _ _ => eapply E_Break
  | |- exec _ _ _ _ _ _ FContinueLoop _ _ _ _ _ => eapply E_Continue
  | |- exec _ _ _ _ _ _ FReturn _ _ _ _ _ => eapply E_Return
  | |- exec _ _ _ _ _ _ (FFunc _ _ _) _ _ _ _ _ => eapply E_Func
  | |- exec _ _ _ _ _ _ (FRun _ []) _ _ _ _ _ =>
      eapply E_Run; [reflexivity|dec|reflexivity|derive|sgl]
  | |- exec _ _ _ _ _ _ (FRun _ _) _ _ _ _ _ =>
      eapply E_Run; [eexists; split; [ev|reflexivity]|dec|reflexivity|derive|sgl]
  | |- exec_list _ _ _ _ _ _ [] _ _ _ _ _ => eapply L_Nil
  | |- exec_list _ _ _ _ _ _ (_ :: _) _ _ _ _ _ =>
      first [ eapply L_Cons; [solve [derive]|derive]
            | eapply L_Stop; [solve [derive]|discriminate] ]
  | |- exec_arms _ _ _ _ _ _ ((_, _) :: _) _ _ _ _ _ =>
      first [ eapply A_Take; [ev|dec|solve [derive]|
                              first [ intros _; repeat (constructor; [eexists; ev|]); constructor
                                    | let Hd := fresh "Hd" in intro Hd; discriminate Hd ] ]
            | eapply A_Skip; [ev|dec|derive] ]
  | |- exec_arms _ _ _ _ _ _ [] (Some _) _ _ _ _ => eapply A_Else; derive
  | |- exec_arms _ _ _ _ _ _ [] None _ _ _ _ => eapply A_None
  | |- exec_repeat _ _ _ _ _ _ _ _ _ _ _ _ _ =>
      first [ eapply R_Done; [ev|dec|rng|lia]
            | eapply R_Iter; [ev|dec|rng|lia|solve [derive]|sgl|derive]
            | eapply R_Stop; [ev|dec|rng|lia|solve [derive]|sgl] ]
  | |- exec_while _ _ _ _ _ _ _ _ _ _ _ _ =>
      first [ eapply W_Done; [rng|ev|dec]
            | eapply W_Iter; [rng|ev|dec|solve [derive]|sgl|derive]
            | eapply W_Stop; [rng|ev|dec|solve [derive]|sgl] ]
  end.

Ltac wf_dec := repeat (first [exact I | discriminate | reflexivity | split | (left; reflexivity) | right]).

Section Examples.
Variable fo : FloatOps.

(* texts, user variables, temp variables, NAMES of the defined functions, warnings *)
Definition fresult (p : list fstmt)
  : option (list str * list (str * value fo) * list (str * value fo) * list str * list warning) :=
  match compile_items fo default_options (fun _ => None) None (fitems_of p) with
  | (_, IOk c) => Some (map o_text (out fo c), e_user fo (final_env fo c), e_temp fo (final_env fo c),
                        map fst (e_funcs fo (final_env fo c)), warnings fo c)
  | _ => None
  end.

Definition ferror (p : list fstmt) : option errcls :=
  match compile_items fo default_options (fun _ => None) None (fitems_of p) with
  | (_, IErr e _) => Some e
  | _ => None
  end.

Definition S_ (t : string) := lit t.

(* ------------------------------------------------------------------ a recursive countdown
     FUNC down n
         IF n>0
             $STRING n
             RUN down n-1
     RUN down 3                    4 calls and 3 IF blocks: 7 stacks above the main one *)
Definition down_body : list fstmt :=
  [ FIf [ (S_ "n>0", [ FEmitEval (S_ "STRING") (S_ "n"); FRun (S_ "down") [S_ "n-1"] ]) ] None ].
Definition prog_down : list fstmt :=
  [ FFunc (S_ "down") [S_ "n"] down_body; FRun (S_ "down") [S_ "3"] ].
Definition out_down : list str := [S_ "STRING 3"; S_ "STRING 2"; S_ "STRING 1"].
Definition tab_down : ftable := [(S_ "down", ([S_ "n"], down_body))].

Lemma down_derivation : fruns fo prog_down 7 Normal tab_down None [] out_down.
Proof.
  assert (H : exists F' f' vs' out, fruns fo prog_down 7 Normal F' f' vs' out /\
                                    F' = tab_down /\ f' = None /\ vs' = [] /\ out = out_down).
  { do 4 eexists. split; [unfold fruns, prog_down, down_body; derive|]. repeat split; vm_compute; reflexivity. }
  destruct H as (F' & f' & vs' & out & H & -> & -> & -> & ->). exact H.
Qed.

Lemma down_wf : fwf_list prog_down.
Proof. unfold prog_down, down_body. cbn. wf_dec. Qed.

Lemma down_interpreter : fresult prog_down = Some (out_down, [], [], [S_ "down"], []).
Proof. vm_compute. reflexivity. Qed.

(* ... and the same through the theorem *)
Lemma down_by_theorem : exists ol F',
  map o_text ol = out_down /\ tab_rel tab_down F' /\
  compile_items fo default_options (fun _ => None) None (fitems_of prog_down) =
  (mkGlob [] [], IOk (mkCompiled fo ol [] (mkEnv fo (initial_sys fo) [] [] F') [])).
Proof.
  destruct (refine_compile_items fo default_options (fun _ => None) None prog_down 7 Normal tab_down None [] out_down
              down_derivation down_wf) as (ol & F' & Ho & Ht & E).
  { vm_compute. reflexivity. }
  exists ol, F'. split; [exact Ho|]. split; [exact Ht|exact E].
Qed.

(* the stack limit bounds the recursion: with a limit of 7 the program needs all of it ... *)
Definition opts_limit (k : Z) : options :=
  mkOptions k (include_comments default_options) (flipper_commands default_options)
            (supress_command_not_exist default_options) (use_project_config default_options).

Lemma down_limit_8 : exists ol F',
  map o_text ol = out_down /\ tab_rel tab_down F' /\
  compile_items fo (opts_limit 8) (fun _ => None) None (fitems_of prog_down) =
  (mkGlob [] [], IOk (mkCompiled fo ol [] (mkEnv fo (initial_sys fo) [] [] F') [])).
Proof.
  destruct (refine_compile_items fo (opts_limit 8) (fun _ => None) None prog_down 7 Normal tab_down None [] out_down
              down_derivation down_wf) as (ol & F' & Ho & Ht & E).
  { vm_compute. reflexivity. }
  exists ol, F'. split; [exact Ho|]. split; [exact Ht|exact E].
Qed.

(* ... and with a limit of 7 the interpreter refuses: the depth hypothesis of the theorem is tight *)
Lemma down_limit_7 :
  match compile_items fo (opts_limit 7) (fun _ => None) None (fitems_of prog_down) with
  | (_, IErr EStackOverflow _) => True
  | _ => False
  end.
Proof. vm_compute. exact I. Qed.

(* ------------------------------------------------------------------ RETURN from inside a REPEAT
     FUNC f
         REPEAT i,5
             IF i==2
                 RETURN            -- ends the IF block, the iteration, the loop and the call ...
             $STRING i
         STRING never
     RUN f
     STRING after                  -- ... and only the call *)
Definition ret_body : list fstmt :=
  [ FRepeat (Some (S_ "i")) (S_ "5")
      [ FIf [ (S_ "i==2", [FReturn]) ] None; FEmitEval (S_ "STRING") (S_ "i") ];
    FEmit (S_ "STRING") (S_ "never") ].
Definition prog_ret : list fstmt :=
  [ FFunc (S_ "f") [] ret_body; FRun (S_ "f") []; FEmit (S_ "STRING") (S_ "after") ].
Definition out_ret : list str := [S_ "STRING 0"; S_ "STRING 1"; S_ "STRING after"].

Lemma ret_derivation : fruns fo prog_ret 3 Normal [(S_ "f", ([], ret_body))] None [] out_ret.
Proof.
  assert (H : exists F' f' vs' out, fruns fo prog_ret 3 Normal F' f' vs' out /\
                                    F' = [(S_ "f", ([], ret_body))] /\ f' = None /\ vs' = [] /\ out = out_ret).
  { do 4 eexists. split; [unfold fruns, prog_ret, ret_body; derive|]. repeat split; vm_compute; reflexivity. }
  destruct H as (F' & f' & vs' & out & H & -> & -> & -> & ->). exact H.
Qed.

Lemma ret_wf : fwf_list prog_ret.
Proof. unfold prog_ret, ret_body. cbn. wf_dec. Qed.

Lemma ret_interpreter : fresult prog_ret = Some (out_ret, [], [], [S_ "f"], []).
Proof. vm_compute. reflexivity. Qed.

(* ------------------------------------------------------------------ redefinition: the latest wins
     FUNC f / STRING one ; RUN f ; FUNC f / STRING two ; RUN f *)
Definition prog_redef : list fstmt :=
  [ FFunc (S_ "f") [] [FEmit (S_ "STRING") (S_ "one")]; FRun (S_ "f") [];
    FFunc (S_ "f") [] [FEmit (S_ "STRING") (S_ "two")]; FRun (S_ "f") [] ].

Lemma redef_derivation :
  fruns fo prog_redef 1 Normal [(S_ "f", ([], [FEmit (S_ "STRING") (S_ "two")]))] None []
        [S_ "STRING one"; S_ "STRING two"].
Proof.
  assert (H : exists F' f' vs' out, fruns fo prog_redef 1 Normal F' f' vs' out /\
              F' = [(S_ "f", ([], [FEmit (S_ "STRING") (S_ "two")]))] /\ f' = None /\ vs' = [] /\
              out = [S_ "STRING one"; S_ "STRING two"]).
  { do 4 eexists. split; [unfold fruns, prog_redef; derive|]. repeat split; vm_compute; reflexivity. }
  destruct H as (F' & f' & vs' & out & H & -> & -> & -> & ->). exact H.
Qed.

Lemma redef_wf : fwf_list prog_redef.
Proof. unfold prog_redef. cbn. wf_dec. Qed.

Lemma redef_interpreter : fresult prog_redef = Some ([S_ "STRING one"; S_ "STRING two"], [], [], [S_ "f"], []).
Proof. vm_compute. reflexivity. Qed.

(* ------------------------------------------------------------------ (!) what a call does to the caller's variables
     VAR x 1
     VAR n 10
     FUNC f n
         VAR x n+1            -- the caller has x: the assignment PERSISTS
         VAR y 5              -- created by the body: gone after the call
     RUN f 7
     $STRING x                -- 8
     $STRING n                -- 7 (!): the parameter n took the place of the caller's n in the
                                 body's store, and copy-back wrote it over the caller's n *)
Definition prog_scope : list fstmt :=
  [ FVar (S_ "x") (S_ "1"); FVar (S_ "n") (S_ "10");
    FFunc (S_ "f") [S_ "n"] [ FVar (S_ "x") (S_ "n+1"); FVar (S_ "y") (S_ "5") ];
    FRun (S_ "f") [S_ "7"];
    FEmitEval (S_ "STRING") (S_ "x"); FEmitEval (S_ "STRING") (S_ "n") ].
Definition vars_scope : store fo := [(S_ "x", VInt 8); (S_ "n", VInt 7)].

Lemma scope_derivation : exists F',
  fruns fo prog_scope 1 Normal F' None vars_scope [S_ "STRING 8"; S_ "STRING 7"].
Proof.
  assert (H : exists F' f' vs' out, fruns fo prog_scope 1 Normal F' f' vs' out /\
              f' = None /\ vs' = vars_scope /\ out = [S_ "STRING 8"; S_ "STRING 7"]).
  { do 4 eexists. split; [unfold fruns, prog_scope; derive|]. repeat split; vm_compute; reflexivity. }
  destruct H as (F' & f' & vs' & out & H & -> & -> & ->). exists F'. exact H.
Qed.

Lemma scope_wf : fwf_list prog_scope.
Proof. unfold prog_scope. cbn. wf_dec. Qed.

Lemma scope_interpreter : fresult prog_scope = Some ([S_ "STRING 8"; S_ "STRING 7"], vars_scope, [], [S_ "f"], []).
Proof. vm_compute. reflexivity. Qed.

(* ------------------------------------------------------------------ (!) dynamic scoping
     FUNC show
         $STRING secret        -- no such variable where show is DEFINED
     FUNC outer
         VAR secret 42         -- local to the call of outer
         RUN show              -- ... but show, called from here, sees it
     RUN outer *)
Definition prog_dyn : list fstmt :=
  [ FFunc (S_ "show") [] [FEmitEval (S_ "STRING") (S_ "secret")];
    FFunc (S_ "outer") [] [FVar (S_ "secret") (S_ "42"); FRun (S_ "show") []];
    FRun (S_ "outer") [] ].

Lemma dyn_derivation : exists F', fruns fo prog_dyn 2 Normal F' None [] [S_ "STRING 42"].
Proof.
  assert (H : exists F' f' vs' out, fruns fo prog_dyn 2 Normal F' f' vs' out /\
              f' = None /\ vs' = [] /\ out = [S_ "STRING 42"]).
  { do 4 eexists. split; [unfold fruns, prog_dyn; derive|]. repeat split; vm_compute; reflexivity. }
  destruct H as (F' & f' & vs' & out & H & -> & -> & ->). exists F'. exact H.
Qed.

Lemma dyn_wf : fwf_list prog_dyn.
Proof. unfold prog_dyn. cbn. wf_dec. Qed.

Lemma dyn_interpreter : fresult prog_dyn = Some ([S_ "STRING 42"], [], [], [S_ "show"; S_ "outer"], []).
Proof. vm_compute. reflexivity. Qed.

(* ------------------------------------------------------------------ (!) one argument whose value is a list is SPREAD
     FUNC add a,b
         $STRING a+b
     VAR p 1,2
     RUN add p                 -- ONE argument text, TWO arguments: STRING 3
     RUN add 10,20             -- STRING 30 *)
Definition prog_spread : list fstmt :=
  [ FFunc (S_ "add") [S_ "a"; S_ "b"] [FEmitEval (S_ "STRING") (S_ "a+b")];
    FVar (S_ "p") (S_ "1,2");
    FRun (S_ "add") [S_ "p"];
    FRun (S_ "add") [S_ "10"; S_ "20"] ].

Lemma spread_derivation : exists F' vs',
  fruns fo prog_spread 1 Normal F' None vs' [S_ "STRING 3"; S_ "STRING 30"].
Proof.
  assert (H : exists F' f' vs' out, fruns fo prog_spread 1 Normal F' f' vs' out /\
              f' = None /\ out = [S_ "STRING 3"; S_ "STRING 30"]).
  { do 4 eexists. split; [unfold fruns, prog_spread; derive|]. repeat split; vm_compute; reflexivity. }
  destruct H as (F' & f' & vs' & out & H & -> & ->). exists F', vs'. exact H.
Qed.

Lemma spread_wf : fwf_list prog_spread.
Proof. unfold prog_spread. cbn. wf_dec. Qed.

Lemma spread_interpreter : match fresult prog_spread with
  | Some (o, _, _, _, _) => o = [S_ "STRING 3"; S_ "STRING 30"] | None => False end.
Proof. vm_compute. reflexivity. Qed.

(* ------------------------------------------------------------------ RETURN at top level ends the program, silently
     STRING a / RETURN / STRING b *)
Definition prog_top : list fstmt :=
  [ FEmit (S_ "STRING") (S_ "a"); FReturn; FEmit (S_ "STRING") (S_ "b") ].

Lemma top_derivation : fruns fo prog_top 0 Returned [] None [] [S_ "STRING a"].
Proof.
  assert (H : exists F' f' vs' out, fruns fo prog_top 0 Returned F' f' vs' out /\
              F' = [] /\ f' = None /\ vs' = [] /\ out = [S_ "STRING a"]).
  { do 4 eexists. split; [unfold fruns, prog_top; derive|]. repeat split; vm_compute; reflexivity. }
  destruct H as (F' & f' & vs' & out & H & -> & -> & -> & ->). exact H.
Qed.

Lemma top_wf : fwf_list prog_top.
Proof. unfold prog_top. cbn. wf_dec. Qed.

Lemma top_interpreter : fresult prog_top = Some ([S_ "STRING a"], [], [], [], []).
Proof. vm_compute. reflexivity. Qed.

(* ------------------------------------------------------------------ a definition made in a block dies with it
     IF TRUE
         FUNC g
             STRING x
         RUN g                  -- fine
     RUN g                      -- error: g is not defined here *)
Definition prog_local_ok : list fstmt :=
  [ FIf [ (S_ "TRUE", [ FFunc (S_ "g") [] [FEmit (S_ "STRING") (S_ "x")]; FRun (S_ "g") [] ]) ] None ].
Definition prog_local : list fstmt := prog_local_ok ++ [ FRun (S_ "g") [] ].

Lemma local_ok_derivation : fruns fo prog_local_ok 2 Normal [] (Some true) [] [S_ "STRING x"].
Proof.
  assert (H : exists F' f' vs' out, fruns fo prog_local_ok 2 Normal F' f' vs' out /\
              F' = [] /\ f' = Some true /\ vs' = [] /\ out = [S_ "STRING x"]).
  { do 4 eexists. split; [unfold fruns, prog_local_ok; derive|]. repeat split; vm_compute; reflexivity. }
  destruct H as (F' & f' & vs' & out & H & -> & -> & -> & ->). exact H.
Qed.

Lemma local_interpreter :
  fresult prog_local_ok = Some ([S_ "STRING x"], [], [(if_success, VBool true)], [], []) /\
  ferror prog_local = Some EVarNonExistent.
Proof. split; vm_compute; reflexivity. Qed.

(* ------------------------------------------------------------------ the errors of C07, on the interpreter *)
(* unknown name; wrong arity; BREAKLOOP escaping a function *)
Definition prog_unknown : list fstmt := [ FRun (S_ "nope") [] ].
Definition prog_arity : list fstmt :=
  [ FFunc (S_ "f") [S_ "a"] [FEmit (S_ "STRING") (S_ "x")]; FRun (S_ "f") [S_ "1"; S_ "2"] ].
Definition prog_escape : list fstmt :=
  [ FFunc (S_ "f") [] [FBreakLoop]; FRepeat None (S_ "2") [FRun (S_ "f") []] ].

Lemma errors_interpreter :
  ferror prog_unknown = Some EVarNonExistent /\
  ferror prog_arity = Some EInvalidArguments /\
  ferror prog_escape = Some EStackReturnType.
Proof. repeat split; vm_compute; reflexivity. Qed.

End Examples.

(* ------------------------------------------------------------------ the witnesses, as stated in Properties/C07d.v *)
Theorem all_recursive_countdown : forall fo,
  fruns fo prog_down 7 Normal tab_down None [] [lit "STRING 3"; lit "STRING 2"; lit "STRING 1"] /\
  fwf_list prog_down /\
  fresult fo prog_down = Some ([lit "STRING 3"; lit "STRING 2"; lit "STRING 1"], [], [], [lit "down"], []) /\
  match compile_items fo (opts_limit 7) (fun _ => None) None (fitems_of prog_down) with
  | (_, IErr EStackOverflow _) => True | _ => False end.
Proof.
  intro fo.
  split; [exact (down_derivation fo)|].
  split; [exact down_wf|].
  split; [exact (down_interpreter fo)|].
  exact (down_limit_7 fo).
Qed.

Theorem all_return_inside_repeat : forall fo,
  fruns fo prog_ret 3 Normal [(lit "f", ([], ret_body))] None []
        [lit "STRING 0"; lit "STRING 1"; lit "STRING after"] /\
  fwf_list prog_ret /\
  fresult fo prog_ret = Some ([lit "STRING 0"; lit "STRING 1"; lit "STRING after"], [], [], [lit "f"], []).
Proof.
  intro fo.
  split; [exact (ret_derivation fo)|].
  split; [exact ret_wf|].
  exact (ret_interpreter fo).
Qed.

Theorem all_redefinition : forall fo,
  fruns fo prog_redef 1 Normal [(lit "f", ([], [FEmit (lit "STRING") (lit "two")]))] None []
        [lit "STRING one"; lit "STRING two"] /\
  fwf_list prog_redef /\
  fresult fo prog_redef = Some ([lit "STRING one"; lit "STRING two"], [], [], [lit "f"], []).
Proof.
  intro fo.
  split; [exact (redef_derivation fo)|].
  split; [exact redef_wf|].
  exact (redef_interpreter fo).
Qed.

Theorem all_call_and_caller_variables : forall fo,
  (exists F', fruns fo prog_scope 1 Normal F' None [(lit "x", VInt 8); (lit "n", VInt 7)]
                    [lit "STRING 8"; lit "STRING 7"]) /\
  fwf_list prog_scope /\
  fresult fo prog_scope = Some ([lit "STRING 8"; lit "STRING 7"], [(lit "x", VInt 8); (lit "n", VInt 7)], [], [lit "f"], []).
Proof.
  intro fo.
  split; [exact (scope_derivation fo)|].
  split; [exact scope_wf|].
  exact (scope_interpreter fo).
Qed.

Theorem all_dynamic_scoping : forall fo,
  (exists F', fruns fo prog_dyn 2 Normal F' None [] [lit "STRING 42"]) /\
  fwf_list prog_dyn /\
  fresult fo prog_dyn = Some ([lit "STRING 42"], [], [], [lit "show"; lit "outer"], []).
Proof.
  intro fo.
  split; [exact (dyn_derivation fo)|].
  split; [exact dyn_wf|].
  exact (dyn_interpreter fo).
Qed.

Theorem all_list_argument_is_spread : forall fo,
  (exists F' vs', fruns fo prog_spread 1 Normal F' None vs' [lit "STRING 3"; lit "STRING 30"]) /\
  fwf_list prog_spread /\
  match fresult fo prog_spread with
  | Some (o, _, _, _, _) => o = [lit "STRING 3"; lit "STRING 30"] | None => False end.
Proof.
  intro fo.
  split; [exact (spread_derivation fo)|].
  split; [exact spread_wf|].
  exact (spread_interpreter fo).
Qed.

Theorem all_return_at_top_level : forall fo,
  fruns fo prog_top 0 Returned [] None [] [lit "STRING a"] /\
  fwf_list prog_top /\
  fresult fo prog_top = Some ([lit "STRING a"], [], [], [], []).
Proof.
  intro fo.
  split; [exact (top_derivation fo)|].
  split; [exact top_wf|].
  exact (top_interpreter fo).
Qed.

Theorem all_definition_dies_with_block : forall fo,
  fruns fo prog_local_ok 2 Normal [] (Some true) [] [lit "STRING x"] /\
  fresult fo prog_local_ok = Some ([lit "STRING x"], [], [(if_success, VBool true)], [], []) /\
  ferror fo prog_local = Some EVarNonExistent.
Proof.
  intro fo.
  split; [exact (local_ok_derivation fo)|].
  exact (local_interpreter fo).
Qed.
