(* C18: what a plain PRINT line and a PASS line do, computed through the whole pipeline.
   A PRINT line (first word upper-cases to PRINT, so no leading `$`) with an optional inline
   argument and an optional argument group adds one record per argument, in order, each with the
   stripped text, the argument's own line number and the file of the running stack; it emits
   nothing, keeps the environment and the warnings, never fails. *)
From Coq Require Import NArith ZArith List Bool Lia.
From DS Require Import Base PyStr Values Expr TabParse Tables Constants Interp PipelineProofs.
Import ListNotations.

Definition s_PRINT : str := [80;82;73;78;84]%N.
Definition s_PASS : str := [80;65;83;83]%N.
Definition print_cname : str := [80;114;105;110;116]%N.
Definition pass_cname : str := [80;97;115;115]%N.
Definition print_sc : simple_cls :=
  mkSimple [s_PRINT] Allowed true false ATStr false [] (mkValidator [] true) PVNone (mkFormatter [] SContent) RKPrint.
Definition pass_sc : simple_cls :=
  mkSimple [s_PASS] NotAllowed true false ATStr false [] (mkValidator [] true) PVNone (mkFormatter [] SContent) RKPass.

Lemma find_print : forall cb, find_command palette s_PRINT cb = Some (print_cname, Simple print_sc).
Proof. intros [[|i b]|]; vm_compute; reflexivity. Qed.

Lemma find_pass : forall cb, find_command palette s_PASS cb = Some (pass_cname, Simple pass_sc).
Proof. intros [[|i b]|]; vm_compute; reflexivity. Qed.

Lemma upper_no_dollar : forall cmd k, upper cmd = k -> starts_dollar k = false -> starts_dollar cmd = false.
Proof.
  intros cmd k Hu Hk. destruct cmd as [|c r]; [reflexivity|]. unfold starts_dollar.
  destruct c as [|p]; [reflexivity|]. repeat (destruct p as [p|p|]; try reflexivity).
  subst k. cbn in Hk. discriminate.
Qed.

Lemma find_print_word : forall cmd cb, upper cmd = s_PRINT ->
  find_command palette cmd cb = Some (print_cname, Simple print_sc).
Proof.
  intros cmd cb Hu. rewrite (find_command_upper palette cmd s_PRINT cb Hu); [apply find_print|reflexivity| |reflexivity].
  eapply upper_no_dollar; [exact Hu|reflexivity].
Qed.

Lemma split_ws1_not_blank : forall c cmd more, split_ws1 c = cmd :: more -> is_blank c = false.
Proof.
  intros c cmd more H. unfold split_ws1 in H. unfold is_blank. destruct (lstrip c); [discriminate|reflexivity].
Qed.

(* the pure part of listify_args *)
Definition first_arg (cur : preline) (argument : option str) (num : Z) : list line :=
  match argument with
  | Some a => match a with [] => [] | _ => [mkLine (AStr a) num cur] end
  | None => [] end.

Definition listify_pure (cur : preline) (argument : option str) (cb : option (list item)) (num : Z) : option (list line) :=
  match cb with
  | Some b => option_map (app (first_arg cur argument num)) (block_lines b)
  | None => Some (first_arg cur argument num)
  end.

Definition line_is_str (l : line) : Prop := match l_content l with AStr _ => True | AInt _ => False end.

Lemma block_lines_str : forall b ls, block_lines b = Some ls -> Forall line_is_str ls.
Proof.
  induction b as [|[c n|b'] r IH]; intros ls H; cbn [block_lines] in H.
  - injection H as <-. constructor.
  - destruct (block_lines r) as [t|]; [|discriminate]. injection H as <-. constructor; [exact I|]. apply IH. reflexivity.
  - discriminate.
Qed.

Lemma listify_pure_str : forall cur argument cb num ls, listify_pure cur argument cb num = Some ls -> Forall line_is_str ls.
Proof.
  intros cur argument cb num ls H. unfold listify_pure in H.
  assert (Hf : Forall line_is_str (first_arg cur argument num)).
  { unfold first_arg. destruct argument as [[|a0 ar]|]; repeat constructor. }
  destruct cb as [b|].
  - destruct (block_lines b) as [t|] eqn:Eb; [|discriminate]. injection H as <-.
    apply Forall_app. split; [exact Hf|]. eapply block_lines_str. exact Eb.
  - injection H as <-. exact Hf.
Qed.

(* the text of the record made for one argument line *)
Definition print_of (file : option path) (l : line) : print_rec :=
  mkPrint (content_text (l_content (strip_line l))) (l_num l) file.

Section PrintLine.
Variable fo : FloatOps.
Variable child : runner fo.
Variable cx : ctx.
Notation st := (st fo).

Lemma line_eta : forall l, mkLine (l_content l) (l_num l) (l_orig l) = l.
Proof. intros [a n o]. reflexivity. Qed.

Lemma strip_line_num : forall l, l_num (strip_line l) = l_num l.
Proof. intros [[s|z] n o]; reflexivity. Qed.
Lemma strip_line_orig : forall l, l_orig (strip_line l) = l_orig l.
Proof. intros [[s|z] n o]; reflexivity. Qed.

Lemma check_types_str : forall cur (args : list line) (s : st),
  check_types fo cx cur ATStr (map (fun l => (l, Some (l_content l))) args) s =
  (mkSt (s_g s) (s_env s) None, IOk args).
Proof.
  intros cur args. induction args as [|l r IH]; intros s; cbn [check_types map].
  - reflexivity.
  - unfold bindM at 1. unfold set_line2 at 1. unfold bindM at 1. rewrite IH. cbn [s_g s_env]. unfold ret.
    rewrite line_eta. reflexivity.
Qed.

Lemma verify_each_trivial : forall cur params (args : list line) (s : st),
  Forall line_is_str args ->
  verify_each fo cx cur params (mkValidator [] true) args s = (mkSt (s_g s) (s_env s) None, IOk tt).
Proof.
  intros cur params args. induction args as [|l r IH]; intros s Hs; cbn [verify_each].
  - reflexivity.
  - inversion Hs as [|? ? Hl Hr]; subst. unfold bindM at 1. unfold set_line2 at 1.
    unfold bindM at 1. unfold eval_validator. cbn [v_rules v_default eval_validator_rules lift].
    unfold ret at 1. rewrite IH by exact Hr. reflexivity.
Qed.

Lemma format_each_id : forall cur params (args : list line) (s : st),
  format_each fo cx cur params (mkFormatter [] SContent) args s = (s, IOk args).
Proof.
  intros cur params args. induction args as [|l r IH]; intros s; cbn [format_each].
  - reflexivity.
  - unfold bindM at 1. unfold eval_formatter. cbn [f_rules f_default lift]. unfold ret at 1.
    unfold bindM at 1. rewrite IH. unfold ret. rewrite line_eta. reflexivity.
Qed.

Lemma multi_comp_print : forall cur cname tg name (args : list line) acc (s : st),
  multi_comp fo child cx cur cname tg print_sc name (map Some args) acc s =
  (mkSt (mkGlob (rev (map (fun l => mkPrint (content_text (l_content l)) (l_num l) (c_file cx)) args) ++ g_prints (s_g s))
                (g_warnings (s_g s)))
        (s_env s)
        (match rev args with [] => s_line2 s | l :: _ => Some (l_orig l) end),
   IOk (match args with [] => acc | _ => mkCret (cr_data acc) SNormal end)).
Proof.
  intros cur cname tg name args. induction args as [|l r IH]; intros acc s; cbn [multi_comp map].
  - destruct s as [[p w] e l2]. reflexivity.
  - unfold bindM at 1. unfold set_line2 at 1. unfold bindM at 1.
    unfold run_compile. cbn [s_run print_sc]. unfold bindM at 1. unfold mod_glob at 1. unfold ret at 1.
    rewrite IH. cbn [s_g s_env s_line2 g_prints g_warnings cr_data cr_sig rev map].
    rewrite app_nil_r. rewrite <- app_assoc. cbn [app].
    f_equal.
    + f_equal. destruct (rev r) as [|x y]; reflexivity.
    + destruct r; reflexivity.
Qed.

(* the whole pipeline for the Print class *)
Theorem print_compile : forall cur tg cmd n argument cb ls (s : st),
  upper cmd = s_PRINT ->
  listify_pure cur argument cb n = Some ls ->
  simple_compile fo child cx cur print_cname tg print_sc cmd n argument cb s =
  (mkSt (mkGlob (rev (map (print_of (c_file cx)) ls) ++ g_prints (s_g s)) (g_warnings (s_g s)))
        (s_env s)
        (Some (match rev ls with [] => cur | l :: _ => l_orig l end)),
   IOk (mkCret [] SNormal)).
Proof.
  intros cur tg cmd n argument cb ls s Hu Hl.
  pose proof (listify_pure_str _ _ _ _ _ Hl) as Hstr.
  unfold simple_compile. cbn [print_sc s_flipper_only s_tokenize_args s_strip_args s_arg_type s_arg_req
                              s_verify_args s_verify_arg s_params s_format_arg].
  unfold check_flipper. cbn [andb]. unfold bindM at 1. unfold ret at 1.
  rewrite Hu. cbn [s_PRINT orb].
  assert (El : listify_args fo cx cur argument cb n s = (s, IOk ls)).
  { unfold listify_args. unfold listify_pure, first_arg in Hl. destruct cb as [b|].
    - destruct (block_lines b) as [t|]; [|discriminate]. injection Hl as <-. reflexivity.
    - injection Hl as <-. reflexivity. }
  unfold bindM at 1. rewrite El.
  unfold bindM at 1. unfold ret at 1.
  set (args1 := map strip_line ls).
  assert (Hstr1 : Forall line_is_str args1).
  { unfold args1. apply Forall_forall. intros x Hin. apply in_map_iff in Hin. destruct Hin as (l & <- & Hin).
    rewrite Forall_forall in Hstr. specialize (Hstr l Hin). unfold line_is_str, strip_line in *.
    destruct (l_content l); [exact I|contradiction]. }
  rewrite map_length.
  unfold bindM at 1.
  assert (Ereq : forall (x : list (line * option acontent)),
            (match x, Allowed with
             | _ :: _, NotAllowed => raise fo cx cur EInvalidArguments
             | [], Required => raise fo cx cur EInvalidArguments
             | _, _ => ret fo tt end) s = (s, IOk tt)).
  { intros [|? ?]; reflexivity. }
  rewrite Ereq.
  unfold bindM at 1. rewrite check_types_str. unfold verify_plural.
  unfold bindM at 1. unfold ret at 1. unfold bindM at 1.
  rewrite verify_each_trivial by exact Hstr1. unfold bindM at 1. rewrite format_each_id.
  cbn [s_g s_env].
  assert (Hprints : map (fun l : line => mkPrint (content_text (l_content l)) (l_num l) (c_file cx)) args1 =
                    map (print_of (c_file cx)) ls).
  { unfold args1. rewrite map_map. apply map_ext. intro l. unfold print_of. rewrite strip_line_num. reflexivity. }
  destruct ls as [|l0 lr].
  - cbn [args1 map multi_comp]. unfold bindM at 1. unfold set_line2 at 1. unfold bindM at 1.
    unfold run_compile. cbn [s_run print_sc]. unfold ret. destruct s as [[p w] e l2]. reflexivity.
  - assert (Hne : args1 <> []) by (unfold args1; discriminate).
    assert (Hne' : rev (l0 :: lr) <> []).
    { intro Er. apply (f_equal (@length _)) in Er. rewrite rev_length in Er. discriminate. }
    remember (l0 :: lr) as ls eqn:Els.
    replace (match args1 with [] => [None] | _ :: _ => map Some args1 end) with (map Some args1)
      by (destruct args1; [contradiction|reflexivity]).
    rewrite multi_comp_print. cbn [s_g s_env s_line2 g_prints g_warnings cr_data]. rewrite Hprints.
    f_equal.
    + f_equal. unfold args1. rewrite <- map_rev. destruct (rev ls) as [|x y]; [contradiction|].
      cbn [map]. rewrite strip_line_orig. reflexivity.
    + destruct args1; [contradiction|reflexivity].
Qed.

(* PASS alone on its line *)
Lemma pass_compile : forall cur tg cmd n (s : st),
  upper cmd = s_PASS ->
  simple_compile fo child cx cur pass_cname tg pass_sc cmd n None None s =
  (mkSt (s_g s) (s_env s) (Some cur), IOk (mkCret [] SNormal)).
Proof.
  intros cur tg cmd n s Hu. unfold simple_compile. rewrite Hu. destruct s as [g e l2]. reflexivity.
Qed.

(* ------------------------------------------------------------------ whole lines *)
Definition line_argument (more : list str) : option str := match more with a :: _ => Some a | [] => None end.

Theorem print_line_exec : forall c n cb cmd more ls (s : st),
  split_ws1 c = cmd :: more -> upper cmd = s_PRINT ->
  listify_pure (c, n) (line_argument more) cb n = Some ls ->
  exec_line fo child cx c n cb s =
  (mkSt (mkGlob (rev (map (print_of (c_file cx)) ls) ++ g_prints (s_g s)) (g_warnings (s_g s)))
        (s_env s)
        (Some (match rev ls with [] => (c, n) | l :: _ => l_orig l end)),
   IOk (mkCret [] SNormal)).
Proof.
  intros c n cb cmd more ls s Hs Hu Hl. unfold exec_line. rewrite Hs.
  rewrite (find_print_word cmd cb Hu). cbn [is_start_class print_sc s_run andb].
  apply print_compile; assumption.
Qed.

Theorem pass_line_exec : forall c n cmd (s : st),
  split_ws1 c = [cmd] -> upper cmd = s_PASS ->
  exec_line fo child cx c n None s = (mkSt (s_g s) (s_env s) (Some (c, n)), IOk (mkCret [] SNormal)).
Proof.
  intros c n cmd s Hs Hu. unfold exec_line. rewrite Hs.
  rewrite (find_command_upper palette cmd s_PASS None Hu); [|reflexivity| |reflexivity].
  2:{ eapply upper_no_dollar; [exact Hu|reflexivity]. }
  rewrite find_pass. cbn [is_start_class pass_sc s_run andb].
  apply pass_compile. exact Hu.
Qed.

End PrintLine.
