(* C12c, part 2: a RELATIONAL lifting for "the same commands under two different contexts".
   Run A and run B execute the same code, with the same options and file system, but
     - under different piles (A's may be longer) and possibly different files,
     - in environments that agree on e_sys / e_user / e_temp exactly and on e_funcs up to the
       [fn_file] of records whose code is [clean] (no START-family line inside),
     - with globs that agree on the prints up to [p_file] and on the warning texts ([tf]).
   Traces and line_2 are not related at all.  Run A may "escape" with EStackOverflow (its pile is
   longer) or ECircular (its pile holds more files); otherwise the two results are related, the
   produced cret's are EQUAL, and the B-side environment only grew at the end of its tables
   ([ext], needed to merge the child environment of a START back).
   Modelled on RelLift.v. *)
From Coq Require Import NArith ZArith List Bool Lia.
From DS Require Import Base PyStr Values Expr TabParse Tables Constants Interp ScopeProofs StartLaws PasteBase.
Import ListNotations.
Arguments IOk {A}. Arguments IErr {A}. Arguments ICrash {A}. Arguments IUnmod {A}.

Section Paste.
Variable fo : FloatOps.
Notation M := (M fo).
Notation st := (st fo).
Notation env := (env fo).
Notation bindM := (bindM fo).
Notation ret := (ret fo).
Notation s_g := (s_g fo).
Notation s_env := (s_env fo).
Notation e_sys := (e_sys fo).
Notation e_user := (e_user fo).
Notation e_temp := (e_temp fo).
Notation e_funcs := (e_funcs fo).
Notation mkEnv := (mkEnv fo).
Notation mkSt := (mkSt fo).

Variable o : options.
Variable fs : fsys.
(* the one pair of different files: A runs the imported text under [tA], B under [tB] *)
Variables tA tB : path.

(* ------------------------------------------------------------------ the relations *)
Definition pkey (p : print_rec) : str * Z := (p_text p, p_num p).

Definition Rg (gA gB : glob) : Prop :=
  map pkey (g_prints gA) = map pkey (g_prints gB) /\ tf (g_warnings gA) = tf (g_warnings gB).

Definition filepair (fA fB : option path) : Prop := fA = fB \/ (fA = Some tA /\ fB = Some tB).

Definition mode (fA fB : option path) (code : list item) : Prop :=
  (fA = fB /\ fA <> None) \/ (clean code /\ filepair fA fB).

Definition func_rel (fa fb : func) : Prop :=
  fn_args fa = fn_args fb /\ fn_code fa = fn_code fb /\ mode (fn_file fa) (fn_file fb) (fn_code fa).

Definition Renv (eA eB : env) : Prop :=
  e_sys eA = e_sys eB /\ e_user eA = e_user eB /\ e_temp eA = e_temp eB /\
  Ral func_rel (e_funcs eA) (e_funcs eB).

Definition ext (e e' : env) : Prop :=
  kext (e_sys e) (e_sys e') /\ kext (e_user e) (e_user e') /\ kext (e_funcs e) (e_funcs e').

Definition Rs (sA sB : st) : Prop := Rg (s_g sA) (s_g sB) /\ Renv (s_env sA) (s_env sB).

Definition rres {A} (RA : A -> A -> Prop) (rA rB : ires A) : Prop :=
  match rA, rB with
  | IOk a, IOk b => RA a b
  | IErr e _, IErr e' _ => e = e'
  | ICrash k, ICrash k' => k = k'
  | IUnmod, IUnmod => True
  | _, _ => False
  end.

Definition escA {A} (r : ires A) : Prop :=
  match r with IErr EStackOverflow _ => True | IErr ECircular _ => True | _ => False end.

Definition post {A} (RA : A -> A -> Prop) (eB0 : env) (xA xB : st * ires A) : Prop :=
  escA (snd xA) \/ (Rs (fst xA) (fst xB) /\ ext eB0 (s_env (fst xB)) /\ rres RA (snd xA) (snd xB)).

Definition relMe {A} (eA eB : env) (RA : A -> A -> Prop) (mA mB : M A) : Prop :=
  forall sA sB, Rs sA sB -> s_env sA = eA -> s_env sB = eB -> post RA (s_env sB) (mA sA) (mB sB).

Definition relM {A} (RA : A -> A -> Prop) (mA mB : M A) : Prop :=
  forall sA sB, Rs sA sB -> post RA (s_env sB) (mA sA) (mB sB).

Definition Rce (eB0 : env) (x y : cret * env) : Prop :=
  fst x = fst y /\ Renv (snd x) (snd y) /\ ext eB0 (snd y).

Definition postR (eB0 : env) (xA xB : glob * ires (cret * env)) : Prop :=
  escA (snd xA) \/ (Rg (fst xA) (fst xB) /\ rres (Rce eB0) (snd xA) (snd xB)).

(* ------------------------------------------------------------------ basic facts *)
Lemma ext_refl : forall e, ext e e.
Proof. intro e. repeat split; apply kext_refl. Qed.

Lemma ext_trans : forall a b c, ext a b -> ext b c -> ext a c.
Proof.
  intros a b c (H1 & H2 & H3) (K1 & K2 & K3). repeat split; eapply kext_trans; eassumption.
Qed.

Lemma Rg_print : forall pA pB gA gB, pkey pA = pkey pB -> Rg gA gB ->
  Rg (mkGlob (pA :: g_prints gA) (g_warnings gA)) (mkGlob (pB :: g_prints gB) (g_warnings gB)).
Proof.
  intros pA pB gA gB Hp [H1 H2]. split; cbn [g_prints g_warnings map]; [rewrite Hp, H1; reflexivity|exact H2].
Qed.

Lemma Rg_warn : forall t trA trB gA gB, Rg gA gB ->
  Rg (add_warning (mkWarn t trA) gA) (add_warning (mkWarn t trB) gB).
Proof.
  intros t trA trB gA gB [H1 H2]. split.
  - unfold add_warning. destruct (existsb _ (g_warnings gA)), (existsb _ (g_warnings gB)); exact H1.
  - apply tf_add_warning_rel. exact H2.
Qed.

Lemma Renv_all_vars : forall eA eB, Renv eA eB -> all_vars fo eA = all_vars fo eB.
Proof. intros eA eB (H1 & H2 & H3 & _). unfold all_vars. rewrite H1, H2, H3. reflexivity. Qed.

Lemma Renv_entry : forall eA eB, Renv eA eB ->
  Renv (append_env fo (empty_env fo) eA) (append_env fo (empty_env fo) eB).
Proof.
  intros eA eB (H1 & H2 & H3 & H4). unfold append_env, empty_env, Renv.
  cbn [Interp.e_sys Interp.e_user Interp.e_temp Interp.e_funcs]. rewrite H1, H2.
  repeat split. apply Ral_upd_all; [exact H4|apply Ral_nil].
Qed.

Lemma Renv_append : forall pA pB cA cB, Renv pA pB -> Renv cA cB ->
  Renv (append_env fo pA cA) (append_env fo pB cB).
Proof.
  intros pA pB cA cB (H1 & H2 & H3 & H4) (K1 & K2 & K3 & K4). unfold append_env, Renv.
  cbn [Interp.e_sys Interp.e_user Interp.e_temp Interp.e_funcs]. rewrite H1, H2, H3, K1, K2.
  repeat split. apply Ral_upd_all; assumption.
Qed.

Lemma Renv_update_from : forall pA pB cA cB, Renv pA pB -> Renv cA cB ->
  Renv (update_from_env fo pA cA) (update_from_env fo pB cB).
Proof.
  intros pA pB cA cB (H1 & H2 & H3 & H4) (K1 & K2 & K3 & K4). unfold update_from_env, Renv.
  cbn [Interp.e_sys Interp.e_user Interp.e_temp Interp.e_funcs]. rewrite H1, H2, H3, K1, K2.
  repeat split. exact H4.
Qed.

Lemma ext_append : forall p c, ext p (append_env fo p c).
Proof. intros p c. unfold append_env. repeat split; cbn; apply kext_upd_all. Qed.

(* the child's tables contain every key of the parent: copy-back keeps the parent's key lists *)
Lemma ext_update_from : forall p c0 c,
  c0 = append_env fo (empty_env fo) p -> ext c0 c -> ext p (update_from_env fo p c).
Proof.
  intros p c0 c -> (H1 & H2 & H3). unfold update_from_env.
  repeat split; cbn [Interp.e_sys Interp.e_user Interp.e_funcs]; try apply kext_refl.
  - exists []. rewrite app_nil_r. apply keys_restrict_kept. intros k Hk.
    eapply kext_incl; [exact H1|]. cbn. apply keys_incl_upd_all_nil. exact Hk.
  - exists []. rewrite app_nil_r. apply keys_restrict_kept. intros k Hk.
    eapply kext_incl; [exact H2|]. cbn. apply keys_incl_upd_all_nil. exact Hk.
Qed.

(* ------------------------------------------------------------------ the monad *)
Lemma bind_post : forall A B (RA : A -> A -> Prop) (RB : B -> B -> Prop) (xA xB : st * ires A)
                         (fA fB : A -> M B) eB0,
  post RA eB0 xA xB -> (forall a b, RA a b -> relM RB (fA a) (fB b)) ->
  post RB eB0
    (match xA with (s', IOk a) => fA a s' | (s', IErr e t) => (s', IErr e t)
                 | (s', ICrash k) => (s', ICrash k) | (s', IUnmod) => (s', IUnmod) end)
    (match xB with (s', IOk a) => fB a s' | (s', IErr e t) => (s', IErr e t)
                 | (s', ICrash k) => (s', ICrash k) | (s', IUnmod) => (s', IUnmod) end).
Proof.
  intros A B RA RB [sA rA] [sB rB] fA fB eB0 H Hf. unfold post in H. cbn [fst snd] in H.
  destruct H as [He|(Hs & Hx & Hr)].
  - destruct rA as [a|e t|k|]; cbn [escA] in He; try contradiction. left. exact He.
  - destruct rA as [a|e t|k|], rB as [b|e' t'|k'|]; cbn [rres] in Hr; try contradiction.
    + specialize (Hf a b Hr sA sB Hs). destruct Hf as [He|(Hs' & Hx' & Hr')]; [left; exact He|].
      right. split; [exact Hs'|]. split; [eapply ext_trans; eassumption|exact Hr'].
    + right. split; [exact Hs|]. split; [exact Hx|exact Hr].
    + right. split; [exact Hs|]. split; [exact Hx|exact Hr].
    + right. split; [exact Hs|]. split; [exact Hx|exact I].
Qed.

Lemma rel_bind : forall A B (RA : A -> A -> Prop) (RB : B -> B -> Prop) (mA mB : M A) (fA fB : A -> M B),
  relM RA mA mB -> (forall a b, RA a b -> relM RB (fA a) (fB b)) -> relM RB (bindM mA fA) (bindM mB fB).
Proof.
  intros A B RA RB mA mB fA fB Hm Hf sA sB Hs. unfold Interp.bindM.
  apply (bind_post A B RA RB (mA sA) (mB sB) fA fB (s_env sB)); [apply Hm; exact Hs|exact Hf].
Qed.

Lemma rel_bind_e : forall A B eA eB (RA : A -> A -> Prop) (RB : B -> B -> Prop) (mA mB : M A) (fA fB : A -> M B),
  relMe eA eB RA mA mB -> (forall a b, RA a b -> relM RB (fA a) (fB b)) -> relMe eA eB RB (bindM mA fA) (bindM mB fB).
Proof.
  intros A B eA eB RA RB mA mB fA fB Hm Hf sA sB Hs HA HB. unfold Interp.bindM.
  apply (bind_post A B RA RB (mA sA) (mB sB) fA fB (s_env sB)); [apply Hm; assumption|exact Hf].
Qed.

Lemma rel_bind_eq : forall A B (RB : B -> B -> Prop) (mA mB : M A) (fA fB : A -> M B),
  relM eq mA mB -> (forall a, relM RB (fA a) (fB a)) -> relM RB (bindM mA fA) (bindM mB fB).
Proof. intros A B RB mA mB fA fB Hm Hf. eapply rel_bind; [exact Hm|]. intros a b <-. apply Hf. Qed.

Lemma relM_e : forall A eA eB (RA : A -> A -> Prop) mA mB, relM RA mA mB -> relMe eA eB RA mA mB.
Proof. intros A eA eB RA mA mB H sA sB Hs _ _. apply H. exact Hs. Qed.

Lemma rel_bind_get : forall B (RB : B -> B -> Prop) (fA fB : env -> M B),
  (forall eA eB, Renv eA eB -> relMe eA eB RB (fA eA) (fB eB)) ->
  relM RB (bindM (get_env fo) fA) (bindM (get_env fo) fB).
Proof.
  intros B RB fA fB H sA sB Hs. unfold Interp.bindM, get_env.
  apply H; [destruct Hs as [_ He]; exact He|exact Hs|reflexivity|reflexivity].
Qed.

Lemma rel_ret : forall A (RA : A -> A -> Prop) a b, RA a b -> relM RA (ret a) (ret b).
Proof. intros A RA a b H sA sB Hs. right. split; [exact Hs|]. split; [apply ext_refl|exact H]. Qed.

Lemma rel_ret_eq : forall A (a : A), relM eq (ret a) (ret a).
Proof. intros. apply rel_ret. reflexivity. Qed.

Lemma rel_crash : forall A (RA : A -> A -> Prop) k, relM RA (@crash fo A k) (@crash fo A k).
Proof. intros A RA k sA sB Hs. right. split; [exact Hs|]. split; [apply ext_refl|reflexivity]. Qed.

Lemma rel_unmod : forall A (RA : A -> A -> Prop), relM RA (@unmod fo A) (@unmod fo A).
Proof. intros A RA sA sB Hs. right. split; [exact Hs|]. split; [apply ext_refl|exact I]. Qed.

Lemma rel_set_line2 : forall lA lB, relM eq (set_line2 fo lA) (set_line2 fo lB).
Proof.
  intros lA lB sA sB [Hg He]. right. split; [split; [exact Hg|exact He]|]. split; [apply ext_refl|reflexivity].
Qed.

Lemma rel_set_env_e : forall eA eB eA' eB', Renv eA' eB' -> ext eB eB' ->
  relMe eA eB eq (set_env fo eA') (set_env fo eB').
Proof.
  intros eA eB eA' eB' He Hx sA sB [Hg _] _ HB. right. cbn [fst snd set_env Interp.s_env Interp.s_g].
  split; [split; [exact Hg|exact He]|]. split; [rewrite HB; exact Hx|reflexivity].
Qed.

Lemma rel_print : forall pA pB, pkey pA = pkey pB ->
  relM eq (mod_glob fo (fun g => mkGlob (pA :: g_prints g) (g_warnings g)))
          (mod_glob fo (fun g => mkGlob (pB :: g_prints g) (g_warnings g))).
Proof.
  intros pA pB Hp sA sB [Hg He]. right. cbn [fst snd mod_glob Interp.s_env Interp.s_g].
  split; [split; [apply Rg_print; assumption|exact He]|]. split; [apply ext_refl|reflexivity].
Qed.

Lemma rel_add_plain_warning : forall t, relM eq (add_plain_warning fo t) (add_plain_warning fo t).
Proof.
  intros t sA sB [Hg He]. right. cbn [fst snd add_plain_warning mod_glob Interp.s_env Interp.s_g].
  split; [split; [apply Rg_warn; exact Hg|exact He]|]. split; [apply ext_refl|reflexivity].
Qed.

Section Stack.
Variables childA childB : runner fo.
Variables pileA pileB : list frame.
Variables fileA fileB : option path.
Notation cxA := (mkCtx o fs pileA fileA).
Notation cxB := (mkCtx o fs pileB fileB).

Hypothesis Hlen : (length pileB <= length pileA)%nat.
Hypothesis Hfp : filepair fileA fileB.
Hypothesis Hincl : incl (live_files cxB) (live_files cxA).

Hypothesis Hchild : forall cur l2A l2B fA fB gA gB eA eB code,
  cmp_eval stack_limit_op (pile_len cxA) (stack_limit o) = false ->
  mode fA fB code -> Rg gA gB -> Renv eA eB ->
  postR eB (childA (mkCtx o fs (here cxA cur l2A) fA) gA eA code)
           (childB (mkCtx o fs (here cxB cur l2B) fB) gB eB code).

(* files agree, so START-family lines may run *)
Definition FE : Prop := fileA = fileB /\ fileA <> None.
Definition okc (code : list item) : Prop := mode fileA fileB code.
Definition okl (c : str) : Prop := FE \/ clean_line c.

Lemma limit_B : cmp_eval stack_limit_op (pile_len cxA) (stack_limit o) = false ->
  cmp_eval stack_limit_op (pile_len cxB) (stack_limit o) = false.
Proof.
  unfold stack_limit_op, pile_len. cbn [cmp_eval c_pile]. intro H.
  apply Z.leb_gt in H. apply Z.leb_gt. lia.
Qed.

(* ---------------------------------------------------------------- primitives that mention the context *)
Lemma rel_raise : forall cur A (RA : A -> A -> Prop) e, relM RA (@raise fo cxA cur A e) (@raise fo cxB cur A e).
Proof.
  intros cur A RA e sA sB Hs. right. split; [exact Hs|]. split; [apply ext_refl|reflexivity].
Qed.

Lemma rel_lift : forall cur A (x : res A), relM eq (lift fo cxA cur x) (lift fo cxB cur x).
Proof.
  intros cur A x. destruct x; cbn [lift]; [apply rel_ret_eq|apply rel_raise|apply rel_crash|apply rel_unmod].
Qed.

Lemma rel_warn : forall cur t, relM eq (warn fo cxA cur t) (warn fo cxB cur t).
Proof.
  intros cur t sA sB [Hg He]. right. cbn [fst snd warn Interp.s_env Interp.s_g].
  split; [split; [apply Rg_warn; exact Hg|exact He]|]. split; [apply ext_refl|reflexivity].
Qed.

Lemma rel_tokenizeM : forall cur a, relM eq (tokenizeM fo cxA cur a) (tokenizeM fo cxB cur a).
Proof.
  intros cur a. unfold tokenizeM. apply rel_bind_get. intros eA eB He. apply relM_e.
  rewrite (Renv_all_vars eA eB He). apply rel_lift.
Qed.

Ltac rel_step :=
  first
    [ apply rel_ret_eq | apply rel_raise | apply rel_crash | apply rel_unmod | apply rel_lift
    | apply rel_set_line2 | apply rel_tokenizeM | apply rel_warn | apply rel_add_plain_warning
    | assumption
    | apply rel_bind_eq; [|intros ?]
    | match goal with
      | |- relM _ (if ?b then _ else _) (if ?b then _ else _) => destruct b
      | |- relM _ (match ?x with _ => _ end) (match ?x with _ => _ end) => destruct x
      | |- relM _ (let '(_, _) := ?x in _) (let '(_, _) := ?x in _) => destruct x
      end ].
Ltac rel_tac := repeat rel_step.

(* ---------------------------------------------------------------- running a child stack *)
Definition setup_ok (setup : env -> res env) : Prop :=
  forall eA eB, Renv eA eB ->
    match setup eA, setup eB with
    | Ok a, Ok b => Renv a b /\ ext eB b
    | Err e, Err e' => e = e'
    | Crash k, Crash k' => k = k'
    | Unmodelled, Unmodelled => True
    | _, _ => False
    end.

Definition pre_ok (pre : env -> res bool) : Prop := forall eA eB, Renv eA eB -> pre eA = pre eB.

Definition Ropt (rA rB : option cret) : Prop := rA = rB.

Lemma finish_ok : forall (parallel : bool) pA pB c1B cA cB,
  Renv pA pB -> Renv cA cB -> ext (append_env fo (empty_env fo) pB) c1B -> ext c1B cB ->
  Renv (if parallel then append_env fo pA cA else update_from_env fo pA cA)
       (if parallel then append_env fo pB cB else update_from_env fo pB cB) /\
  ext pB (if parallel then append_env fo pB cB else update_from_env fo pB cB).
Proof.
  intros parallel pA pB c1B cA cB Hp Hc H1 H2. destruct parallel.
  - split; [apply Renv_append; assumption|apply ext_append].
  - split; [apply Renv_update_from; assumption|].
    eapply ext_update_from; [reflexivity|]. eapply ext_trans; eassumption.
Qed.

Lemma rel_run_child_with : forall cur code fA fB parallel setup pre,
  mode fA fB code -> setup_ok setup -> pre_ok pre ->
  relM Ropt (run_child_with fo childA cxA cur code fA parallel setup pre)
            (run_child_with fo childB cxB cur code fB parallel setup pre).
Proof.
  intros cur code fA fB parallel setup pre Hmode Hsetup Hpre [gA eA lA] [gB eB lB] [Hg He].
  cbn [Interp.s_g Interp.s_env] in Hg, He.
  unfold run_child_with. cbn [c_opts c_fs Interp.s_g Interp.s_env Interp.s_line2].
  destruct (cmp_eval stack_limit_op (pile_len cxA) (stack_limit o)) eqn:HlA.
  { left. exact I. }
  rewrite (limit_B HlA).
  assert (HRs : Rs (mkSt gA eA lA) (mkSt gB eB lB)) by (split; assumption).
  pose proof (Renv_entry eA eB He) as He0.
  specialize (Hsetup _ _ He0).
  destruct (setup (append_env fo (empty_env fo) eA)) as [c1A|e|k|],
           (setup (append_env fo (empty_env fo) eB)) as [c1B|e'|k'|]; try contradiction.
  2:{ right. split; [exact HRs|]. split; [apply ext_refl|exact Hsetup]. }
  2:{ right. split; [exact HRs|]. split; [apply ext_refl|exact Hsetup]. }
  2:{ right. split; [exact HRs|]. split; [apply ext_refl|exact I]. }
  destruct Hsetup as [He1 Hx1].
  rewrite (Hpre _ _ He1).
  destruct (pre c1B) as [[|]|e|k|].
  2:{ (* the block is not entered *)
      destruct (finish_ok parallel eA eB c1B c1A c1B He He1 Hx1 (ext_refl _)) as [HR HX].
      right. cbn [fst snd Interp.s_env Interp.s_g]. split; [split; [exact Hg|exact HR]|]. split; [exact HX|reflexivity]. }
  2:{ right. split; [exact HRs|]. split; [apply ext_refl|reflexivity]. }
  2:{ right. split; [exact HRs|]. split; [apply ext_refl|reflexivity]. }
  2:{ right. split; [exact HRs|]. split; [apply ext_refl|exact I]. }
  specialize (Hchild cur lA lB fA fB gA gB c1A c1B code eq_refl Hmode Hg He1).
  destruct (childA _ gA c1A code) as [gA' rA]. destruct (childB _ gB c1B code) as [gB' rB].
  unfold postR in Hchild. cbn [fst snd] in Hchild. destruct Hchild as [Hesc|[Hg' Hr]].
  - destruct rA as [[crA cA]|e t|k|]; cbn [escA] in Hesc; try contradiction. left. exact Hesc.
  - destruct rA as [[crA cA]|e t|k|], rB as [[crB cB]|e' t'|k'|]; cbn [rres] in Hr; try contradiction.
    + destruct Hr as (Hcr & Hce & Hcx). cbn [fst snd] in Hcr, Hce, Hcx. subst crB.
      destruct (finish_ok parallel eA eB c1B cA cB He Hce Hx1 Hcx) as [HR HX].
      right. cbn [fst snd Interp.s_env Interp.s_g]. split; [split; [exact Hg'|exact HR]|]. split; [exact HX|reflexivity].
    + right. cbn [fst snd Interp.s_env Interp.s_g]. split; [split; [exact Hg'|exact He]|]. split; [apply ext_refl|exact Hr].
    + right. cbn [fst snd Interp.s_env Interp.s_g]. split; [split; [exact Hg'|exact He]|]. split; [apply ext_refl|exact Hr].
    + right. cbn [fst snd Interp.s_env Interp.s_g]. split; [split; [exact Hg'|exact He]|]. split; [apply ext_refl|exact I].
Qed.

Lemma rel_run_child : forall cur code fA fB parallel setup,
  mode fA fB code -> setup_ok setup ->
  relM eq (run_child fo childA cxA cur code fA parallel setup)
          (run_child fo childB cxB cur code fB parallel setup).
Proof.
  intros cur code fA fB parallel setup Hm Hs. unfold run_child.
  eapply rel_bind; [apply rel_run_child_with; [exact Hm|exact Hs|intros eA eB _; reflexivity]|].
  intros rA rB Hr. unfold Ropt in Hr. subst rB. destruct rA; [apply rel_ret_eq|apply rel_crash].
Qed.

Lemma setup_ok_id : setup_ok (fun e => Ok e).
Proof. intros eA eB He. split; [exact He|apply ext_refl]. Qed.

Lemma setup_ok_counter : forall v count, setup_ok (bind_counter fo v count).
Proof.
  intros v count eA eB He. unfold bind_counter. destruct v as [v|]; [|split; [exact He|apply ext_refl]].
  destruct (is_var v false); [|reflexivity].
  destruct He as (H1 & H2 & H3 & H4). split.
  - unfold Renv. cbn [Interp.e_sys Interp.e_user Interp.e_temp Interp.e_funcs]. rewrite H2. repeat split; assumption.
  - repeat split; cbn [Interp.e_sys Interp.e_user Interp.e_funcs]; try apply kext_refl. apply kext_upd.
Qed.

Lemma setup_ok_params : forall (args : list str) (vals : list (value fo)),
  setup_ok (fun ce => Ok (mkEnv (e_sys ce)
                            (fold_left (fun u nv => upd (fst nv) (snd nv) u) (combine args vals) (e_user ce))
                            (e_temp ce) (e_funcs ce))).
Proof.
  intros args vals eA eB (H1 & H2 & H3 & H4). split.
  - unfold Renv. cbn [Interp.e_sys Interp.e_user Interp.e_temp Interp.e_funcs]. rewrite H2. repeat split; assumption.
  - repeat split; cbn [Interp.e_sys Interp.e_user Interp.e_funcs]; try apply kext_refl.
    apply (kext_upd_all (combine args vals)).
Qed.

(* ---------------------------------------------------------------- the pipeline *)
Lemma rel_new_var : forall cur name v, relM eq (new_var fo cxA cur name v) (new_var fo cxB cur name v).
Proof.
  intros cur name v. unfold new_var. destruct (is_var name false); [|apply rel_raise].
  apply rel_bind_get. intros eA eB (H1 & H2 & H3 & H4). apply rel_set_env_e.
  - unfold Renv. cbn [Interp.e_sys Interp.e_user Interp.e_temp Interp.e_funcs]. rewrite H2. repeat split; assumption.
  - repeat split; cbn [Interp.e_sys Interp.e_user Interp.e_funcs]; try apply kext_refl. apply kext_upd.
Qed.

Lemma rel_listify_args : forall cur argument code_block num,
  relM eq (listify_args fo cxA cur argument code_block num) (listify_args fo cxB cur argument code_block num).
Proof. intros. unfold listify_args. rel_tac. Qed.

Lemma rel_evaluate_args : forall cur at_ args,
  relM eq (evaluate_args fo cxA cur at_ args) (evaluate_args fo cxB cur at_ args).
Proof. intros cur at_ args. induction args as [|l r IH]; cbn [evaluate_args]; rel_tac. Qed.

Lemma rel_check_types : forall cur at_ args,
  relM eq (check_types fo cxA cur at_ args) (check_types fo cxB cur at_ args).
Proof. intros cur at_ args. induction args as [|[l oc] r IH]; cbn [check_types]; rel_tac. Qed.

Lemma rel_verify_each : forall cur params v args,
  relM eq (verify_each fo cxA cur params v args) (verify_each fo cxB cur params v args).
Proof. intros cur params v args. induction args as [|l r IH]; cbn [verify_each]; rel_tac. Qed.

Lemma rel_verify_plural : forall cur pv n,
  relM eq (verify_plural fo cxA cur pv n) (verify_plural fo cxB cur pv n).
Proof. intros cur pv n. unfold verify_plural. rel_tac. Qed.

Lemma rel_format_each : forall cur params f args,
  relM eq (format_each fo cxA cur params f args) (format_each fo cxB cur params f args).
Proof. intros cur params f args. induction args as [|l r IH]; cbn [format_each]; rel_tac. Qed.

Lemma rel_check_flipper : forall cur b, relM eq (check_flipper fo cxA cur b) (check_flipper fo cxB cur b).
Proof. intros cur b. unfold check_flipper. cbn [c_opts]. rel_tac. Qed.

(* ---------------------------------------------------------------- run_compile *)
Lemma mode_run : forall fa fb, func_rel fa fb ->
  mode (match fn_file fa with Some p => Some p | None => fileA end)
       (match fn_file fb with Some p => Some p | None => fileB end) (fn_code fa).
Proof.
  intros fa fb (_ & _ & [[Hf Hn]|[Hc Hp]]).
  - rewrite <- Hf. destruct (fn_file fa) as [p|]; [|contradiction]. left. split; [reflexivity|discriminate].
  - right. split; [exact Hc|]. destruct Hp as [Hp|[Hp1 Hp2]].
    + rewrite <- Hp. destruct (fn_file fa); [left; reflexivity|exact Hfp].
    + rewrite Hp1, Hp2. right. split; reflexivity.
Qed.

Lemma rel_run_compile : forall cur cname sc name arg, (FE \/ s_run sc <> RKStart) ->
  relM eq (run_compile fo childA cxA cur cname sc name arg) (run_compile fo childB cxB cur cname sc name arg).
Proof.
  intros cur cname sc name arg HFE. unfold run_compile. cbn [c_opts].
  destruct (s_run sc) eqn:Ek.
  - rel_tac.
  - rel_tac.
  - rel_tac.
  - rel_tac.
  - (* DEFAULT_DELAY *)
    destruct arg as [l|]; [|apply rel_crash].
    apply rel_bind_get. intros eA eB (H1 & H2 & H3 & H4).
    destruct (l_content l); [apply relM_e; apply rel_unmod|]. rewrite H1.
    destruct (has_key _ _); [|apply relM_e; apply rel_raise].
    eapply rel_bind_e; [|intros ? ? _; apply rel_ret_eq].
    apply rel_set_env_e.
    + unfold Renv. cbn [Interp.e_sys Interp.e_user Interp.e_temp Interp.e_funcs]. repeat split; assumption.
    + repeat split; cbn [Interp.e_sys Interp.e_user Interp.e_funcs]; try apply kext_refl. apply kext_upd.
  - rel_tac.
  - (* PRINT *)
    destruct arg as [l|]; [|apply rel_ret_eq].
    eapply rel_bind; [apply rel_print; reflexivity|intros ? ? _; apply rel_ret_eq].
  - rel_tac.
  - rel_tac.
  - rel_tac.
  - (* RUN *)
    destruct arg as [l|]; [|apply rel_crash].
    destruct (break_arg _) as [fname var_string].
    apply rel_bind_eq.
    { destruct var_string as [vs|]; [|apply rel_ret_eq]. destruct (is_blank vs); [apply rel_ret_eq|].
      apply rel_bind_eq; [apply rel_tokenizeM|intros v]. apply rel_ret_eq. }
    intros vals.
    apply rel_bind_get. intros eA eB (H1 & H2 & H3 & H4). apply relM_e.
    pose proof (Ral_lookup func_rel fname _ _ H4) as Hl.
    destruct (lookup fname (e_funcs eA)) as [fa|], (lookup fname (e_funcs eB)) as [fb|]; try contradiction.
    2:{ apply rel_raise. }
    pose proof (mode_run fa fb Hl) as Hm. destruct Hl as (Ha & Hc & _). rewrite <- Ha, <- Hc.
    destruct (negb _); [apply rel_raise|]. cbn [c_file].
    apply rel_bind_eq; [apply rel_run_child; [exact Hm|apply setup_ok_params]|intros cr].
    rel_tac.
  - (* VAR *)
    destruct arg as [l|]; [|apply rel_crash].
    destruct (split_ws1 _) as [|vname [|expr [|x y]]]; try apply rel_crash.
    apply rel_bind_eq; [apply rel_tokenizeM|intros v].
    apply rel_bind_eq; [apply rel_new_var|intros u]. apply rel_ret_eq.
  - destruct arg as [l|]; [|apply rel_crash].
    apply rel_bind_get. intros eA eB He. apply relM_e. rewrite (Renv_all_vars _ _ He).
    destruct (has_key _ _); [apply rel_ret_eq|apply rel_raise].
  - destruct arg as [l|]; [|apply rel_crash].
    apply rel_bind_get. intros eA eB He. apply relM_e. rewrite (Renv_all_vars _ _ He).
    destruct (has_key _ _); [apply rel_raise|apply rel_ret_eq].
  - (* START: only when the two files agree *)
    destruct HFE as [[Hf Hn]|Hne]; [|exfalso; apply Hne; reflexivity].
    destruct arg as [l|]; [|apply rel_crash].
    assert (Hex : exists p, fileA = Some p) by (destruct fileA as [p|]; [exists p; reflexivity|contradiction]).
    destruct Hex as [thefile E].
    assert (EA : c_file cxA = Some thefile) by exact E.
    assert (EB : c_file cxB = Some thefile) by (cbn [c_file]; rewrite <- Hf; exact E).
    rewrite EA, EB. cbn [c_fs].
    apply rel_bind_eq; [apply rel_lift|intros target].
    destruct (fs target) as [text|]; [|apply rel_raise].
    intros sA sB Hs.
    rewrite (circ_test_eq cxA cur None target), (circ_test_eq cxB cur None target).
    destruct (circ cxA target) eqn:HcA.
    { left. exact I. }
    assert (HcB : circ cxB target = false).
    { apply circ_false_iff. intro Hin. apply Hincl in Hin.
      apply circ_false_iff in HcA. contradiction. }
    rewrite HcB.
    destruct (prepare_text text) as [commands|[| | | |]];
      try (right; split; [exact Hs|]; split; [apply ext_refl|reflexivity]).
    revert sA sB Hs.
    match goal with |- forall sA sB, Rs sA sB -> post ?R (s_env sB) (?mA sA) (?mB sB) => change (relM R mA mB) end.
    apply rel_bind_eq.
    { apply rel_run_child; [left; split; [reflexivity|discriminate]|apply setup_ok_id]. }
    intros cr. rel_tac.
Qed.

Lemma rel_multi_comp : forall cur cname tg sc name args acc, (FE \/ s_run sc <> RKStart) ->
  relM eq (multi_comp fo childA cxA cur cname tg sc name args acc)
          (multi_comp fo childB cxB cur cname tg sc name args acc).
Proof.
  intros cur cname tg sc name args acc HFE. revert acc.
  induction args as [|a r IH]; intros acc; cbn [multi_comp].
  - apply rel_ret_eq.
  - apply rel_bind_eq; [apply rel_set_line2|intros u].
    apply rel_bind_eq; [apply rel_run_compile; exact HFE|intros c]. apply IH.
Qed.

Lemma rel_simple_compile : forall cur cname tg sc cmd num argument code_block, (FE \/ s_run sc <> RKStart) ->
  relM eq (simple_compile fo childA cxA cur cname tg sc cmd num argument code_block)
          (simple_compile fo childB cxB cur cname tg sc cmd num argument code_block).
Proof.
  intros cur cname tg sc cmd num argument code_block HFE. unfold simple_compile.
  apply rel_bind_eq; [apply rel_check_flipper|intros u0].
  apply rel_bind_eq; [apply rel_listify_args|intros args0].
  apply rel_bind_eq.
  { destruct (_ || _); [|rel_tac].
    apply rel_bind_eq; [apply rel_evaluate_args|intros vs].
    induction vs as [|[l v] r IH]; rel_tac. }
  intros args2.
  apply rel_bind_eq; [rel_tac|intros u1].
  apply rel_bind_eq; [apply rel_check_types|intros args3].
  apply rel_bind_eq; [apply rel_verify_plural|intros u2].
  apply rel_bind_eq; [apply rel_verify_each|intros u3].
  apply rel_bind_eq; [apply rel_format_each|intros args4].
  apply rel_multi_comp. exact HFE.
Qed.

(* ---------------------------------------------------------------- block commands *)
Lemma rel_tokenize_count : forall cur a, relM eq (tokenize_count fo cxA cur a) (tokenize_count fo cxB cur a).
Proof.
  intros. unfold tokenize_count.
  apply rel_bind_eq; [apply rel_tokenizeM|intros v]. rel_tac.
Qed.

Lemma rel_repeat_loop : forall cur fuel v a code count acc, okc code ->
  relM eq (repeat_loop fo childA cxA cur fuel v a code count acc)
          (repeat_loop fo childB cxB cur fuel v a code count acc).
Proof.
  intros cur fuel. induction fuel as [|f IH]; intros v a code count acc Hok; cbn [repeat_loop].
  - apply rel_bind_eq; [apply rel_tokenize_count|intros n].
    destruct (count <? n)%Z; [apply rel_crash|apply rel_ret_eq].
  - apply rel_bind_eq; [apply rel_tokenize_count|intros n].
    destruct (count <? n)%Z; [|apply rel_ret_eq]. cbn [c_file].
    apply rel_bind_eq; [apply rel_run_child; [exact Hok|apply setup_ok_counter]|intros cr].
    destruct (loop_signal _) as [sg brk].
    destruct brk; [apply rel_ret_eq|apply IH; exact Hok].
Qed.

Lemma rel_while_loop : forall cur fuel v a code count acc, okc code ->
  relM eq (while_loop fo childA cxA cur fuel v a code count acc)
          (while_loop fo childB cxB cur fuel v a code count acc).
Proof.
  intros cur fuel. induction fuel as [|f IH]; intros v a code count acc Hok; cbn [while_loop].
  - destruct (cmp_eval while_limit_op _ _); [apply rel_raise|apply rel_crash].
  - destruct (cmp_eval while_limit_op _ _); [apply rel_raise|]. cbn [c_file].
    eapply rel_bind.
    { apply rel_run_child_with; [exact Hok|apply setup_ok_counter|].
      intros eA eB He. rewrite (Renv_all_vars _ _ He). reflexivity. }
    intros rA rB Hr. unfold Ropt in Hr. subst rB. destruct rA as [cr|]; [|apply rel_ret_eq].
    destruct (loop_signal _) as [sg brk].
    destruct brk; [apply rel_ret_eq|apply IH; exact Hok].
Qed.

Lemma rel_set_temp_flag : forall b, relM eq (set_temp_flag fo b) (set_temp_flag fo b).
Proof.
  intros b. unfold set_temp_flag. apply rel_bind_get. intros eA eB (H1 & H2 & H3 & H4). apply rel_set_env_e.
  - unfold Renv. cbn [Interp.e_sys Interp.e_user Interp.e_temp Interp.e_funcs]. rewrite H3. repeat split; assumption.
  - repeat split; cbn [Interp.e_sys Interp.e_user Interp.e_funcs]; apply kext_refl.
Qed.

Lemma rel_get_temp_flag : relM eq (get_temp_flag fo) (get_temp_flag fo).
Proof.
  unfold get_temp_flag. apply rel_bind_get. intros eA eB (H1 & H2 & H3 & H4). apply relM_e. rewrite H3. apply rel_ret_eq.
Qed.

Lemma rel_block_compile : forall cur bc cname cmd num argument code_block,
  okc (match code_block with Some b => b | None => [] end) ->
  relM eq (block_compile fo childA cxA cur bc cname cmd num argument code_block)
          (block_compile fo childB cxB cur bc cname cmd num argument code_block).
Proof.
  intros cur bc cname cmd num argument code_block Hok. unfold block_compile.
  apply rel_bind_eq; [apply rel_check_flipper|intros u0].
  apply rel_bind_eq; [rel_tac|intros u1].
  set (arg' := if b_strip_arg bc then _ else _). clearbody arg'. cbn [c_file].
  set (code := match code_block with Some b => b | None => [] end) in *. clearbody code.
  destruct (b_kind bc).
  - apply rel_bind_get. intros eA eB (H1 & H2 & H3 & H4). apply relM_e. rewrite H3.
    apply rel_bind_eq; [destruct (has_key _ _); [apply rel_ret_eq|apply rel_set_temp_flag]|intros u2].
    apply rel_bind_eq; [rel_tac|intros u3].
    apply rel_bind_eq.
    { destruct arg' as [a|]; [|apply rel_ret_eq]. destruct (str_eqb _ _); [apply rel_ret_eq|].
      apply rel_bind_eq; [apply rel_tokenizeM|intros v]. apply rel_ret_eq. }
    intros tok.
    apply rel_bind_eq; [apply rel_get_temp_flag|intros flag].
    apply rel_bind_eq.
    { destruct (str_eqb _ _); [|apply rel_ret_eq]. apply rel_bind_eq; [apply rel_set_temp_flag|intros u4]. apply rel_ret_eq. }
    intros skip. destruct skip; [apply rel_ret_eq|]. destruct (_ && _); [apply rel_ret_eq|].
    apply rel_bind_eq; [apply rel_set_temp_flag|intros u5].
    apply rel_bind_eq; [apply rel_run_child; [exact Hok|apply setup_ok_id]|intros cr]. apply rel_ret_eq.
  - rel_tac.
  - destruct arg' as [a|]; [|apply rel_crash]. destruct (split_loop_arg a) as [var_name count_expr].
    destruct code eqn:Ecode.
    { rel_tac. }
    rewrite <- Ecode in *. clear Ecode.
    destruct (match var_name with Some v => _ | None => _ end); [|apply rel_raise].
    apply rel_bind_eq; [apply rel_repeat_loop; exact Hok|intros cr]. apply rel_ret_eq.
  - destruct arg' as [a|]; [|apply rel_crash]. destruct (split_loop_arg a) as [var_name cond].
    apply rel_bind_eq; [apply rel_while_loop; exact Hok|intros cr]. apply rel_ret_eq.
  - (* FUNC *)
    destruct arg' as [a|]; [|apply rel_crash]. destruct (break_arg a) as [fname var_string].
    destruct (_ && _); [|apply rel_raise].
    apply rel_bind_get. intros eA eB (H1 & H2 & H3 & H4).
    eapply rel_bind_e; [|intros ? ? _; apply rel_ret_eq].
    apply rel_set_env_e.
    + unfold Renv. cbn [Interp.e_sys Interp.e_user Interp.e_temp Interp.e_funcs]. repeat split; try assumption.
      apply Ral_upd; [exact H4|]. unfold func_rel. cbn [fn_args fn_code fn_file]. repeat split. exact Hok.
    + repeat split; cbn [Interp.e_sys Interp.e_user Interp.e_funcs]; try apply kext_refl. apply kext_upd.
Qed.

(* ---------------------------------------------------------------- one line, the stack *)
Theorem rel_exec_line : forall c n code_block,
  okl c -> okc (match code_block with Some b => b | None => [] end) ->
  relM eq (exec_line fo childA cxA c n code_block) (exec_line fo childB cxB c n code_block).
Proof.
  intros c n code_block Hl Hb. unfold exec_line.
  destruct (split_ws1 c) as [|cmd more] eqn:Es; [apply rel_crash|].
  destruct (find_command _ _ _) as [[cname cl]|] eqn:Ef.
  - cbn [c_file].
    assert (Hst : FE \/ is_start_class cl = false).
    { destruct Hl as [H|H]; [left; exact H|right]. eapply H; eassumption. }
    assert (Hchk : (is_start_class cl && match fileA with None => true | Some _ => false end) =
                   (is_start_class cl && match fileB with None => true | Some _ => false end)).
    { destruct Hst as [[Hf _]|Hf]; [rewrite Hf; reflexivity|rewrite Hf; reflexivity]. }
    rewrite Hchk. clear Hchk. destruct (is_start_class cl && _); [apply rel_raise|]. destruct cl as [sc|bc].
    + apply rel_simple_compile. destruct Hst as [H|H]; [left; exact H|right].
      cbn [is_start_class] in H. intro Hr. rewrite Hr in H. discriminate.
    + apply rel_bind_eq; [apply rel_block_compile; exact Hb|intros r]. rel_tac.
  - cbn [c_opts]. apply rel_bind_eq.
    + destruct (supress_command_not_exist o); [apply rel_ret_eq|apply rel_warn].
    + intros u. apply rel_simple_compile. right. cbn [generic_simple s_run]. discriminate.
Qed.

Definition RCacc (accA accB : list oline) (crA crB : cret) : Prop :=
  cr_sig crA = cr_sig crB /\ exists d, cr_data crA = accA ++ d /\ cr_data crB = accB ++ d.

Lemma okc_inv_ln : forall c n rest, okc (Ln c n :: rest) ->
  okl c /\ okc rest /\ okc (match rest with Blk b :: _ => b | _ => [] end).
Proof.
  intros c n rest [H|[Hc Hp]].
  - repeat split; try (left; exact H).
  - apply clean_cons_ln in Hc. destruct Hc as [Hl Hr].
    split; [right; exact Hl|]. split; [right; split; assumption|]. right. split; [|exact Hp].
    destruct rest as [|[c' n'|b] r]; try apply clean_nil. apply clean_cons_blk in Hr. apply Hr.
Qed.

Lemma okc_inv_blk : forall b rest, okc (Blk b :: rest) -> okc rest.
Proof.
  intros b rest [H|[Hc Hp]]; [left; exact H|right]. apply clean_cons_blk in Hc. split; [apply Hc|exact Hp].
Qed.

Theorem rel_exec_cmds : forall cmds accA accB, okc cmds ->
  relM (RCacc accA accB) (exec_cmds fo childA cxA cmds accA) (exec_cmds fo childB cxB cmds accB).
Proof.
  intros cmds. induction cmds as [|[c n|b] rest IH]; intros accA accB Hok; cbn [exec_cmds].
  - apply rel_ret. split; [reflexivity|]. exists []. rewrite !app_nil_r. split; reflexivity.
  - destruct (okc_inv_ln c n rest Hok) as (Hl & Hr & Hb).
    destruct (is_blank c); [apply IH; exact Hr|].
    apply rel_bind_eq; [apply rel_set_line2|intros u].
    eapply rel_bind.
    { apply (rel_exec_line c n (match rest with Blk b :: _ => Some b | _ => None end) Hl).
      destruct rest as [|[c' n'|b] r]; exact Hb. }
    intros crA crB <-.
    assert (Hstop : forall sg, relM (RCacc accA accB) (ret (mkCret (accA ++ cr_data crA) sg))
                                                     (ret (mkCret (accB ++ cr_data crA) sg))).
    { intro sg. apply rel_ret. split; [reflexivity|]. exists (cr_data crA). split; reflexivity. }
    destruct (cr_sig crA); try apply Hstop.
    intros sA sB Hs. specialize (IH (accA ++ cr_data crA) (accB ++ cr_data crA) Hr sA sB Hs).
    destruct IH as [He|(Hs' & Hx & Hres)]; [left; exact He|right].
    split; [exact Hs'|]. split; [exact Hx|].
    destruct (snd (exec_cmds fo childA cxA rest _ sA)) as [a| | |], (snd (exec_cmds fo childB cxB rest _ sB)) as [b'| | |];
      cbn [rres] in Hres |- *; try exact Hres.
    destruct Hres as [Hsig (d & H1 & H2)]. split; [exact Hsig|].
    exists (cr_data crA ++ d). rewrite H1, H2, !app_assoc. split; reflexivity.
  - apply IH. eapply okc_inv_blk. exact Hok.
Qed.

Theorem rel_run_with : forall gA gB eA eB cmds, okc cmds -> Rg gA gB -> Renv eA eB ->
  postR eB (run_with fo childA cxA gA eA cmds) (run_with fo childB cxB gB eB cmds).
Proof.
  intros gA gB eA eB cmds Hok Hg He. unfold run_with.
  assert (Hs : Rs (mkSt gA eA None) (mkSt gB eB None)) by (split; assumption).
  pose proof (rel_exec_cmds cmds [] [] Hok _ _ Hs) as H.
  destruct (exec_cmds fo childA _ _ _ _) as [sA rA]. destruct (exec_cmds fo childB _ _ _ _) as [sB rB].
  unfold post in H. cbn [fst snd Interp.s_env] in H. destruct H as [Hesc|([Hg' He'] & Hx & Hr)].
  - left. destruct rA as [crA|e t|k|]; cbn [escA] in Hesc; try contradiction. exact Hesc.
  - right. destruct rA as [crA|e t|k|], rB as [crB|e' t'|k'|]; cbn [rres] in Hr; try contradiction;
      cbn [fst snd]; (split; [exact Hg'|]); cbn [rres]; try exact Hr.
    destruct Hr as [Hsig (d & H1 & H2)]. cbn [app] in H1, H2. split; [|split; [exact He'|exact Hx]].
    cbn [fst]. destruct crA as [dA sgA], crB as [dB sgB]. cbn [cr_sig cr_data] in *. subst. reflexivity.
Qed.

End Stack.

(* ------------------------------------------------------------------ the depth-indexed interpreter:
   enough model depth on both sides, so that the limit check always fires before the depth runs out *)
Lemma run_unfold : forall d, run fo d = run_with fo (match d with O => no_child fo | S d' => run fo d' end).
Proof. intros [|d]; reflexivity. Qed.

Theorem rel_run : forall dA dB pileA pileB fA fB gA gB eA eB code,
  (stack_limit o <= Z.of_nat (length pileA) + 1 + Z.of_nat dA)%Z ->
  (stack_limit o <= Z.of_nat (length pileB) + 1 + Z.of_nat dB)%Z ->
  (length pileB <= length pileA)%nat ->
  incl (live_files (mkCtx o fs pileB fB)) (live_files (mkCtx o fs pileA fA)) ->
  In (Some tB) (live_files (mkCtx o fs pileA fA)) ->
  mode fA fB code -> Rg gA gB -> Renv eA eB ->
  postR eB (run fo dA (mkCtx o fs pileA fA) gA eA code) (run fo dB (mkCtx o fs pileB fB) gB eB code).
Proof.
  induction dA as [|dA IH]; intros dB pileA pileB fA fB gA gB eA eB code HdA HdB Hlen Hincl HtB Hm Hg He.
  - rewrite (run_unfold 0), (run_unfold dB). apply rel_run_with; try assumption.
    + destruct Hm as [[Hf _]|[_ Hp]]; [left; exact Hf|exact Hp].
    + intros cur l2A l2B fA' fB' gA' gB' eA' eB' code' Hlim. exfalso.
      unfold stack_limit_op, pile_len in Hlim. cbn [cmp_eval c_pile] in Hlim. apply Z.leb_gt in Hlim. lia.
  - rewrite (run_unfold (S dA)), (run_unfold dB). apply rel_run_with; try assumption.
    + destruct Hm as [[Hf _]|[_ Hp]]; [left; exact Hf|exact Hp].
    + intros cur l2A l2B fA' fB' gA' gB' eA' eB' code' Hlim Hm' Hg' He'.
      unfold stack_limit_op, pile_len in Hlim. cbn [cmp_eval c_pile] in Hlim. apply Z.leb_gt in Hlim.
      destruct dB as [|dB]; [exfalso; lia|].
      assert (HfilesA : live_files (mkCtx o fs (here (mkCtx o fs pileA fA) cur l2A) fA') =
                        live_files (mkCtx o fs pileA fA) ++ [fA']).
      { unfold live_files at 1. cbn [c_pile c_file]. rewrite live_files_here. reflexivity. }
      assert (HfilesB : live_files (mkCtx o fs (here (mkCtx o fs pileB fB) cur l2B) fB') =
                        live_files (mkCtx o fs pileB fB) ++ [fB']).
      { unfold live_files at 1. cbn [c_pile c_file]. rewrite live_files_here. reflexivity. }
      apply IH; try assumption.
      * unfold here. rewrite app_length. cbn [length c_pile]. lia.
      * unfold here. rewrite app_length. cbn [length c_pile]. lia.
      * unfold here. rewrite !app_length. cbn [length c_pile]. lia.
      * rewrite HfilesA, HfilesB. intros x Hin. apply in_app_or in Hin. apply in_or_app.
        destruct Hin as [Hin|[<-|[]]]; [left; apply Hincl; exact Hin|].
        assert (Hfp' : filepair fA' fB') by (destruct Hm' as [[Hf _]|[_ Hp]]; [left; exact Hf|exact Hp]).
        destruct Hfp' as [Hf|[_ Hf]]; [right; left; exact Hf|left; rewrite Hf; exact HtB].
      * rewrite HfilesA. apply in_or_app. left. exact HtB.
Qed.

End Paste.
