(* Facts about the error judgement of Spec/CoreAllErr.v proved on the specification alone:
   the family of error classes; the chain is never empty. *)
From Coq Require Import NArith ZArith List Bool Lia.
From DS Require Import Base PyStr Values Expr TabParse IdentSpec CoreLang CoreFunc CoreErr CoreAll CoreAllErr.
Import ListNotations.

Section Facts.
Variable fo : FloatOps.
Variable sys : store fo.
Variable prog : program.
Variable inc sup : bool.

(* the documented family for the unified language: a bad name, a bad argument (REPEAT count, arity
   of a call, missing file), the iteration bound, an unknown function, a loop signal escaping a
   function, a circular import, the stack limit, or whatever class the expression evaluator reports *)
Definition uall_class (er : errcls) : Prop :=
  er = EUnacceptableVarName \/ er = EInvalidArguments \/ er = EExceededLimit \/
  er = EVarNonExistent \/ er = EStackReturnType \/ er = ECircular \/ er = EStackOverflow \/
  exists vars e, tokenize fo vars e = Err er.

Lemma eval_err_uclass : forall f vs e er, eval_err fo sys f vs e er -> uall_class er.
Proof. intros f vs e er H. do 7 right. exists (visible fo sys f vs), e. exact H. Qed.

Lemma later_fails_uclass : forall cf vs n rest er fr, later_fails fo sys cf vs n rest er fr -> uall_class er.
Proof. intros cf vs n rest er fr H. induction H; [eapply eval_err_uclass; eassumption|assumption]. Qed.

Theorem ufails_class_all :
  (forall d pile cf n F f vs stm er ch ev, fails fo sys prog inc sup d pile cf n F f vs stm er ch ev -> uall_class er /\ ch <> []) /\
  (forall d pile cf n F f vs p er ch ev, fails_list fo sys prog inc sup d pile cf n F f vs p er ch ev -> uall_class er /\ ch <> []) /\
  (forall d pile cf first n F b vs arms els er ch ev,
     fails_arms fo sys prog inc sup d pile cf first n F b vs arms els er ch ev -> uall_class er /\ ch <> []) /\
  (forall d pile cf n F f c e body k vs er ch ev,
     fails_repeat fo sys prog inc sup d pile cf n F f c e body k vs er ch ev -> uall_class er /\ ch <> []) /\
  (forall d pile cf n F c e body k vs er ch ev,
     fails_while fo sys prog inc sup d pile cf n F c e body k vs er ch ev -> uall_class er /\ ch <> []).
Proof.
  apply (fails_all_mind fo sys prog inc sup
           (fun d pile cf n F f vs stm er ch ev => uall_class er /\ ch <> [])
           (fun d pile cf n F f vs p er ch ev => uall_class er /\ ch <> [])
           (fun d pile cf first n F b vs arms els er ch ev => uall_class er /\ ch <> [])
           (fun d pile cf n F f c e body k vs er ch ev => uall_class er /\ ch <> [])
           (fun d pile cf n F c e body k vs er ch ev => uall_class er /\ ch <> []));
    intros;
    try (split; [eapply eval_err_uclass; eassumption|discriminate]);
    try assumption;
    try (split; [|discriminate]);
    try (match goal with H : uall_class _ /\ _ |- uall_class _ => exact (proj1 H) end);
    try (unfold uall_class; tauto).
  - match goal with H : run_args_err _ _ _ _ _ _ |- _ => destruct H as [_ H]; eapply eval_err_uclass; exact H end.
  - eapply later_fails_uclass; eassumption.
Qed.

End Facts.

Lemma ufails_list_class : forall fo sys prog inc sup d pile cf n F f vs p er ch ev,
  fails_list fo sys prog inc sup d pile cf n F f vs p er ch ev -> uall_class fo er /\ ch <> [].
Proof. intros fo sys prog inc sup. exact (proj1 (proj2 (ufails_class_all fo sys prog inc sup))). Qed.

Lemma uall_class_meaning : forall fo er,
  uall_class fo er <->
  (er = EUnacceptableVarName \/ er = EInvalidArguments \/ er = EExceededLimit \/
   er = EVarNonExistent \/ er = EStackReturnType \/ er = ECircular \/ er = EStackOverflow \/
   exists vars e, tokenize fo vars e = Err er).
Proof. intros. reflexivity. Qed.

