(* C13 (graphs): the text of the files of an import graph -- what the tab parser makes of it, how
   its lines are split, which file a `START name` resolves to, what the file system returns. *)
From Coq Require Import NArith ZArith List Bool Lia.
From DS Require Import Base Unicode PyStr Values Expr TabParse Tables Constants Interp.
From DS Require Import ScopeProofs PipelineProofs TabProofs BlockTree TabRoundTrip FlatStrings MoreProofs
                       ResolveSpec StartLaws StartLines ImportGraph.
Import ListNotations.

(* ------------------------------------------------------------------ characters of a name *)
Lemma char_in_true_In : forall c s, char_in c s = true -> In c s.
Proof.
  intros c s. induction s as [|x r IH]; cbn [char_in]; intro H; [discriminate|].
  apply orb_true_iff in H. destruct H as [H|H]; [left; apply N.eqb_eq in H; symmetry; exact H|right; apply IH; exact H].
Qed.

Definition char_fine (c : N) : bool :=
  negb (isspace_c c) && negb (c =? 10)%N && negb (c =? 46)%N && negb (c =? 47)%N && negb (c =? 0)%N
  && negb (c =? 34)%N && negb (c =? 36)%N.

Lemma acceptable_fine : forallb char_fine acceptable_vars = true.
Proof. vm_compute. reflexivity. Qed.

Lemma name_char_fine : forall c, char_in c acceptable_vars = true -> char_fine c = true.
Proof.
  intros c H. apply char_in_true_In in H.
  pose proof acceptable_fine as Hall. rewrite forallb_forall in Hall. apply Hall. exact H.
Qed.

Lemma name_ok_chars : forall n, name_ok n = true -> n <> [] /\ forallb char_fine n = true.
Proof.
  intros n H. unfold name_ok in H. destruct n as [|c r]; [discriminate|]. split; [discriminate|].
  apply forallb_forall. intros x Hx. rewrite forallb_forall in H. apply name_char_fine. apply H. exact Hx.
Qed.

Lemma fine_forall : forall (P : N -> bool) n,
  (forall c, char_fine c = true -> P c = true) -> forallb char_fine n = true -> forallb P n = true.
Proof.
  intros P n HP H. apply forallb_forall. intros x Hx. rewrite forallb_forall in H. apply HP. apply H. exact Hx.
Qed.

Lemma char_fine_parts : forall c, char_fine c = true ->
  isspace_c c = false /\ c <> 10%N /\ c <> 46%N /\ c <> 47%N /\ c <> 0%N /\ c <> 34%N /\ c <> 36%N.
Proof.
  intros c H. unfold char_fine in H.
  repeat (apply andb_true_iff in H; destruct H as [H ?]).
  repeat match goal with X : negb _ = true |- _ => apply negb_true_iff in X end.
  repeat match goal with X : (_ =? _)%N = false |- _ => apply N.eqb_neq in X end.
  repeat split; assumption.
Qed.

Lemma fine_no_char : forall k n, (forall c, char_fine c = true -> c <> k) ->
  forallb char_fine n = true -> char_in k n = false.
Proof.
  intros k n Hk. induction n as [|x r IH]; cbn [forallb char_in]; intro H; [reflexivity|].
  apply andb_true_iff in H. destruct H as [Hx Hr]. rewrite (IH Hr), orb_false_r.
  apply N.eqb_neq. intro E. apply (Hk x Hx). symmetry. exact E.
Qed.

Lemma name_nows : forall n, name_ok n = true -> nows n.
Proof.
  intros n H. destruct (name_ok_chars n H) as [_ Hc]. unfold nows.
  apply (fine_forall (fun c => negb (isspace_c c)) n); [|exact Hc].
  intros c Hf. destruct (char_fine_parts c Hf) as [Hs _]. rewrite Hs. reflexivity.
Qed.

Lemma name_no_char : forall n k, name_ok n = true -> In k [10; 46; 47; 0; 34; 36]%N -> char_in k n = false.
Proof.
  intros n k H Hk. destruct (name_ok_chars n H) as [_ Hc]. apply fine_no_char; [|exact Hc].
  intros c Hf. destruct (char_fine_parts c Hf) as (_ & H1 & H2 & H3 & H4 & H5 & H6).
  cbn [In] in Hk. destruct Hk as [<-|[<-|[<-|[<-|[<-|[<-|[]]]]]]]; assumption.
Qed.

Lemma name_plain_comp : forall n, name_ok n = true -> plain_comp n.
Proof.
  intros n H. destruct (name_ok_chars n H) as [Hne _]. unfold plain_comp, dot, slash.
  split; [exact Hne|]. repeat split; apply name_no_char; try exact H; cbn [In]; tauto.
Qed.

Lemma name_strip : forall n, name_ok n = true -> strip n = n.
Proof. intros n H. symmetry. apply nows_strip. apply name_nows. exact H. Qed.

Lemma endswith_dot_false : forall n, name_ok n = true -> endswith [dot] n = false.
Proof.
  intros n H. unfold endswith. cbn [rev app].
  assert (Hd : char_in dot (rev n) = false).
  { pose proof (name_no_char n dot H) as Hn.
    assert (Hin : forall x, In x (rev n) -> x <> dot).
    { intros x Hx Hxd. apply in_rev in Hx. subst x.
      assert (Hc : char_in dot n = false) by (apply Hn; unfold dot; cbn [In]; tauto).
      clear -Hx Hc. induction n as [|y r IH]; [destruct Hx|]. cbn [char_in] in Hc.
      apply orb_false_iff in Hc. destruct Hc as [H1 H2]. destruct Hx as [->|Hx]; [rewrite N.eqb_refl in H1; discriminate|].
      apply IH; assumption. }
    clear -Hin. induction (rev n) as [|y r IH]; [reflexivity|]. cbn [char_in].
    rewrite IH by (intros x Hx; apply Hin; right; exact Hx).
    rewrite orb_false_r. apply N.eqb_neq. intro E. apply (Hin y); [left; reflexivity|symmetry; exact E]. }
  destruct (rev n) as [|y r]; [reflexivity|]. cbn [startswith]. cbn [char_in] in Hd.
  apply orb_false_iff in Hd. destruct Hd as [Hd _]. rewrite Hd. reflexivity.
Qed.

(* ------------------------------------------------------------------ the words *)
Lemma word_nows : forall v, nows (word v).
Proof. intros []; vm_compute; reflexivity. Qed.

Lemma w_STRING_nows : nows w_STRING.
Proof. vm_compute. reflexivity. Qed.

Lemma sp_ws : forallb isspace_c [space] = true.
Proof. vm_compute. reflexivity. Qed.

(* ------------------------------------------------------------------ one line *)
Lemma split_marker : forall n, name_ok n = true -> split_ws1 (marker_ln n) = [w_STRING; n].
Proof.
  intros n H. unfold marker_ln. apply split_ws1_arg.
  - exact w_STRING_nows.
  - discriminate.
  - exact sp_ws.
  - discriminate.
  - apply nows_first; [apply name_nows; exact H|apply (name_ok_chars n H)].
Qed.

Lemma split_edge : forall v m, name_ok m = true -> split_ws1 (edge_ln v m) = [word v; m].
Proof.
  intros v m H. unfold edge_ln. apply split_ws1_arg.
  - apply word_nows.
  - destruct v; discriminate.
  - exact sp_ws.
  - discriminate.
  - apply nows_first; [apply name_nows; exact H|apply (name_ok_chars m H)].
Qed.

Lemma marker_not_blank : forall n, is_blank (marker_ln n) = false.
Proof. intro n. unfold marker_ln. apply is_blank_word; [exact w_STRING_nows|discriminate]. Qed.

Lemma edge_not_blank : forall v m, is_blank (edge_ln v m) = false.
Proof. intros v m. unfold edge_ln. apply is_blank_word; [apply word_nows|destruct v; discriminate]. Qed.

Lemma marker_wf : forall n, wf_content (marker_ln n).
Proof. intro n. split; reflexivity. Qed.

Lemma edge_wf : forall v m, wf_content (edge_ln v m).
Proof. intros v m. destruct v; split; reflexivity. Qed.

Lemma char_in_app2 : forall c a b, char_in c (a ++ b) = char_in c a || char_in c b.
Proof.
  intros c a b. induction a as [|x a IH]; cbn [app char_in]; [reflexivity|]. rewrite IH, orb_assoc. reflexivity.
Qed.

Lemma marker_no_nl : forall n, name_ok n = true -> char_in 10%N (marker_ln n) = false.
Proof.
  intros n H. unfold marker_ln. rewrite !char_in_app2. rewrite (name_no_char n 10%N H) by (cbn [In]; tauto).
  reflexivity.
Qed.

Lemma edge_no_nl : forall v m, name_ok m = true -> char_in 10%N (edge_ln v m) = false.
Proof.
  intros v m H. unfold edge_ln. rewrite !char_in_app2. rewrite (name_no_char m 10%N H) by (cbn [In]; tauto).
  destruct v; reflexivity.
Qed.

(* ------------------------------------------------------------------ text -> lines *)
Lemma split_char_none : forall k s, char_in k s = false -> split_char k s = [s].
Proof.
  intros k. induction s as [|x r IH]; intro H; [reflexivity|].
  cbn [char_in] in H. apply orb_false_iff in H. destruct H as [Hx Hr]. cbn [split_char].
  rewrite N.eqb_sym in Hx. rewrite Hx, (IH Hr). reflexivity.
Qed.

Lemma split_char_app_sep : forall k a b, char_in k a = false -> split_char k (a ++ k :: b) = a :: split_char k b.
Proof.
  intros k. induction a as [|x a IH]; intros b H; cbn [app split_char].
  - rewrite N.eqb_refl. reflexivity.
  - cbn [char_in] in H. apply orb_false_iff in H. destruct H as [Hx Hr].
    rewrite N.eqb_sym in Hx. rewrite Hx, (IH b Hr). reflexivity.
Qed.

Lemma split_join_lines : forall k ls l, Forall (fun s => char_in k s = false) (l :: ls) ->
  split_char k (join [k] (l :: ls)) = l :: ls.
Proof.
  intros k. induction ls as [|l2 ls IH]; intros l H; inversion H as [|a b Hl Hls]; subst.
  - cbn [join]. apply split_char_none. exact Hl.
  - rewrite join_cons2. cbn [app]. rewrite split_char_app_sep by exact Hl. rewrite (IH l2 Hls). reflexivity.
Qed.

Definition imports_ok (imps : imports) : Prop := Forall (fun e => name_ok (snd e) = true) imps.

Lemma file_lines_of_text : forall n imps, name_ok n = true -> imports_ok imps ->
  lines_of_text (file_text n imps) = file_lines n imps.
Proof.
  intros n imps Hn Hi. unfold lines_of_text, file_text, file_lines. apply split_join_lines.
  constructor; [apply marker_no_nl; exact Hn|].
  apply Forall_forall. intros s Hs. apply in_map_iff in Hs. destruct Hs as ([v m] & <- & Hin).
  cbn [fst snd]. apply edge_no_nl. unfold imports_ok in Hi. rewrite Forall_forall in Hi. apply (Hi (v, m) Hin).
Qed.

(* ------------------------------------------------------------------ lines -> commands *)
Definition leaf (c : str) : node := Stmt c [].

Fixpoint flat_from (k : Z) (ls : list str) : list item :=
  match ls with [] => [] | c :: r => Ln c k :: flat_from (k + 1)%Z r end.

Lemma render_leaves : forall u ls, render u (map leaf ls) = ls.
Proof.
  intros u ls. unfold render. induction ls as [|c r IH]; [reflexivity|].
  cbn [map flat_map leaf render_node app]. cbn [map]. rewrite IH. reflexivity.
Qed.

Lemma expected_leaves : forall ls k, expected_forest (map leaf ls) k = flat_from k ls.
Proof.
  induction ls as [|c r IH]; intro k; [reflexivity|].
  cbn [map expected_forest leaf expected_node node_size list_sum app flat_from].
  change (Z.of_nat 1) with 1%Z. rewrite IH. reflexivity.
Qed.

Lemma parse_flat_lines : forall ls, Forall wf_content ls ->
  parse_document (convert_to ls) = TOk (flat_from 1%Z ls).
Proof.
  intros ls H.
  pose proof (parse_render_round_trip [tb] (map leaf ls)) as Hp.
  rewrite render_leaves in Hp. rewrite Hp.
  - unfold expected. cbn [fst]. rewrite expected_leaves. reflexivity.
  - split; [right; reflexivity|reflexivity].
  - unfold wf_forest. apply Forall_forall. intros nd Hnd. apply in_map_iff in Hnd.
    destruct Hnd as (c & <- & Hc). constructor; [|constructor].
    rewrite Forall_forall in H. apply H. exact Hc.
Qed.

Lemma flat_from_edges : forall imps k,
  flat_from k (map (fun e : variant * name => edge_ln (fst e) (snd e)) imps) = edge_items imps k.
Proof.
  induction imps as [|[v m] r IH]; intro k; [reflexivity|].
  cbn [map flat_from edge_items fst snd]. rewrite IH. reflexivity.
Qed.

Theorem prepare_file_text : forall n imps, name_ok n = true -> imports_ok imps ->
  prepare_text (file_text n imps) = TOk (node_items n imps).
Proof.
  intros n imps Hn Hi. unfold prepare_text. rewrite (file_lines_of_text n imps Hn Hi).
  rewrite parse_flat_lines.
  - unfold file_lines. cbn [flat_from]. rewrite flat_from_edges. reflexivity.
  - unfold file_lines. constructor; [apply marker_wf|].
    apply Forall_forall. intros s Hs. apply in_map_iff in Hs. destruct Hs as ([v m] & <- & _). apply edge_wf.
Qed.

(* ------------------------------------------------------------------ the file system *)
Lemma file_of_inj : forall dir n m, file_of dir n = file_of dir m -> n = m.
Proof.
  intros dir n m H. unfold file_of in H. apply app_inv_head in H. injection H as H.
  apply app_inv_tail in H. exact H.
Qed.

Lemma graph_fs_file : forall dir g n,
  graph_fs dir g (file_of dir n) = option_map (file_text n) (lookup n g).
Proof.
  intros dir g n. induction g as [|[n' imps] r IH]; [reflexivity|].
  cbn [graph_fs lookup].
  destruct (str_eqb n n') eqn:E.
  - apply str_eqb_eq in E. subst n'. rewrite path_eqb_refl. reflexivity.
  - destruct (path_eqb (file_of dir n) (file_of dir n')) eqn:Ep; [|exact IH].
    apply list_eqb_str_eq in Ep. apply file_of_inj in Ep. subst n'.
    rewrite str_eqb_refl in E. discriminate.
Qed.

Lemma graph_ok_lookup : forall g n imps, graph_ok g -> lookup n g = Some imps -> name_ok n = true /\ imports_ok imps.
Proof.
  intros g n imps H. induction H as [|[n' i'] r [H1 H2] _ IH]; cbn [lookup]; [discriminate|].
  destruct (str_eqb n n') eqn:E.
  - intro Hl. injection Hl as <-. apply str_eqb_eq in E. subst n'. split; assumption.
  - exact IH.
Qed.

(* ------------------------------------------------------------------ resolution *)
Lemma resolve_name : forall dir n m, name_ok m = true ->
  resolve_start (file_of dir n) m = Ok (file_of dir m).
Proof. intros dir n m H. unfold file_of. apply resolve_simple. apply name_plain_comp. exact H. Qed.

(* ------------------------------------------------------------------ the import line is a START line *)
Lemma word_find : forall v, find_command palette (word v) None = Some ([83;116;97;114;116]%N, Simple start_cls).
Proof. intros []; vm_compute; reflexivity. Qed.

Lemma edge_start_line : forall cx v m, name_ok m = true -> c_file cx <> None ->
  start_line cx (edge_ln v m) (word v) m [83;116;97;114;116]%N start_cls.
Proof.
  intros cx v m H Hf. constructor.
  - apply split_edge. exact H.
  - apply word_find.
  - reflexivity.
  - destruct v; exact I.
  - apply (name_ok_chars m H).
  - rewrite (name_strip m H). apply endswith_dot_false. exact H.
  - exact Hf.
Qed.
